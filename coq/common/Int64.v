(* Go's int on the supported platforms: 64-bit two's complement.  The translator (tools/go2coq)
   writes the wrap into every arithmetic operation it translates. *)
From Coq Require Import ZArith Lia.
Open Scope Z_scope.

Definition min_int : Z := - 2 ^ 63.
Definition max_int : Z := 2 ^ 63 - 1.
Definition in_int (z : Z) : Prop := min_int <= z <= max_int.
Definition in_intb (z : Z) : bool := (min_int <=? z) && (z <=? max_int).

(* two's complement wrap to [-2^63, 2^63) *)
Definition wrap64 (z : Z) : Z := (z + 2 ^ 63) mod 2 ^ 64 - 2 ^ 63.

(* Result of an int kernel.  RBig z: the math/big fallback computed exactly z (trusted: math/big is
   exact).  RFltDiv l r: float64(l)/float64(r).  RUnsupported/RFallthrough never occur in a
   successfully translated function that returns on every path. *)
Inductive res :=
| RInt (z : Z)
| RBig (z : Z)
| RFltDiv (l r : Z)
| RZeroDiv
| RZeroMod
| RFallthrough
| RUnsupported.

Lemma in_intb_spec z : in_intb z = true <-> in_int z.
Proof. unfold in_intb, in_int. rewrite Bool.andb_true_iff, !Z.leb_le. tauto. Qed.
