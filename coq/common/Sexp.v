(* Transport format between the Go harness and the extracted models.
   A line is a list of character codes (N); all parsing/printing is Gallina so that the
   OCaml glue (ml/driver.ml) only moves bytes.  No proofs in this file. *)
From Coq Require Import List NArith ZArith Bool.
Import ListNotations.
Open Scope N_scope.

Inductive sexp := Atom (s : list N) | SList (l : list sexp).

Definition is_space (c : N) : bool := (c =? 32) || (c =? 9) || (c =? 10) || (c =? 13).
Definition lparen : N := 40.
Definition rparen : N := 41.

(* tokens *)
Inductive tok := TL | TR | TA (s : list N).

Definition flush_atom (cur : list N) : list tok :=
  match cur with [] => [] | _ => [TA (rev cur)] end.
(* the pending atom is reversed only when it ends (linear in the line length once extracted) *)
Fixpoint tokens_aux (cur : list N) (l : list N) : list tok :=
  match l with
  | [] => flush_atom cur
  | c :: r =>
      if is_space c then flush_atom cur ++ tokens_aux [] r
      else if c =? lparen then flush_atom cur ++ TL :: tokens_aux [] r
      else if c =? rparen then flush_atom cur ++ TR :: tokens_aux [] r
      else tokens_aux (c :: cur) r
  end.
Definition tokens (l : list N) : list tok := tokens_aux [] l.

(* stack-based parser: stack of partially built lists (reversed) *)
Fixpoint parse_toks (ts : list tok) (stack : list (list sexp)) : option sexp :=
  match ts with
  | [] => match stack with [[x]] => Some x | _ => None end
  | TA s :: r => match stack with
                 | top :: st => parse_toks r ((Atom s :: top) :: st)
                 | [] => None end
  | TL :: r => parse_toks r ([] :: stack)
  | TR :: r => match stack with
               | top :: nxt :: st => parse_toks r ((SList (rev top) :: nxt) :: st)
               | _ => None end
  end.
Definition parse (l : list N) : option sexp := parse_toks (tokens l) [[]].

(* printing *)
Fixpoint print (e : sexp) : list N :=
  match e with
  | Atom s => s
  | SList l =>
      lparen :: (fix go (l : list sexp) : list N :=
                   match l with
                   | [] => [rparen]
                   | [x] => print x ++ [rparen]
                   | x :: r => print x ++ 32 :: go r
                   end) l
  end.

(* decimal integers *)
Definition digit_val (c : N) : option N := if (48 <=? c) && (c <=? 57) then Some (c - 48) else None.
Fixpoint dec_aux (l : list N) (acc : N) : option N :=
  match l with
  | [] => Some acc
  | c :: r => match digit_val c with Some d => dec_aux r (acc * 10 + d) | None => None end
  end.
Definition parse_N (l : list N) : option N := match l with [] => None | _ => dec_aux l 0 end.
Definition is_minus (l : list N) : bool := match l with c :: _ => c =? 45 | [] => false end.
Definition parse_Z (l : list N) : option Z :=
  if is_minus l then option_map (fun n => Z.opp (Z.of_N n)) (parse_N (tl l))
  else option_map Z.of_N (parse_N l).

Fixpoint print_N_aux (fuel : nat) (n : N) (acc : list N) : list N :=
  match fuel with
  | O => acc
  | S f => let d := n mod 10 in let q := n / 10 in
           if q =? 0 then (48 + d) :: acc else print_N_aux f q ((48 + d) :: acc)
  end.
Definition print_N (n : N) : list N := print_N_aux (S (N.to_nat (N.size n))) n [].
Definition print_Z (z : Z) : list N :=
  match z with
  | Zneg p => 45 :: print_N (Npos p)
  | _ => print_N (Z.to_N z)
  end.

(* hex byte strings *)
Definition hex_val (c : N) : option N :=
  if (48 <=? c) && (c <=? 57) then Some (c - 48)
  else if (97 <=? c) && (c <=? 102) then Some (c - 87)
  else None.
Fixpoint parse_hex (l : list N) : option (list N) :=
  match l with
  | [] => Some []
  | a :: b :: r =>
      match hex_val a, hex_val b, parse_hex r with
      | Some x, Some y, Some t => Some (x * 16 + y :: t)
      | _, _, _ => None
      end
  | _ => None
  end.
Definition hex_digit (n : N) : N := if n <? 10 then 48 + n else 87 + n.
Fixpoint print_hex (l : list N) : list N :=
  match l with
  | [] => []
  | b :: r => hex_digit (b / 16) :: hex_digit (b mod 16) :: print_hex r
  end.
(* "-" stands for the empty hex string so that atoms are never empty *)
Definition parse_hexs (l : list N) : option (list N) := match l with [45] => Some [] | _ => parse_hex l end.
Definition print_hexs (l : list N) : list N := match l with [] => [45] | _ => print_hex l end.

(* atoms from Coq strings, for readable model code *)
From Coq Require Import String Ascii.
Fixpoint codes (s : string) : list N :=
  match s with EmptyString => [] | String a r => N_of_ascii a :: codes r end.
Definition A (s : string) : sexp := Atom (codes s).
Fixpoint list_N_eqb (a b : list N) : bool :=
  match a, b with
  | [], [] => true
  | x :: a', y :: b' => (x =? y) && list_N_eqb a' b'
  | _, _ => false
  end.
Definition atom_is (s : string) (e : sexp) : bool :=
  match e with Atom a => list_N_eqb a (codes s) | _ => false end.
