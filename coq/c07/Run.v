(* C07 correspondence: one harness line (one program, all cancellation points) -> verdict.

     (c07 <prog-hex> <input-hex> <npolls> (trace (<idx> <res>)...) (runs (<k> (<polls> <res>)...)...))
     <res> = (v <hex>) | (e <hex>) | ctx | done | panic

   The abstract machine of Cancel.v is instantiated with the implementation's own uncancelled trace:
   state = (index of the next instruction, remaining trace); [step] answers what the implementation's
   instruction with that index returned (a value, an error value, exhaustion) or Continue.  For every
   run the model computes the Iter history under [cancel_at k] and compares poll counts and results.
   Verdict: ok | (bad (k <k>) (expected (<polls> <res>)...)).
   (spec <line>): the same judgement by a direct list computation that does not use Cancel.next. *)
From Coq Require Import List NArith Arith Bool String.
From Verif Require Import common.Sexp c07.Cancel c07.OneShot.
From Verif Require c01vm.Run c01vm.VM c07.VMLink.
From Verif Require Import c01vm.Syntax c01vm.Code c01vm.Compile c01vm.Natives.
Import ListNotations.

Inductive ores := OV (l : list N) | OE (l : list N) | OCtx | ODone | OPanic.

Definition dec_res (e : sexp) : option ores :=
  match e with
  | SList [t; Atom h] => if atom_is "v" t then Some (OV h) else if atom_is "e" t then Some (OE h) else None
  | Atom _ => if atom_is "ctx" e then Some OCtx else if atom_is "done" e then Some ODone
              else if atom_is "panic" e then Some OPanic else None
  | _ => None
  end.

Definition enc_res (r : ores) : sexp :=
  match r with
  | OV h => SList [A "v"; Atom h] | OE h => SList [A "e"; Atom h]
  | OCtx => A "ctx" | ODone => A "done" | OPanic => A "panic"
  end.

Definition ores_eqb (a b : ores) : bool :=
  match a, b with
  | OV x, OV y => list_N_eqb x y | OE x, OE y => list_N_eqb x y
  | OCtx, OCtx => true | ODone, ODone => true | OPanic, OPanic => true
  | _, _ => false
  end.

(* (idx res) and (polls res) pairs *)
Definition dec_pair (e : sexp) : option (N * ores) :=
  match e with
  | SList [Atom i; r] => match parse_N i, dec_res r with Some i, Some r => Some (i, r) | _, _ => None end
  | _ => None
  end.

Fixpoint dec_pairs (l : list sexp) : option (list (N * ores)) :=
  match l with
  | [] => Some []
  | e :: r => match dec_pair e, dec_pairs r with Some p, Some ps => Some (p :: ps) | _, _ => None end
  end.

(* ---- the machine instantiated with a trace ------------------------------------------------- *)
Definition tstate := (N * list (N * ores))%type.

Definition tstep (s : tstate) : outcome tstate (list N) (list N) :=
  let (i, tr) := s in
  match tr with
  | (j, ev) :: r =>
      if N.eqb i j then
        match ev with
        | OV v => Emit v (N.succ i, r)
        | OE e => EmitErr e (N.succ i, r)
        | _ => Exhausted
        end
      else Continue (N.succ i, tr)
  | [] => Continue (N.succ i, [])
  end.

Definition of_result (r : result (list N) (list N)) : ores :=
  match r with RVal v => OV v | RErr e => OE e | RCtx => OCtx | RDone => ODone end.

Definition predict (tr : list (N * ores)) (k ncalls : nat) : option (list (N * ores)) :=
  match calls tstep (cancel_at k) (S (S k)) ncalls (mkCfg 0 0 (Running (0%N, tr))) with
  | Some h => Some (map (fun rc => (N.of_nat (polls (snd rc)), of_result (fst rc))) h)
  | None => None
  end.

(* ---- independent statement of the property on lists ---------------------------------------- *)
(* events before poll k in order; then, unless exhaustion came first, ctx at poll k; then done forever *)
Fixpoint spec_predict (tr : list (N * ores)) (k : N) (ncalls : nat) : list (N * ores) :=
  match ncalls with
  | O => []
  | S m =>
      match tr with
      | (j, ev) :: r =>
          if N.ltb j k then
            match ev with
            | OV _ | OE _ => (N.succ j, ev) :: spec_predict r k m
            | _ => repeat (N.succ j, ODone) ncalls
            end
          else (N.succ k, OCtx) :: repeat (N.succ k, ODone) m
      | [] => (N.succ k, OCtx) :: repeat (N.succ k, ODone) m
      end
  end.

Fixpoint obs_eqb (a b : list (N * ores)) : bool :=
  match a, b with
  | [], [] => true
  | (p, r) :: a', (q, s) :: b' => N.eqb p q && ores_eqb r s && obs_eqb a' b'
  | _, _ => false
  end.

Definition enc_obs (l : list (N * ores)) : list sexp :=
  map (fun pr => SList [Atom (print_N (fst pr)); enc_res (snd pr)]) l.

(* one run: (k obs...) *)
Definition judge_run (spec : bool) (tr : list (N * ores)) (npolls : N) (e : sexp) : option sexp :=
  match e with
  | SList (Atom ka :: obs) =>
      match parse_N ka, dec_pairs obs with
      | Some k, Some o =>
          (* k = npolls on a finite program means "never cancelled": the oracle bit is never asked *)
          let expected :=
            if spec then Some (spec_predict tr k (List.length o))
            else predict tr (N.to_nat k) (List.length o) in
          match expected with
          | Some x => if obs_eqb x o then None
                      else Some (SList [A "bad"; SList [A "k"; Atom ka]; SList (A "expected" :: enc_obs x)])
          | None => Some (SList [A "bad"; SList [A "k"; Atom ka]; A "fuel"])
          end
      | _, _ => Some (A "undecodable-run")
      end
  | _ => Some (A "undecodable-run")
  end.

Fixpoint judge_runs (spec : bool) (tr : list (N * ores)) (npolls : N) (runs : list sexp) : sexp :=
  match runs with
  | [] => A "ok"
  | r :: rest => match judge_run spec tr npolls r with Some bad => bad | None => judge_runs spec tr npolls rest end
  end.

(* the trace of a finite program ends with its done event; a cancellation point beyond it is never
   reached.  For that case the spec needs k > every index: the harness only produces k <= npolls, and
   for k = npolls every event index is < k. *)
Definition run_sexp (spec : bool) (e : sexp) : sexp :=
  match e with
  | SList [t; _; _; Atom np; SList (ttr :: tr); SList (rt :: runs)] =>
      if atom_is "c07" t && atom_is "trace" ttr && atom_is "runs" rt then
        match parse_N np, dec_pairs tr with
        | Some np, Some tr => judge_runs spec tr np runs
        | _, _ => A "undecodable"
        end
      else A "undecodable"
  | _ => A "undecodable"
  end.

(* ---- c07vm: the abstract machine instantiated with the CONCRETE step of coq/c01vm ------------------ *)
(*  (c07vm <ast> <input> (pcs (<pc> <bt>)...) (runs (<k> (<polls> <res>)...)...))
      <res> = (v <value>) | e | ctx | done | panic ;  k = none for the uncancelled run
    The program (fragment F) is compiled by c01vm.Compile, run by VMLink.vm_fetch (c01vm's step with the
    natives instance c01vm.Natives.cnat) under Cancel.calls:
      pcs  = pc and backtrack flag of every instruction fetch of the implementation's uncancelled run
             (from the interpreter's own debug trace) = those of the model;
      runs = for every cancellation poll k the (poll count, result) sequence of the implementation
             = Cancel.calls vm_fetch (cancel_at k), up to the first error value (c01vm's convention). *)
Definition vfetch (c : list instr) := VMLink.vm_fetch cnat c.

Fixpoint fetch_pcs (c : list instr) (fuel : nat) (s : VM.state) : list (nat * bool) :=
  match fuel with
  | O => []
  | S f =>
      let here := match s with VM.Run pc bt _ _ => [(pc, bt)] | VM.Brk _ _ _ _ => [] end in
      match vfetch c s with
      | Continue s' => here ++ fetch_pcs c f s'
      | Emit _ s' => here ++ fetch_pcs c f s'
      | _ => here
      end
  end.

Definition natS (n : nat) : sexp := Atom (print_N (N.of_nat n)).
Definition enc_vres (r : result jv (option VM.verr)) : sexp :=
  match r with
  | RVal v => SList [A "v"; c01vm.Run.enc_val v]
  | RErr _ => A "e" | RCtx => A "ctx" | RDone => A "done"
  end.
Definition is_rerr (r : result jv (option VM.verr)) : bool := match r with RErr _ => true | _ => false end.

(* keep the history up to and including the first error value *)
Fixpoint upto_err (h : list (result jv (option VM.verr) * cfg VM.state)) : list sexp :=
  match h with
  | [] => []
  | (r, c) :: t => SList [natS (polls c); enc_vres r] :: (if is_rerr r then [] else upto_err t)
  end.

Definition judge_vm_run (c : list instr) (v : jv) (e : sexp) : option sexp :=
  match e with
  | SList (ka :: obs) =>
      let done := match ka with Atom a => match parse_N a with Some k => Some (cancel_at (N.to_nat k), S (S (N.to_nat k))) | None => None end | _ => None end in
      let '(oracle, fuel) := match done with Some x => x | None => (never, (1000 * 1000)%nat) end in
      match calls (vfetch c) oracle fuel (List.length obs) (mkCfg 0 0 (Running (VM.init v))) with
      | Some h => let x := upto_err h in
                  if c01vm.Run.sexp_eqb (SList x) (SList obs) then None
                  else Some (SList [A "bad"; SList [A "k"; ka]; SList (A "expected" :: x)])
      | None => Some (SList [A "bad"; SList [A "k"; ka]; A "fuel"])
      end
  | _ => Some (A "undecodable-run")
  end.

Fixpoint judge_vm_runs (c : list instr) (v : jv) (runs : list sexp) : sexp :=
  match runs with
  | [] => A "ok"
  | r :: rest => match judge_vm_run c v r with Some bad => bad | None => judge_vm_runs c v rest end
  end.

Definition judge_c07vm (ast inp : sexp) (pcs runs : list sexp) : sexp :=
  match c01vm.Run.dec_q ast, c01vm.Run.dec_val inp with
  | Some q, Some v =>
      match compile q with
      | Some c =>
          let mine := map (fun pb : nat * bool => SList [natS (fst pb); (if snd pb then A "1" else A "0")]) (fetch_pcs c (1000 * 1000)%nat (VM.init v)) in
          if negb (c01vm.Run.sexp_eqb (SList mine) (SList pcs)) then
            SList [A "bad"; A "pc-sequence"; natS (List.length mine)]
          else judge_vm_runs c v runs
      | None => A "notinfragment"
      end
  | _, _ => A "undecodable"
  end.

(* ---- one-shot iterators (c07/OneShot.v): wrong variable counts, compile errors through Query.Run --------------------
     (oneshot code (vars <hexname>...) <nvalues> <k|none> (obs (<polls> <r>)...))     Code.RunWithContext
     (oneshot query <hex compile error> <k|none> (obs (<polls> <r>)...))              Query.RunWithContext
     <r> = toomany | (expected <hexname>) | (cerr <hexmsg>) | ctx | done | other
   The model computes OneShot.code_run / query_run and then the Iter history under cancel_at k (or never) for as many
   calls as were observed: poll counts and results must be equal.  The machine itself is only reached in the contrast
   case "right count, k = 0" (ctx.Err() at once, whatever the step function). *)
Inductive os_err := OsTooMany | OsExpected (n : list N) | OsCErr (m : list N).
Definition os_step (s : unit) : outcome unit (list N) os_err := Exhausted.

Definition dec_os_res (e : sexp) : option (option (result (list N) os_err)) :=     (* Some None = "other" *)
  match e with
  | SList [t; Atom h] =>
      match parse_hexs h with
      | Some b => if atom_is "expected" t then Some (Some (RErr (OsExpected b)))
                  else if atom_is "cerr" t then Some (Some (RErr (OsCErr b))) else None
      | None => None
      end
  | Atom _ => if atom_is "toomany" e then Some (Some (RErr OsTooMany)) else if atom_is "ctx" e then Some (Some RCtx)
              else if atom_is "done" e then Some (Some RDone) else if atom_is "other" e then Some None else None
  | _ => None
  end.
Definition os_err_eqb (a b : os_err) : bool :=
  match a, b with
  | OsTooMany, OsTooMany => true
  | OsExpected x, OsExpected y => list_N_eqb x y
  | OsCErr x, OsCErr y => list_N_eqb x y
  | _, _ => false
  end.
Definition os_res_eqb (a : result (list N) os_err) (b : option (result (list N) os_err)) : bool :=
  match a, b with
  | RErr x, Some (RErr y) => os_err_eqb x y
  | RCtx, Some RCtx => true
  | RDone, Some RDone => true
  | _, _ => false
  end.
Fixpoint dec_os_obs (l : list sexp) : option (list (N * option (result (list N) os_err))) :=
  match l with
  | [] => Some []
  | SList [Atom p; r] :: t =>
      match parse_N p, dec_os_res r, dec_os_obs t with Some p, Some r, Some t => Some ((p, r) :: t) | _, _, _ => None end
  | _ => None
  end.
Fixpoint dec_hex_atoms (l : list sexp) : option (list (list N)) :=
  match l with
  | [] => Some []
  | Atom a :: t => match parse_hexs a, dec_hex_atoms t with Some b, Some t => Some (b :: t) | _, _ => None end
  | _ => None
  end.
Definition enc_os_res (r : result (list N) os_err) : sexp :=
  match r with
  | RErr OsTooMany => A "toomany" | RErr (OsExpected n) => SList [A "expected"; Atom (print_hexs n)]
  | RErr (OsCErr m) => SList [A "cerr"; Atom (print_hexs m)] | RCtx => A "ctx" | RDone => A "done" | RVal _ => A "value"
  end.

Definition judge_os (it : option (iter unit os_err)) (k : sexp) (obs : list sexp) : sexp :=
  match it, dec_os_obs obs with
  | Some it, Some obs =>
      let done := if atom_is "none" k then Some never else option_map (fun k => cancel_at (N.to_nat k)) (match k with Atom a => parse_N a | _ => None end) in
      match done with
      | Some done =>
          match iter_calls os_step done 3 (List.length obs) it with
          | Some h =>
              let exp := map (fun rc => (N.of_nat (iter_polls (snd rc)), fst rc)) h in
              if (fix eq (a : list (N * result (list N) os_err)) (b : list (N * option (result (list N) os_err))) : bool :=
                    match a, b with
                    | [], [] => true
                    | (p, r) :: a', (q, o) :: b' => N.eqb p q && os_res_eqb r o && eq a' b'
                    | _, _ => false
                    end) exp obs
              then A "ok"
              else SList [A "bad"; SList (map (fun pr => SList [Atom (print_N (fst pr)); enc_os_res (snd pr)]) exp)]
          | None => A "model-out-of-fuel"
          end
      | None => A "undecodable"
      end
  | None, _ => SList [A "bad"; A "model-panic"]
  | _, None => A "undecodable"
  end.

Definition judge_oneshot (rest : list sexp) : sexp :=
  match rest with
  | [kind; SList (tv :: vars); Atom nv; k; SList (to :: obs)] =>
      if atom_is "code" kind && atom_is "vars" tv && atom_is "obs" to then
        match dec_hex_atoms vars, parse_N nv with
        | Some vars, Some nv => judge_os (code_run OsTooMany OsExpected vars (N.to_nat nv) tt) k obs
        | _, _ => A "undecodable"
        end
      else A "undecodable"
  | [kind; Atom ce; k; SList (to :: obs)] =>
      if atom_is "query" kind && atom_is "obs" to then
        match parse_hexs ce with
        | Some m => judge_os (query_run (Name:=list N) OsTooMany OsExpected (CErr (OsCErr m))) k obs
        | None => A "undecodable"
        end
      else A "undecodable"
  | _ => A "undecodable"
  end.

Definition run_line_main (l : list N) : list N :=
  match parse l with
  | Some (SList [k; ast; inp; SList (tp :: pcs); SList (tr :: runs)]) =>
      if atom_is "c07vm" k && atom_is "pcs" tp && atom_is "runs" tr then print (judge_c07vm ast inp pcs runs)
      else codes "undecodable"
  | Some (SList [k; e]) =>
      if atom_is "spec" k then print (run_sexp true e)
      else if atom_is "both" k then
        (* model verdict and property verdict in one pass: ok | (both <model verdict> <spec verdict>) *)
        let m := run_sexp false e in let s := run_sexp true e in
        if atom_is "ok" m && atom_is "ok" s then print (A "ok") else print (SList [A "both"; m; s])
      else print (run_sexp false (SList [k; e]))
  | Some e => print (run_sexp false e)
  | None => codes "unparsable"
  end.

(* "(oneshot " lines go to the one-shot judge (also under the (both …) / (spec …) wrappers of checks/c07.py); the test is on
   the raw prefix so that the other (long) lines are parsed once *)
Fixpoint starts_with (p l : list N) : bool :=
  match p, l with
  | [], _ => true
  | a :: p', b :: l' => N.eqb a b && starts_with p' l'
  | _ :: _, [] => false
  end.
Definition run_line (l : list N) : list N :=
  if starts_with (codes "(oneshot ") l then
    match parse l with Some (SList (_ :: rest)) => print (judge_oneshot rest) | _ => codes "unparsable" end
  else if starts_with (codes "(both (oneshot ") l || starts_with (codes "(spec (oneshot ") l then
    match parse l with Some (SList [_; SList (_ :: rest)]) => print (judge_oneshot rest) | _ => codes "unparsable" end
  else run_line_main l.
