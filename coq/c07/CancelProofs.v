(* Proofs about c07/Cancel.v, for every machine ([St], [step] arbitrary). *)
From Coq Require Import List Arith Bool Lia.
From Verif Require Import c07.Cancel.
Import ListNotations.

Section Proofs.
Variables St V E : Type.
Variable step : St -> outcome St V E.
Notation cfg := (cfg St).
Notation result := (result V E).
Notation next := (next step).
Notation calls := (calls step).

(* ---- basic facts -------------------------------------------------------------------------- *)
Lemma next_mono : forall done f c x, next done f c = Some x -> forall f', f <= f' -> next done f' c = Some x.
Proof.
  induction f; intros c x H f' L; simpl in H; [discriminate|].
  destruct f'; [lia|]. simpl. destruct (st c); auto. destruct (done (polls c)); auto.
  destruct (step s); auto. apply IHf; auto. lia.
Qed.

(* every path through a Running call polls at least once; polls and instrs only grow *)
Lemma next_polls : forall done f c r c', next done f c = Some (r, c') ->
  polls c <= polls c' /\ (st c <> Parked -> polls c < polls c').
Proof.
  induction f; intros c r c' H; simpl in H; [discriminate|].
  destruct (st c) eqn:Es.
  - destruct (done (polls c)).
    + inversion H; subst; simpl. split; [lia|intros; lia].
    + destruct (step s).
      * apply IHf in H. simpl in H. destruct H. split; [lia|intros; lia].
      * inversion H; subst; simpl. split; [lia|intros; lia].
      * inversion H; subst; simpl. split; [lia|intros; lia].
      * inversion H; subst; simpl. split; [lia|intros; lia].
  - inversion H; subst. split; [lia|congruence].
Qed.

(* exactly one poll per executed instruction; the cancelling poll is the only one not followed by one *)
Lemma one_poll_per_instruction : forall done f c r c', next done f c = Some (r, c') ->
  polls c' - polls c = (instrs c' - instrs c) + (match r with RCtx => 1 | _ => 0 end)
  /\ instrs c <= instrs c'.
Proof.
  induction f; intros c r c' H; simpl in H; [discriminate|].
  destruct (st c) eqn:Es.
  - destruct (done (polls c)).
    + inversion H; subst; cbn [polls instrs]. lia.
    + destruct (step s).
      * pose proof (next_polls _ _ _ _ _ H) as (P & _). apply IHf in H. cbn [polls instrs] in *. destruct H as (H1 & H2). destruct r; lia.
      * inversion H; subst; cbn [polls instrs]. lia.
      * inversion H; subst; cbn [polls instrs]. lia.
      * inversion H; subst; cbn [polls instrs]. lia.
  - inversion H; subst. lia.
Qed.

Lemma next_parked : forall done f c, st c = Parked -> next done (S f) c = Some (RDone, c).
Proof. intros. simpl. rewrite H. reflexivity. Qed.

(* the result tells the state class: (nil,false) and ctx.Err() park the machine; a value or an error
   value leaves it Running, i.e. the iterator can be advanced again and goes on with [step] *)
Lemma next_result_state : forall done f c r c', next done f c = Some (r, c') ->
  match r with
  | RDone | RCtx => st c' = Parked
  | RVal _ | RErr _ => exists s', st c' = Running s'
  end.
Proof.
  induction f; intros c r c' H; simpl in H; [discriminate|].
  destruct (st c) eqn:Es.
  - destruct (done (polls c)).
    + inversion H; subst; reflexivity.
    + destruct (step s).
      * apply IHf in H. exact H.
      * inversion H; subst; simpl; eauto.
      * inversion H; subst; simpl; eauto.
      * inversion H; subst; reflexivity.
  - inversion H; subst. exact Es.
Qed.

Lemma calls_parked : forall done fuel n c h, st c = Parked -> calls done fuel n c = Some h -> h = repeat (RDone, c) n.
Proof.
  induction n; intros c h Hp H; simpl in H.
  - inversion H; reflexivity.
  - destruct fuel; [discriminate|]. rewrite next_parked in H by assumption.
    destruct (calls done (S fuel) n c) eqn:Ec; [|discriminate]. inversion H; subst. simpl. f_equal. apply IHn; auto.
Qed.

Lemma calls_parked_ex : forall done fuel n c, st c = Parked -> calls done (S fuel) n c = Some (repeat (RDone, c) n).
Proof.
  induction n; intros c Hp; [reflexivity|].
  change (calls done (S fuel) (S n) c) with
    (match next done (S fuel) c with None => None | Some (r, c') =>
       match calls done (S fuel) n c' with None => None | Some h => Some ((r, c') :: h) end end).
  rewrite next_parked by assumption. rewrite IHn by assumption. reflexivity.
Qed.

(* ---- one Next call under cancellation ----------------------------------------------------- *)
(* Either the call returned before poll k was asked, and then it is the uncancelled call (same
   result, same state: lock step); or it returned ctx.Err() at poll k exactly, having executed
   k - polls c instructions (one per earlier poll, none after), parked, and the uncancelled call
   would not have returned by then. *)
Lemma next_cases : forall done k, first_true done k -> forall f c r c',
  polls c <= k -> next done f c = Some (r, c') ->
  (next never f c = Some (r, c') /\ polls c' <= k)
  \/ (r = RCtx /\ c' = mkCfg (S k) (instrs c + (k - polls c)) Parked /\ st c <> Parked
      /\ forall f' r' c'', next never f' c = Some (r', c'') -> k < polls c'').
Proof.
  intros done k (Hk & Hlt). induction f; intros c r c' Hle H; simpl in H; [discriminate|].
  destruct (st c) eqn:Es.
  - destruct (Nat.eq_dec (polls c) k) as [Heq|Hne].
    + (* this is poll k *)
      right. rewrite Heq, Hk in H. inversion H; subst. rewrite Nat.sub_diag, Nat.add_0_r.
      split; [reflexivity|]. split; [reflexivity|]. split; [congruence|].
      intros f' r' c'' Hn. apply next_polls in Hn. destruct Hn as (_ & Hn). apply Hn. congruence.
    + assert (Hd : done (polls c) = false) by (apply Hlt; lia). rewrite Hd in H.
      destruct (step s) eqn:Est.
      * (* Continue *)
        apply IHf in H; [|simpl; lia]. destruct H as [(Hn & Hp)|(Hr & Hc & _ & Hu)].
        -- left. split; auto. simpl. rewrite Es, Est. exact Hn.
        -- right. split; [exact Hr|]. split; [|split; [congruence|]].
           ++ rewrite Hc. simpl. f_equal. lia.
           ++ intros f' r' c'' Hn. destruct f'; [discriminate|]. simpl in Hn. rewrite Es, Est in Hn.
              eapply Hu. exact Hn.
      * left. inversion H; subst. split; [simpl; rewrite Es, Est; reflexivity|simpl; lia].
      * left. inversion H; subst. split; [simpl; rewrite Es, Est; reflexivity|simpl; lia].
      * left. inversion H; subst. split; [simpl; rewrite Es, Est; reflexivity|simpl; lia].
  - left. inversion H; subst. split; [simpl; rewrite Es; reflexivity|exact Hle].
Qed.

(* existence: when the uncancelled call does not return before poll k (in particular when it never
   returns: an infinite loop of any shape), the cancelled call does return, with fuel k - polls c + 1 *)
Lemma cancel_hits : forall done k, first_true done k -> forall n c,
  st c <> Parked -> polls c + n = k ->
  (forall f r c', next never f c = Some (r, c') -> k < polls c') ->
  next done (S n) c = Some (RCtx, mkCfg (S k) (instrs c + n) Parked).
Proof.
  intros done k (Hk & Hlt). induction n; intros c Hs Hp Hu.
  - simpl. destruct (st c); [|congruence]. rewrite Nat.add_0_r in Hp. rewrite Hp, Hk. rewrite Nat.add_0_r. reflexivity.
  - assert (Hd : done (polls c) = false) by (apply Hlt; lia).
    change (next done (S (S n)) c) with
      (match st c with
       | Parked => Some (RDone, c)
       | Running s => if done (polls c) then Some (RCtx, mkCfg (S (polls c)) (instrs c) Parked)
           else match step s with
                | Continue s' => next done (S n) (mkCfg (S (polls c)) (S (instrs c)) (Running s'))
                | Emit v s' => Some (RVal v, mkCfg (S (polls c)) (S (instrs c)) (Running s'))
                | EmitErr e s' => Some (RErr e, mkCfg (S (polls c)) (S (instrs c)) (Running s'))
                | Exhausted => Some (RDone, mkCfg (S (polls c)) (S (instrs c)) Parked)
                end
       end).
    destruct (st c) eqn:Es; [|congruence]. rewrite Hd.
    destruct (step s) eqn:Est.
    + rewrite IHn.
      * simpl. f_equal. f_equal. f_equal. lia.
      * simpl. congruence.
      * simpl. lia.
      * intros f r c' Hn. apply (Hu (S f) r c'). simpl. rewrite Es, Est. exact Hn.
    + exfalso. specialize (Hu 1 (RVal v) _ ltac:(simpl; rewrite Es, Est; reflexivity)). simpl in Hu. lia.
    + exfalso. specialize (Hu 1 (RErr e) _ ltac:(simpl; rewrite Es, Est; reflexivity)). simpl in Hu. lia.
    + exfalso. specialize (Hu 1 RDone _ ltac:(simpl; rewrite Es, Est; reflexivity)). simpl in Hu. lia.
Qed.

(* ---- Iter histories ----------------------------------------------------------------------- *)
(* The whole property on histories: a cancelled history is a prefix [pre] of the uncancelled history
   (same results AND same machine states: lock step, all returned before poll k), followed by nothing
   (the consumer stopped, or the run was exhausted before poll k and pre ends in (nil,false)s), or by
   ctx.Err() returned at poll k exactly and then (nil,false) forever in the same parked state. *)
Fixpoint end_cfg (c : cfg) (pre : list (result * cfg)) : cfg :=
  match pre with [] => c | rc :: t => end_cfg (snd rc) t end.

Theorem cancel_history : forall done k, first_true done k -> forall n fuel c h,
  polls c <= k -> calls done fuel n c = Some h ->
  exists pre post, h = pre ++ post
    /\ calls never fuel (length pre) c = Some pre
    /\ Forall (fun rc => polls (snd rc) <= k) pre
    /\ (post = [] \/
        let c1 := end_cfg c pre in
        st c1 <> Parked
        /\ (forall f' r' c'', next never f' c1 = Some (r', c'') -> k < polls c'')
        /\ exists m, let P := mkCfg (S k) (instrs c1 + (k - polls c1)) Parked in
             post = (RCtx, P) :: repeat (RDone, P) m).
Proof.
  intros done k Hft. induction n; intros fuel c h Hle H; simpl in H.
  - inversion H; subst. exists [], []. repeat split; auto.
  - destruct (next done fuel c) as [(r, c')|] eqn:En; [|discriminate].
    destruct (calls done fuel n c') as [h'|] eqn:Ec; [|discriminate]. inversion H; subst.
    destruct (next_cases done k Hft fuel c r c' Hle En) as [(Hn & Hp)|(Hr & Hc & Hs & Hu)].
    + destruct (IHn fuel c' h' Hp Ec) as (pre & post & Hh & Hpre & Hall & Hpost).
      exists ((r, c') :: pre), post. split; [rewrite Hh; reflexivity|].
      split; [simpl; rewrite Hn, Hpre; reflexivity|]. split; [constructor; auto|].
      destruct Hpost as [Hpost|Hpost]; [left; exact Hpost|right; exact Hpost].
    + subst r c'. exists [], ((RCtx, mkCfg (S k) (instrs c + (k - polls c)) Parked) :: h').
      split; [reflexivity|]. split; [reflexivity|]. split; [constructor|].
      right. simpl. split; [exact Hs|]. split; [exact Hu|]. exists n.
      f_equal. eapply calls_parked; eauto.
Qed.

(* values before cancellation are exactly a prefix of the uncancelled run, results only *)
Corollary cancel_prefix_results : forall done k, first_true done k -> forall n fuel c h,
  polls c <= k -> calls done fuel n c = Some h ->
  exists pre m, calls never fuel (length pre) c = Some pre /\
    (map fst h = map fst pre \/ map fst h = map fst pre ++ RCtx :: repeat RDone m).
Proof.
  intros done k Hft n fuel c h Hle H.
  destruct (cancel_history done k Hft n fuel c h Hle H) as (pre & post & Hh & Hpre & _ & Hpost).
  destruct Hpost as [Hpost|(_ & _ & m & Hpost)].
  - exists pre, 0. split; auto. left. subst. rewrite app_nil_r. reflexivity.
  - exists pre, m. split; auto. right. subst h. rewrite map_app. f_equal. simpl in Hpost. rewrite Hpost. simpl. f_equal.
    clear. induction m; simpl; congruence.
Qed.

(* after Next has returned false it returns false forever (any context, no poll, state unchanged) *)
Theorem exhausted_absorbing : forall done f c c', next done f c = Some (RDone, c') ->
  st c' = Parked /\ forall done' fuel n, calls done' (S fuel) n c' = Some (repeat (RDone, c') n).
Proof.
  intros done f c c' H. pose proof (next_result_state _ _ _ _ _ H) as Hs. simpl in Hs.
  split; auto. intros. apply calls_parked_ex; auto.
Qed.

(* after the context error the iterator is exhausted, forever *)
Theorem cancel_terminal : forall done f c c', next done f c = Some (RCtx, c') ->
  st c' = Parked /\ forall done' fuel n, calls done' (S fuel) n c' = Some (repeat (RDone, c') n).
Proof.
  intros done f c c' H. pose proof (next_result_state _ _ _ _ _ H) as Hs. simpl in Hs.
  split; auto. intros. apply calls_parked_ex; auto.
Qed.

(* after an emitted error value the iterator is still live: Next is defined by [step] from the saved state *)
Theorem error_resumes : forall done f c e c', next done f c = Some (RErr e, c') ->
  exists s', st c' = Running s' /\
    forall done' fuel, next done' (S fuel) c' =
      if done' (polls c') then Some (RCtx, mkCfg (S (polls c')) (instrs c') Parked)
      else match step s' with
           | Continue s'' => next done' fuel (mkCfg (S (polls c')) (S (instrs c')) (Running s''))
           | Emit v s'' => Some (RVal v, mkCfg (S (polls c')) (S (instrs c')) (Running s''))
           | EmitErr e' s'' => Some (RErr e', mkCfg (S (polls c')) (S (instrs c')) (Running s''))
           | Exhausted => Some (RDone, mkCfg (S (polls c')) (S (instrs c')) Parked)
           end.
Proof.
  intros done f c e c' H. pose proof (next_result_state _ _ _ _ _ H) as (s' & Hs). exists s'. split; auto.
  intros. simpl. rewrite Hs. reflexivity.
Qed.

(* cancel_prompt, call level *)
Theorem cancel_prompt : forall done k, first_true done k -> forall c,
  st c <> Parked -> polls c <= k ->
  (* (a) whatever fuel: a call that reaches poll k returns ctx.Err() there, nothing executed after *)
  (forall f r c', next done f c = Some (r, c') -> k < polls c' ->
     r = RCtx /\ polls c' = S k /\ instrs c' = instrs c + (k - polls c) /\ st c' = Parked)
  (* (b) and it does return, even if the uncancelled call loops forever *)
  /\ ((forall f r c', next never f c = Some (r, c') -> k < polls c') ->
      next done (S (k - polls c)) c = Some (RCtx, mkCfg (S k) (instrs c + (k - polls c)) Parked)).
Proof.
  intros done k Hft c Hs Hle. split.
  - intros f r c' Hn Hk. destruct (next_cases done k Hft f c r c' Hle Hn) as [(_ & Hp)|(Hr & Hc & _ & _)]; [lia|].
    subst. simpl. auto.
  - intros Hu. apply cancel_hits; auto. lia.
Qed.

End Proofs.
Arguments end_cfg {St V E}.
