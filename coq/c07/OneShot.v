(* C07 — ONE-SHOT ITERATORS: what Code.RunWithContext and Query.RunWithContext return when they do not start the machine.

   compiler.go
     func (c *Code) RunWithContext(ctx context.Context, v any, values ...any) Iter {
       if len(values) > len(c.variables) { return NewIter(&tooManyVariableValuesError{}) }
       else if len(values) < len(c.variables) { return NewIter(&expectedVariableError{c.variables[len(values)]}) }
       return newEnv(ctx).execute(c, v, values...) }
   query.go
     func (e *Query) RunWithContext(ctx context.Context, v any) Iter {
       code, err := Compile(e); if err != nil { return NewIter(err) }; return code.RunWithContext(ctx, v) }
   iter.go
     NewIter(x) with ONE value = &unitIter{value: x}
     func (iter *unitIter) Next() (any, bool) { if iter.done { return nil, false }; iter.done = true; return iter.value, true }

   The context is not looked at on these paths: the iterator yields the error VALUE once — not ctx.Err(), even when the
   context is already cancelled — and then (nil,false) forever, without ever polling ctx.Done().
   [c.variables[len(values)]] is an explicit partial operation (None = index out of range = Go panic).
   Definitions only (extracted); proofs in c07/OneShotProofs.v. *)
From Coq Require Import List Arith Bool.
From Verif Require Import c07.Cancel.
Import ListNotations.

Section OneShot.
Variables St V E Name : Type.
Variable step : St -> outcome St V E.
(* the error values: &tooManyVariableValuesError{}, &expectedVariableError{name}; a compile error is any E *)
Variable too_many : E.
Variable expected : Name -> E.

(* iter.go unitIter *)
Record unit_iter := mkUnit { u_value : E; u_done : bool }.
Definition unit_next (u : unit_iter) : result V E * unit_iter :=
  if u_done u then (RDone, u) else (RErr (u_value u), mkUnit (u_value u) true).

(* the Iter handed to the caller: a unitIter holding an error, or the env (the machine of Cancel.v) *)
Inductive iter := IUnit (u : unit_iter) | IEnv (c : cfg St).

Definition iter_next (done : nat -> bool) (fuel : nat) (it : iter) : option (result V E * iter) :=
  match it with
  | IUnit u => let (r, u') := unit_next u in Some (r, IUnit u')
  | IEnv c => match next step done fuel c with Some (r, c') => Some (r, IEnv c') | None => None end
  end.

Fixpoint iter_calls (done : nat -> bool) (fuel n : nat) (it : iter) : option (list (result V E * iter)) :=
  match n with
  | O => Some []
  | S m =>
      match iter_next done fuel it with
      | None => None
      | Some (r, it') =>
          match iter_calls done fuel m it' with
          | None => None
          | Some h => Some ((r, it') :: h)
          end
      end
  end.

(* number of ctx.Done() polls so far *)
Definition iter_polls (it : iter) : nat := match it with IUnit _ => 0 | IEnv c => polls c end.

(* Code.RunWithContext; [start] = the machine state execute() sets up; None = c.variables[len(values)] out of range *)
Definition code_run (variables : list Name) (nvalues : nat) (start : St) : option iter :=
  if length variables <? nvalues then Some (IUnit (mkUnit too_many false))
  else if nvalues <? length variables then
    match nth_error variables nvalues with
    | Some x => Some (IUnit (mkUnit (expected x) false))
    | None => None
    end
  else Some (IEnv (mkCfg 0 0 (Running start))).

(* Query.RunWithContext: Compile(e) without options (so the code has no variables), then code.RunWithContext(ctx, v) *)
Inductive compiled := CErr (e : E) | COk (start : St).
Definition query_run (c : compiled) : option iter :=
  match c with
  | CErr e => Some (IUnit (mkUnit e false))
  | COk start => code_run [] 0 start
  end.
End OneShot.

Arguments mkUnit {E}. Arguments u_value {E}. Arguments u_done {E}.
Arguments IUnit {St E}. Arguments IEnv {St E}.
Arguments unit_next {V E}. Arguments iter_next {St V E}. Arguments iter_calls {St V E}. Arguments iter_polls {St E}.
Arguments code_run {St E Name}. Arguments query_run {St E Name}.
Arguments CErr {St E}. Arguments COk {St E}.
