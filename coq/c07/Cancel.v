(* C07 model: the Next loop of execute.go over an ABSTRACT machine.

   execute.go, method Next of env:

     pc, ... := env.pc, ...            ; err, callpc, index are locals, reset on every call
     defer func() { env.pc, env.backtrack = pc, true }()
   loop:
     for ; pc < len(env.codes); pc++ {
       code := env.codes[pc]
       if hasCtx { select { case <-env.ctx.Done(): pc, env.forks = len(env.codes), nil
                                                   return env.ctx.Err(), true
                            default: } }
       switch code.op { ... goto loop / break loop / continue / return env.pop(), true ... }
     }
     if len(env.forks) > 0 { pc, backtrack = env.popfork(), true; goto loop }
     if err != nil { return err, true }
     pc = len(env.codes)
     return nil, false

   The machine state St and the function [step] are parameters: [step s] stands for "execute the
   instruction at pc, including what follows a [break loop] up to the next instruction fetch" (fork
   popping, or leaving the loop), and yields
     Continue s'   the loop goes on to fetch another instruction (pc++, goto loop, continue, popfork)
     Emit v s'     opret with an empty scope stack: return env.pop(), true ; s' = the saved state
     EmitErr e s'  no fork left and err != nil: return err, true ; s' = saved state (pc = the
                   instruction that broke out, so that a later Next resumes backtracking)
     Exhausted     no fork left, err == nil: pc = len(codes); return nil, false
   Nothing is assumed about [step]: the theorems hold however the query loops.

   The context is an oracle [done : nat -> bool]; bit k is the answer of the k-th poll of ctx.Done()
   (k counted from 0 over the whole life of the iterator).  The poll sits at the top of the loop body,
   so it precedes every instruction.  [Parked] is the state pc = len(codes) /\ forks = nil that both
   the cancellation branch and the exhausted return leave behind: the for loop is not entered, no
   fork is popped, err is nil: (nil,false) without polling.

   Definitions only (extracted). *)
From Coq Require Import List Arith Bool.
Import ListNotations.

Section Cancel.
Variables St V E : Type.

Inductive outcome := Continue (s : St) | Emit (v : V) (s : St) | EmitErr (e : E) (s : St) | Exhausted.
Variable step : St -> outcome.

Inductive mstate := Running (s : St) | Parked.

(* what Next returns: (v,true) | (err,true) | (ctx.Err(),true) | (nil,false) *)
Inductive result := RVal (v : V) | RErr (e : E) | RCtx | RDone.

(* polls = number of ctx.Done() calls so far; instrs = number of instructions executed so far *)
Record cfg := mkCfg { polls : nat; instrs : nat; st : mstate }.

Fixpoint next (done : nat -> bool) (fuel : nat) (c : cfg) : option (result * cfg) :=
  match fuel with
  | O => None
  | S f =>
      match st c with
      | Parked => Some (RDone, c)
      | Running s =>
          if done (polls c) then Some (RCtx, mkCfg (S (polls c)) (instrs c) Parked)
          else
            match step s with
            | Continue s' => next done f (mkCfg (S (polls c)) (S (instrs c)) (Running s'))
            | Emit v s' => Some (RVal v, mkCfg (S (polls c)) (S (instrs c)) (Running s'))
            | EmitErr e s' => Some (RErr e, mkCfg (S (polls c)) (S (instrs c)) (Running s'))
            | Exhausted => Some (RDone, mkCfg (S (polls c)) (S (instrs c)) Parked)
            end
      end
  end.

(* an Iter history: n successive Next calls (each with the given fuel) and the state after each *)
Fixpoint calls (done : nat -> bool) (fuel n : nat) (c : cfg) : option (list (result * cfg)) :=
  match n with
  | O => Some []
  | S m =>
      match next done fuel c with
      | None => None
      | Some (r, c') =>
          match calls done fuel m c' with
          | None => None
          | Some h => Some ((r, c') :: h)
          end
      end
  end.

Definition never : nat -> bool := fun _ => false.
Definition first_true (done : nat -> bool) (k : nat) : Prop := done k = true /\ forall j, j < k -> done j = false.
Definition cancel_at (k : nat) : nat -> bool := fun j => k <=? j.

End Cancel.

Arguments Continue {St V E}. Arguments Emit {St V E}. Arguments EmitErr {St V E}. Arguments Exhausted {St V E}.
Arguments Running {St}. Arguments Parked {St}.
Arguments RVal {V E}. Arguments RErr {V E}. Arguments RCtx {V E}. Arguments RDone {V E}.
Arguments mkCfg {St}. Arguments polls {St}. Arguments instrs {St}. Arguments st {St}.
Arguments next {St V E}. Arguments calls {St V E}.
