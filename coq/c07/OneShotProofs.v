(* C07 — proofs about the one-shot iterators of Code.RunWithContext / Query.RunWithContext (c07/OneShot.v). *)
From Coq Require Import List Arith Bool Lia.
From Verif Require Import c07.Cancel c07.CancelProofs c07.OneShot.
Import ListNotations.

Section Proofs.
Variables St V E Name : Type.
Variable step : St -> outcome St V E.
Variable too_many : E.
Variable expected : Name -> E.

Notation inext := (iter_next step).
Notation icalls := (iter_calls step).

(* ---- the unit iterator: its value once, then (nil,false) forever; the context is never polled ---- *)
Lemma unit_done_forever (e : E) done fuel n :
  icalls done fuel n (IUnit (mkUnit e true)) = Some (repeat (RDone, IUnit (mkUnit e true)) n).
Proof. induction n as [|n IH]; [reflexivity|]. cbn [iter_calls iter_next unit_next u_done]. rewrite IH. reflexivity. Qed.

Theorem oneshot_history (e : E) done fuel n :
  icalls done fuel (S n) (IUnit (mkUnit e false)) =
  Some ((RErr e, IUnit (mkUnit e true)) :: repeat (RDone, IUnit (mkUnit e true)) n).
Proof. cbn [iter_calls iter_next unit_next u_done u_value]. rewrite unit_done_forever. reflexivity. Qed.

(* ... in particular no call ever returns ctx.Err() and no call polls, whatever the context *)
Theorem oneshot_never_ctx (u : unit_iter E) done fuel n h :
  icalls done fuel n (IUnit u) = Some h ->
  Forall (fun rc => fst rc <> RCtx /\ iter_polls (snd rc) = 0) h.
Proof.
  revert u h. induction n as [|n IH]; intros u h; cbn [iter_calls]; [intros E0; injection E0 as <-; constructor|].
  cbn [iter_next]. destruct (unit_next u) as [r u'] eqn:Hu.
  destruct (icalls done fuel n (IUnit u')) as [h'|] eqn:Hc; [|discriminate].
  intros E0. injection E0 as <-. constructor; [|eapply IH; eauto].
  cbn. unfold unit_next in Hu. destruct (u_done u); injection Hu as <- <-; split; (discriminate || reflexivity).
Qed.

(* ---- Code.RunWithContext: the argument-count check ---- *)
Theorem code_run_cases (variables : list Name) (nvalues : nat) (start : St) :
  (length variables < nvalues /\ code_run too_many expected variables nvalues start = Some (IUnit (mkUnit too_many false))) \/
  (nvalues < length variables /\ exists x, nth_error variables nvalues = Some x /\
     code_run too_many expected variables nvalues start = Some (IUnit (mkUnit (expected x) false))) \/
  (nvalues = length variables /\ code_run too_many expected variables nvalues start = Some (IEnv (mkCfg 0 0 (Running start)))).
Proof.
  unfold code_run. destruct (length variables <? nvalues) eqn:A.
  - left. apply Nat.ltb_lt in A. auto.
  - apply Nat.ltb_ge in A. destruct (nvalues <? length variables) eqn:B.
    + right; left. apply Nat.ltb_lt in B. split; [exact B|].
      destruct (nth_error variables nvalues) as [x|] eqn:Hn.
      * exists x. auto.
      * apply nth_error_None in Hn. lia.
    + right; right. apply Nat.ltb_ge in B. split; [lia|reflexivity].
Qed.

(* the index c.variables[len(values)] is never out of range *)
Theorem code_run_total (variables : list Name) (nvalues : nat) (start : St) : code_run too_many expected variables nvalues start <> None.
Proof.
  destruct (code_run_cases variables nvalues start) as [[_ ->]|[[_ (x & _ & ->)]|[_ ->]]]; discriminate.
Qed.

(* a wrong number of variable values: exactly one error value, then (nil,false) forever, under EVERY context oracle
   (already cancelled or not), never polling *)
Theorem wrong_count_history (variables : list Name) (nvalues : nat) (start : St) : nvalues <> length variables ->
  exists e, code_run too_many expected variables nvalues start = Some (IUnit (mkUnit e false)) /\
    (e = too_many /\ length variables < nvalues \/ (exists x, nth_error variables nvalues = Some x /\ e = expected x)) /\
    forall done fuel n,
      icalls done fuel (S n) (IUnit (mkUnit e false)) =
      Some ((RErr e, IUnit (mkUnit e true)) :: repeat (RDone, IUnit (mkUnit e true)) n).
Proof.
  intros Hne. destruct (code_run_cases variables nvalues start) as [[Hl ->]|[[Hl (x & Hx & ->)]|[Hl _]]]; [| |congruence].
  - exists too_many. split; [reflexivity|]. split; [left; auto|]. intros; apply oneshot_history.
  - exists (expected x). split; [reflexivity|]. split; [right; eauto|]. intros; apply oneshot_history.
Qed.

(* Query.RunWithContext: a compile error is yielded once, then (nil,false) forever; otherwise the machine is started *)
Theorem query_run_cases (c : compiled St E) :
  match c with
  | CErr e => query_run too_many expected c = Some (IUnit (mkUnit e false)) /\
              forall done fuel n, icalls done fuel (S n) (IUnit (mkUnit e false)) =
                                  Some ((RErr e, IUnit (mkUnit e true)) :: repeat (RDone, IUnit (mkUnit e true)) n)
  | COk start => query_run too_many expected c = Some (IEnv (mkCfg 0 0 (Running start)))
  end.
Proof. destruct c as [e|start]; [split; [reflexivity|intros; apply oneshot_history]|reflexivity]. Qed.

(* ---- contrast: with the right count and an already cancelled context the FIRST call returns ctx.Err() (one poll) ---- *)
Theorem right_count_cancelled (variables : list Name) (start : St) done fuel : done 0 = true ->
  exists it, code_run too_many expected variables (length variables) start = Some it /\
    inext done (S fuel) it = Some (RCtx, IEnv (mkCfg 1 0 Parked)).
Proof.
  intros Hd. destruct (code_run_cases variables (length variables) start) as [[Hl _]|[[Hl _]|[_ ->]]]; try lia.
  eexists. split; [reflexivity|]. cbn [iter_next next st polls instrs]. rewrite Hd. reflexivity.
Qed.

Lemma map_repeat' {A B} (f : A -> B) x n : map f (repeat x n) = repeat (f x) n.
Proof. induction n as [|n IH]; [reflexivity|]. cbn. rewrite IH. reflexivity. Qed.

(* ---- terminal / absorbing, for EVERY iterator RunWithContext can return (lifting props/C07.v) ---- *)
Lemma env_calls (c : cfg St) done fuel n :
  icalls done fuel n (IEnv c) = option_map (map (fun rc => (fst rc, IEnv (snd rc)))) (calls step done fuel n c).
Proof.
  revert c. induction n as [|n IH]; intros c; [reflexivity|]. cbn [iter_calls iter_next calls].
  destruct (next step done fuel c) as [[r c']|]; [|reflexivity]. rewrite IH.
  destruct (calls step done fuel n c'); reflexivity.
Qed.

Theorem iter_done_absorbing done f (it it' : iter St E) : inext done f it = Some (RDone, it') ->
  forall done' fuel n, icalls done' (S fuel) n it' = Some (repeat (RDone, it') n).
Proof.
  destruct it as [u|c]; cbn [iter_next].
  - unfold unit_next. destruct (u_done u) eqn:Hd; [|discriminate]. intros E0. injection E0 as <-.
    intros done' fuel n. destruct u as [e d]. cbn in Hd. subst d. apply unit_done_forever.
  - destruct (next step done f c) as [[r c']|] eqn:Hn; [|discriminate]. intros E0. injection E0 as -> <-.
    intros done' fuel n. rewrite env_calls.
    destruct (exhausted_absorbing St V E step done f c c' Hn) as [_ H]. rewrite H. cbn [option_map].
    rewrite map_repeat'. reflexivity.
Qed.

Theorem iter_ctx_terminal done f (it it' : iter St E) : inext done f it = Some (RCtx, it') ->
  (exists c', it' = IEnv c' /\ st c' = Parked) /\
  forall done' fuel n, icalls done' (S fuel) n it' = Some (repeat (RDone, it') n).
Proof.
  destruct it as [u|c]; cbn [iter_next].
  - unfold unit_next. destruct (u_done u); discriminate.
  - destruct (next step done f c) as [[r c']|] eqn:Hn; [|discriminate]. intros E0. injection E0 as -> <-.
    destruct (cancel_terminal St V E step done f c c' Hn) as [Hp H]. split; [exists c'; auto|].
    intros done' fuel n. rewrite env_calls, H. cbn [option_map]. rewrite map_repeat'. reflexivity.
Qed.
End Proofs.
