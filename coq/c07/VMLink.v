(* C07 tied to a concrete step function: the VM of coq/c01vm (execute.go's Next loop for fragment F).

   [vm_fetch nt code] packages one instruction fetch of c01vm's [step] in the interface of c07/Cancel.v:
   c01vm splits an instruction that breaks out of the loop into the instruction itself and a
   [Brk] state (popfork / return); the Next loop polls the context once for both, so they are one
   [vm_fetch].  Errors follow c01vm's observation convention: the first error value ends the
   observation (the machine parks in a dead state); a Go panic of the model ([Stuck]) is the error
   [None].  With this instance every theorem of c07/CancelProofs.v is a theorem about the concrete VM,
   and the uncancelled Iter history is c01vm's [run] (hence, by C01vm_compile_correct, the denotation
   of the query).  Definitions and proofs. *)
From Coq Require Import List Arith Bool Lia.
From Verif Require Import c01vm.Syntax c01vm.Code c01vm.VM c07.Cancel c07.CancelProofs.
Import ListNotations.

Section Link.
Variable nt : natives.
Variable code : list instr.

Definition dead : state := Brk None [] [] 0.

Definition vm_fetch (s : state) : Cancel.outcome state jv (option verr) :=
  match step nt code s with
  | VM.Next (Brk e fk vs l) =>
      match step nt code (Brk e fk vs l) with
      | VM.Next s' => Cancel.Continue s'               (* popfork: backtrack = true at the fork's pc *)
      | Halt None => Cancel.Exhausted                  (* no fork, err == nil: (nil,false) *)
      | Halt (Some x) => Cancel.EmitErr (Some x) dead  (* no fork: (err,true) *)
      | _ => Cancel.EmitErr None dead                  (* not produced by [step] on a Brk state *)
      end
  | VM.Next s' => Cancel.Continue s'
  | VM.Emit v s' => Cancel.Emit v s'
  | Halt None => Cancel.Exhausted
  | Halt (Some x) => Cancel.EmitErr (Some x) dead
  | Stuck => Cancel.EmitErr None dead
  end.

(* vm_fetch is exactly "one instruction of c01vm's step, including the fork popping / return that
   follows a break": the interface of c07/Cancel.v ([step] there) is met by this concrete function *)
Lemma vm_fetch_spec : forall s,
  match vm_fetch s with
  | Cancel.Continue s' =>
      step nt code s = VM.Next s' \/
      (exists e fk vs l, step nt code s = VM.Next (Brk e fk vs l) /\ step nt code (Brk e fk vs l) = VM.Next s')
  | Cancel.Emit v s' => step nt code s = VM.Emit v s'
  | Cancel.EmitErr (Some x) _ =>
      step nt code s = Halt (Some x) \/
      (exists fk vs l, step nt code s = VM.Next (Brk (Some x) fk vs l) /\ step nt code (Brk (Some x) fk vs l) = Halt (Some x))
  | Cancel.EmitErr None _ => step nt code s = Stuck
  | Cancel.Exhausted =>
      step nt code s = Halt None \/
      (exists fk vs l, step nt code s = VM.Next (Brk None fk vs l) /\ step nt code (Brk None fk vs l) = Halt None)
  end.
Proof.
  intros s. unfold vm_fetch. destruct (step nt code s) as [s1|v s1|[x|]|] eqn:Hs; auto.
  destruct s1 as [pc bt e1 m|e1 fk vs l]; [left; reflexivity|].
  simpl. destruct fk as [|f0 fk].
  - destruct e1 as [x|]; right; eauto.
  - right. eauto 8.
Qed.

Definition is_run (s : state) : Prop := match s with Run _ _ _ _ => True | Brk _ _ _ _ => False end.

Lemma step_brk : forall e fk vs l,
  step nt code (Brk e fk vs l) = match fk with
                                 | [] => Halt e
                                 | f :: r => VM.Next (Run (f_pc f) true e {| stk := f_stk f; scopes := f_scopes f; forks := r; vars := vs; lbl := l |})
                                 end.
Proof. reflexivity. Qed.

(* what the first Next call of the abstract machine returns, in terms of c01vm's [run] *)
Lemma first_event : forall fuel s outs e,
  run nt code fuel s = (outs, e) -> (e = End \/ exists x, e = Error x) ->
  forall c, st c = Running s ->
  exists f r c', Cancel.next vm_fetch never f c = Some (r, c') /\
    match outs with
    | [] => (r = RDone /\ e = End) \/ (exists x, r = RErr (Some x) /\ e = Error x)
    | v :: outs' => r = RVal v /\ exists s' fuel', st c' = Running s' /\ fuel' < fuel /\ run nt code fuel' s' = (outs', e)
    end.
Proof.
  induction fuel as [fuel IH] using lt_wf_ind. intros s outs e Hrun He c Hc.
  destruct fuel as [|fuel]; [simpl in Hrun; inversion Hrun; subst; destruct He as [He|[x He]]; discriminate|].
  simpl in Hrun. destruct (step nt code s) as [s1|v s1|[x|]|] eqn:Hs.
  - (* Next *)
    destruct s1 as [pc bt e1 m|e1 fk vs l].
    + (* a plain Continue *)
      destruct (IH fuel (Nat.lt_succ_diag_r fuel) _ _ _ Hrun He
                   (mkCfg (S (polls c)) (S (instrs c)) (Running (Run pc bt e1 m))) eq_refl) as (f & r & c' & Hn & Hm).
      exists (S f), r, c'. split.
      * simpl. rewrite Hc. unfold never at 1. unfold vm_fetch. rewrite Hs. exact Hn.
      * destruct outs; [exact Hm|]. destruct Hm as (Hr & s' & fuel' & H1 & H2 & H3). split; [exact Hr|]. exists s', fuel'. split; [exact H1|]. split; [lia|exact H3].
    + (* break loop *)
      destruct fuel as [|fuel]; [simpl in Hrun; inversion Hrun; subst; destruct He as [He|[x He]]; discriminate|].
      simpl in Hrun. destruct fk as [|f0 fk].
      * (* no fork: Next returns *)
        destruct e1 as [x|]; inversion Hrun; subst.
        -- exists 1, (RErr (Some x)), (mkCfg (S (polls c)) (S (instrs c)) (Running dead)). split.
           ++ simpl. rewrite Hc. unfold never. unfold vm_fetch. rewrite Hs. reflexivity.
           ++ right. eauto.
        -- exists 1, RDone, (mkCfg (S (polls c)) (S (instrs c)) Parked). split.
           ++ simpl. rewrite Hc. unfold never. unfold vm_fetch. rewrite Hs. reflexivity.
           ++ left. auto.
      * (* popfork *)
        set (s2 := Run (f_pc f0) true e1 {| stk := f_stk f0; scopes := f_scopes f0; forks := fk; vars := vs; lbl := l |}) in *.
        assert (Hlt : fuel < S (S fuel)) by lia.
        destruct (IH fuel Hlt _ _ _ Hrun He (mkCfg (S (polls c)) (S (instrs c)) (Running s2)) eq_refl) as (f & r & c' & Hn & Hm).
        exists (S f), r, c'. split.
        -- simpl. rewrite Hc. unfold never at 1. unfold vm_fetch. rewrite Hs. exact Hn.
        -- destruct outs; [exact Hm|]. destruct Hm as (Hr & s' & fuel' & H1 & H2 & H3). split; [exact Hr|]. exists s', fuel'. split; [exact H1|]. split; [lia|exact H3].
  - (* Emit *)
    destruct (run nt code fuel s1) as (o1, e1) eqn:Hr1. inversion Hrun; subst.
    exists 1, (RVal v), (mkCfg (S (polls c)) (S (instrs c)) (Running s1)). split.
    + simpl. rewrite Hc. unfold never. unfold vm_fetch. rewrite Hs. reflexivity.
    + split; auto. exists s1, fuel. repeat split; auto.
  - (* Halt (Some x): only from a Brk state *)
    inversion Hrun; subst.
    exists 1, (RErr (Some x)), (mkCfg (S (polls c)) (S (instrs c)) (Running dead)). split.
    + simpl. rewrite Hc. unfold never. unfold vm_fetch. rewrite Hs.
      destruct s; [reflexivity|]. reflexivity.
    + right. eauto.
  - (* Halt None *)
    inversion Hrun; subst.
    exists 1, RDone, (mkCfg (S (polls c)) (S (instrs c)) Parked). split.
    + simpl. rewrite Hc. unfold never. unfold vm_fetch. rewrite Hs. reflexivity.
    + left. auto.
  - (* Stuck *)
    inversion Hrun; subst. destruct He as [He|[x He]]; discriminate.
Qed.

Lemma calls_S : forall done f n c,
  Cancel.calls vm_fetch done f (S n) c =
  match Cancel.next vm_fetch done f c with
  | None => None
  | Some (r0, c0) => match Cancel.calls vm_fetch done f n c0 with None => None | Some h0 => Some ((r0, c0) :: h0) end
  end.
Proof. reflexivity. Qed.

Lemma calls_mono : forall done n f c h, Cancel.calls vm_fetch done f n c = Some h ->
  forall f', f <= f' -> Cancel.calls vm_fetch done f' n c = Some h.
Proof.
  induction n; intros f c h H f' L; [exact H|].
  rewrite calls_S in H |- *.
  destruct (Cancel.next vm_fetch done f c) as [(r0, c0)|] eqn:E; [|discriminate].
  rewrite (next_mono state jv (option verr) vm_fetch done f c (r0, c0) E f' L).
  destruct (Cancel.calls vm_fetch done f n c0) eqn:E2; [|discriminate]. rewrite (IHn _ _ _ E2 f' L). exact H.
Qed.

(* the uncancelled Iter history of the abstract machine over vm_fetch is c01vm's run:
   the outputs in order, then (nil,false) or the error value *)
Theorem calls_run : forall outs fuel s e,
  run nt code fuel s = (outs, e) -> (e = End \/ exists x, e = Error x) ->
  forall c, st c = Running s ->
  exists f h, Cancel.calls vm_fetch never f (S (length outs)) c = Some h /\
    map fst h = map (fun v => RVal v) outs ++ [match e with Error x => RErr (Some x) | _ => RDone end].
Proof.
  induction outs as [|v outs IH]; intros fuel s e Hrun He c Hc.
  - destruct (first_event fuel s [] e Hrun He c Hc) as (f & r & c' & Hn & Hm).
    exists f, [(r, c')]. split; [simpl; rewrite Hn; reflexivity|].
    destruct Hm as [(Hr & Hee)|(x & Hr & Hee)]; subst; reflexivity.
  - destruct (first_event fuel s (v :: outs) e Hrun He c Hc) as (f & r & c' & Hn & Hr & s' & fuel' & Hc' & _ & Hrun').
    destruct (IH fuel' s' e Hrun' He c' Hc') as (f2 & h & Hcalls & Hmap).
    exists (Nat.max f f2), ((r, c') :: h). split.
    + cbn [length]. rewrite calls_S.
      rewrite (next_mono state jv (option verr) vm_fetch never f c (r, c') Hn (Nat.max f f2) (Nat.le_max_l _ _)).
      rewrite (calls_mono never _ f2 c' h Hcalls (Nat.max f f2) (Nat.le_max_r _ _)). reflexivity.
    + simpl. rewrite Hr, Hmap. reflexivity.
Qed.

End Link.
