(* C09b — finite checks: the LR driver over the tables of the current parser.go returns the tree of the spec
   parser (or both reject) on every operator string of the stated families.  Slow file (vm_compute). *)
From Coq Require Import List NArith ZArith Bool String Arith.
From Verif Require Import common.Sexp c09.GrammarTypes gen.GenGrammar gen.GenTables c08.LR c09.Ops c09.OpsProofs c09.OpsInst c09.Lexer c09.LRTie.
Import ListNotations.
Local Open Scope list_scope.

Lemma list_N_eqb_eq : forall a b, list_N_eqb a b = true -> a = b.
Proof.
  induction a as [|x a IH]; destruct b as [|y b]; simpl; intros H; try discriminate; auto.
  apply andb_prop in H. destruct H as [H1 H2]. apply N.eqb_eq in H1. f_equal; auto.
Qed.

Lemma binop_eqb_eq : forall a b, binop_eqb a b = true -> a = b.
Proof. destruct a, b; intros H; try reflexivity; discriminate H. Qed.

Lemma opt_expr_eqb_eq : forall a b, opt_expr_eqb a b = true -> a = b.
Proof.
  intros [x|] [y|] H; try discriminate; auto. f_equal. revert y H.
  induction x as [a|x IH|o l IHl r IHr]; destruct y as [b|y|o' l' r']; simpl; intros H; try discriminate.
  - f_equal. apply list_N_eqb_eq; auto.
  - f_equal. apply IH; auto.
  - apply andb_prop in H. destruct H as [H H3]. apply andb_prop in H. destruct H as [H1 H2].
    f_equal; [apply binop_eqb_eq|apply IHl|apply IHr]; auto.
Qed.

Lemma agrees_eq : forall ts, agrees ts = true -> lr_parse ts = Some (spec_parse ts).
Proof.
  intros ts H. unfold agrees in H. destruct (lr_parse ts) as [r|]; [|discriminate].
  apply opt_expr_eqb_eq in H. congruence.
Qed.

Lemma productions_ok : productions_match_tables = true.
Proof. vm_cast_no_check (eq_refl true). Qed.

(* generic extraction from nested forallb (no evaluation of the predicate at Qed time) *)
Lemma forallb2 : forall (A : Type) (f : A -> A -> bool) l,
  forallb (fun a => forallb (fun b => f a b) l) l = true -> forall a b, In a l -> In b l -> f a b = true.
Proof.
  intros A f l H a b Ia Ib. rewrite forallb_forall in H. specialize (H a Ia).
  rewrite forallb_forall in H. exact (H b Ib).
Qed.
Lemma forallb3 : forall (A : Type) (f : A -> A -> A -> bool) l,
  forallb (fun a => forallb (fun b => forallb (fun c => f a b c) l) l) l = true ->
  forall a b c, In a l -> In b l -> In c l -> f a b c = true.
Proof.
  intros A f l H a b c Ia Ib Ic. rewrite forallb_forall in H. specialize (H a Ia).
  exact (forallb2 A (f a) l H b c Ib Ic).
Qed.
Lemma forallb4 : forall (A : Type) (f : A -> A -> A -> A -> bool) l,
  forallb (fun a => forallb (fun b => forallb (fun c => forallb (fun d => f a b c d) l) l) l) l = true ->
  forall a b c d, In a l -> In b l -> In c l -> In d l -> f a b c d = true.
Proof.
  intros A f l H a b c d Ia Ib Ic Id. rewrite forallb_forall in H. specialize (H a Ia).
  exact (forallb3 A (f a) l H b c d Ib Ic Id).
Qed.

Definition f1 (o1 : binop) : bool := agrees [tA; TOp o1; tB].
Definition f2 (o1 o2 : binop) : bool :=
  agrees [tA; TOp o1; tB; TOp o2; tC] &&
  agrees [TLP; tA; TOp o1; tB; TRP; TOp o2; tC] &&
  agrees [tA; TOp o1; TLP; tB; TOp o2; tC; TRP].
Definition f3 (o1 o2 o3 : binop) : bool := agrees [tA; TOp o1; tB; TOp o2; tC; TOp o3; tD].

Lemma all1_true : forallb f1 all_ops = true.
Proof. vm_cast_no_check (eq_refl true). Qed.
Lemma all2_true : forallb (fun a => forallb (fun b => f2 a b) all_ops) all_ops = true.
Proof. vm_cast_no_check (eq_refl true). Qed.
Lemma all3_true : forallb (fun a => forallb (fun b => forallb (fun c => f3 a b c) all_ops) all_ops) all_ops = true.
Proof. vm_cast_no_check (eq_refl true). Qed.

Lemma lr1 : forall o1, lr_parse [tA; TOp o1; tB] = Some (spec_parse [tA; TOp o1; tB]).
Proof.
  intros. apply agrees_eq.
  exact (proj1 (forallb_forall f1 all_ops) all1_true o1 (all_ops_complete o1)).
Qed.

Lemma lr2 : forall o1 o2,
  lr_parse [tA; TOp o1; tB; TOp o2; tC] = Some (spec_parse [tA; TOp o1; tB; TOp o2; tC]) /\
  lr_parse [TLP; tA; TOp o1; tB; TRP; TOp o2; tC] = Some (spec_parse [TLP; tA; TOp o1; tB; TRP; TOp o2; tC]) /\
  lr_parse [tA; TOp o1; TLP; tB; TOp o2; tC; TRP] = Some (spec_parse [tA; TOp o1; TLP; tB; TOp o2; tC; TRP]).
Proof.
  intros. pose proof (forallb2 binop f2 all_ops all2_true o1 o2 (all_ops_complete o1) (all_ops_complete o2)) as H.
  unfold f2 in H. apply andb_prop in H. destruct H as [H H3]. apply andb_prop in H. destruct H as [H1 H2].
  split; [|split]; apply agrees_eq; assumption.
Qed.

Lemma lr3 : forall o1 o2 o3,
  lr_parse [tA; TOp o1; tB; TOp o2; tC; TOp o3; tD] = Some (spec_parse [tA; TOp o1; tB; TOp o2; tC; TOp o3; tD]).
Proof.
  intros. apply agrees_eq.
  exact (forallb3 binop f3 all_ops all3_true o1 o2 o3 (all_ops_complete o1) (all_ops_complete o2) (all_ops_complete o3)).
Qed.

(* in jq's terms: the automaton groups two operators as jq's table says *)
Lemma lr_prec_jq : forall o1 o2,
  lr_parse [tA; TOp o1; tB; TOp o2; tC] =
  Some (match cmp jq_lvl jq_asc o1 o2 with
        | Reduce => Some (Bin o2 (Bin o1 (Atom [97%N]) (Atom [98%N])) (Atom [99%N]))
        | Shift => Some (Bin o1 (Atom [97%N]) (Bin o2 (Atom [98%N]) (Atom [99%N])))
        | Err => None
        end).
Proof.
  intros. destruct (lr2 o1 o2) as [H _]. rewrite H. f_equal. unfold spec_parse, tA, tB, tC.
  apply (gen_prec_triple (list N)).
Qed.

(* with C09_parse_iff: what the automaton accepts on these strings is exactly the well-formed reading *)
Lemma lr3_iff : forall o1 o2 o3 e,
  lr_parse [tA; TOp o1; tB; TOp o2; tC; TOp o3; tD] = Some (Some e) <->
  (wf (list N) gen_lvl gen_asc e /\ toks (list N) e = [tA; TOp o1; tB; TOp o2; tC; TOp o3; tD]).
Proof.
  intros. rewrite lr3. unfold spec_parse. split.
  - intros H. apply (gen_parse_iff (list N)). unfold gparse. congruence.
  - intros H. apply (gen_parse_iff (list N)) in H. unfold gparse in H. rewrite H. reflexivity.
Qed.

(* four operators: one representative per precedence level (9^4 strings) *)
Definition level_reps : list binop := [OpPipe; OpComma; OpAlt; OpModify; OpOr; OpAnd; OpLe; OpSub; OpMod].
Definition tE : tok (list N) := TAtom [101%N].
Definition f4 (o1 o2 o3 o4 : binop) : bool := agrees [tA; TOp o1; tB; TOp o2; tC; TOp o3; tD; TOp o4; tE].
Lemma all4_true :
  forallb (fun a => forallb (fun b => forallb (fun c => forallb (fun d => f4 a b c d) level_reps) level_reps) level_reps) level_reps = true.
Proof. vm_cast_no_check (eq_refl true). Qed.

Lemma lr4 : forall o1 o2 o3 o4, In o1 level_reps -> In o2 level_reps -> In o3 level_reps -> In o4 level_reps ->
  lr_parse [tA; TOp o1; tB; TOp o2; tC; TOp o3; tD; TOp o4; tE] =
  Some (spec_parse [tA; TOp o1; tB; TOp o2; tC; TOp o3; tD; TOp o4; tE]).
Proof.
  intros o1 o2 o3 o4 I1 I2 I3 I4. apply agrees_eq.
  exact (forallb4 binop f4 level_reps all4_true o1 o2 o3 o4 I1 I2 I3 I4).
Qed.
