(* C09 — proofs about the operator-precedence parser of Ops.v, generic in the precedence table. *)
From Coq Require Import List NArith Bool String Arith Lia.
From Verif Require Import common.Sexp c09.GrammarTypes gen.GenGrammar c09.Ops.
Import ListNotations.
Local Open Scope nat_scope.
Local Open Scope list_scope.

Section Proofs.
  Variable atom : Type.
  Variable lvl : binop -> nat.
  Variable asc : binop -> assoc.
  Hypothesis asc_level : forall a b, lvl a = lvl b -> asc a = asc b.

  Notation expr := (expr atom).
  Notation tok := (tok atom).
  Notation cmp := (cmp lvl asc).
  Notation run := (run atom lvl asc).
  Notation parse := (parse atom lvl asc).
  Notation reduce_all := (reduce_all atom lvl asc).
  Notation reduce_end := (reduce_end atom).
  Notation toks := (toks atom).
  Notation wf := (wf atom lvl asc).
  Notation stack := (stack atom).

  Lemma cmp_cases : forall o1 o2,
    (cmp o1 o2 = Shift <-> (lvl o1 < lvl o2 \/ (lvl o1 = lvl o2 /\ asc o2 = ARight))) /\
    (cmp o1 o2 = Reduce <-> (lvl o2 < lvl o1 \/ (lvl o1 = lvl o2 /\ asc o2 = ALeft))) /\
    (cmp o1 o2 = Err <-> (lvl o1 = lvl o2 /\ asc o2 = ANonassoc)).
  Proof.
    intros o1 o2. unfold Ops.cmp.
    destruct (Nat.ltb (lvl o1) (lvl o2)) eqn:E1; [apply Nat.ltb_lt in E1|apply Nat.ltb_ge in E1].
    - repeat split; intros; try discriminate; try (left; lia); try lia;
        try (destruct H as [?|[? ?]]; lia).
    - destruct (Nat.ltb (lvl o2) (lvl o1)) eqn:E2; [apply Nat.ltb_lt in E2|apply Nat.ltb_ge in E2].
      + repeat split; intros; try discriminate; try (left; lia); try lia;
          try (destruct H as [?|[? ?]]; lia).
      + assert (lvl o1 = lvl o2) by lia.
        destruct (asc o2) eqn:EA; repeat split; intros; try discriminate; try lia; auto;
          try (destruct H0 as [?|[? ?]]; try lia; congruence); try (destruct H0; congruence).
  Qed.

  (* transitivity facts used along the spines *)
  Lemma red_shift_red : forall o1 o2 o, cmp o1 o = Reduce -> cmp o1 o2 = Shift -> cmp o2 o = Reduce.
  Proof.
    intros o1 o2 o H1 H2.
    apply (proj1 (proj1 (proj2 (cmp_cases o1 o)))) in H1.
    apply (proj1 (proj1 (cmp_cases o1 o2))) in H2.
    apply (proj2 (proj1 (proj2 (cmp_cases o2 o)))).
    destruct H1 as [H1|[H1 A1]], H2 as [H2|[H2 A2]]; try (left; lia).
    exfalso. assert (asc o = asc o2) by (apply asc_level; lia). congruence.
  Qed.

  Lemma shift_red_shift : forall o o1 o', cmp o o1 = Shift -> cmp o' o1 = Reduce -> cmp o o' = Shift.
  Proof.
    intros o o1 o' H1 H2.
    apply (proj1 (proj1 (cmp_cases o o1))) in H1.
    apply (proj1 (proj1 (proj2 (cmp_cases o' o1)))) in H2.
    apply (proj2 (proj1 (cmp_cases o o'))).
    destruct H1 as [H1|[H1 A1]], H2 as [H2|[H2 A2]]; try (left; lia).
    - right. split; [lia|]. exfalso. congruence.
  Qed.

  (* the state reached after reading the tokens of e on top of stack stk *)
  Fixpoint rsp (e : expr) (stk : stack) : stack * expr :=
    match e with
    | Bin o l r => rsp r ((l, o) :: stk)
    | _ => (stk, e)
    end.

  (* operators on the right / left spine *)
  Fixpoint rs_red (e : expr) (o : binop) : Prop :=
    match e with Bin o' _ r => cmp o' o = Reduce /\ rs_red r o | _ => True end.
  Fixpoint ls_shift (o0 : binop) (e : expr) : Prop :=
    match e with Bin o' l _ => cmp o0 o' = Shift /\ ls_shift o0 l | _ => True end.
  Definition ctx_ok (stk : stack) (e : expr) : Prop :=
    match stk with [] => True | (_, o0) :: _ => ls_shift o0 e end.

  Lemma wf_rs_red : forall e o, wf e -> left_ok atom lvl asc o e -> rs_red e o.
  Proof.
    induction e as [a|e IH|o1 l IHl r IHr]; intros o W L; simpl; auto.
    simpl in L. split; auto.
    destruct W as (Wl & Wr & Ll & Rr).
    apply IHr; auto.
    destruct r; simpl; auto. simpl in Rr. eapply red_shift_red; eauto.
  Qed.

  Lemma wf_ls_shift : forall e o, wf e -> right_ok atom lvl asc o e -> ls_shift o e.
  Proof.
    induction e as [a|e IH|o1 l IHl r IHr]; intros o W R; simpl; auto.
    simpl in R. split; auto.
    destruct W as (Wl & Wr & Ll & Rr).
    apply IHl; auto.
    destruct l; simpl; auto. simpl in Ll. eapply shift_red_shift; eauto.
  Qed.

  Lemma reduce_end_rsp : forall e stk, reduce_end (fst (rsp e stk)) (snd (rsp e stk)) = reduce_end stk e.
  Proof. induction e; intros; simpl; auto. rewrite IHe2. reflexivity. Qed.

  Lemma reduce_all_rsp : forall e stk o, rs_red e o ->
    reduce_all (fst (rsp e stk)) (snd (rsp e stk)) o = reduce_all stk e o.
  Proof.
    induction e as [a|e IH|o1 l IHl r IHr]; intros stk o H; simpl; auto.
    destruct H as [H1 H2]. rewrite IHr by auto. simpl. rewrite H1. reflexivity.
  Qed.

  Lemma reduce_all_stop : forall stk e o,
    match stk with [] => True | (_, o0) :: _ => cmp o0 o = Shift end -> reduce_all stk e o = Some (stk, e).
  Proof. intros stk e o H. destruct stk as [|[l0 o0] stk0]; simpl; auto. rewrite H. reflexivity. Qed.

  Lemma ctx_ok_left : forall stk o l r, ctx_ok stk (Bin o l r) -> ctx_ok stk l.
  Proof. intros stk o l r. destruct stk as [|[l0 o0] stk0]; simpl; tauto. Qed.

  Lemma run_expr : forall e, wf e -> forall rest frames stk, ctx_ok stk e ->
    run (toks e ++ rest) frames stk None = run rest frames (fst (rsp e stk)) (Some (snd (rsp e stk))).
  Proof.
    induction e as [a|e IH|o l IHl r IHr]; intros W rest frames stk C.
    - reflexivity.
    - simpl. rewrite <- app_assoc. rewrite IH by (auto; simpl; auto). simpl.
      rewrite reduce_end_rsp. reflexivity.
    - destruct W as (Wl & Wr & Ll & Rr).
      simpl toks. rewrite <- app_assoc. rewrite IHl by (auto; eapply ctx_ok_left; eauto).
      simpl. rewrite reduce_all_rsp by (apply wf_rs_red; auto).
      rewrite reduce_all_stop.
      + apply IHr; auto. simpl. apply wf_ls_shift; auto.
      + destruct stk as [|[? o0] ?]; auto. simpl in C. tauto.
  Qed.

  (* the round trip on tokens: every AST in the parser's image is parsed back from its own tokens *)
  Theorem print_parse : forall e, wf e -> parse (toks e) = Some e.
  Proof.
    intros e W. unfold Ops.parse. rewrite <- (app_nil_r (toks e)).
    rewrite run_expr by (auto; simpl; auto). simpl.
    rewrite reduce_end_rsp. reflexivity.
  Qed.

  (* ---------------------------------------------------------------------------------------------- *)
  (* soundness: whatever the parser returns prints back to the input and is well-formed *)

  (* tokens denoted by a stack (bottom first) *)
  Fixpoint stk_toks (stk : stack) : list tok :=
    match stk with [] => [] | (l, o) :: rest => stk_toks rest ++ toks l ++ [TOp o] end.
  Fixpoint frames_toks (fs : list stack) : list tok :=
    match fs with [] => [] | f :: rest => frames_toks rest ++ stk_toks f ++ [TLP] end.
  Definition cur_toks (c : option expr) : list tok := match c with Some e => toks e | None => [] end.

  Definition top_right_ok (stk : stack) (e : expr) : Prop :=
    match stk with [] => True | (_, o0) :: _ => right_ok atom lvl asc o0 e end.
  Definition top_shifts (stk : stack) (o : binop) : Prop :=
    match stk with [] => True | (_, o0) :: _ => cmp o0 o = Shift end.

  (* stack invariant: entries are well-formed, each left operand may stand left of its operator and right
     of the operator below, and each operator shifts the one above it *)
  Fixpoint stk_ok (stk : stack) : Prop :=
    match stk with
    | [] => True
    | (l, o) :: rest => wf l /\ left_ok atom lvl asc o l /\ top_right_ok rest l /\ top_shifts rest o /\ stk_ok rest
    end.

  Definition nonbin (e : expr) : Prop := match e with Bin _ _ _ => False | _ => True end.

  Lemma nonbin_ok : forall e stk o, nonbin e -> top_right_ok stk e /\ left_ok atom lvl asc o e.
  Proof. intros e stk o H. destruct e as [a|e|o' l r]; destruct stk as [|[l0 o0] stk0]; simpl in *; tauto. Qed.

  Lemma reduce_end_sound : forall stk e, stk_ok stk -> wf e -> top_right_ok stk e ->
    wf (reduce_end stk e) /\ toks (reduce_end stk e) = stk_toks stk ++ toks e.
  Proof.
    induction stk as [|[l o] rest IH]; intros e S We Re; simpl.
    - auto.
    - destruct S as (Wl & Ll & Tl & Sh & Sr). simpl in Re.
      assert (W1 : wf (Bin o l e)) by (simpl; auto).
      assert (W2 : top_right_ok rest (Bin o l e)) by (destruct rest as [|[l0 o0] rest0]; simpl; auto).
      destruct (IH (Bin o l e) Sr W1 W2) as [W T].
      split; auto. rewrite T. simpl. rewrite <- !app_assoc. reflexivity.
  Qed.

  Lemma reduce_all_sound : forall stk e o stk' e', stk_ok stk -> wf e -> top_right_ok stk e ->
    left_ok atom lvl asc o e -> reduce_all stk e o = Some (stk', e') ->
    stk_ok ((e', o) :: stk') /\ stk_toks stk' ++ toks e' = stk_toks stk ++ toks e.
  Proof.
    induction stk as [|[l o1] rest IH]; intros e o stk' e' S We Re Le R; simpl in R.
    - inversion R; subst. simpl. repeat split; auto.
    - destruct S as (Wl & Ll & Tl & Sh & Sr).
      destruct (cmp o1 o) eqn:E; try discriminate.
      + inversion R; subst. split; [|reflexivity].
        simpl. repeat split; auto.
      + simpl in Re.
        assert (W1 : wf (Bin o1 l e)) by (simpl; auto).
        assert (W2 : top_right_ok rest (Bin o1 l e)) by (destruct rest as [|[l0 o0] rest0]; simpl; auto).
        assert (W3 : left_ok atom lvl asc o (Bin o1 l e)) by (simpl; auto).
        destruct (IH _ _ _ _ Sr W1 W2 W3 R) as [R1 R2].
        split; auto. rewrite R2. simpl. rewrite <- !app_assoc. reflexivity.
  Qed.

  Definition state_ok (frames : list stack) (stk : stack) (cur : option expr) : Prop :=
    Forall stk_ok frames /\ stk_ok stk /\ match cur with Some c => wf c /\ nonbin c | None => True end.

  Lemma run_sound : forall ts frames stk cur e, state_ok frames stk cur ->
    run ts frames stk cur = Some e ->
    wf e /\ toks e = frames_toks frames ++ stk_toks stk ++ cur_toks cur ++ ts.
  Proof.
    induction ts as [|t r IH]; intros frames stk cur e (F & S & C) R; simpl in R.
    - destruct cur as [c|]; try discriminate. destruct frames; try discriminate.
      inversion R; subst. destruct C as [Wc Nc].
      destruct (nonbin_ok c stk OpPipe Nc) as [N1 _].
      destruct (reduce_end_sound stk c S Wc N1) as [W T].
      split; auto. rewrite T. simpl. rewrite app_nil_r. reflexivity.
    - destruct t as [a|o| |].
      + destruct cur; try discriminate.
        assert (ST : state_ok frames stk (Some (Atom a))) by (split; [assumption|split; [assumption|simpl; auto]]).
        destruct (IH _ _ _ _ ST R) as [W T]. split; auto.
      + destruct cur as [c|]; try discriminate. destruct C as [Wc Nc].
        destruct (reduce_all stk c o) as [[stk' e']|] eqn:RA; try discriminate.
        destruct (nonbin_ok c stk o Nc) as [N1 N2].
        destruct (reduce_all_sound _ _ _ _ _ S Wc N1 N2 RA) as [S' T'].
        assert (ST : state_ok frames ((e', o) :: stk') None) by (split; [exact F|split; [exact S'|exact I]]).
        destruct (IH _ _ _ _ ST R) as [W T]. split; auto. rewrite T. simpl.
        rewrite <- !app_assoc. rewrite (app_assoc (stk_toks stk')). rewrite T'.
        rewrite <- !app_assoc. reflexivity.
      + destruct cur; try discriminate.
        assert (ST : state_ok (stk :: frames) [] None) by (split; [constructor; assumption|split; simpl; auto]).
        destruct (IH _ _ _ _ ST R) as [W T]. split; auto. rewrite T. simpl. rewrite <- !app_assoc. reflexivity.
      + destruct cur as [c|]; try discriminate. destruct frames as [|f fs]; try discriminate.
        destruct C as [Wc Nc]. inversion F; subst.
        destruct (nonbin_ok c stk OpPipe Nc) as [N1 _].
        destruct (reduce_end_sound stk c S Wc N1) as [W' T'].
        assert (ST : state_ok fs f (Some (Paren (reduce_end stk c)))) by (split; [assumption|split; [assumption|simpl; auto]]).
        destruct (IH _ _ _ _ ST R) as [W T]. split; auto. rewrite T. simpl. rewrite T'.
        repeat (rewrite <- ?app_assoc; simpl). reflexivity.
  Qed.

  Theorem parse_sound : forall ts e, parse ts = Some e -> wf e /\ toks e = ts.
  Proof.
    intros ts e R. apply run_sound in R.
    - simpl in R. exact R.
    - repeat split; simpl; auto.
  Qed.

  (* the parser accepts exactly the precedence-respecting bracketings, and each token list has at most one *)
  Theorem parse_iff : forall ts e, parse ts = Some e <-> (wf e /\ toks e = ts).
  Proof.
    intros ts e. split.
    - apply parse_sound.
    - intros [W T]. subst. apply print_parse; auto.
  Qed.

  Theorem wf_unique : forall e1 e2, wf e1 -> wf e2 -> toks e1 = toks e2 -> e1 = e2.
  Proof.
    intros e1 e2 W1 W2 T. apply print_parse in W1. apply print_parse in W2.
    rewrite T in W1. congruence.
  Qed.

  (* how two operators around three atoms group: exactly as the table says *)
  Theorem prec_triple : forall a b c o1 o2,
    parse [TAtom a; TOp o1; TAtom b; TOp o2; TAtom c] =
    match cmp o1 o2 with
    | Reduce => Some (Bin o2 (Bin o1 (Atom a) (Atom b)) (Atom c))
    | Shift => Some (Bin o1 (Atom a) (Bin o2 (Atom b) (Atom c)))
    | Err => None
    end.
  Proof. intros. unfold Ops.parse. simpl. destruct (cmp o1 o2); reflexivity. Qed.

  Lemma wfb_wf : forall e, wfb atom lvl asc e = true <-> wf e.
  Proof.
    induction e as [a|e IH|o l IHl r IHr]; simpl.
    - tauto.
    - exact IH.
    - rewrite !andb_true_iff, IHl, IHr.
      assert (L : left_okb atom lvl asc o l = true <-> left_ok atom lvl asc o l).
      { destruct l; simpl; try tauto. destruct (cmp o0 o); split; congruence. }
      assert (R : right_okb atom lvl asc o r = true <-> right_ok atom lvl asc o r).
      { destruct r; simpl; try tauto. destruct (cmp o o0); split; congruence. }
      tauto.
  Qed.
End Proofs.
