(* C09c / strings — (1) scanning "safe" bytes: scanString of lexer.go walks over plain bytes and complete, valid
   escapes without leaving the string, in either mode; (2) encoder.encodeString (Printer.encode_string) only ever
   writes safe bytes between its quotes, for EVERY byte string (control characters, DEL, invalid UTF-8 included).
   Proof side. *)
From Coq Require Import List NArith ZArith Bool Arith Lia ZifyN ZifyNat ZifyBool.
From Verif Require Import common.Sexp c09.Lexer c09.LexProofs c09.Printer.
Import ListNotations.
Local Open Scope nat_scope.
Local Open Scope list_scope.

Definition simple_esc (e : N) : bool :=
  ((e =? 34) || (e =? 47) || (e =? 92) || (e =? 98) || (e =? 102) || (e =? 110) || (e =? 114) || (e =? 116))%N.

(* bytes of a string body: no bare quote; every backslash starts a simple escape (quote, slash, backslash, b f n r t)
   or uXXXX with four hex digits; never an interpolation *)
Fixpoint safeb (l : list N) : bool :=
  match l with
  | [] => true
  | c :: r =>
      if (c =? 92)%N then
        match r with
        | e :: r2 =>
            if (e =? 117)%N then
              match r2 with
              | h1 :: h2 :: h3 :: h4 :: r6 => isHex h1 && isHex h2 && isHex h3 && isHex h4 && safeb r6
              | _ => false
              end
            else simple_esc e && safeb r2
        | [] => false
        end
      else if (c =? 34)%N then false else safeb r
  end.

Lemma simple_esc_not : forall e, simple_esc e = true -> (e =? 117)%N = false /\ (e =? 40)%N = false.
Proof.
  intros e H. unfold simple_esc in H.
  repeat (apply orb_prop in H; destruct H as [H|H]); apply N.eqb_eq in H; subst e; split; reflexivity.
Qed.

(* the core fact: safe bytes are skipped, whatever the mode *)
Lemma scan_skip : forall n piece rest i start p0 instr, List.length piece <= n -> safeb piece = true ->
  scanString_s (piece ++ rest) i start p0 instr = scanString_s rest (i + List.length piece) start p0 instr.
Proof.
  induction n as [|n IH]; intros piece rest i start p0 instr L S.
  - destruct piece; [simpl; f_equal; lia|simpl in L; lia].
  - destruct piece as [|c r]; [simpl; f_equal; lia|].
    simpl in S. destruct (c =? 92)%N eqn:E92.
    + destruct r as [|e r2]; [discriminate S|].
      destruct (e =? 117)%N eqn:E117.
      * destruct r2 as [|h1 [|h2 [|h3 [|h4 r6]]]]; try discriminate S.
        apply andb_prop in S. destruct S as [S S6]. apply andb_prop in S. destruct S as [S H4].
        apply andb_prop in S. destruct S as [S H3]. apply andb_prop in S. destruct S as [H1 H2].
        cbn [app scanString_s]. rewrite E92, E117, H1, H2, H3, H4.
        rewrite IH; [f_equal; simpl; lia|simpl in L; lia|exact S6].
      * apply andb_prop in S. destruct S as [SE S2].
        cbn [app scanString_s]. rewrite E92, E117.
        replace ((e =? 34) || (e =? 47) || (e =? 92) || (e =? 98) || (e =? 102) || (e =? 110) || (e =? 114) || (e =? 116))%N
          with true by (symmetry; exact SE).
        rewrite IH; [f_equal; simpl; lia|simpl in L; lia|exact S2].
    + destruct (c =? 34)%N eqn:E34; [discriminate S|].
      cbn [app scanString_s]. rewrite E92, E34.
      rewrite IH; [f_equal; simpl; lia|simpl in L; lia|exact S].
Qed.

Lemma safeb_app : forall n a b, List.length a <= n -> safeb a = true -> safeb (a ++ b) = safeb b.
Proof.
  induction n as [|n IH]; intros a b L S.
  - destruct a; [reflexivity|simpl in L; lia].
  - destruct a as [|c r]; [reflexivity|].
    simpl in S. cbn [app safeb]. destruct (c =? 92)%N eqn:E92.
    + destruct r as [|e r2]; [discriminate S|]. cbn [app].
      destruct (e =? 117)%N eqn:E117.
      * destruct r2 as [|h1 [|h2 [|h3 [|h4 r6]]]]; try discriminate S. cbn [app].
        apply andb_prop in S. destruct S as [S S6]. rewrite S. cbn [andb].
        apply IH; [simpl in L; lia|exact S6].
      * apply andb_prop in S. destruct S as [SE S2]. rewrite SE. cbn [andb].
        apply IH; [simpl in L; lia|exact S2].
    + destruct (c =? 34)%N eqn:E34; [discriminate S|]. apply IH; [simpl in L; lia|exact S].
Qed.

Lemma safeb_app_true : forall a b, safeb a = true -> safeb b = true -> safeb (a ++ b) = true.
Proof. intros a b A B. rewrite (safeb_app (List.length a) a b (le_n _) A). exact B. Qed.

(* ---- encodeString writes safe bytes ---------------------------------------------------------------------- *)
Lemma below_128 : forall (P : N -> bool), forallb P (map N.of_nat (seq 0 128)) = true ->
  forall b, (b <? 128)%N = true -> P b = true.
Proof.
  intros P H b L. apply N.ltb_lt in L. rewrite forallb_forall in H. apply H.
  rewrite <- (N2Nat.id b). apply in_map. apply in_seq. lia.
Qed.

(* the chunk written for one byte below 128 *)
Definition ascii_chunk (b : N) : list N :=
  if ((32 <=? b) && (b <=? 126) && negb (b =? 34) && negb (b =? 92))%N then [b]
  else if (b =? 34)%N then [92; 34]%N else if (b =? 92)%N then [92; 92]%N else if (b =? 8)%N then [92; 98]%N
  else if (b =? 12)%N then [92; 102]%N else if (b =? 10)%N then [92; 110]%N else if (b =? 13)%N then [92; 114]%N
  else if (b =? 9)%N then [92; 116]%N
  else [92; 117; 48; 48; hexd (N.shiftr b 4); hexd (N.land b 15)]%N.

Lemma ascii_chunk_safe : forall b, (b <? 128)%N = true -> safeb (ascii_chunk b) = true.
Proof. apply (below_128 (fun b => safeb (ascii_chunk b))). vm_compute. reflexivity. Qed.

Lemma high_safe : forall c, (128 <=? c)%N = true -> (c =? 92)%N = false /\ (c =? 34)%N = false.
Proof. intros c H. apply N.leb_le in H. split; apply N.eqb_neq; lia. Qed.

Lemma high_list_safe : forall l, forallb (fun c => (128 <=? c)%N) l = true -> safeb l = true.
Proof.
  induction l as [|c r IH]; intros H; [reflexivity|]. simpl in H. apply andb_prop in H. destruct H as [H1 H2].
  destruct (high_safe c H1) as [A B]. simpl. rewrite A, B. auto.
Qed.

Lemma utf8_chunk_high : forall c0 r n, (c0 <? 128)%N = false -> utf8_len (c0 :: r) = Some n ->
  forallb (fun c => (128 <=? c)%N) (firstn n (c0 :: r)) = true.
Proof.
  intros c0 r n H0 U. assert (G0 : (128 <=? c0)%N = true) by (apply N.leb_le; apply N.ltb_ge in H0; lia).
  unfold utf8_len in U. rewrite H0 in U.
  assert (RANGE : forall lo hi c, (128 <= lo)%N -> ((lo <=? c) && (c <=? hi))%N = true -> (128 <=? c)%N = true).
  { intros lo hi c L H. apply andb_prop in H. destruct H as [A _]. apply N.leb_le in A. apply N.leb_le. lia. }
  assert (CONT : forall c, cont c = true -> (128 <=? c)%N = true).
  { intros c H. unfold cont in H. apply andb_prop in H. tauto. }
  destruct ((194 <=? c0) && (c0 <=? 223))%N.
  - destruct r as [|c1 r1]; [discriminate U|]. destruct (cont c1) eqn:C1; [|discriminate U].
    inversion U; subst n. simpl. rewrite G0, (CONT c1 C1). reflexivity.
  - destruct ((224 <=? c0) && (c0 <=? 239))%N.
    + destruct r as [|c1 [|c2 r2]]; try discriminate U.
      destruct (((if (c0 =? 224)%N then 160 else 128) <=? c1) && (c1 <=? (if (c0 =? 237)%N then 159 else 191)) && cont c2)%N eqn:C;
        [|discriminate U].
      inversion U; subst n. apply andb_prop in C. destruct C as [C1 C2].
      simpl. rewrite G0, (CONT c2 C2).
      assert (L : (128 <= (if (c0 =? 224)%N then 160 else 128))%N) by (destruct (c0 =? 224)%N; lia).
      rewrite (RANGE _ _ c1 L C1). reflexivity.
    + destruct ((240 <=? c0) && (c0 <=? 244))%N; [|discriminate U].
      destruct r as [|c1 [|c2 [|c3 r3]]]; try discriminate U.
      destruct (((if (c0 =? 240)%N then 144 else 128) <=? c1) && (c1 <=? (if (c0 =? 244)%N then 143 else 191)) && cont c2 && cont c3)%N eqn:C;
        [|discriminate U].
      inversion U; subst n. apply andb_prop in C. destruct C as [C C3]. apply andb_prop in C. destruct C as [C1 C2].
      simpl. rewrite G0, (CONT c2 C2), (CONT c3 C3).
      assert (L : (128 <= (if (c0 =? 240)%N then 144 else 128))%N) by (destruct (c0 =? 240)%N; lia).
      rewrite (RANGE _ _ c1 L C1). reflexivity.
Qed.

(* one round of the loop below 128 writes ascii_chunk *)
Lemma enc_step_ascii : forall f b r acc, (b <? 128)%N = true ->
  enc_str_loop (S f) (b :: r) acc = enc_str_loop f r (rev_append (ascii_chunk b) acc).
Proof.
  intros f b r acc H. cbn [enc_str_loop]. rewrite H. unfold ascii_chunk.
  destruct ((32 <=? b) && (b <=? 126) && negb (b =? 34) && negb (b =? 92))%N; [reflexivity|].
  destruct (b =? 34)%N; [reflexivity|]. destruct (b =? 92)%N; [reflexivity|]. destruct (b =? 8)%N; [reflexivity|].
  destruct (b =? 12)%N; [reflexivity|]. destruct (b =? 10)%N; [reflexivity|]. destruct (b =? 13)%N; [reflexivity|].
  destruct (b =? 9)%N; reflexivity.
Qed.

(* everything the loop adds to the accumulator is safe *)
Lemma enc_loop_safe : forall fuel s acc, safeb (rev acc) = true -> safeb (rev (enc_str_loop fuel s acc)) = true.
Proof.
  induction fuel as [|f IH]; intros s acc A; [exact A|].
  destruct s as [|b r]; [exact A|].
  destruct (b <? 128)%N eqn:B.
  - rewrite enc_step_ascii by exact B. apply IH.
    rewrite rev_append_rev, rev_app_distr, rev_involutive. apply safeb_app_true; auto. apply ascii_chunk_safe; auto.
  - cbn [enc_str_loop]. rewrite B.
    destruct (utf8_len (b :: r)) as [n|] eqn:U.
    + apply IH. unfold wbs. rewrite rev_append_rev, rev_app_distr, rev_involutive.
      apply safeb_app_true; auto. apply high_list_safe. apply (utf8_chunk_high b r n B U).
    + apply IH. unfold ws. rewrite rev_append_rev, rev_app_distr, rev_involutive.
      apply safeb_app_true; auto.
Qed.

(* the accumulator is only ever extended *)
Lemma enc_loop_acc : forall fuel s acc, enc_str_loop fuel s acc = enc_str_loop fuel s [] ++ acc.
Proof.
  induction fuel as [|f IH]; intros s acc; [reflexivity|].
  destruct s as [|b r]; [reflexivity|].
  assert (G : forall s' x, enc_str_loop f s' (x ++ acc) = enc_str_loop f s' x ++ acc).
  { intros s' x. rewrite (IH s' (x ++ acc)), (IH s' x). rewrite app_assoc. reflexivity. }
  destruct (b <? 128)%N eqn:B.
  - rewrite !enc_step_ascii by exact B. rewrite !rev_append_rev. rewrite G, app_nil_r. reflexivity.
  - cbn [enc_str_loop]. rewrite B. destruct (utf8_len (b :: r)) as [n|].
    + unfold wbs. rewrite !rev_append_rev. rewrite G, app_nil_r. reflexivity.
    + unfold ws. rewrite !rev_append_rev. rewrite G, app_nil_r. reflexivity.
Qed.

(* the bytes between the quotes of what encodeString writes for s *)
Definition enc_body (s : list N) : list N := rev (enc_str_loop (S (List.length s)) s []).

Theorem enc_body_safe : forall s, safeb (enc_body s) = true.
Proof. intros s. unfold enc_body. apply enc_loop_safe. reflexivity. Qed.

Theorem encode_string_bytes : forall s acc,
  encode_string s acc = rev_append (34%N :: enc_body s ++ [34%N]) acc.
Proof.
  intros s acc. unfold encode_string, enc_body, wb. rewrite enc_loop_acc.
  rewrite rev_append_rev. simpl. rewrite rev_app_distr, rev_involutive. simpl.
  rewrite <- app_assoc. reflexivity.
Qed.

Lemma ascii_chunk_nonempty : forall b, (b <? 128)%N = true -> ascii_chunk b <> [].
Proof.
  intros b H. pose proof (below_128 (fun b => negb (match ascii_chunk b with [] => true | _ => false end))) as P.
  specialize (P ltac:(vm_compute; reflexivity) b H). simpl in P. destruct (ascii_chunk b); [discriminate P|discriminate].
Qed.

Lemma enc_body_nonempty : forall c r, enc_body (c :: r) <> [].
Proof.
  intros c r. unfold enc_body.
  assert (G : forall f s' acc, acc <> [] -> rev (enc_str_loop f s' acc) <> []).
  { intros f s' acc NE H. rewrite enc_loop_acc in H. rewrite rev_app_distr in H.
    apply app_eq_nil in H. destruct H as [H _]. destruct acc; [congruence|]. simpl in H.
    apply app_eq_nil in H. destruct H as [_ H]. discriminate H. }
  destruct (c <? 128)%N eqn:B.
  - rewrite enc_step_ascii by exact B. apply G. rewrite rev_append_rev, app_nil_r.
    intros H. apply (ascii_chunk_nonempty c B). destruct (ascii_chunk c); [reflexivity|].
    simpl in H. apply app_eq_nil in H. destruct H as [_ H]. discriminate H.
  - cbn [enc_str_loop]. rewrite B. destruct (utf8_len (c :: r)) as [n|] eqn:U.
    + apply G. unfold wbs. rewrite rev_append_rev, app_nil_r.
      destruct (LexProofs.utf8_len_bound (c :: r) n U) as [N1 _].
      destruct n; [lia|]. simpl. intros H. apply app_eq_nil in H. destruct H as [_ H]. discriminate H.
    + apply G. discriminate.
Qed.
