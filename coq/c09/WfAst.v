(* C09c / wfq — a syntactic description of the image of gojq.Parse, as a boolean predicate over the full AST.

   NECESSARY conditions only (every AST the parser returns satisfies them; checked on every accepted program of the
   correspondence, RunFull.v), per node:
     names          lexically valid for the token that produced them: function names are identifiers (optionally
                    module-qualified, optionally $variables) and not keywords; .fields are identifiers; formats are
                    @identifier; labels, break targets, pattern variables are $identifier; definition names are
                    identifiers, parameters identifiers or $identifier; number texts are non-empty over 0-9 . e E + -
     Index          exactly one of Name / Str / bracket form; a bracket form is an index with Start, or a slice with
                    Start or End
     Suffix         exactly one of Index / Iter / Optional
     Query          a term, or Left Op Right (Patterns only with `|`), or (top level) definitions only; nested
                    queries have no imports
     unary, try, label   carry no suffixes of their own (the parser attaches suffixes to the inner term); the unary
                    operator is + or -
     strings        an interpolated string (Queries /= nil) has Str = "", at least one query part, literal parts
                    that are non-empty plain strings, never two literal parts in a row
     object keys / pattern keys   exactly one of Key / KeyString / KeyQuery; a computed key has a value
     patterns       exactly one of Name / non-empty Array / non-empty Object
   NOT described: operator precedence between an operator and its operands (the LR part of the image).
   Definitions only. *)
From Coq Require Import List NArith Bool String.
From Verif Require Import common.Sexp sem.JV sem.Syntax c09.GrammarTypes gen.GenGrammar c09.Lexer c09.FullAst.
Import ListNotations.
Local Open Scope list_scope.
Local Open Scope N_scope.

Definition nonempty {A} (l : list A) : bool := match l with [] => false | _ => true end.
Definition ident_ok (n : list N) : bool :=
  match n with c :: r => isIdent c false && forallb (fun c => isIdent c true) r | [] => false end.
Definition not_kw (n : list N) : bool := match lookup_kw n keywords with None => true | Some _ => false end.
(* ident or ident::ident *)
Fixpoint split_colons (n acc : list N) : list N * option (list N) :=
  match n with
  | 58 :: 58 :: r => (rev acc, Some r)
  | c :: r => split_colons r (c :: acc)
  | [] => (rev acc, None)
  end.
Definition modident_ok (n : list N) : bool :=
  match split_colons n [] with
  | (a, None) => ident_ok a && not_kw a
  | (a, Some b) => ident_ok a && ident_ok b
  end.
Definition var_ok (n : list N) : bool := match n with 36 :: r => ident_ok r | _ => false end.
Definition modvar_ok (n : list N) : bool :=
  match n with 36 :: r => match split_colons r [] with (a, None) => ident_ok a | (a, Some b) => ident_ok a && ident_ok b end
  | _ => false end.
Definition funcname_ok (n : list N) : bool := modident_ok n || modvar_ok n.
Definition format_ok (n : list N) : bool := match n with 64 :: r => nonempty r && forallb (fun c => isIdent c true) r | _ => false end.
Definition numtext_ok (n : list N) : bool :=
  nonempty n && forallb (fun c => isNumber c || (c =? 46) || (c =? 101) || (c =? 69) || (c =? 43) || (c =? 45)) n.
Definition key_ok (k : list N) : bool := ident_ok k || var_ok k.          (* identifier, keyword or $variable *)
Definition is_none {A} (o : option A) : bool := match o with None => true | Some _ => false end.
Definition is_some {A} (o : option A) : bool := negb (is_none o).

Fixpoint wfq_in (top : bool) (q : query) {struct q} : bool :=
  match q with
  | Query imps fds t l o r pats =>
      (top || negb (nonempty imps)) &&
      forallb wf_funcdef fds &&
      match t, l, o, r with
      | Some t, None, None, None => negb (nonempty pats) && wf_term t
      | None, Some l, Some o, Some r =>
          wfq_in false l && wfq_in false r &&
          (negb (nonempty pats) || match o with OpPipe => true | _ => false end) && forallb wf_pattern pats
      | None, None, None, None => top && negb (nonempty pats)
      | _, _, _, _ => false
      end
  end
with wf_funcdef (f : funcdef) {struct f} : bool :=
  match f with
  | FuncDef name args body => ident_ok name && not_kw name && forallb (fun a => (ident_ok a && not_kw a) || var_ok a) args && wfq_in false body
  end
with wf_term (t : term) {struct t} : bool :=
  match t with
  | Term k sfx =>
      forallb wf_suffix sfx &&
      match k with
      | TIdentity | TRecurse | TNull | TTrue | TFalse => true
      | TIndex i => wf_index i
      | TFunc (Func name args) => funcname_ok name && forallb (wfq_in false) args
      | TObject kvs => forallb wf_kv kvs
      | TArray q => match q with Some q => wfq_in false q | None => true end
      | TNumber tx _ => numtext_ok tx
      | TUnary o t => match o with OpAdd | OpSub => true | _ => false end && negb (nonempty sfx) && wf_term t
      | TFormat f str => format_ok f && match str with Some s => wf_jstring s | None => true end
      | TString s => wf_jstring s
      | TIf c th el e =>
          wfq_in false c && wfq_in false th && forallb (fun ct => wfq_in false (fst ct) && wfq_in false (snd ct)) el &&
          match e with Some e => wfq_in false e | None => true end
      | TTry b c => negb (nonempty sfx) && wfq_in false b && match c with Some c => wfq_in false c | None => true end
      | TReduce s p i u => wfq_in false s && wf_pattern p && wfq_in false i && wfq_in false u
      | TForeach s p i u e =>
          wfq_in false s && wf_pattern p && wfq_in false i && wfq_in false u &&
          match e with Some e => wfq_in false e | None => true end
      | TLabel id b => negb (nonempty sfx) && var_ok id && wfq_in false b
      | TBreak l => var_ok l
      | TQuery q => wfq_in false q
      end
  end
with wf_index (i : index) {struct i} : bool :=
  match i with
  | Index name str st en sl =>
      match name, str with
      | _ :: _, None => ident_ok name && is_none st && is_none en && negb sl
      | [], Some s => wf_jstring s && is_none st && is_none en && negb sl
      | [], None =>
          (if sl then is_some st || is_some en else is_some st && is_none en) &&
          match st with Some q => wfq_in false q | None => true end &&
          match en with Some q => wfq_in false q | None => true end
      | _, _ => false
      end
  end
with wf_jstring (s : jstring) {struct s} : bool :=
  match s with
  | JString _ None => true
  | JString str (Some qs) =>
      negb (nonempty str) &&
      existsb (fun e => match e with Query _ _ (Some (Term (TQuery _) _)) _ _ _ _ => true | _ => false end) qs &&
      forallb (fun e =>
                 match e with
                 | Query [] [] (Some (Term (TString (JString s None)) [])) None None None [] => nonempty s
                 | Query [] [] (Some (Term (TQuery q) [])) None None None [] => wfq_in false q
                 | _ => false
                 end) qs &&
      (fix noadj (l : list query) (prev_lit : bool) : bool :=
         match l with
         | [] => true
         | Query _ _ (Some (Term (TString _) _)) _ _ _ _ :: r => negb prev_lit && noadj r true
         | _ :: r => noadj r false
         end) qs false
  end
with wf_kv (kv : objectkeyval) {struct kv} : bool :=
  match kv with
  | ObjectKeyVal k ks kq v =>
      match k, ks, kq with
      | _ :: _, None, None => key_ok k
      | [], Some s, None => wf_jstring s
      | [], None, Some q => wfq_in false q && is_some v
      | _, _, _ => false
      end && match v with Some v => wfq_in false v | None => true end
  end
with wf_suffix (s : suffix) {struct s} : bool :=
  match s with
  | Suffix (Some i) false false => wf_index i
  | Suffix None true false => true
  | Suffix None false true => true
  | _ => false
  end
with wf_pattern (p : pattern) {struct p} : bool :=
  match p with
  | Pattern name arr obj =>
      match name, arr, obj with
      | _ :: _, [], [] => var_ok name
      | [], _ :: _, [] => forallb wf_pattern arr
      | [], [], _ :: _ => forallb wf_patobj obj
      | _, _, _ => false
      end
  end
with wf_patobj (p : patternobject) {struct p} : bool :=
  match p with
  | PatternObject k ks kq v =>
      match k, ks, kq with
      | _ :: _, None, None => if is_none v then var_ok k else key_ok k
      | [], Some s, None => wf_jstring s && is_some v
      | [], None, Some q => wfq_in false q && is_some v
      | _, _, _ => false
      end && match v with Some v => wf_pattern v | None => true end
  end.

(* nested query / what Parse returns *)
Definition wfq (q : query) : bool := wfq_in false q.
Definition wf_prog (p : prog) : bool :=
  wfq_in true (pquery p) &&
  Nat.eqb (List.length (pimeta p)) (List.length (match pquery p with Query imps _ _ _ _ _ _ => imps end)).
