(* C09 correspondence: one harness line -> verdict.  Line forms (see harness/c09/main.go):

     byte strings <h> = (h <hex chunk of at most 16 bytes> ...)
     (lex <h src> <tok> ...)       the implementation's token stream, recorded by VerifLex (verif_lexer.go)
         <tok> = (<kind> <h l.token> <l.offset> <inString 0|1> <ParseError.Offset> <h ParseError.Token>)
         <kind> = eof | (c <byte>) | <goyacc token constant name>
       verdict: ok, or (bad <index> <the model's token>) at the first difference
     (ops <h src> <ast> <h String()>)   operator sublanguage: what gojq.Parse built and printed
         <ast> = (a <hexname>) | (p <ast>) | (b <OpName> <ast> <ast>) | err | other
       verdict: the model (Lexer.v + the operator-precedence parser driven by the tables regenerated from
       parser.go.y) parses to the same AST / also rejects, and its printer emits the same bytes.
     (spec (ops ...))              the same judged by jq's table as the property words it (Ops.jq_lvl) *)
From Coq Require Import List NArith Bool String Ascii Arith.
From Verif Require Import common.Sexp c09.GrammarTypes gen.GenGrammar c09.Ops c09.Lexer.
Import ListNotations.
Local Open Scope list_scope.
Local Open Scope N_scope.

Notation SA := Sexp.Atom.

Definition print_nat (n : nat) : list N := print_N (N.of_nat n).

(* byte strings travel as (h <hex chunk> ...), at most 16 bytes per chunk (Sexp.tokens is cubic in the length
   of an atom once extracted: it reverses the accumulated atom eagerly at every character) *)
Fixpoint chunks (fuel : nat) (l : list N) : list (list N) :=
  match fuel with
  | O => []
  | S f => match l with [] => [] | _ => firstn 16 l :: chunks f (skipn 16 l) end
  end.
Definition enc_hexl (l : list N) : sexp := SList (A "h" :: map (fun c => SA (print_hex c)) (chunks (S (List.length l)) l)).
Fixpoint dec_chunks (cs : list sexp) : option (list N) :=
  match cs with
  | [] => Some []
  | SA a :: r => match parse_hex a, dec_chunks r with Some x, Some y => Some (x ++ y) | _, _ => None end
  | _ => None
  end.
Definition dec_hexl (e : sexp) : option (list N) :=
  match e with SList (t :: cs) => if atom_is "h" t then dec_chunks cs else None | _ => None end.

Definition enc_kind (k : tk) : sexp :=
  match k with
  | KEOF => A "eof"
  | KChar c => SList [A "c"; SA (print_N c)]
  | KTok n => A n
  end.

Definition enc_tok (t : ltok) : sexp :=
  SList [enc_kind (tkind t); enc_hexl (ttext t); SA (print_nat (tend t));
         SA (if tinstr t then codes "1" else codes "0");
         SA (print_nat (fst (terr t))); enc_hexl (snd (terr t))].

Definition sexp_eqb (a b : sexp) : bool := list_N_eqb (print a) (print b).

Fixpoint cmp_stream (idx : nat) (model : list ltok) (impl : list sexp) : sexp :=
  match model, impl with
  | [], [] => A "ok"
  | m :: ms, i :: is => if sexp_eqb (enc_tok m) i then cmp_stream (S idx) ms is
                        else SList [A "bad"; SA (print_nat idx); enc_tok m]
  | m :: _, [] => SList [A "bad"; SA (print_nat idx); enc_tok m]
  | [], _ :: _ => SList [A "bad"; SA (print_nat idx); A "end"]
  end.

Definition run_lex (src : list N) (impl : list sexp) : sexp :=
  match tokenize src with
  | Some ts => cmp_stream 0 ts impl
  | None => SList [A "bad"; A "model-error"]
  end.

(* ------------------------------------------------------------------------------------------------ *)
(* operator sublanguage *)

Definition tok_name (k : tk) : string :=
  match k with
  | KEOF => "eof"
  | KChar c => String "'" (String (ascii_of_N c) (String "'" EmptyString))
  | KTok n => n
  end.

(* the operator a token stands for according to the CURRENT grammar and lexer tables *)
Definition gen_binop_of_tok (k : tk) (text : list N) : option binop :=
  let t := tok_name k in
  match find (fun r => String.eqb (snd (fst r)) t &&
                       (String.eqb (fst (fst r)) "query" || String.eqb (fst (fst r)) "expr")) bin_rules with
  | Some (_, _, o) =>
      if String.eqb o "$2" then
        match find (fun r => list_N_eqb (codes (fst (fst r))) text && String.eqb (snd (fst r)) t) lex_ops with
        | Some (_, _, oname) => op_of_name oname
        | None => None
        end
      else op_of_name o
  | None => None
  end.

Definition jq_binop_of_text (text : list N) : option binop :=
  find (fun o => list_N_eqb (codes (jq_op_text o)) text) all_ops.

Definition tok_text (t : ltok) : list N := match tkind t with KChar c => [c] | _ => ttext t end.

(* what the parser sees of a token: its kind and its text *)
Definition proj (t : ltok) : tk * list N := (tkind t, tok_text t).

(* model path (use_gen): token kinds decide, through the regenerated tables.  Property path: the TEXT of the
   token decides (an operator of jq is an operator whatever kind the current lexer gives it), atoms are the
   remaining identifiers *)
Definition optok_of (use_gen : bool) (k : tk) (text : list N) : option (tok (list N)) :=
  let is_ident := match k with KTok n => String.eqb n "tokIdent" | _ => false end in
  match k with
  | KChar 40 => Some TLP
  | KChar 41 => Some TRP
  | _ =>
      if use_gen then
        if is_ident then Some (TAtom text) else option_map TOp (gen_binop_of_tok k text)
      else
        match jq_binop_of_text text with
        | Some o => Some (TOp o)
        | None => if is_ident then Some (TAtom text) else None
        end
  end.

Fixpoint to_optoks (use_gen : bool) (ts : list (tk * list N)) : option (list (tok (list N))) :=
  match ts with
  | [] => Some []
  | (KEOF, _) :: _ => Some []
  | (k, text) :: r =>
      match optok_of use_gen k text, to_optoks use_gen r with
      | Some x, Some xs => Some (x :: xs)
      | _, _ => None
      end
  end.

Fixpoint enc_expr (e : expr (list N)) : sexp :=
  match e with
  | Ops.Atom a => SList [A "a"; SA (print_hexs a)]
  | Paren e => SList [A "p"; enc_expr e]
  | Bin o l r => SList [A "b"; A (op_name o); enc_expr l; enc_expr r]
  end.

Definition model_parse (use_gen : bool) (src : list N) : option (option (expr (list N))) :=
  match tokenize src with
  | Some ts =>
      match to_optoks use_gen (map proj ts) with
      | Some ots => Some (if use_gen then Ops.parse (list N) gen_lvl gen_asc ots else Ops.parse (list N) jq_lvl jq_asc ots)
      | None => None
      end
  | None => None
  end.

Definition run_ops (use_gen : bool) (src : list N) (ast : sexp) (str : list N) : sexp :=
  match model_parse use_gen src with
  | None => A "undecodable"
  | Some None => if atom_is "err" ast then A "ok" else SList [A "bad"; A "err"]
  | Some (Some e) =>
      let printed := print_bytes (if use_gen then gen_op_bytes else jq_op_bytes) e in
      if sexp_eqb (enc_expr e) ast then
        if list_N_eqb printed str then A "ok" else SList [A "bad"; A "print"; enc_hexl printed]
      else SList [A "bad"; enc_expr e]
  end.

Definition run_sexp (use_gen : bool) (e : sexp) : sexp :=
  match e with
  | SList (k :: h :: rest) =>
      match dec_hexl h with
      | Some src =>
          if atom_is "lex" k then (if use_gen then run_lex src rest else A "ok")
          else if atom_is "ops" k then
            match rest with
            | [ast; s] => match dec_hexl s with Some str => run_ops use_gen src ast str | None => A "undecodable" end
            | _ => A "undecodable"
            end
          else A "undecodable"
      | None => A "undecodable"
      end
  | _ => A "undecodable"
  end.

Definition run_line (l : list N) : list N :=
  match Sexp.parse l with
  | Some (SList [k; e]) => if atom_is "spec" k then print (run_sexp false e) else print (run_sexp true (SList [k; e]))
  | Some e => print (run_sexp true e)
  | None => codes "unparsable"
  end.
