(* C09c / M3 — the finite case families of the theorems over the REAL tables, with their expected ASTs written
   out as explicit functions (nothing here runs the parser).  Sources are token texts joined by single spaces.

   Atoms a b c d e f g are the identifiers (function calls) of those names; $x $y variables; the 24 operators are
   spelled as jq spells them ([jq_text], independent of operator.go).  Definitions only. *)
From Coq Require Import List NArith ZArith Bool String.
From Verif Require Import common.Sexp sem.JV sem.Syntax c09.FullAst c09.ParseActions.
Import ListNotations.
Local Open Scope list_scope.
Local Open Scope string_scope.

Definition jq_text (o : operator) : string :=
  match o with
  | OpPipe => "|" | OpComma => "," | OpAdd => "+" | OpSub => "-" | OpMul => "*" | OpDiv => "/" | OpMod => "%"
  | OpEq => "==" | OpNe => "!=" | OpGt => ">" | OpLt => "<" | OpGe => ">=" | OpLe => "<="
  | OpAnd => "and" | OpOr => "or" | OpAlt => "//" | OpAssign => "=" | OpModify => "|="
  | OpUpdateAdd => "+=" | OpUpdateSub => "-=" | OpUpdateMul => "*=" | OpUpdateDiv => "/="
  | OpUpdateMod => "%=" | OpUpdateAlt => "//="
  end.

(* `|` and `,` are operators of `query`; the other 22 of `expr` *)
Definition is_query_op (o : operator) : bool := match o with OpPipe | OpComma => true | _ => false end.

Definition src (toks : list string) : list N := codes (String.concat " " toks).

(* ---- AST builders ------------------------------------------------------------------------------------ *)
Definition tcall (n : string) : term := Term (TFunc (Func (codes n) [])) [].
Definition at_ (n : string) : query := qterm (tcall n).
Definition bin (l : query) (o : operator) (r : query) : query := Query [] [] None (Some l) (Some o) (Some r) [].
Definition var (n : string) : pattern := Pattern (codes n) [] [].
Definition bind (l : query) (ps : list pattern) (r : query) : query :=
  Query [] [] None (Some l) (Some OpPipe) (Some r) ps.
Definition with_defs (fds : list funcdef) (q : query) : query :=
  match q with Query i f t l o r p => Query i (fds ++ f) t l o r p end.
Definition num (t : string) : query := qterm (Term (TNumber (codes t) num0) []).

Definition s_name (n : string) : suffix := Suffix (Some (Index (codes n) None None None false)) false false.
Definition s_str (s : string) : suffix := Suffix (Some (Index [] (Some (JString (codes s) None)) None None false)) false false.
Definition s_idx (q : query) : suffix := Suffix (Some (Index [] None (Some q) None false)) false false.
Definition s_slice (a b : option query) : suffix := Suffix (Some (Index [] None a b true)) false false.
Definition s_iter : suffix := Suffix None true false.
Definition s_opt : suffix := Suffix None false true.

Definition add_sfx (t : term) (s : list suffix) : term := match t with Term k l => Term k (l ++ s) end.

(* ---- (b1) unary sign ----------------------------------------------------------------------------------- *)
Definition signs : list (string * operator) := [("+", OpAdd); ("-", OpSub)].

(* suffix chains: source tokens and the SuffixList they denote *)
Definition sfx_forms : list (list string * list suffix) :=
  [([], []);
   ([".b"], [s_name "b"]);
   ([".""k"""], [s_str "k"]);
   (["["; "0"; "]"], [s_idx (num "0")]);
   (["["; "1"; ":"; "2"; "]"], [s_slice (Some (num "1")) (Some (num "2"))]);
   (["["; "]"], [s_iter]);
   (["?"], [s_opt]);
   ([".b"; "["; "0"; "]"; "?"; "."; "["; "]"; ".c"], [s_name "b"; s_idx (num "0"); s_opt; s_iter; s_name "c"])].

Definition base_terms : list (list string * term) :=
  [(["a"], tcall "a");
   (["$x"], Term (TFunc (Func (codes "$x") [])) []);
   ([".x"], Term (TIndex (Index (codes "x") None None None false)) []);
   (["("; "a"; ")"], Term (TQuery (at_ "a")) []);
   (["["; "a"; "]"], Term (TArray (Some (at_ "a"))) []);
   (["{"; "}"], Term (TObject []) []);
   (["""s"""], Term (TString (JString (codes "s") None)) [])].

Definition unary_q (s : operator) (t : term) : query := qterm (Term (TUnary s t) []).

(* both signs x every term form x every suffix chain x every binary operator (2 x 7 x 8 x 24 = 2688 sources):
     SIGN TERM SUFFIXES OP c   =   (SIGN (TERM SUFFIXES)) OP c
   the sign takes the following term together with ALL its suffixes, and nothing of what follows an operator *)
Definition unary_cases_terms : list (list N * option query) :=
  flat_map (fun sg => flat_map (fun bt => flat_map (fun sf => map (fun o =>
      (src ([fst sg] ++ fst bt ++ fst sf ++ [jq_text o; "c"]),
       Some (bin (unary_q (snd sg) (add_sfx (snd bt) (snd sf))) o (at_ "c"))))
    all_operators) sfx_forms) base_terms) signs.

(* every binary operator on either side of a signed, suffixed term:
     SIGN a.b[0]? OP c  =  (SIGN (a.b[0]?)) OP c      and      c OP SIGN a.b[0]?  =  c OP (SIGN (a.b[0]?)) *)
Definition sfx3_toks : list string := [".b"; "["; "0"; "]"; "?"].
Definition sfx3 : list suffix := [s_name "b"; s_idx (num "0"); s_opt].
Definition unary_cases_ops : list (list N * option query) :=
  flat_map (fun sg => flat_map (fun o =>
      let u := unary_q (snd sg) (add_sfx (tcall "a") sfx3) in
      [(src ([fst sg; "a"] ++ sfx3_toks ++ [jq_text o; "c"]), Some (bin u o (at_ "c")));
       (src (["c"; jq_text o; fst sg; "a"] ++ sfx3_toks), Some (bin (at_ "c") o u))])
    all_operators) signs.

(* ---- (b2) `as` ------------------------------------------------------------------------------------------ *)
(* a OP b as $x | c : the source of the binding is everything back to the nearest `|` or `,`;
   a as $x | b OP c : the body is everything to the right, `|` and `,` included *)
Definition as_cases : list (list N * option query) :=
  flat_map (fun o =>
      [(src ["a"; jq_text o; "b"; "as"; "$x"; "|"; "c"],
        Some (if is_query_op o then bin (at_ "a") o (bind (at_ "b") [var "$x"] (at_ "c"))
              else bind (bin (at_ "a") o (at_ "b")) [var "$x"] (at_ "c")));
       (src ["a"; "as"; "$x"; "|"; "b"; jq_text o; "c"],
        Some (bind (at_ "a") [var "$x"] (bin (at_ "b") o (at_ "c"))))])
    all_operators ++
  [(src ["a"; "as"; "$x"; "|"; "b"; "as"; "[";"$y";"]"; "?//"; "$y"; "|"; "c"],
    Some (bind (at_ "a") [var "$x"] (bind (at_ "b") [Pattern [] [var "$y"] []; var "$y"] (at_ "c"))))].

(* ---- (b3) def ------------------------------------------------------------------------------------------- *)
Definition fd (n : string) (body : query) : funcdef := FuncDef (codes n) [] body.
(* def f: a OP b; c      the body runs to the `;`
   def f: a; b OP c      the definition scopes over the whole rest (it is attached to the outermost query)
   a OP def f: b; c      only `|` and `,` can be followed by a definition *)
Definition def_cases : list (list N * option query) :=
  flat_map (fun o =>
      [(src ["def"; "f"; ":"; "a"; jq_text o; "b"; ";"; "c"],
        Some (with_defs [fd "f" (bin (at_ "a") o (at_ "b"))] (at_ "c")));
       (src ["def"; "f"; ":"; "a"; ";"; "b"; jq_text o; "c"],
        Some (with_defs [fd "f" (at_ "a")] (bin (at_ "b") o (at_ "c"))));
       (src ["a"; jq_text o; "def"; "f"; ":"; "b"; ";"; "c"],
        if is_query_op o then Some (bin (at_ "a") o (with_defs [fd "f" (at_ "b")] (at_ "c"))) else None)])
    all_operators ++
  [(src ["def"; "f"; ":"; "a"; ";"; "def"; "g"; "("; "x"; ";"; "$y"; ")"; ":"; "b"; ";"; "c"],
    Some (with_defs [fd "f" (at_ "a"); FuncDef (codes "g") [codes "x"; codes "$y"] (at_ "b")] (at_ "c")))].

(* ---- (b4) reduce / foreach -------------------------------------------------------------------------------- *)
Definition reduce_q (s : query) (p : pattern) (i u : query) : term := Term (TReduce s p i u) [].
Definition foreach_q (s : query) (p : pattern) (i u : query) (e : option query) : term := Term (TForeach s p i u e) [].
(* reduce a OP b as $x (c; d)            the source is an `expr`: `|` and `,` are rejected there
   reduce a as $x (b OP c; d OP e)       both arguments are full queries
   reduce a as $x (b; c) OP d            the closing parenthesis ends the term *)
Definition reduce_cases : list (list N * option query) :=
  flat_map (fun o =>
      let ot := jq_text o in
      [(src ["reduce"; "a"; ot; "b"; "as"; "$x"; "("; "c"; ";"; "d"; ")"],
        if is_query_op o then None
        else Some (qterm (reduce_q (bin (at_ "a") o (at_ "b")) (var "$x") (at_ "c") (at_ "d"))));
       (src ["reduce"; "a"; "as"; "$x"; "("; "b"; ot; "c"; ";"; "d"; ot; "e"; ")"],
        Some (qterm (reduce_q (at_ "a") (var "$x") (bin (at_ "b") o (at_ "c")) (bin (at_ "d") o (at_ "e")))));
       (src ["reduce"; "a"; "as"; "$x"; "("; "b"; ";"; "c"; ")"; ot; "d"],
        Some (bin (qterm (reduce_q (at_ "a") (var "$x") (at_ "b") (at_ "c"))) o (at_ "d")));
       (src ["foreach"; "a"; ot; "b"; "as"; "$x"; "("; "c"; ";"; "d"; ";"; "e"; ot; "f"; ")"; ot; "g"],
        if is_query_op o then None
        else Some (bin (qterm (foreach_q (bin (at_ "a") o (at_ "b")) (var "$x") (at_ "c") (at_ "d")
                                         (Some (bin (at_ "e") o (at_ "f"))))) o (at_ "g")))])
    all_operators ++
  [(src ["foreach"; "a"; "as"; "$x"; "("; "b"; ";"; "c"; ")"; ".d"],
    Some (qterm (add_sfx (foreach_q (at_ "a") (var "$x") (at_ "b") (at_ "c") None) [s_name "d"])))].

(* ---- (b5) if ---------------------------------------------------------------------------------------------- *)
(* condition, branches, elif and else parts are full queries, `end` closes the term *)
Definition if_cases : list (list N * option query) :=
  flat_map (fun o =>
      let ot := jq_text o in
      let x := bin (at_ "a") o (at_ "b") in
      [(src ["if"; "a"; ot; "b"; "then"; "a"; ot; "b"; "elif"; "a"; ot; "b"; "then"; "a"; ot; "b"; "else"; "a"; ot; "b";
             "end"; ot; "c"],
        Some (bin (qterm (Term (TIf x x [(x, x)] (Some x)) [])) o (at_ "c")));
       (src ["c"; ot; "if"; "a"; "then"; "b"; "end"; ".d"],
        Some (bin (at_ "c") o (qterm (Term (TIf (at_ "a") (at_ "b") [] None) [s_name "d"]))))])
    all_operators.

(* ---- (b6) try --------------------------------------------------------------------------------------------- *)
(* try takes ONE term with its suffixes (as does catch); any binary operator ends it:
   try a.b OP c  =  (try a.b) OP c      try a catch b.c OP d  =  (try a catch b.c) OP d *)
Definition try_cases : list (list N * option query) :=
  flat_map (fun o =>
      let ot := jq_text o in
      [(src ["try"; "a"; ".b"; ot; "c"],
        Some (bin (qterm (Term (TTry (qterm (add_sfx (tcall "a") [s_name "b"])) None) [])) o (at_ "c")));
       (src ["try"; "a"; "catch"; "b"; ".c"; ot; "d"],
        Some (bin (qterm (Term (TTry (at_ "a") (Some (qterm (add_sfx (tcall "b") [s_name "c"])))) [])) o (at_ "d")));
       (src ["d"; ot; "try"; "-"; "a"; "catch"; "-"; "b"],
        Some (bin (at_ "d") o (qterm (Term (TTry (unary_q OpSub (tcall "a")) (Some (unary_q OpSub (tcall "b")))) []))))])
    all_operators.

(* ---- (b7) label ------------------------------------------------------------------------------------------- *)
(* label $l | a OP b   the body is everything to the right;   a OP label $l | b   only after `|` and `,` *)
Definition label_q (l : string) (b : query) : query := qterm (Term (TLabel (codes l) b) []).
Definition label_cases : list (list N * option query) :=
  flat_map (fun o =>
      let ot := jq_text o in
      [(src ["label"; "$l"; "|"; "a"; ot; "b"], Some (label_q "$l" (bin (at_ "a") o (at_ "b"))));
       (src ["a"; ot; "label"; "$l"; "|"; "b"; ot; "break"; "$l"],
        if is_query_op o
        then Some (bin (at_ "a") o (label_q "$l" (bin (at_ "b") o (qterm (Term (TBreak (codes "$l")) [])))))
        else None)])
    all_operators.
