(* C09 — the generic parser theorems instantiated with the tables of the CURRENT parser.go.y (GenGrammar.v),
   and the agreement of those tables with jq's (finite: 24 operators, 24 x 24 pairs, checked by computation). *)
From Coq Require Import List NArith Bool String Arith Lia.
From Verif Require Import common.Sexp c09.GrammarTypes gen.GenGrammar c09.Ops c09.OpsProofs.
Import ListNotations.
Local Open Scope nat_scope.
Local Open Scope list_scope.

Lemma all_ops_complete : forall o, In o all_ops.
Proof. destruct o; simpl; tauto. Qed.

Definition assoc_eqb (a b : assoc) : bool :=
  match a, b with ALeft, ALeft | ARight, ARight | ANonassoc, ANonassoc => true | _, _ => false end.
Lemma assoc_eqb_eq : forall a b, assoc_eqb a b = true -> a = b.
Proof. destruct a, b; simpl; congruence. Qed.

Definition asc_level_b (lvl : binop -> nat) (asc : binop -> assoc) : bool :=
  forallb (fun a => forallb (fun b => implb (lvl a =? lvl b) (assoc_eqb (asc a) (asc b))) all_ops) all_ops.

Lemma asc_level_of_b : forall lvl asc, asc_level_b lvl asc = true ->
  forall a b, lvl a = lvl b -> asc a = asc b.
Proof.
  intros lvl asc H a b E. unfold asc_level_b in H.
  rewrite forallb_forall in H. specialize (H a (all_ops_complete a)).
  rewrite forallb_forall in H. specialize (H b (all_ops_complete b)).
  rewrite E, Nat.eqb_refl in H. simpl in H. apply assoc_eqb_eq; auto.
Qed.

Lemma gen_asc_level : forall a b, gen_lvl a = gen_lvl b -> gen_asc a = gen_asc b.
Proof. apply asc_level_of_b. vm_compute. reflexivity. Qed.

Lemma jq_asc_level : forall a b, jq_lvl a = jq_lvl b -> jq_asc a = jq_asc b.
Proof. intros a b E. unfold jq_asc. rewrite E. reflexivity. Qed.

Lemma tables_agree_true : tables_agree = true.
Proof. vm_compute. reflexivity. Qed.

Lemma action_eqb_eq : forall a b, action_eqb a b = true -> a = b.
Proof. destruct a, b; simpl; congruence. Qed.

Lemma binding_as_jq : forall o1 o2, cmp gen_lvl gen_asc o1 o2 = cmp jq_lvl jq_asc o1 o2.
Proof.
  intros o1 o2. pose proof tables_agree_true as H. unfold tables_agree in H.
  apply andb_prop in H. destruct H as [H _]. apply andb_prop in H. destruct H as [_ H].
  rewrite forallb_forall in H. specialize (H o1 (all_ops_complete o1)).
  rewrite forallb_forall in H. specialize (H o2 (all_ops_complete o2)).
  apply action_eqb_eq; auto.
Qed.

Lemma printed_as_jq : forall o, gen_op_text o = Some (jq_op_text o).
Proof.
  intros o. pose proof tables_agree_true as H. unfold tables_agree in H.
  apply andb_prop in H. destruct H as [_ H].
  rewrite forallb_forall in H. specialize (H o (all_ops_complete o)).
  destruct (gen_op_text o); try discriminate. apply String.eqb_eq in H. congruence.
Qed.

Lemma gen_tokens_complete : forall o, gen_prec o <> None.
Proof.
  intros o. pose proof tables_agree_true as H. unfold tables_agree in H.
  apply andb_prop in H. destruct H as [H _]. apply andb_prop in H. destruct H as [H _].
  unfold gen_complete in H. rewrite forallb_forall in H. specialize (H o (all_ops_complete o)).
  destruct (gen_prec o); congruence.
Qed.

Section Inst.
  Variable atom : Type.
  Definition gparse := parse atom gen_lvl gen_asc.
  Definition gwf := wf atom gen_lvl gen_asc.

  Lemma gen_print_parse : forall e, gwf e -> gparse (toks atom e) = Some e.
  Proof. apply print_parse. exact gen_asc_level. Qed.

  Lemma gen_parse_iff : forall ts e, gparse ts = Some e <-> (gwf e /\ toks atom e = ts).
  Proof. apply parse_iff. exact gen_asc_level. Qed.

  Lemma gen_roundtrip : forall ts e, gparse ts = Some e -> gparse (toks atom e) = Some e.
  Proof. intros ts e H. apply gen_print_parse. apply (proj1 (gen_parse_iff ts e)) in H. tauto. Qed.

  Lemma gen_wf_unique : forall e1 e2, gwf e1 -> gwf e2 -> toks atom e1 = toks atom e2 -> e1 = e2.
  Proof. apply wf_unique. exact gen_asc_level. Qed.

  Lemma gen_prec_triple : forall a b c o1 o2,
    gparse [TAtom a; TOp o1; TAtom b; TOp o2; TAtom c] =
    match cmp jq_lvl jq_asc o1 o2 with
    | Reduce => Some (Bin o2 (Bin o1 (Atom a) (Atom b)) (Atom c))
    | Shift => Some (Bin o1 (Atom a) (Bin o2 (Atom b) (Atom c)))
    | Err => None
    end.
  Proof. intros. unfold gparse. rewrite prec_triple. rewrite binding_as_jq. reflexivity. Qed.
End Inst.
