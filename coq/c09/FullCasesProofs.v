(* C09c / M3 (b) — finite theorems over the REAL tables: the case families of FullCases.v evaluated by the parser
   model (goyacc driver over gen/GenTables.v + transcribed actions + lexer model).  Each lemma is one vm-checked
   equality  map (parse_model . fst) cases = map snd cases  (Leibniz equality of ASTs, no boolean comparison). *)
From Coq Require Import List NArith ZArith Bool String.
From Verif Require Import common.Sexp sem.JV sem.Syntax c09.FullAst c09.ParseActions c09.ParseFull c09.FullCases c09.FinLemmas c09.WfAst.
Import ListNotations.

Definition agree (cases : list (list N * option query)) : Prop :=
  forall c, In c cases -> parse_model (fst c) = snd c.

Lemma agree_of_map cases :
  map (fun c => parse_model (fst c)) cases = map snd cases -> agree cases.
Proof. intros H c Hin. exact (map_eq_pointwise _ _ _ H c Hin). Qed.

Lemma actions_transcribed : all_actions_transcribed = true.
Proof. vm_cast_no_check (eq_refl true). Qed.

Lemma unary_terms_ok : agree unary_cases_terms.
Proof. apply agree_of_map. vm_cast_no_check (eq_refl (map snd unary_cases_terms)). Qed.
Lemma unary_ops_ok : agree unary_cases_ops.
Proof. apply agree_of_map. vm_cast_no_check (eq_refl (map snd unary_cases_ops)). Qed.
Lemma as_ok : agree as_cases.
Proof. apply agree_of_map. vm_cast_no_check (eq_refl (map snd as_cases)). Qed.
Lemma def_ok : agree def_cases.
Proof. apply agree_of_map. vm_cast_no_check (eq_refl (map snd def_cases)). Qed.
Lemma reduce_ok : agree reduce_cases.
Proof. apply agree_of_map. vm_cast_no_check (eq_refl (map snd reduce_cases)). Qed.
Lemma if_ok : agree if_cases.
Proof. apply agree_of_map. vm_cast_no_check (eq_refl (map snd if_cases)). Qed.
Lemma try_ok : agree try_cases.
Proof. apply agree_of_map. vm_cast_no_check (eq_refl (map snd try_cases)). Qed.
Lemma label_ok : agree label_cases.
Proof. apply agree_of_map. vm_cast_no_check (eq_refl (map snd label_cases)). Qed.

(* non-vacuity: sizes of the families *)
Lemma family_sizes :
  (List.length unary_cases_terms, List.length unary_cases_ops, List.length as_cases, List.length def_cases,
   List.length reduce_cases, List.length if_cases, List.length try_cases, List.length label_cases)
  = (2688, 96, 49, 73, 97, 48, 72, 48)%nat.
Proof. vm_compute. reflexivity. Qed.

(* the expected ASTs of all the families lie in the syntactically described image of the parser *)
Definition expected_wf (cases : list (list N * option query)) : bool :=
  forallb (fun c => match snd c with Some q => wfq_in true q | None => true end) cases.
Lemma families_wf :
  expected_wf (unary_cases_terms ++ unary_cases_ops ++ as_cases ++ def_cases ++ reduce_cases ++ if_cases ++ try_cases
               ++ label_cases) = true.
Proof. vm_cast_no_check (eq_refl true). Qed.
