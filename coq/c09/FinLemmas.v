(* C09c — the one list lemma behind the finite theorems: a vm-checked equality of two maps gives the pointwise
   (Leibniz) equalities. *)
From Coq Require Import List.
Import ListNotations.

Lemma map_eq_pointwise {A B} (f g : A -> B) (l : list A) :
  map f l = map g l -> forall x, In x l -> f x = g x.
Proof.
  induction l as [|a l IH]; simpl; intros H x Hin; [contradiction|].
  injection H as H1 H2. destruct Hin as [<-|Hin]; auto.
Qed.
