(* C09c / M3 (a) — print_tokens, UNBOUNDED: for every AST of the sub-grammar below (terms with suffix chains, unary
   signs, all 24 binary operators, parentheses, array construction), lexing the bytes that the printer model
   (Printer.v = query.go's writeTo methods, Index.writeTo spacing rule included) writes yields exactly the token
   sequence [tokens_of], then eof.

     base  ::=  .  |  ..  |  NAME  |  .NAME  |  .[ q ]  |  .[ q : q ]  |  .[ q : ]  |  .[ : q ]  |  ( q )  |  [ q ]  |  [ ]
             |  if q then q {elif q then q} [else q] end
             |  reduce q as PATTERN (q; q)  |  foreach q as PATTERN (q; q)  |  foreach q as PATTERN (q; q; q)
             |  $NAME  |  break $NAME  |  NUMBER  |  @NAME  |  {}  |  { kv, ..., kv }
     kv    ::=  NAME: q  |  NAME  |  $NAME  |  (q): q
     pt    ::=  base  |  pt .NAME  |  pt [ q ]  |  pt [ q : q ]  |  pt [ q : ]  |  pt [ : q ]  |  pt [ ]  |  pt ?
     ut    ::=  pt  |  + ut  |  - ut  |  try q  |  try q catch q
     q     ::=  ut  |  q OP q  |  label $NAME | q  |  q as PATTERN [?// PATTERN ...] | q  |  def NAME: q; q  |  def NAME(PARAM; ...): q; q
                                         (any nesting: tokens do not depend on precedence)

   [e_sq] embeds the sub-grammar into the AST of query.go (Syntax.query): a suffix chain is the SuffixList of the
   base term, `. [q]` (identity with an index as FIRST suffix) is the case query.go prints as `. .[q]`.
   NAME ranges over identifiers that are not keywords ([wf_sq]).  Not covered here (covered by the finite theorems and
   by the correspondence): strings, floats, formats applied to strings, string keys, destructuring patterns, modules.  Definitions and proofs. *)
From Coq Require Import List NArith Bool String Arith Lia.
From Verif Require Import common.Sexp sem.JV sem.Syntax c09.GrammarTypes gen.GenGrammar c09.Lexer c09.Run
  c09.RespaceProofs c09.FullAst c09.Printer c09.StrLex c09.PrintTokens.
Import ListNotations.
Local Open Scope nat_scope.
Local Open Scope list_scope.

(* a parameter of a definition: a filter name or a $variable *)
Inductive param := PName (n : list N) | PVar (n : list N).
Definition pbytes (p : param) : list N := match p with PName n => n | PVar n => 36%N :: n end.
Definition ptok (p : param) : ftok := match p with PName n => FName n | PVar n => FVar n end.
Definition pok (p : param) : bool := ftok_ok (ptok p).
Fixpoint i_ptail (r : list param) : list fitem :=
  match r with [] => [] | p :: r' => (false, FCh 59) :: (true, ptok p) :: i_ptail r' end.
Definition i_params (ps : list param) : list fitem :=
  match ps with [] => [] | p :: r => (false, ptok p) :: i_ptail r end.

(* destructuring patterns (keys: NAME, $NAME, "string"; no computed or interpolated keys) *)
Inductive pat := PV (n : list N) | PA (ps : pats) | PO (os : opats)
with pats := P1 (p : pat) | PS (p : pat) (r : pats)
with opats := O1 (o : opat) | OS (o : opat) (r : opats)
with opat := OKey (n : list N) (p : pat) | OVar (n : list N) | OStr (s : list N) (p : pat).
Scheme pat_mind := Induction for pat Sort Prop
  with pats_mind := Induction for pats Sort Prop
  with opats_mind := Induction for opats Sort Prop
  with opat_mind := Induction for opat Sort Prop.
Combined Scheme pat_mutind from pat_mind, pats_mind, opats_mind, opat_mind.

Fixpoint e_pat (p : pat) : pattern :=
  match p with
  | PV n => Pattern (36%N :: n) [] []
  | PA ps => Pattern [] (e_pats ps) []
  | PO os => Pattern [] [] (e_opats os)
  end
with e_pats (ps : pats) : list pattern := match ps with P1 p => [e_pat p] | PS p r => e_pat p :: e_pats r end
with e_opats (os : opats) : list patternobject := match os with O1 o => [e_opat o] | OS o r => e_opat o :: e_opats r end
with e_opat (o : opat) : patternobject :=
  match o with
  | OKey n p => PatternObject n None None (Some (e_pat p))
  | OVar n => PatternObject (36%N :: n) None None None
  | OStr s p => PatternObject [] (Some (JString s None)) None (Some (e_pat p))
  end.

Definition sp1 (items : list fitem) : list fitem := match items with (_, t) :: r => (true, t) :: r | [] => [] end.

Fixpoint i_pat (p : pat) : list fitem :=
  match p with
  | PV n => [(false, FVar n)]
  | PA ps => (false, FCh 91) :: i_pats ps ++ [(false, FCh 93)]
  | PO os => (false, FCh 123) :: i_opats os ++ [(false, FCh 125)]
  end
with i_pats (ps : pats) : list fitem :=
  match ps with P1 p => i_pat p | PS p r => i_pat p ++ (false, FOp OpComma) :: sp1 (i_pats r) end
with i_opats (os : opats) : list fitem :=
  match os with O1 o => i_opat o | OS o r => i_opat o ++ (false, FOp OpComma) :: sp1 (i_opats r) end
with i_opat (o : opat) : list fitem :=
  match o with
  | OKey n p => (false, FName n) :: (false, FCh 58) :: sp1 (i_pat p)
  | OVar n => [(false, FVar n)]
  | OStr s p => (false, FStr (enc_body s)) :: (false, FCh 58) :: sp1 (i_pat p)
  end.

Fixpoint wf_pat (p : pat) : bool :=
  match p with PV n => name_ok n | PA ps => wf_pats ps | PO os => wf_opats os end
with wf_pats (ps : pats) : bool := match ps with P1 p => wf_pat p | PS p r => wf_pat p && wf_pats r end
with wf_opats (os : opats) : bool := match os with O1 o => wf_opat o | OS o r => wf_opat o && wf_opats r end
with wf_opat (o : opat) : bool :=
  match o with OKey n p => ftok_ok (FName n) && wf_pat p | OVar n => name_ok n | OStr _ p => wf_pat p end.

(* ?// alternatives *)
Fixpoint i_alts (l : list pat) : list fitem :=
  match l with [] => [] | q :: r => (true, FDestAlt) :: sp1 (i_pat q) ++ i_alts r end.

Inductive base := BId | BRec | BName (n : list N) | BField (n : list N) | BParen (q : sq) | BArr (q : sq) | BArr0
| BIf (c t : sq) (el : elifs) | BIfElse (c t : sq) (el : elifs) (e : sq)
| BReduce (src : sq) (x : pat) (init update : sq)
| BForeach (src : sq) (x : pat) (init update : sq)
| BForeach3 (src : sq) (x : pat) (init update extract : sq)
| BVar (n : list N) | BBreak (n : list N) | BNum (ds : list N)
| BObj0 | BObj (l : kvs)
| BIndex (q : sq) | BSlice (a b : sq) | BSliceFrom (a : sq) | BSliceTo (b : sq)
| BFormat (n : list N)
| BStr (s : list N) | BFormatStr (n s : list N) | BFieldStr (s : list N)
| BIStr (lit : list N) (q : sq) (rest : stail)        (* "lit\(q)rest": lit = [] means no literal piece *)
| BFormatIStr (n : list N) (lit : list N) (q : sq) (rest : stail)
with pt := PBase (b : base) | PSfx (t : pt) (s : sfx)
with sfx := XName (n : list N) | XIdx (q : sq) | XIter | XOpt | XSlice (a b : sq) | XSliceFrom (a : sq) | XSliceTo (b : sq)
  | XStr (s : list N)
with ut := UT (t : pt) | USign (neg : bool) (u : ut) | UTry (b : sq) | UTryCatch (b c : sq)
with sq := QU (u : ut) | QBin (l : sq) (o : operator) (r : sq)
         | QLabel (x : list N) (body : sq) | QAs (src : sq) (p : pat) (alts : list pat) (body : sq)
         | QDef (name : list N) (body rest : sq)
         | QDefP (name : list N) (ps : list param) (body rest : sq)
with kvs := KOne (k : kv) | KMore (k : kv) (rest : kvs)
with kv := KVVal (n : list N) (v : sq) | KVName (n : list N) | KVVar (n : list N) | KVQuery (k v : sq)
  | KVStr (s : list N) (v : sq) | KVStrOnly (s : list N)
with elifs := ENil | ECons (c t : sq) (rest : elifs)
with stail := TEnd (lit : list N) | TQ (lit : list N) (q : sq) (rest : stail).

Scheme base_mind := Induction for base Sort Prop
  with pt_mind := Induction for pt Sort Prop
  with sfx_mind := Induction for sfx Sort Prop
  with ut_mind := Induction for ut Sort Prop
  with sq_mind := Induction for sq Sort Prop
  with kvs_mind := Induction for kvs Sort Prop
  with kv_mind := Induction for kv Sort Prop
  with elifs_mind := Induction for elifs Sort Prop
  with stail_mind := Induction for stail Sort Prop.
Combined Scheme sub_mutind from base_mind, pt_mind, sfx_mind, ut_mind, sq_mind, kvs_mind, kv_mind, elifs_mind, stail_mind.

(* ---- embedding into the AST of query.go --------------------------------------------------------------- *)
Definition qterm (t : term) : query := Query [] [] (Some t) None None None [].
Definition strpart (s : list N) : query := qterm (Term (TString (JString s None)) []).
Definition interp (q : query) : query := qterm (Term (TQuery q) []).
(* a literal piece of an interpolated string; the lexer yields no token for an empty piece *)
Definition lpart (lit : list N) : list query := match lit with [] => [] | _ => [strpart lit] end.
Definition snoc_sfx (t : term) (s : suffix) : term := match t with Term k l => Term k (l ++ [s]) end.
Definition sign_op (neg : bool) : operator := if neg then OpSub else OpAdd.
(* prependFuncDef *)
Definition prepend_def (fd : funcdef) (q : query) : query :=
  match q with Query i f t l o r p => Query i (fd :: f) t l o r p end.

Fixpoint e_base (b : base) : termkind :=
  match b with
  | BId => TIdentity | BRec => TRecurse
  | BName n => TFunc (Func n [])
  | BField n => TIndex (Index n None None None false)
  | BParen q => TQuery (e_sq q)
  | BArr q => TArray (Some (e_sq q))
  | BArr0 => TArray None
  | BIf c t el => TIf (e_sq c) (e_sq t) (e_elifs el) None
  | BIfElse c t el e => TIf (e_sq c) (e_sq t) (e_elifs el) (Some (e_sq e))
  | BReduce src x i u => TReduce (e_sq src) (e_pat x) (e_sq i) (e_sq u)
  | BForeach src x i u => TForeach (e_sq src) (e_pat x) (e_sq i) (e_sq u) None
  | BForeach3 src x i u e => TForeach (e_sq src) (e_pat x) (e_sq i) (e_sq u) (Some (e_sq e))
  | BVar n => TFunc (Func (36%N :: n) [])
  | BBreak n => TBreak (36%N :: n)
  | BNum ds => TNumber ds num0
  | BObj0 => TObject []
  | BObj l => TObject (e_kvs l)
  | BIndex q => TIndex (Index [] None (Some (e_sq q)) None false)
  | BSlice a b => TIndex (Index [] None (Some (e_sq a)) (Some (e_sq b)) true)
  | BSliceFrom a => TIndex (Index [] None (Some (e_sq a)) None true)
  | BSliceTo b => TIndex (Index [] None None (Some (e_sq b)) true)
  | BFormat n => TFormat (64%N :: n) None
  | BStr s => TString (JString s None)
  | BFormatStr n s => TFormat (64%N :: n) (Some (JString s None))
  | BFieldStr s => TIndex (Index [] (Some (JString s None)) None None false)
  | BIStr lit q rest => TString (JString [] (Some (lpart lit ++ interp (e_sq q) :: e_tail rest)))
  | BFormatIStr n lit q rest => TFormat (64%N :: n) (Some (JString [] (Some (lpart lit ++ interp (e_sq q) :: e_tail rest))))
  end
with e_pt (t : pt) : term :=
  match t with PBase b => Term (e_base b) [] | PSfx t s => snoc_sfx (e_pt t) (e_sfx s) end
with e_sfx (s : sfx) : suffix :=
  match s with
  | XName n => Suffix (Some (Index n None None None false)) false false
  | XIdx q => Suffix (Some (Index [] None (Some (e_sq q)) None false)) false false
  | XIter => Suffix None true false
  | XOpt => Suffix None false true
  | XSlice a b => Suffix (Some (Index [] None (Some (e_sq a)) (Some (e_sq b)) true)) false false
  | XSliceFrom a => Suffix (Some (Index [] None (Some (e_sq a)) None true)) false false
  | XSliceTo b => Suffix (Some (Index [] None None (Some (e_sq b)) true)) false false
  | XStr s => Suffix (Some (Index [] (Some (JString s None)) None None false)) false false
  end
with e_ut (u : ut) : term :=
  match u with
  | UT t => e_pt t
  | USign neg u => Term (TUnary (sign_op neg) (e_ut u)) []
  | UTry b => Term (TTry (e_sq b) None) []
  | UTryCatch b c => Term (TTry (e_sq b) (Some (e_sq c))) []
  end
with e_sq (q : sq) : query :=
  match q with
  | QU u => qterm (e_ut u)
  | QBin l o r => Query [] [] None (Some (e_sq l)) (Some o) (Some (e_sq r)) []
  | QLabel x body => qterm (Term (TLabel (36%N :: x) (e_sq body)) [])
  | QAs src p alts body => Query [] [] None (Some (e_sq src)) (Some OpPipe) (Some (e_sq body)) (e_pat p :: map e_pat alts)
  | QDef n body rest => prepend_def (FuncDef n [] (e_sq body)) (e_sq rest)
  | QDefP n ps body rest => prepend_def (FuncDef n (map pbytes ps) (e_sq body)) (e_sq rest)
  end
with e_kvs (l : kvs) : list objectkeyval :=
  match l with KOne k => [e_kv k] | KMore k rest => e_kv k :: e_kvs rest end
with e_kv (k : kv) : objectkeyval :=
  match k with
  | KVVal n v => ObjectKeyVal n None None (Some (e_sq v))
  | KVName n => ObjectKeyVal n None None None
  | KVVar n => ObjectKeyVal (36%N :: n) None None None
  | KVQuery k v => ObjectKeyVal [] None (Some (e_sq k)) (Some (e_sq v))
  | KVStr s v => ObjectKeyVal [] (Some (JString s None)) None (Some (e_sq v))
  | KVStrOnly s => ObjectKeyVal [] (Some (JString s None)) None None
  end
with e_elifs (el : elifs) : list (query * query) :=
  match el with ENil => [] | ECons c t rest => (e_sq c, e_sq t) :: e_elifs rest end
with e_tail (r : stail) : list query :=
  match r with TEnd lit => lpart lit | TQ lit q rest => lpart lit ++ interp (e_sq q) :: e_tail rest end.

(* ---- the tokens (with the spaces the printer puts) ------------------------------------------------------ *)
Definition is_bid (t : pt) : bool := match t with PBase BId => true | _ => false end.
Definition ipiece (lit : list N) : list fitem := match lit with [] => [] | _ => [(false, FSPiece (enc_body lit))] end.
Definition brackets (inner : list fitem) : list fitem := (false, FCh 91) :: inner ++ [(false, FCh 93)].
(* " as $x (INIT; REST" *)
Definition as_paren (x : pat) (init rest : list fitem) : list fitem :=
  (true, FKw KAs) :: sp1 (i_pat x) ++ (true, FCh 40) :: init ++ (false, FCh 59) :: rest.

Fixpoint i_base (b : base) : list fitem :=
  match b with
  | BId => [(false, FDot)] | BRec => [(false, FRec)]
  | BName n => [(false, FName n)]
  | BField n => [(false, FField n)]
  | BParen q => (false, FCh 40) :: i_sq q ++ [(false, FCh 41)]
  | BArr q => brackets (i_sq q)
  | BArr0 => [(false, FCh 91); (false, FCh 93)]
  | BIf c t el =>
      (false, FKw KIf) :: sp1 (i_sq c) ++ (true, FKw KThen) :: sp1 (i_sq t) ++ i_elifs el ++ [(true, FKw KEnd)]
  | BIfElse c t el e =>
      (false, FKw KIf) :: sp1 (i_sq c) ++ (true, FKw KThen) :: sp1 (i_sq t) ++ i_elifs el ++
        (true, FKw KElse) :: sp1 (i_sq e) ++ [(true, FKw KEnd)]
  | BReduce src x i u => (false, FKw KReduce) :: sp1 (i_sq src) ++ as_paren x (i_sq i) (sp1 (i_sq u) ++ [(false, FCh 41)])
  | BForeach src x i u => (false, FKw KForeach) :: sp1 (i_sq src) ++ as_paren x (i_sq i) (sp1 (i_sq u) ++ [(false, FCh 41)])
  | BForeach3 src x i u e =>
      (false, FKw KForeach) :: sp1 (i_sq src) ++
        as_paren x (i_sq i) (sp1 (i_sq u) ++ (false, FCh 59) :: sp1 (i_sq e) ++ [(false, FCh 41)])
  | BVar n => [(false, FVar n)]
  | BBreak n => [(false, FKw KBreak); (true, FVar n)]
  | BNum ds => [(false, FNum ds)]
  | BObj0 => [(false, FCh 123); (false, FCh 125)]
  | BObj l => (false, FCh 123) :: sp1 (i_kvs l) ++ [(true, FCh 125)]
  | BIndex q => (false, FDot) :: brackets (i_sq q)
  | BSlice a b => (false, FDot) :: brackets (i_sq a ++ (false, FCh 58) :: i_sq b)
  | BSliceFrom a => (false, FDot) :: brackets (i_sq a ++ [(false, FCh 58)])
  | BSliceTo b => (false, FDot) :: brackets ((false, FCh 58) :: i_sq b)
  | BFormat n => [(false, FFmt n)]
  | BStr s => [(false, FStr (enc_body s))]
  | BFormatStr n s => [(false, FFmt n); (true, FStr (enc_body s))]
  | BFieldStr s => [(false, FDot); (false, FStr (enc_body s))]
  | BIStr lit q rest => (false, FSStart) :: ipiece lit ++ (false, FSQuery) :: i_sq q ++ (false, FCh 41) :: i_tail rest
  | BFormatIStr n lit q rest =>
      (false, FFmt n) :: (true, FSStart) :: ipiece lit ++ (false, FSQuery) :: i_sq q ++ (false, FCh 41) :: i_tail rest
  end
with i_pt (t : pt) : list fitem :=
  match t with
  | PBase b => i_base b
  | PSfx t s => let pre := i_pt t in pre ++ i_sfx (is_bid t) (last (frender pre) 0%N) s
  end
with i_sfx (first_on_id : bool) (lastb : N) (s : sfx) : list fitem :=
  match s with
  | XName n => [(isdd lastb, FField n)]
  | XIdx q => if first_on_id then (true, FDot) :: brackets (i_sq q) else brackets (i_sq q)
  | XIter => [(false, FCh 91); (false, FCh 93)]
  | XOpt => [(false, FCh 63)]
  | XSlice a b =>
      let inner := brackets (i_sq a ++ (false, FCh 58) :: i_sq b) in
      if first_on_id then (true, FDot) :: inner else inner
  | XSliceFrom a =>
      let inner := brackets (i_sq a ++ [(false, FCh 58)]) in
      if first_on_id then (true, FDot) :: inner else inner
  | XSliceTo b =>
      let inner := brackets ((false, FCh 58) :: i_sq b) in
      if first_on_id then (true, FDot) :: inner else inner
  | XStr s => [(isdd lastb, FDot); (false, FStr (enc_body s))]
  end
with i_ut (u : ut) : list fitem :=
  match u with
  | UT t => i_pt t
  | USign neg u => (false, FOp (sign_op neg)) :: i_ut u
  | UTry b => (false, FKw KTry) :: sp1 (i_sq b)
  | UTryCatch b c => (false, FKw KTry) :: sp1 (i_sq b) ++ (true, FKw KCatch) :: sp1 (i_sq c)
  end
with i_sq (q : sq) : list fitem :=
  match q with
  | QU u => i_ut u
  | QBin l o r => i_sq l ++ (negb (is_comma (Some o)), FOp o) :: sp1 (i_sq r)
  | QLabel x body => (false, FKw KLabel) :: (true, FVar x) :: (true, FOp OpPipe) :: sp1 (i_sq body)
  | QAs src p alts body =>
      i_sq src ++ (true, FKw KAs) :: sp1 (i_pat p) ++ i_alts alts ++ (true, FOp OpPipe) :: sp1 (i_sq body)
  | QDef n body rest =>
      (false, FKw KDef) :: (true, FName n) :: (false, FCh 58) :: sp1 (i_sq body) ++ (false, FCh 59) :: sp1 (i_sq rest)
  | QDefP n ps body rest =>
      (false, FKw KDef) :: (true, FName n) :: (false, FCh 40) :: i_params ps ++
        (false, FCh 41) :: (false, FCh 58) :: sp1 (i_sq body) ++ (false, FCh 59) :: sp1 (i_sq rest)
  end
with i_kvs (l : kvs) : list fitem :=
  match l with KOne k => i_kv k | KMore k rest => i_kv k ++ (false, FOp OpComma) :: sp1 (i_kvs rest) end
with i_kv (k : kv) : list fitem :=
  match k with
  | KVVal n v => (false, FName n) :: (false, FCh 58) :: sp1 (i_sq v)
  | KVName n => [(false, FName n)]
  | KVVar n => [(false, FVar n)]
  | KVQuery k v => (false, FCh 40) :: i_sq k ++ (false, FCh 41) :: (false, FCh 58) :: sp1 (i_sq v)
  | KVStr s v => (false, FStr (enc_body s)) :: (false, FCh 58) :: sp1 (i_sq v)
  | KVStrOnly s => [(false, FStr (enc_body s))]
  end
with i_elifs (el : elifs) : list fitem :=
  match el with
  | ENil => []
  | ECons c t rest => (true, FKw KElif) :: sp1 (i_sq c) ++ (true, FKw KThen) :: sp1 (i_sq t) ++ i_elifs rest
  end
with i_tail (r : stail) : list fitem :=
  match r with
  | TEnd lit => ipiece lit ++ [(false, FSEnd)]
  | TQ lit q rest => ipiece lit ++ (false, FSQuery) :: i_sq q ++ (false, FCh 41) :: i_tail rest
  end.

Definition tokens_of (q : sq) : list (tk * list N) := map fexpected (i_sq q).

(* names are identifiers, and not keywords where they stand for a function *)
Definition fname_ok (n : list N) : bool := ftok_ok (FName n).
Fixpoint wf_base (b : base) : bool :=
  match b with
  | BName n => fname_ok n | BField n => name_ok n
  | BParen q | BArr q => wf_sq q
  | BIf c t el => wf_sq c && wf_sq t && wf_elifs el
  | BIfElse c t el e => wf_sq c && wf_sq t && wf_elifs el && wf_sq e
  | BReduce s x i u | BForeach s x i u => wf_pat x && wf_sq s && wf_sq i && wf_sq u
  | BForeach3 s x i u e => wf_pat x && wf_sq s && wf_sq i && wf_sq u && wf_sq e
  | BVar n | BBreak n => name_ok n
  | BNum ds => ftok_ok (FNum ds)
  | BObj l => wf_kvs l
  | BIndex q => wf_sq q
  | BSlice a b => wf_sq a && wf_sq b
  | BSliceFrom a | BSliceTo a => wf_sq a
  | BFormat n | BFormatStr n _ => ftok_ok (FFmt n)
  | BIStr _ q r => wf_sq q && wf_tail r
  | BFormatIStr n _ q r => ftok_ok (FFmt n) && wf_sq q && wf_tail r
  | _ => true
  end
with wf_pt (t : pt) : bool := match t with PBase b => wf_base b | PSfx t s => wf_pt t && wf_sfx s end
with wf_sfx (s : sfx) : bool :=
  match s with
  | XName n => name_ok n | XIdx q | XSliceFrom q | XSliceTo q => wf_sq q | XSlice a b => wf_sq a && wf_sq b | _ => true
  end
with wf_ut (u : ut) : bool :=
  match u with UT t => wf_pt t | USign _ u => wf_ut u | UTry b => wf_sq b | UTryCatch b c => wf_sq b && wf_sq c end
with wf_sq (q : sq) : bool :=
  match q with
  | QU u => wf_ut u | QBin l _ r => wf_sq l && wf_sq r
  | QLabel x b => name_ok x && wf_sq b
  | QAs s p alts b => wf_pat p && forallb wf_pat alts && wf_sq s && wf_sq b
  | QDef n b r => fname_ok n && wf_sq b && wf_sq r
  | QDefP n ps b r => fname_ok n && negb (match ps with [] => true | _ => false end) && forallb pok ps && wf_sq b && wf_sq r
  end
with wf_kvs (l : kvs) : bool := match l with KOne k => wf_kv k | KMore k r => wf_kv k && wf_kvs r end
with wf_kv (k : kv) : bool :=
  match k with
  | KVVal n v => fname_ok n && wf_sq v
  | KVName n => fname_ok n
  | KVVar n => name_ok n
  | KVQuery k v => wf_sq k && wf_sq v
  | KVStr _ v => wf_sq v
  | KVStrOnly _ => true
  end
with wf_elifs (el : elifs) : bool :=
  match el with ENil => true | ECons c t rest => wf_sq c && wf_sq t && wf_elifs rest end
with wf_tail (r : stail) : bool := match r with TEnd _ => true | TQ _ q rest => wf_sq q && wf_tail rest end.

(* ---- list facts ----------------------------------------------------------------------------------------- *)
Lemma rev_append_app : forall (a b acc : list N), rev_append (a ++ b) acc = rev_append b (rev_append a acc).
Proof. induction a; intros; simpl; auto. Qed.

Lemma frender_app : forall a b, frender (a ++ b) = frender a ++ frender b.
Proof. induction a as [|[sp t] a IH]; intros; simpl; auto. rewrite IH. rewrite !app_assoc. reflexivity. Qed.

Lemma rev_append_last : forall (l acc : list N), l <> [] -> exists rest, rev_append l acc = last l 0%N :: rest.
Proof.
  intros l acc H. rewrite rev_append_rev.
  pose proof (app_removelast_last 0%N H) as E. remember (last l 0%N) as x. rewrite E.
  rewrite rev_app_distr. simpl. eexists. reflexivity.
Qed.

Lemma w_each_app : forall (T : Type) (f : T -> list N -> list N) a b acc,
  w_each f (a ++ b) acc = w_each f b (w_each f a acc).
Proof. induction a; intros; simpl; auto. Qed.

(* ---- Term.writeTo = the kind, then the suffix loop -------------------------------------------------------- *)
Definition is_identity (k : termkind) : bool := match k with TIdentity => true | _ => false end.
Definition w_first (idt : bool) (f : suffix) (acc : list N) : list N :=
  match f with
  | Suffix (Some i) _ _ => if idt then w_idx true i acc else w_suffix f acc
  | _ => w_suffix f acc
  end.
Definition w_sfxs (idt : bool) (sfx : list suffix) (acc : list N) : list N :=
  match sfx with [] => acc | f :: rest => w_each w_suffix rest (w_first idt f acc) end.

Lemma w_first_false : forall f acc, w_first false f acc = w_suffix f acc.
Proof. intros [[i|] it op] acc; reflexivity. Qed.

Lemma w_term_split : forall k sfx acc,
  w_term (Term k sfx) acc = w_sfxs (is_identity k) sfx (w_term (Term k []) acc).
Proof. intros k sfx acc. destruct sfx as [|f rest]; [reflexivity|]. destruct f as [[i|] it op]; reflexivity. Qed.

Lemma w_sfxs_snoc : forall idt sl s acc,
  w_sfxs idt (sl ++ [s]) acc = match sl with [] => w_first idt s acc | _ => w_suffix s (w_sfxs idt sl acc) end.
Proof.
  intros idt [|f rest] s acc; [reflexivity|]. simpl. rewrite w_each_app. reflexivity.
Qed.

Lemma bid_shape : forall t k sl, e_pt t = Term k sl -> (is_bid t = true <-> (is_identity k = true /\ sl = [])).
Proof.
  intros [b|t s] k sl E; simpl in E.
  - inversion E; subst. destruct b; simpl; split; intros H; try discriminate; try (destruct H; discriminate); auto.
  - destruct (e_pt t) as [k0 sl0]. simpl in E. inversion E; subst. simpl. split; [discriminate|].
    intros [_ H]. destruct sl0; discriminate H.
Qed.

Definition okp (acc : list N) : Prop := match acc with [] => True | c :: _ => isdd c = false end.

Lemma index_space_dd : forall c acc, index_space (c :: acc) = spb (isdd c) ++ c :: acc.
Proof. intros. unfold index_space, isdd. destruct ((c =? 46) || ((48 <=? c) && (c <=? 57)))%N; reflexivity. Qed.

Lemma index_space_okp : forall acc, okp acc -> index_space acc = acc.
Proof. intros [|c acc] H; [reflexivity|]. rewrite index_space_dd. simpl in H. rewrite H. reflexivity. Qed.

Lemma first_nosp :
  (forall b, exists t r, i_base b = (false, t) :: r /\ tmode t = false) /\
  (forall p, exists t r, i_pt p = (false, t) :: r /\ tmode t = false) /\
  (forall s : sfx, True) /\
  (forall u, exists t r, i_ut u = (false, t) :: r /\ tmode t = false) /\
  (forall q, exists t r, i_sq q = (false, t) :: r /\ tmode t = false) /\
  (forall l, exists t r, i_kvs l = (false, t) :: r /\ tmode t = false) /\
  (forall k, exists t r, i_kv k = (false, t) :: r /\ tmode t = false) /\
  (forall el : elifs, True) /\ (forall r : stail, True).
Proof.
  apply sub_mutind; intros; simpl; auto; try (eexists; eexists; split; reflexivity);
    match goal with
    | H : exists t r, _ = (false, t) :: r /\ _ |- _ =>
        destruct H as (t0 & r0 & E & M); rewrite E; simpl; eexists; eexists; split; [reflexivity|exact M]
    end.
Qed.

Lemma frender_sp1 : forall q, frender (sp1 (i_sq q)) = 32%N :: frender (i_sq q).
Proof. intros q. destruct (proj1 (proj2 (proj2 (proj2 (proj2 first_nosp)))) q) as (t & r & E & _). rewrite E. reflexivity. Qed.

Lemma frender_sp1k : forall l, frender (sp1 (i_kvs l)) = 32%N :: frender (i_kvs l).
Proof. intros l. destruct (proj1 (proj2 (proj2 (proj2 (proj2 (proj2 first_nosp))))) l) as (t & r & E & _). rewrite E. reflexivity. Qed.

Lemma name_ok_nonempty : forall n, name_ok n = true -> exists c r, n = c :: r.
Proof. intros [|c r] H; [discriminate H|eauto]. Qed.

Lemma pt_nonempty : forall t, wf_pt t = true -> frender (i_pt t) <> [].
Proof.
  induction t as [b|t IH s]; intros W; simpl in *.
  - destruct b; simpl; try discriminate.
    + unfold fname_ok, ftok_ok in W. apply andb_prop in W. destruct W as [W _].
      destruct (name_ok_nonempty n W) as (c & r & ->). discriminate.
    + unfold ftok_ok in W. destruct ds; [discriminate W|discriminate].
  - apply andb_prop in W. destruct W as [W _]. rewrite frender_app. intros E. apply app_eq_nil in E. destruct E as [E _].
    exact (IH W E).
Qed.

Definition imports_of (q : query) : list import := match q with Query i _ _ _ _ _ _ => i end.

Lemma e_sq_noimp : forall q, imports_of (e_sq q) = [].
Proof.
  apply (sq_mind (fun _ => True) (fun _ => True) (fun _ => True) (fun _ => True) (fun q => imports_of (e_sq q) = [])
                 (fun _ => True) (fun _ => True) (fun _ => True) (fun _ => True));
    intros; auto; simpl; destruct (e_sq rest); simpl in *; auto.
Qed.

Lemma w_query_prepend : forall q fd acc, imports_of q = [] ->
  w_query (prepend_def fd q) acc = w_query q (wb 32 (w_funcdef fd acc)).
Proof. intros [i f t l o r p] fd acc H. simpl in H. subst i. reflexivity. Qed.

(* one round of String.writeTo's loop over Queries *)
Definition w_spart (e : query) (acc : list N) : list N :=
  match e with
  | Query _ _ (Some (Term k _)) _ _ _ _ =>
      if has_str k then wbs (strip_ends (rev (w_query e []))) acc else w_query e (wb 92 acc)
  | _ => acc
  end.
Lemma w_jstring_interp : forall x qs acc, w_jstring (JString x (Some qs)) acc = wb 34 (w_each w_spart qs (wb 34 acc)).
Proof. reflexivity. Qed.

Lemma w_spart_lit : forall s acc, w_spart (strpart s) acc = rev_append (enc_body s) acc.
Proof.
  intros s acc. unfold w_spart, strpart, qterm. cbn [has_str].
  replace (w_query (Query [] [] (Some (Term (TString (JString s None)) [])) None None None []) [])
    with (encode_string s []) by reflexivity.
  rewrite encode_string_bytes. rewrite rev_append_rev, app_nil_r, rev_involutive.
  unfold strip_ends. cbn [tl]. rewrite removelast_last. reflexivity.
Qed.

Lemma w_lpart : forall lit X acc,
  w_each w_spart (lpart lit ++ X) acc = w_each w_spart X (rev_append (frender (ipiece lit)) acc).
Proof.
  intros [|c r] X acc; [reflexivity|].
  cbn [lpart app w_each ipiece frender spb ftok_bytes]. rewrite w_spart_lit. rewrite app_nil_r. reflexivity.
Qed.

Lemma w_spart_interp : forall q acc, w_spart (interp q) acc = wb 41 (w_query q (wb 40 (wb 92 acc))).
Proof. reflexivity. Qed.

(* one round of If.writeTo's loop over Elif *)
Definition w_elif (ct : query * query) (acc : list N) : list N :=
  w_query (snd ct) (ws " then " (w_query (fst ct) (ws "elif " (wb 32 acc)))).

(* Object.writeTo's loop after the first key *)
Definition w_more : list objectkeyval -> list N -> list N :=
  fix go (r : list objectkeyval) (acc : list N) : list N :=
    match r with [] => acc | y :: r' => go r' (w_kv y (ws ", " acc)) end.
Lemma w_sep_kv_cons : forall x r acc, w_sep w_kv ", " (x :: r) acc = w_more r (w_kv x acc).
Proof. reflexivity. Qed.

Lemma w_ptail : forall r acc,
  (fix go (r : list (list N)) (acc : list N) : list N :=
     match r with [] => acc | y :: r' => go r' (wbs y (ws "; " acc)) end) (map pbytes r) acc
  = rev_append (frender (i_ptail r)) acc.
Proof.
  induction r as [|p r IH]; intros acc; [reflexivity|].
  cbn [map i_ptail frender]. rewrite IH. unfold wbs, ws. simpl.
  rewrite ?rev_append_app. destruct p; simpl; rewrite ?rev_append_app; reflexivity.
Qed.

Lemma w_params : forall p r acc,
  w_bytes_sep "; " (map pbytes (p :: r)) acc = rev_append (frender (i_params (p :: r))) acc.
Proof.
  intros p r acc. unfold w_bytes_sep, w_sep. cbn [map i_params frender]. rewrite w_ptail.
  unfold wbs. simpl. rewrite ?rev_append_app. destruct p; simpl; rewrite ?rev_append_app; reflexivity.
Qed.

(* ---- patterns -------------------------------------------------------------------------------------------- *)
Lemma first_nosp_pat :
  (forall p, exists t r, i_pat p = (false, t) :: r /\ tmode t = false) /\
  (forall ps, exists t r, i_pats ps = (false, t) :: r /\ tmode t = false) /\
  (forall os, exists t r, i_opats os = (false, t) :: r /\ tmode t = false) /\
  (forall o, exists t r, i_opat o = (false, t) :: r /\ tmode t = false).
Proof.
  apply pat_mutind; intros; simpl; auto; try (eexists; eexists; split; reflexivity);
    match goal with
    | H : exists t r, _ = (false, t) :: r /\ _ |- _ =>
        destruct H as (t0 & r0 & E & M); rewrite E; simpl; eexists; eexists; split; [reflexivity|exact M]
    end.
Qed.

Lemma frender_sp1_gen : forall X t r, X = (false, t) :: r -> frender (sp1 X) = 32%N :: frender X.
Proof. intros X t r ->. reflexivity. Qed.
Lemma frender_sp1p : forall p, frender (sp1 (i_pat p)) = 32%N :: frender (i_pat p).
Proof. intros p. destruct (proj1 first_nosp_pat p) as (t & r & E & _). apply (frender_sp1_gen _ t r E). Qed.
Lemma frender_sp1ps : forall p, frender (sp1 (i_pats p)) = 32%N :: frender (i_pats p).
Proof. intros p. destruct (proj1 (proj2 first_nosp_pat) p) as (t & r & E & _). apply (frender_sp1_gen _ t r E). Qed.
Lemma frender_sp1os : forall p, frender (sp1 (i_opats p)) = 32%N :: frender (i_opats p).
Proof. intros p. destruct (proj1 (proj2 (proj2 first_nosp_pat)) p) as (t & r & E & _). apply (frender_sp1_gen _ t r E). Qed.

Definition w_pmore : list pattern -> list N -> list N :=
  fix go (r : list pattern) (acc : list N) : list N :=
    match r with [] => acc | y :: r' => go r' (w_pattern y (ws ", " acc)) end.
Definition w_omore : list patternobject -> list N -> list N :=
  fix go (r : list patternobject) (acc : list N) : list N :=
    match r with [] => acc | y :: r' => go r' (w_patobj y (ws ", " acc)) end.

Ltac fin_print :=
  unfold ws, wb, wbs;
  repeat progress (rewrite ?frender_app, ?frender_sp1, ?frender_sp1k, ?frender_sp1p, ?frender_sp1ps, ?frender_sp1os,
                     ?rev_append_app; cbn [frender as_paren]; simpl);
  reflexivity.

Lemma print_pat :
  (forall p, wf_pat p = true -> forall acc, w_pattern (e_pat p) acc = rev_append (frender (i_pat p)) acc) /\
  (forall ps, wf_pats ps = true -> forall acc,
     exists x r, e_pats ps = x :: r /\ w_pmore r (w_pattern x acc) = rev_append (frender (i_pats ps)) acc) /\
  (forall os, wf_opats os = true -> forall acc,
     exists x r, e_opats os = x :: r /\ w_omore r (w_patobj x acc) = rev_append (frender (i_opats os)) acc) /\
  (forall o, wf_opat o = true -> forall acc, w_patobj (e_opat o) acc = rev_append (frender (i_opat o)) acc).
Proof.
  apply pat_mutind.
  - intros n W acc. cbn [e_pat w_pattern i_pat]. fin_print.
  - intros ps IH W acc. cbn [wf_pat] in W. destruct (IH W (wb 91 acc)) as (x & r & E & P).
    cbn [e_pat i_pat]. rewrite E. cbn [w_pattern]. change (w_sep w_pattern ", " (x :: r) (wb 91 acc)) with (w_pmore r (w_pattern x (wb 91 acc))).
    rewrite P. fin_print.
  - intros os IH W acc. cbn [wf_pat] in W. destruct (IH W (wb 123 acc)) as (x & r & E & P).
    cbn [e_pat i_pat]. rewrite E. cbn [w_pattern]. change (w_sep w_patobj ", " (x :: r) (wb 123 acc)) with (w_omore r (w_patobj x (wb 123 acc))).
    rewrite P. fin_print.
  - intros p IH W acc. cbn [wf_pats] in W. exists (e_pat p), []. split; [reflexivity|]. cbn [w_pmore i_pats]. auto.
  - intros p IHp r IHr W acc. cbn [wf_pats] in W. apply andb_prop in W. destruct W as [Wp Wr].
    exists (e_pat p), (e_pats r). split; [reflexivity|]. rewrite (IHp Wp).
    destruct (IHr Wr (ws ", " (rev_append (frender (i_pat p)) acc))) as (x & r' & E & P).
    rewrite E. cbn [w_pmore i_pats]. rewrite P. fin_print.
  - intros o IH W acc. cbn [wf_opats] in W. exists (e_opat o), []. split; [reflexivity|]. cbn [w_omore i_opats]. auto.
  - intros o IHo r IHr W acc. cbn [wf_opats] in W. apply andb_prop in W. destruct W as [Wo Wr].
    exists (e_opat o), (e_opats r). split; [reflexivity|]. rewrite (IHo Wo).
    destruct (IHr Wr (ws ", " (rev_append (frender (i_opat o)) acc))) as (x & r' & E & P).
    rewrite E. cbn [w_omore i_opats]. rewrite P. fin_print.
  - intros n p IH W acc. cbn [wf_opat] in W. apply andb_prop in W. destruct W as [Wn Wp].
    unfold ftok_ok in Wn. apply andb_prop in Wn. destruct Wn as [Wn _].
    destruct (name_ok_nonempty n Wn) as (c & r & ->).
    cbn [e_opat w_patobj i_opat]. rewrite (IH Wp). fin_print.
  - intros n W acc. cbn [e_opat w_patobj i_opat]. fin_print.
  - intros s p IH W acc. cbn [wf_opat] in W.
    cbn [e_opat w_patobj w_jstring i_opat]. rewrite encode_string_bytes. rewrite (IH W). fin_print.
Qed.

Lemma print_alts : forall alts acc, forallb wf_pat alts = true ->
  w_each (fun p acc => wb 32 (w_pattern p (ws "?// " acc))) (map e_pat alts) (wb 32 acc)
  = wb 32 (rev_append (frender (i_alts alts)) acc).
Proof.
  induction alts as [|q r IH]; intros acc W; [reflexivity|].
  simpl in W. apply andb_prop in W. destruct W as [Wq Wr].
  cbn [map w_each i_alts]. rewrite (proj1 print_pat q Wq). rewrite IH by auto. fin_print.
Qed.

(* ---- the printer writes exactly the rendering of the token list ------------------------------------------- *)
Lemma print_items :
  (forall b, wf_base b = true -> forall acc, okp acc ->
     w_term (Term (e_base b) []) acc = rev_append (frender (i_base b)) acc) /\
  (forall t, wf_pt t = true -> forall acc, okp acc ->
     w_term (e_pt t) acc = rev_append (frender (i_pt t)) acc) /\
  (forall s, wf_sfx s = true -> forall fid c acc, (fid = true -> c = 46%N) ->
     w_first fid (e_sfx s) (c :: acc) = rev_append (frender (i_sfx fid c s)) (c :: acc)) /\
  (forall u, wf_ut u = true -> forall acc, okp acc ->
     w_term (e_ut u) acc = rev_append (frender (i_ut u)) acc) /\
  (forall q, wf_sq q = true -> forall acc, okp acc ->
     w_query (e_sq q) acc = rev_append (frender (i_sq q)) acc) /\
  (forall l, wf_kvs l = true -> forall acc, okp acc ->
     exists x r, e_kvs l = x :: r /\ w_more r (w_kv x acc) = rev_append (frender (i_kvs l)) acc) /\
  (forall k, wf_kv k = true -> forall acc, okp acc ->
     w_kv (e_kv k) acc = rev_append (frender (i_kv k)) acc) /\
  (forall el, wf_elifs el = true -> forall acc,
     w_each w_elif (e_elifs el) acc = rev_append (frender (i_elifs el)) acc) /\
  (forall r, wf_tail r = true -> forall acc,
     wb 34 (w_each w_spart (e_tail r) acc) = rev_append (frender (i_tail r)) acc).
Proof.
  apply sub_mutind.
  - (* . *) intros _ acc _. reflexivity.
  - (* .. *) intros _ acc _. reflexivity.
  - (* NAME *) intros n W acc _. simpl. unfold wbs. rewrite app_nil_r. reflexivity.
  - (* .NAME *)
    intros n W acc OKP. simpl in W. destruct (name_ok_nonempty n W) as (c & r & ->).
    cbn [e_base w_term w_idx i_base frender spb app ftok_bytes]. rewrite index_space_okp by auto.
    unfold wbs, wb. rewrite app_nil_r. reflexivity.
  - (* ( q ) *)
    intros q IH W acc OKP. simpl in W. cbn [e_base w_term i_base frender spb app ftok_bytes].
    rewrite (IH W (wb 40 acc)) by reflexivity.
    rewrite frender_app. unfold wb. simpl. rewrite rev_append_app. reflexivity.
  - (* [ q ] *)
    intros q IH W acc OKP. simpl in W. cbn [e_base w_term i_base brackets frender spb app ftok_bytes].
    rewrite (IH W (wb 91 acc)) by reflexivity.
    rewrite frender_app. unfold wb. simpl. rewrite rev_append_app. reflexivity.
  - (* [ ] *) intros _ acc _. reflexivity.
  - (* if then {elif} end *)
    intros c IHc t IHt el IHel W acc OKP. simpl in W. apply andb_prop in W. destruct W as [W Wel].
    apply andb_prop in W. destruct W as [Wc Wt].
    cbn [e_base w_term i_base]. fold w_elif.
    rewrite (IHc Wc) by reflexivity. rewrite (IHt Wt) by reflexivity. rewrite (IHel Wel). fin_print.
  - (* if then {elif} else end *)
    intros c IHc t IHt el IHel e IHe W acc OKP. simpl in W. apply andb_prop in W. destruct W as [W We].
    apply andb_prop in W. destruct W as [W Wel]. apply andb_prop in W. destruct W as [Wc Wt].
    cbn [e_base w_term i_base]. fold w_elif.
    rewrite (IHc Wc) by reflexivity. rewrite (IHt Wt) by reflexivity. rewrite (IHel Wel).
    rewrite (IHe We) by reflexivity. fin_print.
  - (* reduce *)
    intros src IHs x i IHi u IHu W acc OKP. simpl in W. apply andb_prop in W. destruct W as [W Wu].
    apply andb_prop in W. destruct W as [W Wi]. apply andb_prop in W. destruct W as [Wx Ws].
    cbn [e_base w_term i_base as_paren].
    rewrite (IHs Ws) by reflexivity. rewrite (proj1 print_pat x Wx). rewrite (IHi Wi) by reflexivity.
    rewrite (IHu Wu) by reflexivity. fin_print.
  - (* foreach *)
    intros src IHs x i IHi u IHu W acc OKP. simpl in W. apply andb_prop in W. destruct W as [W Wu].
    apply andb_prop in W. destruct W as [W Wi]. apply andb_prop in W. destruct W as [Wx Ws].
    cbn [e_base w_term i_base as_paren].
    rewrite (IHs Ws) by reflexivity. rewrite (proj1 print_pat x Wx). rewrite (IHi Wi) by reflexivity.
    rewrite (IHu Wu) by reflexivity. fin_print.
  - (* foreach with extract *)
    intros src IHs x i IHi u IHu e IHe W acc OKP. simpl in W. apply andb_prop in W. destruct W as [W We].
    apply andb_prop in W. destruct W as [W Wu].
    apply andb_prop in W. destruct W as [W Wi]. apply andb_prop in W. destruct W as [Wx Ws].
    cbn [e_base w_term i_base as_paren].
    rewrite (IHs Ws) by reflexivity. rewrite (proj1 print_pat x Wx). rewrite (IHi Wi) by reflexivity.
    rewrite (IHu Wu) by reflexivity. rewrite (IHe We) by reflexivity. fin_print.
  - (* $NAME *) intros n W acc _. simpl. unfold wbs. simpl. rewrite app_nil_r. reflexivity.
  - (* break $NAME *) intros n W acc _. simpl. unfold wbs, ws. simpl. rewrite app_nil_r. reflexivity.
  - (* DIGITS *) intros ds W acc _. simpl. unfold wbs. rewrite app_nil_r. reflexivity.
  - (* {} *) intros _ acc _. reflexivity.
  - (* { kvs } *)
    intros l IH W acc OKP. cbn [wf_base] in W.
    destruct (IH W (ws "{ " acc) eq_refl) as (x & r & E & P).
    cbn [e_base i_base]. rewrite E. cbn [w_term]. rewrite w_sep_kv_cons, P. fin_print.
  - (* .[ q ] *)
    intros q IH W acc OKP. cbn [wf_base] in W.
    cbn [e_base w_term w_idx i_base brackets]. rewrite index_space_okp by auto.
    rewrite (IH W) by reflexivity. fin_print.
  - (* .[ a : b ] *)
    intros a IHa b IHb W acc OKP. cbn [wf_base] in W. apply andb_prop in W. destruct W as [Wa Wb].
    cbn [e_base w_term w_idx i_base brackets]. rewrite index_space_okp by auto.
    rewrite (IHa Wa) by reflexivity. rewrite (IHb Wb) by reflexivity. fin_print.
  - (* .[ a : ] *)
    intros q IH W acc OKP. cbn [wf_base] in W.
    cbn [e_base w_term w_idx i_base brackets]. rewrite index_space_okp by auto.
    rewrite (IH W) by reflexivity. fin_print.
  - (* .[ : b ] *)
    intros q IH W acc OKP. cbn [wf_base] in W.
    cbn [e_base w_term w_idx i_base brackets]. rewrite index_space_okp by auto.
    rewrite (IH W) by reflexivity. fin_print.
  - (* @NAME *) intros n W acc _. simpl. unfold wbs. simpl. rewrite app_nil_r. reflexivity.
  - (* "s" *) intros s _ acc _. cbn [e_base w_term w_jstring i_base]. rewrite encode_string_bytes. fin_print.
  - (* @NAME "s" *) intros n s _ acc _. cbn [e_base w_term w_jstring i_base]. rewrite encode_string_bytes. fin_print.
  - (* ."s" *)
    intros s _ acc OKP. cbn [e_base w_term w_idx w_jstring i_base]. rewrite index_space_okp by auto.
    rewrite encode_string_bytes. fin_print.
  - (* "lit\(q)..." *)
    intros lit q IHq r IHr W acc OKP. cbn [wf_base] in W. apply andb_prop in W. destruct W as [Wq Wr].
    cbn [e_base w_term i_base]. rewrite w_jstring_interp. rewrite w_lpart. cbn [w_each]. rewrite w_spart_interp.
    rewrite (IHq Wq) by reflexivity. rewrite (IHr Wr). fin_print.
  - (* @NAME "lit\(q)..." *)
    intros n lit q IHq r IHr W acc OKP. cbn [wf_base] in W. apply andb_prop in W. destruct W as [W Wr].
    apply andb_prop in W. destruct W as [Wn Wq].
    cbn [e_base w_term i_base]. rewrite w_jstring_interp. rewrite w_lpart. cbn [w_each]. rewrite w_spart_interp.
    rewrite (IHq Wq) by reflexivity. rewrite (IHr Wr). fin_print.
  - (* base as a term *) intros b IH W acc OKP. simpl in *. auto.
  - (* t SUFFIX *)
    intros t IHt s IHs W acc OKP. simpl in W. apply andb_prop in W. destruct W as [Wt Ws].
    cbn [e_pt i_pt]. specialize (IHt Wt acc OKP).
    destruct (e_pt t) as [k sl] eqn:E. cbn [snoc_sfx].
    rewrite w_term_split, w_sfxs_snoc. rewrite w_term_split in IHt.
    rewrite frender_app, rev_append_app.
    destruct (rev_append_last (frender (i_pt t)) acc (pt_nonempty t Wt)) as [rest R].
    pose proof (bid_shape t k sl E) as BS.
    destruct sl as [|s0 sl'].
    + (* first suffix *)
      cbn [w_sfxs] in IHt. cbv iota. rewrite IHt, R.
      destruct (is_bid t) eqn:B.
      * destruct (proj1 BS eq_refl) as [K _]. rewrite K.
        apply IHs; auto. intros _.
        destruct t as [[]|]; try discriminate B. reflexivity.
      * assert (K : is_identity k = false).
        { destruct (is_identity k) eqn:K; auto.
          pose proof (proj2 BS (conj eq_refl eq_refl)) as X. discriminate X. }
        rewrite K. apply IHs; auto. discriminate.
    + cbv iota. rewrite IHt, R.
      assert (B : is_bid t = false).
      { destruct (is_bid t) eqn:B; auto. destruct (proj1 BS eq_refl) as [_ X]. discriminate X. }
      rewrite B. rewrite <- w_first_false. apply (IHs Ws false). discriminate.
  - (* .NAME suffix *)
    intros n W fid c acc _. simpl in W. destruct (name_ok_nonempty n W) as (c0 & r & ->).
    assert (E : w_first fid (e_sfx (XName (c0 :: r))) (c :: acc) =
                w_idx true (Index (c0 :: r) None None None false) (c :: acc)) by (destruct fid; reflexivity).
    rewrite E. cbn [w_idx i_sfx frender ftok_bytes]. rewrite index_space_dd.
    unfold wbs, wb. rewrite app_nil_r. destruct (isdd c); reflexivity.
  - (* [ q ] suffix *)
    intros q IH W fid c acc F. simpl in W. destruct fid.
    + rewrite (F eq_refl).
      cbn [e_sfx w_first w_idx i_sfx brackets frender spb app ftok_bytes]. rewrite index_space_dd.
      change (isdd 46) with true. cbn [spb app].
      rewrite (IH W) by reflexivity. rewrite frender_app. unfold wb. simpl. rewrite rev_append_app. reflexivity.
    + cbn [e_sfx w_first w_suffix w_idx i_sfx brackets frender spb app ftok_bytes].
      rewrite (IH W) by reflexivity. rewrite frender_app. unfold wb. simpl. rewrite rev_append_app. reflexivity.
  - (* [] *) intros _ fid c acc _. destruct fid; reflexivity.
  - (* ? *) intros _ fid c acc _. destruct fid; reflexivity.
  - (* [ a : b ] suffix *)
    intros a IHa b IHb W fid c acc F. cbn [wf_sfx] in W. apply andb_prop in W. destruct W as [Wa Wb]. destruct fid.
    + rewrite (F eq_refl).
      cbn [e_sfx w_first w_idx i_sfx brackets]. rewrite index_space_dd.
      change (isdd 46) with true. cbn [spb app].
      rewrite (IHa Wa) by reflexivity. rewrite (IHb Wb) by reflexivity. fin_print.
    + cbn [e_sfx w_first w_suffix w_idx i_sfx brackets].
      rewrite (IHa Wa) by reflexivity. rewrite (IHb Wb) by reflexivity. fin_print.
  - (* [ a : ] suffix *)
    intros q IH W fid c acc F. cbn [wf_sfx] in W. destruct fid.
    + rewrite (F eq_refl).
      cbn [e_sfx w_first w_idx i_sfx brackets]. rewrite index_space_dd.
      change (isdd 46) with true. cbn [spb app]. rewrite (IH W) by reflexivity. fin_print.
    + cbn [e_sfx w_first w_suffix w_idx i_sfx brackets]. rewrite (IH W) by reflexivity. fin_print.
  - (* [ : b ] suffix *)
    intros q IH W fid c acc F. cbn [wf_sfx] in W. destruct fid.
    + rewrite (F eq_refl).
      cbn [e_sfx w_first w_idx i_sfx brackets]. rewrite index_space_dd.
      change (isdd 46) with true. cbn [spb app]. rewrite (IH W) by reflexivity. fin_print.
    + cbn [e_sfx w_first w_suffix w_idx i_sfx brackets]. rewrite (IH W) by reflexivity. fin_print.
  - (* ."s" suffix *)
    intros s _ fid c acc _.
    assert (E : w_first fid (e_sfx (XStr s)) (c :: acc) =
                w_idx true (Index [] (Some (JString s None)) None None false) (c :: acc)) by (destruct fid; reflexivity).
    rewrite E. cbn [w_idx w_jstring i_sfx]. rewrite index_space_dd. rewrite encode_string_bytes.
    destruct (isdd c); fin_print.
  - (* pt as ut *) intros t IH W acc OKP. simpl in *. auto.
  - (* sign *)
    intros neg u IH W acc OKP. simpl in W. cbn [e_ut w_term i_ut frender spb app ftok_bytes].
    rewrite op_text_bytes. rewrite (IH W) by (destruct neg; reflexivity).
    destruct neg; reflexivity.
  - (* try *)
    intros b IHb W acc OKP. simpl in W. cbn [e_ut w_term i_ut].
    rewrite (IHb W) by reflexivity. fin_print.
  - (* try catch *)
    intros b IHb c IHc W acc OKP. simpl in W. apply andb_prop in W. destruct W as [Wb Wc]. cbn [e_ut w_term i_ut].
    rewrite (IHb Wb) by reflexivity. rewrite (IHc Wc) by reflexivity. fin_print.
  - (* ut as query *) intros u IH W acc OKP. simpl in *. auto.
  - (* l OP r *)
    intros l IHl o r IHr W acc OKP. simpl in W. apply andb_prop in W. destruct W as [Wl Wr].
    cbn [e_sq w_query w_each i_sq]. rewrite (IHl Wl acc OKP).
    rewrite frender_app. cbn [frender]. rewrite frender_sp1. rewrite op_text_bytes.
    rewrite rev_append_app.
    rewrite IHr; auto; [|reflexivity].
    unfold wb, wbs. destruct o; simpl; rewrite ?rev_append_app; reflexivity.
  - (* label *)
    intros x b IHb W acc OKP. simpl in W. apply andb_prop in W. destruct W as [Wx Wb].
    cbn [e_sq qterm w_query w_each w_term i_sq].
    rewrite (IHb Wb) by reflexivity. fin_print.
  - (* as *)
    intros src IHs p alts b IHb W acc OKP. simpl in W. apply andb_prop in W. destruct W as [W Wb].
    apply andb_prop in W. destruct W as [W Ws]. apply andb_prop in W. destruct W as [Wp Wa].
    cbn [e_sq w_query w_each is_comma i_sq]. rewrite (IHs Ws acc OKP).
    rewrite (proj1 print_pat p Wp). rewrite print_alts by auto.
    rewrite op_text_bytes. rewrite (IHb Wb) by reflexivity. fin_print.
  - (* def *)
    intros n b IHb r IHr W acc OKP. simpl in W. apply andb_prop in W. destruct W as [W Wr].
    apply andb_prop in W. destruct W as [Wn Wb].
    cbn [e_sq i_sq]. rewrite w_query_prepend by apply e_sq_noimp.
    cbn [w_funcdef]. rewrite (IHb Wb) by reflexivity. rewrite (IHr Wr) by reflexivity. fin_print.
  - (* def with parameters *)
    intros n ps b IHb r IHr W acc OKP. simpl in W. apply andb_prop in W. destruct W as [W Wr].
    apply andb_prop in W. destruct W as [W Wb]. apply andb_prop in W. destruct W as [W Wps].
    apply andb_prop in W. destruct W as [Wn NE]. destruct ps as [|p0 pr]; [discriminate NE|].
    cbn [e_sq i_sq]. rewrite w_query_prepend by apply e_sq_noimp.
    cbn [w_funcdef]. change (map pbytes (p0 :: pr)) with (pbytes p0 :: map pbytes pr). cbv iota.
    change (pbytes p0 :: map pbytes pr) with (map pbytes (p0 :: pr)). rewrite w_params.
    rewrite (IHb Wb) by reflexivity. rewrite (IHr Wr) by reflexivity. fin_print.
  - (* one key *)
    intros k IH W acc OKP. cbn [wf_kvs] in W. exists (e_kv k), []. split; [reflexivity|].
    cbn [w_more i_kvs]. apply IH; auto.
  - (* key, more *)
    intros k IHk rest IHr W acc OKP. cbn [wf_kvs] in W. apply andb_prop in W. destruct W as [Wk Wr].
    exists (e_kv k), (e_kvs rest). split; [reflexivity|].
    rewrite (IHk Wk acc OKP).
    destruct (IHr Wr (ws ", " (rev_append (frender (i_kv k)) acc)) eq_refl) as (x & r & E & P).
    rewrite E. cbn [w_more i_kvs]. rewrite P. fin_print.
  - (* NAME: q *)
    intros n v IH W acc OKP. cbn [wf_kv] in W. apply andb_prop in W. destruct W as [Wn Wv].
    unfold fname_ok, ftok_ok in Wn. apply andb_prop in Wn. destruct Wn as [Wn _].
    destruct (name_ok_nonempty n Wn) as (c & r & ->).
    cbn [e_kv w_kv i_kv]. rewrite (IH Wv) by reflexivity. fin_print.
  - (* NAME *)
    intros n W acc OKP. cbn [wf_kv] in W.
    unfold fname_ok, ftok_ok in W. apply andb_prop in W. destruct W as [Wn _].
    destruct (name_ok_nonempty n Wn) as (c & r & ->).
    cbn [e_kv w_kv i_kv]. fin_print.
  - (* $NAME *)
    intros n W acc OKP. cbn [e_kv w_kv i_kv]. fin_print.
  - (* (q): q *)
    intros k IHk v IHv W acc OKP. cbn [wf_kv] in W. apply andb_prop in W. destruct W as [Wk Wv].
    cbn [e_kv w_kv i_kv]. rewrite (IHk Wk) by reflexivity. rewrite (IHv Wv) by reflexivity. fin_print.
  - (* "s": q *)
    intros s v IH W acc OKP. cbn [wf_kv] in W.
    cbn [e_kv w_kv w_jstring i_kv]. rewrite encode_string_bytes. rewrite (IH W) by reflexivity. fin_print.
  - (* "s" *)
    intros s _ acc OKP. cbn [e_kv w_kv w_jstring i_kv]. rewrite encode_string_bytes. fin_print.
  - (* no elif *) intros _ acc. reflexivity.
  - (* elif c then t ... *)
    intros c IHc t IHt rest IHr W acc. cbn [wf_elifs] in W. apply andb_prop in W. destruct W as [W Wr].
    apply andb_prop in W. destruct W as [Wc Wt].
    cbn [e_elifs w_each i_elifs]. rewrite (IHr Wr). unfold w_elif. cbn [fst snd].
    rewrite (IHc Wc) by reflexivity. rewrite (IHt Wt) by reflexivity. fin_print.
  - (* ...lit, closing quote *)
    intros lit _ acc. cbn [e_tail i_tail]. rewrite <- (app_nil_r (lpart lit)). rewrite w_lpart. cbn [w_each]. fin_print.
  - (* ...lit\(q)... *)
    intros lit q IHq r IHr W acc. cbn [wf_tail] in W. apply andb_prop in W. destruct W as [Wq Wr].
    cbn [e_tail i_tail]. rewrite w_lpart. cbn [w_each]. rewrite w_spart_interp.
    rewrite (IHq Wq) by reflexivity. rewrite (IHr Wr). fin_print.
Qed.

(* ---- the gaps the printer leaves are right ------------------------------------------------------------------ *)
(* [chain] with given bytes after the last token *)
Fixpoint chain_nb (items : list fitem) (tail : list N) : bool :=
  match items with
  | [] => true
  | (sp, t) :: r => ftok_ok t && nb_ok t (frender r ++ tail) && chain_nb r tail
  end.

Lemma chain_nb_none : forall items, chain_nb items [] = chain items.
Proof. induction items as [|[sp t] r IH]; simpl; auto. rewrite IH, app_nil_r. reflexivity. Qed.

Lemma chain_nb_app : forall a b tail, chain_nb (a ++ b) tail = chain_nb a (frender b ++ tail) && chain_nb b tail.
Proof.
  induction a as [|[sp t] r IH]; intros b tail; simpl; auto. rewrite IH.
  rewrite frender_app, <- app_assoc. rewrite !andb_assoc. reflexivity.
Qed.

Lemma chain_nb_sp1 : forall items tail, chain_nb (sp1 items) tail = chain_nb items tail.
Proof. intros [|[sp t] r] tail; reflexivity. Qed.

(* bytes that may follow any complete term of the sub-grammar: space ) ] [ ? , ; *)
Definition goodb (d : N) : bool :=
  ((d =? 32) || (d =? 41) || (d =? 93) || (d =? 91) || (d =? 63) || (d =? 44) || (d =? 59) || (d =? 125))%N.
(* ... or the `:` of a slice, when no second `:` follows *)
Definition good (tail : list N) : bool :=
  match tail with [] => true | d :: _ => goodb d || ((d =? 58)%N && colon_ok tail) end.

Lemma goodb_cases : forall d, goodb d = true ->
  d = 32%N \/ d = 41%N \/ d = 93%N \/ d = 91%N \/ d = 63%N \/ d = 44%N \/ d = 59%N \/ d = 125%N.
Proof.
  intros d H. unfold goodb in H.
  repeat (apply orb_prop in H; destruct H as [H|H]); apply N.eqb_eq in H; tauto.
Qed.

Definition not_op (t : ftok) : bool := match t with FOp _ | FSStart | FSPiece _ => false | _ => true end.

Lemma nb_ok_goodb : forall t d x, not_op t = true -> goodb d = true -> nb_ok t (d :: x) = true.
Proof.
  intros t d x NO G.
  destruct (goodb_cases d G) as [E|[E|[E|[E|[E|[E|[E|E]]]]]]]; subst d;
    destruct t; try discriminate NO; destruct x; try reflexivity; simpl; rewrite ?orb_true_r; reflexivity.
Qed.

Lemma nb_ok_colon : forall t x, not_op t = true -> colon_ok (58%N :: x) = true -> nb_ok t (58%N :: x) = true.
Proof.
  intros t x NO C.
  destruct t; try discriminate NO; try reflexivity; unfold nb_ok; rewrite C, orb_true_r, andb_true_r;
    try reflexivity. simpl. apply orb_true_r.
Qed.

Lemma good_nb_ok : forall t tail, not_op t = true -> good tail = true -> nb_ok t tail = true.
Proof.
  intros t [|d x] NO G; [destruct t; try discriminate NO; reflexivity|]. simpl in G. apply orb_prop in G. destruct G as [G|G].
  - apply nb_ok_goodb; auto.
  - apply andb_prop in G. destruct G as [E C]. apply N.eqb_eq in E. subst d. apply nb_ok_colon; auto.
Qed.

Lemma goodb_good : forall d x, goodb d = true -> good (d :: x) = true.
Proof. intros d x H. simpl. rewrite H. reflexivity. Qed.

Definition plain (t : ftok) : bool := match t with FOp _ | FDot | FNum _ | FSStart | FSPiece _ => false | _ => true end.

Lemma dot_nb_ok : forall t x, plain t = true -> nb_ok t (46%N :: x) = true.
Proof.
  intros t x P. destruct t; try discriminate P; destruct x; try reflexivity; simpl; rewrite ?orb_true_r; reflexivity.
Qed.

Definition startok (c : N) : Prop := (c =? 61)%N = false /\ (c =? 47)%N = false /\ (c =? 58)%N = false.

Lemma ident_startok : forall c, isIdent c false = true -> startok c.
Proof.
  intros c H. split; [|split].
  - destruct (c =? 61)%N eqn:E; auto. apply N.eqb_eq in E. subst c. discriminate H.
  - destruct (c =? 47)%N eqn:E; auto. apply N.eqb_eq in E. subst c. discriminate H.
  - destruct (c =? 58)%N eqn:E; auto. apply N.eqb_eq in E. subst c. discriminate H.
Qed.

(* the first byte a term prints is not one that would extend a sign into another token *)
Lemma first_byte :
  (forall b, wf_base b = true -> exists c rest, frender (i_base b) = c :: rest /\ startok c) /\
  (forall t, wf_pt t = true -> exists c rest, frender (i_pt t) = c :: rest /\ startok c) /\
  (forall s : sfx, True) /\
  (forall u, wf_ut u = true -> exists c rest, frender (i_ut u) = c :: rest /\ startok c) /\
  (forall q, wf_sq q = true -> exists c rest, frender (i_sq q) = c :: rest /\ startok c) /\
  (forall l : kvs, True) /\ (forall k : kv, True) /\ (forall el : elifs, True) /\ (forall r : stail, True).
Proof.
  apply sub_mutind; intros; simpl in *; auto;
    try (eexists; eexists; split; [reflexivity|split; [|split]; reflexivity]).
  - (* NAME *)
    unfold fname_ok, ftok_ok in H. apply andb_prop in H. destruct H as [N _].
    destruct n as [|c r]; [discriminate N|]. unfold name_ok in N. apply andb_prop in N. destruct N as [N1 _].
    exists c, (r ++ []). split; [reflexivity|apply ident_startok; auto].
  - (* number literal *)
    cbn [ftok_ok] in H. unfold num_lit in H. destruct ds as [|d0 dr]; [discriminate H|].
    apply andb_prop in H. destruct H as [H _].
    exists d0, (dr ++ []). split; [reflexivity|].
    destruct (isNumber d0) eqn:N1.
    + unfold isNumber in N1. apply andb_prop in N1. destruct N1 as [A B]. apply N.leb_le in A. apply N.leb_le in B.
      split; [|split]; apply N.eqb_neq; lia.
    + apply andb_prop in H. destruct H as [E _]. apply N.eqb_eq in E. subst d0. split; [|split]; reflexivity.
  - (* t SUFFIX *)
    apply andb_prop in H1. destruct H1 as [Wt _]. destruct (H Wt) as (c & rest & E & S).
    rewrite frender_app, E. simpl. eexists; eexists; split; [reflexivity|exact S].
  - (* sign *) destruct neg; eexists; eexists; (split; [reflexivity|split; [|split]; reflexivity]).
  - (* l OP r *)
    apply andb_prop in H1. destruct H1 as [Wl _]. destruct (H Wl) as (c & rest & E & S).
    rewrite frender_app, E. simpl. eexists; eexists; split; [reflexivity|exact S].
  - (* src as $x | body *)
    apply andb_prop in H1. destruct H1 as [H1 _]. apply andb_prop in H1. destruct H1 as [_ Ws].
    destruct (H Ws) as (c & rest & E & S).
    rewrite frender_app, E. simpl. eexists; eexists; split; [reflexivity|exact S].
Qed.

Lemma fop_space : forall o x, ftok_ok (FOp o) && nb_ok (FOp o) (32%N :: x) = true.
Proof. destruct o; destruct x; reflexivity. Qed.

Lemma last_app_ne : forall (a b : list N), b <> [] -> last (a ++ b) 0%N = last b 0%N.
Proof.
  induction a as [|x a IH]; intros b H; simpl; auto.
  destruct (a ++ b) eqn:E; [apply app_eq_nil in E; destruct E; contradiction|]. rewrite <- E. auto.
Qed.

Definition okfollow (items : list fitem) (tail : list N) : Prop :=
  good tail = true \/ (exists x, tail = 46%N :: x /\ isdd (last (frender items) 0%N) = false).

Lemma sfx_first : forall s fid c, wf_sfx s = true ->
  exists d rest, frender (i_sfx fid c s) = d :: rest /\ (goodb d = true \/ (d = 46%N /\ isdd c = false)).
Proof.
  intros [n|q| | |a b|a|b|s] fid c W; simpl.
  - destruct (isdd c) eqn:D; simpl; eexists; eexists; (split; [reflexivity|]); [left; reflexivity|right; auto].
  - destruct fid; simpl; eexists; eexists; (split; [reflexivity|left; reflexivity]).
  - eexists; eexists; (split; [reflexivity|left; reflexivity]).
  - eexists; eexists; (split; [reflexivity|left; reflexivity]).
  - destruct fid; simpl; eexists; eexists; (split; [reflexivity|left; reflexivity]).
  - destruct fid; simpl; eexists; eexists; (split; [reflexivity|left; reflexivity]).
  - destruct fid; simpl; eexists; eexists; (split; [reflexivity|left; reflexivity]).
  - destruct (isdd c) eqn:D; simpl; eexists; eexists; (split; [reflexivity|]); [left; reflexivity|right; auto].
Qed.

Lemma nb_ok_close : forall c f, (c =? 63)%N = false -> nb_ok (FCh c) f = true.
Proof. intros c [|d x] H; simpl; [|rewrite H]; reflexivity. Qed.

Lemma okfollow_nb_ok : forall t sp tail, not_op t = true -> (t = FDot \/ plain t = true) -> okfollow [(sp, t)] tail ->
  nb_ok t tail = true.
Proof.
  intros t sp tail NO PL [G|(x & E & D)].
  - apply good_nb_ok; auto.
  - subst tail. destruct PL as [->|PL]; [simpl in D; destruct sp; discriminate D|apply dot_nb_ok; auto].
Qed.

Lemma digits_last_dd : forall ds, ftok_ok (FNum ds) = true -> isdd (last ds 0%N) = true.
Proof.
  intros ds W. cbn [ftok_ok] in W. unfold num_lit in W. destruct ds as [|d0 dr]; [discriminate W|].
  apply andb_prop in W. tauto.
Qed.

Lemma okfollow_any : forall items t tail, not_op t = true -> plain t = true -> okfollow items tail -> nb_ok t tail = true.
Proof.
  intros items t tail NO PL [G|(x & E & _)]; [apply good_nb_ok; auto|subst tail; apply dot_nb_ok; auto].
Qed.

Arguments nb_ok : simpl never.

Ltac chain_fin :=
  repeat progress (cbn [chain_nb as_paren i_base i_ut i_sq];
                   rewrite ?chain_nb_app, ?chain_nb_sp1, ?frender_app, ?frender_sp1, ?frender_sp1p;
                   cbn [frender spb app ftok_bytes kw_bytes]);
  repeat match goal with
         | CP : forall tail, good tail = true -> chain_nb (i_pat ?p) tail = true |- context [chain_nb (i_pat ?p) ?n] =>
             rewrite (CP n) by reflexivity
         end;
  repeat match goal with
         | IH : forall tail, good tail = true -> chain_nb (i_sq ?q) tail = true |- context [chain_nb (i_sq ?q) ?n] =>
             rewrite (IH n) by reflexivity
         end;
  change (ftok_ok (FVar ?x)) with (name_ok x);
  repeat match goal with W : name_ok ?x = true |- context [name_ok ?x] => rewrite W end;
  rewrite ?nb_ok_close by reflexivity;
  repeat rewrite nb_ok_goodb by reflexivity;
  repeat match goal with |- context [nb_ok (FOp ?o) (32%N :: ?x)] =>
           replace (nb_ok (FOp o) (32%N :: x)) with true by (symmetry; destruct x; reflexivity) end;
  simpl; rewrite ?nb_ok_close by reflexivity; try reflexivity.

Lemma slice_chain : forall a b,
  (wf_sq a = true -> forall tail, good tail = true -> chain_nb (i_sq a) tail = true) ->
  (wf_sq b = true -> forall tail, good tail = true -> chain_nb (i_sq b) tail = true) ->
  wf_sq a = true -> wf_sq b = true -> forall tail,
  chain_nb (brackets (i_sq a ++ (false, FCh 58) :: i_sq b)) tail = true.
Proof.
  intros a b IHa IHb Wa Wb tail.
  destruct (proj1 (proj2 (proj2 (proj2 (proj2 first_byte)))) b Wb) as (c & rest & E & _ & _ & S3).
  cbn [brackets chain_nb]. rewrite nb_ok_close by reflexivity.
  rewrite !chain_nb_app. cbn [chain_nb]. rewrite !nb_ok_close by reflexivity.
  rewrite (IHb Wb) by reflexivity.
  rewrite (IHa Wa); [reflexivity|].
  cbn [frender spb app ftok_bytes]. rewrite E. simpl. rewrite S3. reflexivity.
Qed.

Lemma slice_from_chain : forall a,
  (wf_sq a = true -> forall tail, good tail = true -> chain_nb (i_sq a) tail = true) ->
  wf_sq a = true -> forall tail, chain_nb (brackets (i_sq a ++ [(false, FCh 58)])) tail = true.
Proof.
  intros a IHa Wa tail. cbn [brackets chain_nb]. rewrite nb_ok_close by reflexivity.
  rewrite !chain_nb_app. cbn [chain_nb]. rewrite !nb_ok_close by reflexivity.
  rewrite (IHa Wa) by reflexivity. reflexivity.
Qed.

Lemma slice_to_chain : forall b,
  (wf_sq b = true -> forall tail, good tail = true -> chain_nb (i_sq b) tail = true) ->
  wf_sq b = true -> forall tail, chain_nb (brackets ((false, FCh 58) :: i_sq b)) tail = true.
Proof.
  intros b IHb Wb tail. cbn [brackets chain_nb]. rewrite !nb_ok_close by reflexivity.
  rewrite !chain_nb_app. cbn [chain_nb]. rewrite !nb_ok_close by reflexivity.
  rewrite (IHb Wb) by reflexivity. reflexivity.
Qed.

(* what follows a then-branch starts with a space whether or not there are elif parts *)
Lemma elifs_then_good : forall el z, good (frender (i_elifs el) ++ 32%N :: z) = true.
Proof. intros [|c t r] z; reflexivity. Qed.

Lemma chain_nb_cons : forall sp t r tail,
  chain_nb ((sp, t) :: r) tail = ftok_ok t && nb_ok t (frender r ++ tail) && chain_nb r tail.
Proof. reflexivity. Qed.

Lemma chain_ipiece : forall lit X tail, piece_end (frender X ++ tail) = true ->
  chain_nb (ipiece lit ++ X) tail = chain_nb X tail.
Proof.
  intros [|c r] X tail P; [reflexivity|].
  cbn [ipiece app chain_nb ftok_ok]. rewrite enc_body_safe.
  destruct (enc_body (c :: r)) eqn:E; [exfalso; exact (enc_body_nonempty c r E)|].
  unfold nb_ok. rewrite P. reflexivity.
Qed.

Lemma start_ahead : forall lit x, interp_ahead (frender (ipiece lit) ++ 92%N :: 40%N :: x) = true.
Proof.
  intros [|c r] x; [reflexivity|].
  cbn [ipiece frender spb app ftok_bytes]. rewrite app_nil_r.
  rewrite (interp_ahead_app (List.length (enc_body (c :: r))) (enc_body (c :: r))) by (auto using enc_body_safe).
  reflexivity.
Qed.

Lemma istr_chain : forall lit q r,
  (wf_sq q = true -> forall tail, good tail = true -> chain_nb (i_sq q) tail = true) ->
  (wf_tail r = true -> forall tail, chain_nb (i_tail r) tail = true) ->
  wf_sq q = true -> wf_tail r = true -> forall tail,
  chain_nb ((false, FSQuery) :: i_sq q ++ (false, FCh 41) :: i_tail r) tail = true /\
  chain_nb ((false, FSStart) :: ipiece lit ++ (false, FSQuery) :: i_sq q ++ (false, FCh 41) :: i_tail r) tail = true.
Proof.
  intros lit q r IHq IHr Wq Wr tail.
  assert (A : chain_nb ((false, FSQuery) :: i_sq q ++ (false, FCh 41) :: i_tail r) tail = true).
  { cbn [chain_nb]. rewrite chain_nb_app. cbn [chain_nb]. rewrite nb_ok_close by reflexivity.
    rewrite (IHr Wr). rewrite (IHq Wq) by reflexivity. reflexivity. }
  split; [exact A|].
  cbn [chain_nb]. rewrite chain_ipiece by reflexivity. rewrite A.
  rewrite frender_app. cbn [frender spb app ftok_bytes]. rewrite <- app_assoc. cbn [app].
  unfold nb_ok. rewrite start_ahead. reflexivity.
Qed.

Lemma nb_ok_nc : forall t d x, not_op t = true -> nb1 t d = true -> (d =? 58)%N = false -> nb_ok t (d :: x) = true.
Proof.
  intros t d x NO H1 H2. destruct t; try discriminate NO; try reflexivity; unfold nb_ok; rewrite H1;
    destruct x; simpl; rewrite ?H2; reflexivity.
Qed.

Lemma chain_ptail : forall r x, forallb pok r = true -> chain_nb (i_ptail r) (41%N :: x) = true.
Proof.
  induction r as [|p r IH]; intros x W; [reflexivity|].
  simpl in W. apply andb_prop in W. destruct W as [Wp Wr].
  cbn [i_ptail chain_nb]. rewrite nb_ok_close by reflexivity. unfold pok in Wp. rewrite Wp. rewrite (IH x Wr).
  assert (G : exists d y, frender (i_ptail r) ++ 41%N :: x = d :: y /\ goodb d = true).
  { destruct r; simpl; eexists; eexists; split; reflexivity. }
  destruct G as (d & y & E & G). rewrite E. rewrite nb_ok_goodb; [reflexivity|destruct p; reflexivity|exact G].
Qed.

Lemma name_colon_space : forall n x, nb_ok (FName n) (58%N :: 32%N :: x) = true.
Proof. reflexivity. Qed.

Lemma alts_good : forall alts x, good (frender (i_alts alts) ++ 32%N :: x) = true.
Proof. intros [|q r] x; reflexivity. Qed.

Lemma chain_pat :
  (forall p, wf_pat p = true -> forall tail, good tail = true -> chain_nb (i_pat p) tail = true) /\
  (forall ps, wf_pats ps = true -> forall tail, good tail = true -> chain_nb (i_pats ps) tail = true) /\
  (forall os, wf_opats os = true -> forall tail, good tail = true -> chain_nb (i_opats os) tail = true) /\
  (forall o, wf_opat o = true -> forall tail, good tail = true -> chain_nb (i_opat o) tail = true).
Proof.
  apply pat_mutind.
  - intros n W tail G. cbn [wf_pat] in W. cbn [i_pat chain_nb frender app]. change (ftok_ok (FVar n)) with (name_ok n).
    rewrite W. rewrite (good_nb_ok (FVar n) tail eq_refl G). reflexivity.
  - intros ps IH W tail G. cbn [wf_pat] in W. cbn [i_pat]. rewrite chain_nb_cons, chain_nb_app.
    rewrite (IH W) by reflexivity. rewrite nb_ok_close by reflexivity. simpl. rewrite nb_ok_close by reflexivity. reflexivity.
  - intros os IH W tail G. cbn [wf_pat] in W. cbn [i_pat]. rewrite chain_nb_cons, chain_nb_app.
    rewrite (IH W) by reflexivity. rewrite nb_ok_close by reflexivity. simpl. rewrite nb_ok_close by reflexivity. reflexivity.
  - intros p IH W tail G. cbn [wf_pats] in W. cbn [i_pats]. auto.
  - intros p IHp r IHr W tail G. cbn [wf_pats] in W. apply andb_prop in W. destruct W as [Wp Wr].
    cbn [i_pats]. rewrite chain_nb_app, chain_nb_cons, chain_nb_sp1. rewrite frender_sp1ps. cbn [app].
    rewrite (IHr Wr tail G). rewrite fop_space. rewrite (IHp Wp) by reflexivity. reflexivity.
  - intros o IH W tail G. cbn [wf_opats] in W. cbn [i_opats]. auto.
  - intros o IHo r IHr W tail G. cbn [wf_opats] in W. apply andb_prop in W. destruct W as [Wo Wr].
    cbn [i_opats]. rewrite chain_nb_app, chain_nb_cons, chain_nb_sp1. rewrite frender_sp1os. cbn [app].
    rewrite (IHr Wr tail G). rewrite fop_space. rewrite (IHo Wo) by reflexivity. reflexivity.
  - intros n p IH W tail G. cbn [wf_opat] in W. apply andb_prop in W. destruct W as [Wn Wp].
    cbn [i_opat]. rewrite !chain_nb_cons, chain_nb_sp1. rewrite Wn. rewrite (IH Wp tail G).
    rewrite nb_ok_close by reflexivity. cbn [frender spb app ftok_bytes]. rewrite frender_sp1p. cbn [app].
    rewrite name_colon_space. reflexivity.
  - intros n W tail G. cbn [wf_opat] in W. cbn [i_opat chain_nb frender app]. change (ftok_ok (FVar n)) with (name_ok n).
    rewrite W. rewrite (good_nb_ok (FVar n) tail eq_refl G). reflexivity.
  - intros s p IH W tail G. cbn [wf_opat] in W.
    cbn [i_opat]. rewrite !chain_nb_cons, chain_nb_sp1. cbn [ftok_ok]. rewrite enc_body_safe. rewrite (IH W tail G).
    rewrite nb_ok_close by reflexivity. reflexivity.
Qed.

Lemma chain_alts : forall alts tail, forallb wf_pat alts = true -> good tail = true ->
  chain_nb (i_alts alts) tail = true.
Proof.
  induction alts as [|q r IH]; intros tail W G; [reflexivity|].
  simpl in W. apply andb_prop in W. destruct W as [Wq Wr].
  cbn [i_alts]. rewrite chain_nb_cons, chain_nb_app, chain_nb_sp1. rewrite (IH tail Wr G).
  rewrite (proj1 chain_pat q Wq); [reflexivity|].
  destruct r; [exact G|reflexivity].
Qed.

Lemma chain_items :
  (forall b, wf_base b = true -> forall tail, okfollow (i_base b) tail -> chain_nb (i_base b) tail = true) /\
  (forall t, wf_pt t = true -> forall tail, okfollow (i_pt t) tail -> chain_nb (i_pt t) tail = true) /\
  (forall s, wf_sfx s = true -> forall fid c tail, okfollow (i_sfx fid c s) tail -> chain_nb (i_sfx fid c s) tail = true) /\
  (forall u, wf_ut u = true -> forall tail, good tail = true -> chain_nb (i_ut u) tail = true) /\
  (forall q, wf_sq q = true -> forall tail, good tail = true -> chain_nb (i_sq q) tail = true) /\
  (forall l, wf_kvs l = true -> forall tail, good tail = true -> chain_nb (i_kvs l) tail = true) /\
  (forall k, wf_kv k = true -> forall tail, good tail = true -> chain_nb (i_kv k) tail = true) /\
  (forall el, wf_elifs el = true -> forall tail, good tail = true -> chain_nb (i_elifs el) tail = true) /\
  (forall r, wf_tail r = true -> forall tail, chain_nb (i_tail r) tail = true).
Proof.
  apply sub_mutind.
  - (* . *) intros _ nb F. cbn [i_base chain_nb frender app].
    rewrite (okfollow_nb_ok FDot false nb eq_refl (or_introl eq_refl) F). reflexivity.
  - (* .. *) intros _ nb F. simpl. destruct nb; reflexivity.
  - (* NAME *) intros n W nb F. cbn [wf_base] in W. unfold fname_ok in W.
    cbn [i_base chain_nb frender app]. rewrite W.
    rewrite (okfollow_nb_ok (FName n) false nb eq_refl (or_intror eq_refl) F). reflexivity.
  - (* .NAME *) intros n W nb F. cbn [wf_base] in W.
    cbn [i_base chain_nb frender app]. change (ftok_ok (FField n)) with (name_ok n). rewrite W.
    rewrite (okfollow_nb_ok (FField n) false nb eq_refl (or_intror eq_refl) F). reflexivity.
  - (* ( q ) *)
    intros q IH W nb F. simpl in W. cbn [i_base chain_nb]. rewrite nb_ok_close by reflexivity.
    rewrite chain_nb_app. rewrite (IH W) by reflexivity. simpl. rewrite nb_ok_close by reflexivity. reflexivity.
  - (* [ q ] *)
    intros q IH W nb F. simpl in W. cbn [i_base brackets chain_nb]. rewrite nb_ok_close by reflexivity.
    rewrite chain_nb_app. rewrite (IH W) by reflexivity. simpl. rewrite nb_ok_close by reflexivity. reflexivity.
  - (* [ ] *) intros _ nb F. simpl. rewrite nb_ok_close by reflexivity. reflexivity.
  - (* if then {elif} end *)
    intros c IHc t IHt el IHel W nb F. simpl in W. apply andb_prop in W. destruct W as [W Wel].
    apply andb_prop in W. destruct W as [Wc Wt].
    specialize (IHc Wc). specialize (IHt Wt). specialize (IHel Wel).
    pose proof (okfollow_any _ (FKw KEnd) nb eq_refl eq_refl F) as E.
    cbn [i_base]. repeat progress (cbn [chain_nb]; rewrite ?chain_nb_app, ?chain_nb_sp1).
    rewrite !frender_app, !frender_sp1.
    rewrite <- ?app_assoc. cbn [frender spb app ftok_bytes kw_bytes].
    rewrite IHc by reflexivity. rewrite IHel by reflexivity.
    rewrite IHt by apply elifs_then_good.
    rewrite E. repeat rewrite nb_ok_goodb by reflexivity. reflexivity.
  - (* if then {elif} else end *)
    intros c IHc t IHt el IHel e IHe W nb F. simpl in W. apply andb_prop in W. destruct W as [W We].
    apply andb_prop in W. destruct W as [W Wel]. apply andb_prop in W. destruct W as [Wc Wt].
    specialize (IHc Wc). specialize (IHt Wt). specialize (IHel Wel). specialize (IHe We).
    pose proof (okfollow_any _ (FKw KEnd) nb eq_refl eq_refl F) as E.
    cbn [i_base]. repeat progress (cbn [chain_nb]; rewrite ?chain_nb_app, ?chain_nb_sp1).
    rewrite !frender_app, !frender_sp1.
    rewrite <- ?app_assoc. cbn [frender spb app ftok_bytes kw_bytes].
    rewrite IHc by reflexivity. rewrite IHel by reflexivity. rewrite IHe by reflexivity.
    rewrite IHt by apply elifs_then_good.
    rewrite E. repeat rewrite nb_ok_goodb by reflexivity. reflexivity.
  - (* reduce *)
    intros src IHs x i IHi u IHu W nb F. simpl in W. apply andb_prop in W. destruct W as [W Wu].
    apply andb_prop in W. destruct W as [W Wi]. apply andb_prop in W. destruct W as [Wx Ws].
    specialize (IHs Ws). specialize (IHi Wi). specialize (IHu Wu). pose proof (proj1 chain_pat x Wx) as CP. chain_fin.
  - (* foreach *)
    intros src IHs x i IHi u IHu W nb F. simpl in W. apply andb_prop in W. destruct W as [W Wu].
    apply andb_prop in W. destruct W as [W Wi]. apply andb_prop in W. destruct W as [Wx Ws].
    specialize (IHs Ws). specialize (IHi Wi). specialize (IHu Wu). pose proof (proj1 chain_pat x Wx) as CP. chain_fin.
  - (* foreach with extract *)
    intros src IHs x i IHi u IHu e IHe W nb F. simpl in W. apply andb_prop in W. destruct W as [W We].
    apply andb_prop in W. destruct W as [W Wu].
    apply andb_prop in W. destruct W as [W Wi]. apply andb_prop in W. destruct W as [Wx Ws].
    specialize (IHs Ws). specialize (IHi Wi). specialize (IHu Wu). specialize (IHe We).
    pose proof (proj1 chain_pat x Wx) as CP. chain_fin.
  - (* $NAME *) intros n W nb F. cbn [wf_base] in W.
    cbn [i_base chain_nb frender app]. change (ftok_ok (FVar n)) with (name_ok n). rewrite W.
    rewrite (okfollow_nb_ok (FVar n) false nb eq_refl (or_intror eq_refl) F). reflexivity.
  - (* break $NAME *) intros n W nb F. cbn [wf_base] in W.
    pose proof (okfollow_any _ (FVar n) nb eq_refl eq_refl F) as E.
    chain_fin. rewrite E. reflexivity.
  - (* DIGITS *) intros ds W nb F. cbn [wf_base] in W.
    cbn [i_base chain_nb frender app]. rewrite W.
    destruct F as [G|(x & E & D)].
    + rewrite (good_nb_ok (FNum ds) nb eq_refl G). reflexivity.
    + cbn [i_base frender spb app ftok_bytes] in D. rewrite app_nil_r in D. rewrite (digits_last_dd ds W) in D. discriminate D.
  - (* {} *) intros _ nb F. simpl. rewrite nb_ok_close by reflexivity. reflexivity.
  - (* { kvs } *)
    intros l IH W nb F. cbn [wf_base] in W. specialize (IH W).
    cbn [i_base chain_nb]. rewrite nb_ok_close by reflexivity.
    rewrite chain_nb_app, chain_nb_sp1. rewrite IH by reflexivity.
    simpl. rewrite nb_ok_close by reflexivity. reflexivity.
  - (* .[ q ] *)
    intros q IH W nb F. cbn [wf_base] in W. specialize (IH W).
    cbn [i_base brackets chain_nb]. rewrite nb_ok_close by reflexivity.
    rewrite chain_nb_app. rewrite IH by reflexivity. simpl. rewrite nb_ok_close by reflexivity. reflexivity.
  - (* .[ a : b ] *)
    intros a IHa b IHb W nb F. cbn [wf_base] in W. apply andb_prop in W. destruct W as [Wa Wb].
    cbn [i_base]. cbn [chain_nb]. rewrite (slice_chain a b IHa IHb Wa Wb nb). simpl. reflexivity.
  - (* .[ a : ] *)
    intros a IHa W nb F. cbn [wf_base] in W.
    cbn [i_base]. cbn [chain_nb]. rewrite (slice_from_chain a IHa W nb). simpl. reflexivity.
  - (* .[ : b ] *)
    intros b IHb W nb F. cbn [wf_base] in W.
    cbn [i_base]. cbn [chain_nb]. rewrite (slice_to_chain b IHb W nb). simpl. reflexivity.
  - (* @NAME *) intros n W nb F. cbn [wf_base] in W.
    cbn [i_base chain_nb frender app]. rewrite W.
    rewrite (okfollow_nb_ok (FFmt n) false nb eq_refl (or_intror eq_refl) F). reflexivity.
  - (* "s" *) intros s _ nb F. cbn [i_base chain_nb ftok_ok]. rewrite enc_body_safe. reflexivity.
  - (* @NAME "s" *) intros n s W nb F. cbn [wf_base] in W. cbn [i_base chain_nb]. rewrite W.
    cbn [ftok_ok]. rewrite enc_body_safe. cbn [frender spb app ftok_bytes]. rewrite nb_ok_goodb by reflexivity. reflexivity.
  - (* ."s" *) intros s _ nb F. cbn [i_base chain_nb ftok_ok]. rewrite enc_body_safe. reflexivity.
  - (* "lit\(q)..." *)
    intros lit q IHq r IHr W nb F. cbn [wf_base] in W. apply andb_prop in W. destruct W as [Wq Wr].
    cbn [i_base]. apply (istr_chain lit q r IHq IHr Wq Wr nb).
  - (* @NAME "lit\(q)..." *)
    intros n lit q IHq r IHr W nb F. cbn [wf_base] in W. apply andb_prop in W. destruct W as [W Wr].
    apply andb_prop in W. destruct W as [Wn Wq].
    cbn [i_base]. rewrite chain_nb_cons. rewrite Wn. rewrite (chain_nb_cons true FSStart). rewrite <- (chain_nb_cons false FSStart).
    rewrite (proj2 (istr_chain lit q r IHq IHr Wq Wr nb)).
    cbn [frender spb app ftok_bytes]. rewrite nb_ok_goodb by reflexivity. reflexivity.
  - (* base as term *) intros b IH W nb F. simpl in *. auto.
  - (* t SUFFIX *)
    intros t IHt s IHs W nb F. simpl in W. apply andb_prop in W. destruct W as [Wt Ws].
    cbn [i_pt] in *. set (P := i_pt t) in *. set (S := i_sfx (is_bid t) (last (frender P) 0%N) s) in *.
    destruct (sfx_first s (is_bid t) (last (frender P) 0%N) Ws) as (d & rest & E & D). fold S in E.
    rewrite chain_nb_app. apply andb_true_intro. split.
    + rewrite E. simpl. apply (IHt Wt). destruct D as [D|[D1 D2]]; [left; apply goodb_good; exact D|right; subst d; eauto].
    + apply (IHs Ws). destruct F as [G|(x & F1 & F2)]; [left; exact G|right]. exists x. split; auto.
      rewrite frender_app in F2. rewrite last_app_ne in F2; auto. rewrite E. discriminate.
  - (* .NAME suffix *)
    intros n W fid c nb F. cbn [wf_sfx] in W.
    cbn [i_sfx chain_nb frender app]. change (ftok_ok (FField n)) with (name_ok n). rewrite W.
    rewrite (okfollow_nb_ok (FField n) (isdd c) nb eq_refl (or_intror eq_refl) F). reflexivity.
  - (* [ q ] suffix *)
    intros q IH W fid c nb F. simpl in W.
    assert (B : chain_nb (brackets (i_sq q)) nb = true).
    { cbn [brackets chain_nb]. rewrite nb_ok_close by reflexivity.
      rewrite chain_nb_app. rewrite (IH W) by reflexivity. simpl. rewrite nb_ok_close by reflexivity. reflexivity. }
    destruct fid; cbn [i_sfx]; [|exact B].
    cbn [chain_nb]. rewrite B. reflexivity.
  - (* [] *) intros _ fid c nb F. simpl. rewrite nb_ok_close by reflexivity. reflexivity.
  - (* ? *)
    intros _ fid c nb F. simpl. destruct F as [G|(x & -> & _)]; [|reflexivity].
    destruct nb as [|d x]; [reflexivity|]. simpl in G. apply orb_prop in G. destruct G as [G|G].
    + destruct (goodb_cases d G) as [E|[E|[E|[E|[E|[E|[E|E]]]]]]]; subst d; reflexivity.
    + apply andb_prop in G. destruct G as [E _]. apply N.eqb_eq in E. subst d. reflexivity.
  - (* [ a : b ] suffix *)
    intros a IHa b IHb W fid c nb F. cbn [wf_sfx] in W. apply andb_prop in W. destruct W as [Wa Wb].
    pose proof (slice_chain a b IHa IHb Wa Wb nb) as B.
    destruct fid; cbn [i_sfx]; [|exact B].
    cbn [chain_nb]. rewrite B. reflexivity.
  - (* [ a : ] suffix *)
    intros a IHa W fid c nb F. cbn [wf_sfx] in W.
    pose proof (slice_from_chain a IHa W nb) as B.
    destruct fid; cbn [i_sfx]; [|exact B].
    cbn [chain_nb]. rewrite B. reflexivity.
  - (* [ : b ] suffix *)
    intros b IHb W fid c nb F. cbn [wf_sfx] in W.
    pose proof (slice_to_chain b IHb W nb) as B.
    destruct fid; cbn [i_sfx]; [|exact B].
    cbn [chain_nb]. rewrite B. reflexivity.
  - (* ."s" suffix *)
    intros s _ fid c nb F. cbn [i_sfx chain_nb ftok_ok]. rewrite enc_body_safe. reflexivity.
  - (* pt as ut *) intros t IH W nb G. simpl in *. apply IH; auto. left; exact G.
  - (* sign *)
    intros neg u IH W nb G. simpl in W. cbn [i_ut chain_nb].
    destruct (proj1 (proj2 (proj2 (proj2 first_byte))) u W) as (c & rest & E & S1 & S2 & _).
    rewrite E. unfold nb_ok. simpl. rewrite S1, S2. rewrite (IH W nb G). destruct neg; reflexivity.
  - (* try *)
    intros b IHb W nb G. simpl in W. specialize (IHb W). chain_fin. rewrite (IHb nb G). reflexivity.
  - (* try catch *)
    intros b IHb c IHc W nb G. simpl in W. apply andb_prop in W. destruct W as [Wb Wc].
    specialize (IHb Wb). specialize (IHc Wc). chain_fin. rewrite (IHc nb G). reflexivity.
  - (* ut as query *) intros u IH W nb G. simpl in *. auto.
  - (* l OP r *)
    intros l IHl o r IHr W nb G. simpl in W. apply andb_prop in W. destruct W as [Wl Wr].
    cbn [i_sq]. rewrite chain_nb_app. cbn [chain_nb]. rewrite frender_sp1. cbn [app].
    rewrite chain_nb_sp1. rewrite (IHr Wr nb G). rewrite fop_space.
    rewrite IHl; auto. cbn [frender]. destruct o; reflexivity.
  - (* label *)
    intros x b IHb W nb G. simpl in W. apply andb_prop in W. destruct W as [Wx Wb].
    specialize (IHb Wb). chain_fin. rewrite (IHb nb G). reflexivity.
  - (* as *)
    intros src IHs p alts b IHb W nb G. simpl in W. apply andb_prop in W. destruct W as [W Wb].
    apply andb_prop in W. destruct W as [W Ws]. apply andb_prop in W. destruct W as [Wp Wa].
    specialize (IHs Ws). specialize (IHb Wb).
    cbn [i_sq]. rewrite chain_nb_app, chain_nb_cons, chain_nb_app, chain_nb_sp1, chain_nb_app, chain_nb_cons, chain_nb_sp1.
    rewrite ?frender_app, ?frender_sp1, ?frender_sp1p. cbn [frender spb app ftok_bytes fop_bytes kw_bytes].
    rewrite <- ?app_assoc. cbn [app].
    rewrite (IHb nb G). rewrite fop_space. rewrite chain_alts by (auto; reflexivity).
    rewrite (proj1 chain_pat p Wp) by apply alts_good.
    rewrite IHs by reflexivity. rewrite nb_ok_goodb by reflexivity. reflexivity.
  - (* def *)
    intros n b IHb r IHr W nb G. simpl in W. apply andb_prop in W. destruct W as [W Wr].
    apply andb_prop in W. destruct W as [Wn Wb]. unfold fname_ok in Wn.
    specialize (IHb Wb). specialize (IHr Wr). cbn [i_sq chain_nb]. rewrite Wn. chain_fin. rewrite (IHr nb G). reflexivity.
  - (* def with parameters *)
    intros n ps b IHb r IHr W nb G. simpl in W. apply andb_prop in W. destruct W as [W Wr].
    apply andb_prop in W. destruct W as [W Wb]. apply andb_prop in W. destruct W as [W Wps].
    apply andb_prop in W. destruct W as [Wn NE]. destruct ps as [|p0 pr]; [discriminate NE|]. unfold fname_ok in Wn.
    simpl in Wps. apply andb_prop in Wps. destruct Wps as [Wp0 Wpr]. unfold pok in Wp0.
    specialize (IHb Wb). specialize (IHr Wr).
    cbn [i_sq i_params app]. rewrite !chain_nb_cons. rewrite Wn, Wp0. rewrite nb_ok_close by reflexivity.
    rewrite chain_nb_app. rewrite !chain_nb_cons. rewrite !nb_ok_close by reflexivity.
    rewrite chain_nb_app, chain_nb_sp1. rewrite !chain_nb_cons. rewrite nb_ok_close by reflexivity. rewrite chain_nb_sp1.
    rewrite (IHr nb G). rewrite IHb by (rewrite ?frender_app, ?frender_sp1; reflexivity).
    cbn [frender spb app ftok_bytes]. rewrite chain_ptail by exact Wpr.
    rewrite (nb_ok_nc (FName n) 40%N) by reflexivity.
    assert (GG : exists d y, frender (i_ptail pr ++ (false, FCh 41) :: (false, FCh 58)
                                        :: sp1 (i_sq b) ++ (false, FCh 59) :: sp1 (i_sq r)) ++ nb
                 = d :: y /\ goodb d = true).
    { destruct pr; simpl; eexists; eexists; split; reflexivity. }
    destruct GG as (d & y & E & GD). rewrite E.
    assert (PN : not_op (ptok p0) = true) by (destruct p0; reflexivity).
    rewrite (nb_ok_goodb (ptok p0) d y PN GD). repeat rewrite nb_ok_goodb by reflexivity. reflexivity.
  - (* one key *) intros k IH W nb G. simpl in *. auto.
  - (* key, more *)
    intros k IHk rest IHr W nb G. cbn [wf_kvs] in W. apply andb_prop in W. destruct W as [Wk Wr].
    cbn [i_kvs]. rewrite chain_nb_app. cbn [chain_nb]. rewrite frender_sp1k. cbn [app frender spb ftok_bytes fop_bytes].
    rewrite chain_nb_sp1. rewrite (IHr Wr nb G). rewrite (IHk Wk) by reflexivity. reflexivity.
  - (* NAME: q *)
    intros n v IH W nb G. cbn [wf_kv] in W. apply andb_prop in W. destruct W as [Wn Wv]. unfold fname_ok in Wn.
    specialize (IH Wv). cbn [i_kv chain_nb]. rewrite Wn. chain_fin. rewrite (IH nb G). reflexivity.
  - (* NAME *)
    intros n W nb G. cbn [wf_kv] in W. unfold fname_ok in W. cbn [i_kv chain_nb frender app]. rewrite W.
    rewrite (good_nb_ok (FName n) nb eq_refl G). reflexivity.
  - (* $NAME *)
    intros n W nb G. cbn [wf_kv] in W. cbn [i_kv chain_nb frender app]. change (ftok_ok (FVar n)) with (name_ok n).
    rewrite W. rewrite (good_nb_ok (FVar n) nb eq_refl G). reflexivity.
  - (* (q): q *)
    intros k IHk v IHv W nb G. cbn [wf_kv] in W. apply andb_prop in W. destruct W as [Wk Wv].
    specialize (IHk Wk). specialize (IHv Wv). cbn [i_kv chain_nb]. rewrite nb_ok_close by reflexivity.
    rewrite chain_nb_app. rewrite IHk by reflexivity. chain_fin. rewrite (IHv nb G). reflexivity.
  - (* "s": q *)
    intros s v IH W nb G. cbn [wf_kv] in W. specialize (IH W).
    cbn [i_kv chain_nb ftok_ok]. rewrite enc_body_safe. chain_fin. rewrite (IH nb G). reflexivity.
  - (* "s" *) intros s _ nb G. cbn [i_kv chain_nb ftok_ok]. rewrite enc_body_safe. reflexivity.
  - (* no elif *) intros _ nb G. reflexivity.
  - (* elif c then t ... *)
    intros c IHc t IHt rest IHr W nb G. cbn [wf_elifs] in W. apply andb_prop in W. destruct W as [W Wr].
    apply andb_prop in W. destruct W as [Wc Wt].
    specialize (IHc Wc). specialize (IHt Wt). specialize (IHr Wr).
    cbn [i_elifs]. repeat progress (cbn [chain_nb]; rewrite ?chain_nb_app, ?chain_nb_sp1).
    rewrite ?frender_app, ?frender_sp1.
    rewrite IHc by reflexivity. rewrite (IHr nb G).
    rewrite <- ?app_assoc. cbn [frender spb app ftok_bytes kw_bytes].
    rewrite IHt; [repeat rewrite nb_ok_goodb by reflexivity; reflexivity|].
    destruct rest; [cbn [i_elifs frender app]; exact G|reflexivity].
  - (* ...lit, closing quote *)
    intros lit _ nb. cbn [i_tail]. rewrite chain_ipiece by reflexivity. reflexivity.
  - (* ...lit\(q)... *)
    intros lit q IHq r IHr W nb. cbn [wf_tail] in W. apply andb_prop in W. destruct W as [Wq Wr].
    cbn [i_tail]. rewrite chain_ipiece by reflexivity.
    apply (proj1 (istr_chain [] q r IHq IHr Wq Wr nb)).
Qed.

(* ---- every token is lexed in the mode it needs; parentheses are balanced --------------------------------- *)
Lemma modes_sp1 : forall X t r stk rest, X = (false, t) :: r -> tmode t = false ->
  modes false stk (sp1 X ++ rest) = modes false stk (X ++ rest).
Proof. intros X t r stk rest -> M. simpl. rewrite M. reflexivity. Qed.

Lemma modes_sp1_sq : forall q stk rest, modes false stk (sp1 (i_sq q) ++ rest) = modes false stk (i_sq q ++ rest).
Proof.
  intros q stk rest. destruct (proj1 (proj2 (proj2 (proj2 (proj2 first_nosp)))) q) as (t & r & E & M).
  apply (modes_sp1 _ t r); auto.
Qed.

Lemma modes_sp1_kvs : forall l stk rest, modes false stk (sp1 (i_kvs l) ++ rest) = modes false stk (i_kvs l ++ rest).
Proof.
  intros l stk rest. destruct (proj1 (proj2 (proj2 (proj2 (proj2 (proj2 first_nosp))))) l) as (t & r & E & M).
  apply (modes_sp1 _ t r); auto.
Qed.

Lemma modes_ipiece : forall lit stk X, modes true stk (ipiece lit ++ X) = modes true stk X.
Proof. intros [|c r] stk X; reflexivity. Qed.

Lemma modes_sp1_pat : forall p stk rest, modes false stk (sp1 (i_pat p) ++ rest) = modes false stk (i_pat p ++ rest).
Proof. intros p stk rest. destruct (proj1 first_nosp_pat p) as (t & r & E & M). apply (modes_sp1 _ t r); auto. Qed.
Lemma modes_sp1_pats : forall p stk rest, modes false stk (sp1 (i_pats p) ++ rest) = modes false stk (i_pats p ++ rest).
Proof. intros p stk rest. destruct (proj1 (proj2 first_nosp_pat) p) as (t & r & E & M). apply (modes_sp1 _ t r); auto. Qed.
Lemma modes_sp1_opats : forall p stk rest, modes false stk (sp1 (i_opats p) ++ rest) = modes false stk (i_opats p ++ rest).
Proof. intros p stk rest. destruct (proj1 (proj2 (proj2 first_nosp_pat)) p) as (t & r & E & M). apply (modes_sp1 _ t r); auto. Qed.

Lemma modes_pat :
  (forall p stk rest, modes false stk (i_pat p ++ rest) = modes false stk rest) /\
  (forall p stk rest, modes false stk (i_pats p ++ rest) = modes false stk rest) /\
  (forall p stk rest, modes false stk (i_opats p ++ rest) = modes false stk rest) /\
  (forall p stk rest, modes false stk (i_opat p ++ rest) = modes false stk rest).
Proof.
  apply pat_mutind; intros;
    repeat progress (simpl; rewrite <- ?app_assoc; rewrite ?modes_sp1_pat, ?modes_sp1_pats, ?modes_sp1_opats;
                     repeat match goal with
                            | IH : forall stk rest, modes false stk (?X ++ rest) = modes false stk rest
                              |- context [modes false ?s (?X ++ ?r)] => rewrite (IH s r)
                            end); reflexivity.
Qed.

Lemma modes_alts : forall alts stk rest, modes false stk (i_alts alts ++ rest) = modes false stk rest.
Proof.
  induction alts as [|q r IH]; intros stk rest; [reflexivity|].
  cbn [i_alts app]. simpl. rewrite <- app_assoc. rewrite modes_sp1_pat.
  rewrite (proj1 modes_pat). apply IH.
Qed.

Lemma modes_ptail : forall r stk X, modes false stk (i_ptail r ++ X) = modes false stk X.
Proof. induction r as [|p r IH]; intros stk X; [reflexivity|]. destruct p; simpl; apply IH. Qed.

Ltac modes_tac :=
  repeat progress (simpl; rewrite <- ?app_assoc; rewrite ?modes_sp1_sq, ?modes_sp1_kvs, ?modes_sp1_pat, ?(proj1 modes_pat);
                   repeat match goal with
                          | IH : forall stk rest, modes false stk (?X ++ rest) = modes false stk rest
                            |- context [modes false ?s (?X ++ ?r)] => rewrite (IH s r)
                          end).

Lemma modes_items :
  (forall b stk rest, modes false stk (i_base b ++ rest) = modes false stk rest) /\
  (forall t stk rest, modes false stk (i_pt t ++ rest) = modes false stk rest) /\
  (forall s fid c stk rest, modes false stk (i_sfx fid c s ++ rest) = modes false stk rest) /\
  (forall u stk rest, modes false stk (i_ut u ++ rest) = modes false stk rest) /\
  (forall q stk rest, modes false stk (i_sq q ++ rest) = modes false stk rest) /\
  (forall l stk rest, modes false stk (i_kvs l ++ rest) = modes false stk rest) /\
  (forall k stk rest, modes false stk (i_kv k ++ rest) = modes false stk rest) /\
  (forall el stk rest, modes false stk (i_elifs el ++ rest) = modes false stk rest) /\
  (forall r stk rest, modes true stk (i_tail r ++ rest) = modes false stk rest).
Proof.
  apply sub_mutind; intros; try (destruct fid); modes_tac; try reflexivity;
    try (rewrite H0; reflexivity);
    repeat (rewrite ?modes_ipiece; modes_tac; rewrite ?H, ?H0; modes_tac); try reflexivity.
  - (* as *)
    modes_tac; rewrite ?modes_sp1_pat, ?(proj1 modes_pat), ?modes_alts; modes_tac; reflexivity.
  - (* def with parameters *)
    destruct ps as [|p0 pr]; [|destruct p0]; modes_tac; rewrite ?modes_ptail; modes_tac; rewrite ?H, ?H0; modes_tac;
      try reflexivity.
Qed.

(* ---- print_tokens ---------------------------------------------------------------------------------------- *)
Theorem print_bytes_are_items : forall q, wf_sq q = true -> print_query (e_sq q) = frender (i_sq q).
Proof.
  intros q W. unfold print_query.
  rewrite (proj1 (proj2 (proj2 (proj2 (proj2 print_items)))) q W [] I).
  rewrite rev_append_rev, app_nil_r, rev_involutive. reflexivity.
Qed.

Theorem print_tokens : forall q, wf_sq q = true ->
  option_map (map proj) (tokenize (print_query (e_sq q))) = Some (tokens_of q ++ [(KEOF, [])]).
Proof.
  intros q W. rewrite print_bytes_are_items by auto. apply tokenize_items;
    [|rewrite <- (app_nil_r (i_sq q)); rewrite (proj1 (proj2 (proj2 (proj2 (proj2 modes_items)))) q [] []); reflexivity].
  rewrite <- chain_nb_none. apply (proj1 (proj2 (proj2 (proj2 (proj2 chain_items)))) q W [] eq_refl).
Qed.
