(* Types shared by the generated grammar tables (coq/gen/GenGrammar.v) and the C09 model. *)
Inductive assoc := ALeft | ARight | ANonassoc.
