(* C09b — the goyacc automaton of the CURRENT parser.go, run inside Coq, builds the trees of the spec parser.

   Control is c08/LR.v's [step] (the transcription of yyParserImpl.Parse over the tables translated from
   parser.go, coq/gen/GenTables.v) used as is.  This file decorates it with a semantic-value stack for the
   operator sublanguage: [decide] re-derives from the same table functions whether the round shifts or
   reduces (and by which production), the value stack is updated accordingly, and it is checked at every
   round that it stays as long as LR's state stack (a wrong [decide] shows as [VDesync]).  Semantic actions
   are those of parser.go.y as classified by the translator (GenGrammar.productions): binary rules build Bin,
   `term: tokIdentModuleIdent` an atom, `term: '(' query ')'` Paren, productions without action pass $1 on,
   `expr: term` wraps, `program` returns $3, everything else is the marker VOther.  Token numbers come from the
   constants of parser.go (GenGrammar.tok_num); single-character tokens are their byte. *)
From Coq Require Import List NArith ZArith Bool String Ascii Arith.
From Verif Require Import common.Sexp c09.GrammarTypes gen.GenGrammar gen.GenTables c08.LR c09.Ops c09.Lexer.
Import ListNotations.
Local Open Scope list_scope.
Local Open Scope Z_scope.

Notation E := (expr (list N)).

Inductive val := VTok (name : string) (text : list N) | VExpr (e : E) | VNil | VOther.

(* ---- what a driver round does to the value stack ------------------------------------------------ *)
Inductive decision := DShift | DReduce (n : Z) | DNone.

Definition ddflt (T : tables) (c : cfg) (s : Z) : res decision :=
  d <- idx 13 (tDef T) s ;;
  if d =? -2 then
    c2 <- ensure_la T c ;;
    n <- exca_lookup T s (token c2) ;;
    if n <=? 0 then Ok DNone else Ok (DReduce n)
  else if d =? 0 then Ok DNone else Ok (DReduce d).

Definition decide (T : tables) (c : cfg) : res decision :=
  match stk c with
  | [] => Ok DNone
  | s :: _ =>
      simple <- simple_state T s ;;
      if (simple : bool) then ddflt T c s
      else
        c1 <- ensure_la T c ;;
        sh <- shift_of T s (token c1) ;;
        match sh with Some _ => Ok DShift | None => ddflt T c1 s end
  end.

(* ---- semantic actions --------------------------------------------------------------------------- *)
Definition starts_with (p s : string) : bool := String.eqb p (substring 0 (String.length p) s).

Definition op_of_val (kind : string) (v : val) : option binop :=
  let o := substring 4 (String.length kind - 4) kind in
  if String.eqb o "$2" then
    match v with
    | VTok name text =>
        match find (fun r => list_N_eqb (codes (fst (fst r))) text && String.eqb (snd (fst r)) name) lex_ops with
        | Some (_, _, oname) => op_of_name oname
        | None => None
        end
    | _ => None
    end
  else op_of_name o.

(* args: the values of the right-hand side, left to right *)
Definition act (n : Z) (args : list val) : val :=
  match nth_error productions (Z.to_nat (n - 1)) with
  | None => VOther
  | Some (_, _, kind) =>
      if String.eqb kind "pass" then match args with [v] => v | _ => VOther end
      else if String.eqb kind "wrapterm" then match args with [VExpr e] => VExpr e | _ => VOther end
      else if String.eqb kind "func" then match args with [VTok name text] => VExpr (Atom text) | _ => VOther end
      else if String.eqb kind "paren" then match args with [_; VExpr e; _] => VExpr (Paren e) | _ => VOther end
      else if String.eqb kind "nil" then VNil
      else if String.eqb kind "program" then match args with [VNil; VNil; VExpr e] => VExpr e | _ => VOther end
      else if starts_with "bin:" kind then
        match args with
        | [VExpr l; vo; VExpr r] => match op_of_val kind vo with Some o => VExpr (Bin o l r) | None => VOther end
        | _ => VOther
        end
      else VOther
  end.

Inductive voutcome := VAccept (v : val) | VReject | VPanic (site : nat) | VFuel | VDesync.

Section Run.
  Variable T : tables.
  Variable vals : list val.              (* the semantic value of the i-th token Lex returns *)

  Definition vstep (c : cfg) (vs : list val) : option (list val) :=
    match decide T c with
    | Panic _ => None
    | Ok DNone => Some vs
    | Ok DShift =>
        (* the lookahead is the token returned by the last Lex call made up to and including this round *)
        match ensure_la T c with
        | Ok c1 => Some (nth (Z.to_nat (nlex c1 - 1)) vals VOther :: vs)
        | Panic _ => None
        end
    | Ok (DReduce n) =>
        match idx 30 (tR2 T) n with
        | Ok r2 => let k := Z.to_nat r2 in Some (act n (rev (firstn k vs)) :: skipn k vs)
        | Panic _ => None
        end
    end.

  Fixpoint vrun (fuel : nat) (c : cfg) (vs : list val) : voutcome :=
    match fuel with
    | O => VFuel
    | S f =>
        match step T c with
        | Cont c' =>
            match vstep c vs with
            | Some vs' => if Nat.eqb (List.length vs') (List.length (stk c')) then vrun f c' vs' else VDesync
            | None => VDesync
            end
        | Accept _ => match vs with v :: _ => VAccept v | [] => VDesync end
        | Reject _ => VReject
        | Crash s => VPanic s
        end
    end.
End Run.

(* ---- from the tokens of the operator sublanguage to what Lex returns ---------------------------- *)
Definition char_of_name (t : string) : option Z :=
  match t with
  | String "'"%char (String c (String "'"%char EmptyString)) => Some (Z.of_N (N_of_ascii c))
  | _ => match find (fun r => String.eqb (fst r) t) tok_num with Some (_, z) => Some z | None => None end
  end.

Definition lex_of_tok (t : tok (list N)) : option (Z * val) :=
  match t with
  | TAtom a => match char_of_name "tokIdent" with Some z => Some (z, VTok "tokIdent" a) | None => None end
  | TOp o =>
      match gen_token_of_op o with
      | Some name => match char_of_name name with Some z => Some (z, VTok name (gen_op_bytes o)) | None => None end
      | None => None
      end
  | TLP => Some (40, VTok "'('" [40%N])
  | TRP => Some (41, VTok "')'" [41%N])
  end.

Fixpoint lex_of_toks (ts : list (tok (list N))) : option (list (Z * val)) :=
  match ts with
  | [] => Some []
  | t :: r => match lex_of_tok t, lex_of_toks r with Some x, Some xs => Some (x :: xs) | _, _ => None end
  end.

(* the LR driver of the current parser.go on a token list: Some (Some e) = accepted with the tree e,
   Some None = syntax error, None = anything else (panic, fuel, a value that is not an expression) *)
Definition lr_parse (ts : list (tok (list N))) : option (option E) :=
  match lex_of_toks ts with
  | None => None
  | Some l =>
      match vrun the_tables (map snd l) (40 * S (List.length ts)) (init (map fst l)) [VNil] with
      | VAccept (VExpr e) => Some (Some e)
      | VReject => Some None
      | _ => None
      end
  end.

Definition spec_parse (ts : list (tok (list N))) : option E := Ops.parse (list N) gen_lvl gen_asc ts.

Definition opt_expr_eqb (a b : option E) : bool :=
  match a, b with
  | None, None => true
  | Some x, Some y =>
      (fix eqb (x y : E) : bool :=
         match x, y with
         | Atom a, Atom b => list_N_eqb a b
         | Paren x, Paren y => eqb x y
         | Bin o l r, Bin o' l' r' => binop_eqb o o' && eqb l l' && eqb r r'
         | _, _ => false
         end) x y
  | _, _ => false
  end.

Definition agrees (ts : list (tok (list N))) : bool :=
  match lr_parse ts with Some r => opt_expr_eqb r (spec_parse ts) | None => false end.

(* the productions table is the one the tables of parser.go were generated from: as many rules, the same
   right-hand-side lengths (yyR2), and two rules have the same left-hand side iff yyR1 says so *)
Definition productions_match_tables : bool :=
  Nat.eqb (S (List.length productions)) (List.length yyR2) &&
  forallb (fun i => match nth_error productions i, nth_error yyR2 (S i) with
                    | Some (_, rhs, _), Some k => Z.eqb (Z.of_nat (List.length rhs)) k
                    | _, _ => false
                    end) (seq 0 (List.length productions)) &&
  forallb (fun i => forallb (fun j =>
     match nth_error productions i, nth_error productions j, nth_error yyR1 (S i), nth_error yyR1 (S j) with
     | Some (l1, _, _), Some (l2, _, _), Some a, Some b => Bool.eqb (String.eqb l1 l2) (Z.eqb a b)
     | _, _, _, _ => false
     end) (seq 0 (List.length productions))) (seq 0 (List.length productions)).

Definition aA : E := Atom [97%N].
Definition tA : tok (list N) := TAtom [97%N].
Definition tB : tok (list N) := TAtom [98%N].
Definition tC : tok (list N) := TAtom [99%N].
Definition tD : tok (list N) := TAtom [100%N].

Definition all1 : bool := forallb (fun o1 => agrees [tA; TOp o1; tB]) all_ops.
Definition all2 : bool :=
  forallb (fun o1 => forallb (fun o2 =>
    agrees [tA; TOp o1; tB; TOp o2; tC] &&
    agrees [TLP; tA; TOp o1; tB; TRP; TOp o2; tC] &&
    agrees [tA; TOp o1; TLP; tB; TOp o2; tC; TRP]) all_ops) all_ops.
Definition all3 : bool :=
  forallb (fun o1 => forallb (fun o2 => forallb (fun o3 =>
    agrees [tA; TOp o1; tB; TOp o2; tC; TOp o3; tD]) all_ops) all_ops) all_ops.
