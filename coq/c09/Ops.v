(* C09 — the binary-operator expression sublanguage: AST, token alphabet, the operator-precedence parser
   (the way yacc resolves the shift/reduce conflicts of  expr : expr op expr  with %left/%right/%nonassoc
   declarations: compare the precedence of the rule on the stack with the precedence of the lookahead
   token; on a tie use the associativity: left = reduce, right = shift, nonassoc = syntax error), the
   printer (transcribed from Query.writeTo of query.go: NO parentheses are ever emitted for an operand;
   a parenthesised operand is an explicit AST node, Term{Type: TermTypeQuery}), the tables derived from
   coq/gen/GenGrammar.v (current parser.go.y / lexer.go / operator.go) and the table of jq as the property
   words it.  Definitions only. *)
From Coq Require Import List NArith Bool String Arith.
From Verif Require Import common.Sexp c09.GrammarTypes gen.GenGrammar.
Import ListNotations.
Local Open Scope list_scope.

Inductive binop :=
  OpPipe | OpComma | OpAdd | OpSub | OpMul | OpDiv | OpMod | OpEq | OpNe | OpGt | OpLt | OpGe | OpLe
| OpAnd | OpOr | OpAlt | OpAssign | OpModify | OpUpdateAdd | OpUpdateSub | OpUpdateMul | OpUpdateDiv
| OpUpdateMod | OpUpdateAlt.

Definition all_ops : list binop :=
  [OpPipe; OpComma; OpAdd; OpSub; OpMul; OpDiv; OpMod; OpEq; OpNe; OpGt; OpLt; OpGe; OpLe; OpAnd; OpOr; OpAlt;
   OpAssign; OpModify; OpUpdateAdd; OpUpdateSub; OpUpdateMul; OpUpdateDiv; OpUpdateMod; OpUpdateAlt].

Definition op_name (o : binop) : string :=
  match o with
  | OpPipe => "OpPipe" | OpComma => "OpComma" | OpAdd => "OpAdd" | OpSub => "OpSub" | OpMul => "OpMul"
  | OpDiv => "OpDiv" | OpMod => "OpMod" | OpEq => "OpEq" | OpNe => "OpNe" | OpGt => "OpGt" | OpLt => "OpLt"
  | OpGe => "OpGe" | OpLe => "OpLe" | OpAnd => "OpAnd" | OpOr => "OpOr" | OpAlt => "OpAlt"
  | OpAssign => "OpAssign" | OpModify => "OpModify" | OpUpdateAdd => "OpUpdateAdd"
  | OpUpdateSub => "OpUpdateSub" | OpUpdateMul => "OpUpdateMul" | OpUpdateDiv => "OpUpdateDiv"
  | OpUpdateMod => "OpUpdateMod" | OpUpdateAlt => "OpUpdateAlt"
  end%string.

Definition binop_eqb (a b : binop) : bool := String.eqb (op_name a) (op_name b).

Definition op_of_name (s : string) : option binop := find (fun o => String.eqb (op_name o) s) all_ops.

(* ------------------------------------------------------------------------------------------------ *)
(* the generic parser, parametrised by a precedence table *)

Inductive action := Shift | Reduce | Err.

Section Parser.
  Variable atom : Type.
  Variable lvl : binop -> nat.
  Variable asc : binop -> assoc.

  Inductive tok := TAtom (a : atom) | TOp (o : binop) | TLP | TRP.
  Inductive expr := Atom (a : atom) | Paren (e : expr) | Bin (o : binop) (l r : expr).

  (* o1 = operator of the rule  expr o1 expr .  on the stack, o2 = lookahead *)
  Definition cmp (o1 o2 : binop) : action :=
    if Nat.ltb (lvl o1) (lvl o2) then Shift
    else if Nat.ltb (lvl o2) (lvl o1) then Reduce
    else match asc o2 with ALeft => Reduce | ARight => Shift | ANonassoc => Err end.

  Definition stack := list (expr * binop).

  Fixpoint reduce_all (stk : stack) (e : expr) (o : binop) : option (stack * expr) :=
    match stk with
    | [] => Some ([], e)
    | (l, o1) :: rest =>
        match cmp o1 o with
        | Reduce => reduce_all rest (Bin o1 l e) o
        | Shift => Some (stk, e)
        | Err => None
        end
    end.

  Fixpoint reduce_end (stk : stack) (e : expr) : expr :=
    match stk with
    | [] => e
    | (l, o1) :: rest => reduce_end rest (Bin o1 l e)
    end.

  (* frames: the stacks of the enclosing parenthesised contexts; cur: the operand just read, if any *)
  Fixpoint run (ts : list tok) (frames : list stack) (stk : stack) (cur : option expr) : option expr :=
    match ts with
    | [] => match cur, frames with Some e, [] => Some (reduce_end stk e) | _, _ => None end
    | TAtom a :: r => match cur with None => run r frames stk (Some (Atom a)) | Some _ => None end
    | TLP :: r => match cur with None => run r (stk :: frames) [] None | Some _ => None end
    | TRP :: r =>
        match cur, frames with
        | Some e, f :: fs => run r fs f (Some (Paren (reduce_end stk e)))
        | _, _ => None
        end
    | TOp o :: r =>
        match cur with
        | Some e => match reduce_all stk e o with
                    | Some (stk', e') => run r frames ((e', o) :: stk') None
                    | None => None
                    end
        | None => None
        end
    end.

  Definition parse (ts : list tok) : option expr := run ts [] [] None.

  (* the token sequence of an AST: what the printer emits, token by token *)
  Fixpoint toks (e : expr) : list tok :=
    match e with
    | Atom a => [TAtom a]
    | Paren e => TLP :: toks e ++ [TRP]
    | Bin o l r => toks l ++ TOp o :: toks r
    end.

  (* ASTs in the image of the parser: an operand that is itself a binary node must be one the
     grammar groups that way without parentheses *)
  Definition left_ok (o : binop) (l : expr) : Prop :=
    match l with Bin o' _ _ => cmp o' o = Reduce | _ => True end.
  Definition right_ok (o : binop) (r : expr) : Prop :=
    match r with Bin o' _ _ => cmp o o' = Shift | _ => True end.
  Fixpoint wf (e : expr) : Prop :=
    match e with
    | Atom _ => True
    | Paren e => wf e
    | Bin o l r => wf l /\ wf r /\ left_ok o l /\ right_ok o r
    end.

  Definition left_okb (o : binop) (l : expr) : bool :=
    match l with Bin o' _ _ => match cmp o' o with Reduce => true | _ => false end | _ => true end.
  Definition right_okb (o : binop) (r : expr) : bool :=
    match r with Bin o' _ _ => match cmp o o' with Shift => true | _ => false end | _ => true end.
  Fixpoint wfb (e : expr) : bool :=
    match e with
    | Atom _ => true
    | Paren e => wfb e
    | Bin o l r => wfb l && wfb r && left_okb o l && right_okb o r
    end.
End Parser.

Arguments TAtom {atom}. Arguments TOp {atom}. Arguments TLP {atom}. Arguments TRP {atom}.
Arguments Atom {atom}. Arguments Paren {atom}. Arguments Bin {atom}.

(* ------------------------------------------------------------------------------------------------ *)
(* the table of the CURRENT parser.go.y (via GenGrammar.v) *)

Fixpoint level_of_tok (t : string) (ds : list (assoc * list string)) (n : nat) : option (nat * assoc) :=
  match ds with
  | [] => None
  | (a, names) :: r => if existsb (String.eqb t) names then Some (n, a) else level_of_tok t r (S n)
  end.

(* the parser token that carries operator o: either a rule names the operator itself, or the rule takes
   it from the lexer ("$2") and the lexer stores it for some token *)
Definition gen_token_of_op (o : binop) : option string :=
  match find (fun r => String.eqb (snd r) (op_name o)) bin_rules with
  | Some (_, t, _) => Some t
  | None =>
      match find (fun r => String.eqb (snd r) (op_name o)) lex_ops with
      | Some (_, t, _) => if existsb (fun r => String.eqb (snd (fst r)) t && String.eqb (snd r) "$2") bin_rules
                          then Some t else None
      | None => None
      end
  end.

Definition gen_prec (o : binop) : option (nat * assoc) :=
  match gen_token_of_op o with Some t => level_of_tok t prec_decls 0%nat | None => None end.
Definition gen_lvl (o : binop) : nat := match gen_prec o with Some (n, _) => n | None => 0%nat end.
Definition gen_asc (o : binop) : assoc := match gen_prec o with Some (_, a) => a | None => ANonassoc end.
Definition gen_complete : bool := forallb (fun o => match gen_prec o with Some _ => true | None => false end) all_ops.

(* the text Operator.String() prints for o *)
Definition gen_op_text (o : binop) : option string :=
  match find (fun r => String.eqb (fst r) (op_name o)) op_strings with Some (_, t) => Some t | None => None end.

(* ------------------------------------------------------------------------------------------------ *)
(* jq's table as the property words it: `|` weakest and right-associative, then `,` left, `//` right,
   the non-associative update operators, `or`, `and`, non-associative comparisons, `+ -` left,
   `* / %` left *)
Definition jq_lvl (o : binop) : nat :=
  (match o with
  | OpPipe => 1 | OpComma => 2 | OpAlt => 3
  | OpAssign | OpModify | OpUpdateAdd | OpUpdateSub | OpUpdateMul | OpUpdateDiv | OpUpdateMod | OpUpdateAlt => 4
  | OpOr => 5 | OpAnd => 6
  | OpEq | OpNe | OpGt | OpLt | OpGe | OpLe => 7
  | OpAdd | OpSub => 8
  | OpMul | OpDiv | OpMod => 9
  end)%nat.
Definition jq_level_assoc (n : nat) : assoc :=
  match n with 1%nat => ARight | 3%nat => ARight | 4%nat => ANonassoc | 7%nat => ANonassoc | _ => ALeft end.
Definition jq_asc (o : binop) : assoc := jq_level_assoc (jq_lvl o).
Definition jq_op_text (o : binop) : string :=
  match o with
  | OpPipe => "|" | OpComma => "," | OpAdd => "+" | OpSub => "-" | OpMul => "*" | OpDiv => "/" | OpMod => "%"
  | OpEq => "==" | OpNe => "!=" | OpGt => ">" | OpLt => "<" | OpGe => ">=" | OpLe => "<=" | OpAnd => "and"
  | OpOr => "or" | OpAlt => "//" | OpAssign => "=" | OpModify => "|=" | OpUpdateAdd => "+="
  | OpUpdateSub => "-=" | OpUpdateMul => "*=" | OpUpdateDiv => "/=" | OpUpdateMod => "%=" | OpUpdateAlt => "//="
  end%string.

Definition action_eqb (a b : action) : bool :=
  match a, b with Shift, Shift | Reduce, Reduce | Err, Err => true | _, _ => false end.

(* the current grammar decides every operator pair as jq does, and prints every operator as jq writes it *)
Definition tables_agree : bool :=
  gen_complete &&
  forallb (fun o1 => forallb (fun o2 => action_eqb (cmp gen_lvl gen_asc o1 o2) (cmp jq_lvl jq_asc o1 o2)) all_ops) all_ops &&
  forallb (fun o => match gen_op_text o with Some t => String.eqb t (jq_op_text o) | None => false end) all_ops.

(* ------------------------------------------------------------------------------------------------ *)
(* the printer on bytes, transcribed from Query.writeTo / Term.writeTo for this sublanguage:
     e.Left.writeTo(s); if e.Op != OpComma { ' ' }; s.WriteString(e.Op.String()); ' '; e.Right.writeTo(s)
   atoms are function names (Term{Type: TermTypeFunc}), Paren is Term{Type: TermTypeQuery}: '(' q ')' *)
Section Printer.
  Variable op_text : binop -> list N.
  Fixpoint print_bytes (e : expr (list N)) : list N :=
    match e with
    | Atom a => a
    | Paren e => 40 :: print_bytes e ++ [41]
    | Bin o l r => print_bytes l ++ (if binop_eqb o OpComma then [] else [32]) ++ op_text o ++ 32 :: print_bytes r
    end%N.
End Printer.

Definition gen_op_bytes (o : binop) : list N := match gen_op_text o with Some t => codes t | None => [] end.
Definition jq_op_bytes (o : binop) : list N := codes (jq_op_text o).
