(* C09c / M3 (c) — the bounded AST family of the finite round-trip theorem
       parse_prog (print_prog p) = PAccept p
   (nothing here runs the parser or the printer).  The family, all over the atoms a b c i j (function calls),
   variables $x $y $l and small literals:

     kinds      37 term forms: . .. null true false, .x .if ."k" ."a\(b)" .[a] .[a:b] .[a:] .[:b], a a(b; c) $x m::f
                $m::v, {} and an object with every key form, [] [a, b], 1 1.5e3, @base64 @json "x\(a)", "s", a string
                with every escape class, "a\(b)c", if (with and without elif/else), reduce, foreach (2 and 3 parts),
                break $l, (a | b)
     suffixes   .b .e1 ."k" ."a\(b)" [a] [a:b] [a:] [:b] [] ?
     terms      every kind with no suffix and with each suffix; twelve kinds (. .. .x a 1 @base64 "s" (a), a string with every escape class, "a\(b)c", 1.5e3,
                @json "x\(a)") also with
                each ordered pair of suffixes; both unary signs and try (with/without catch) over every kind with
                no suffix, with .b, and with [i]?
     contexts   a core term (every kind bare; the twelve with a name / bracket / optional suffix: 73 terms) as left and as
                right operand of each of the 24 binary operators, parenthesised, in an array, as object value, as
                computed object key, as each argument of a call, as index and as each slice bound, in each part of
                if/elif/else, of reduce, of foreach, as source and as body of `as` (also with ?// patterns), as body of
                def and after a def, as body of label, inside a string interpolation, under a unary sign, under try and
                catch
     programs   module directive with every constant form, import / include with and without metadata, a body of
                definitions only                                                                                 *)
From Coq Require Import List NArith ZArith Bool String.
From Verif Require Import common.Sexp sem.JV sem.Syntax c09.FullAst c09.ParseActions c09.FullCases.
Import ListNotations.
Local Open Scope list_scope.
Local Open Scope string_scope.

Definition qa := at_ "a". Definition qb := at_ "b". Definition qc := at_ "c".
Definition qi := at_ "i". Definition qj := at_ "j".
Definition jstr (s : string) : jstring := JString (codes s) None.
Definition strpart (s : string) : query := qterm (Term (TString (jstr s)) []).
Definition interp (q : query) : query := qterm (Term (TQuery q) []).
(* "PRE\(q)POST": the lexer yields no token for an empty piece *)
Definition jinterp (pre : string) (q : query) (post : string) : jstring :=
  let part (s : string) := match s with EmptyString => [] | _ => [strpart s] end in
  JString [] (Some (part pre ++ [interp q] ++ part post)%list).

(* quote, backslash, newline, tab, 0x01, DEL, e-acute (2 bytes), a 3-byte and a 4-byte rune, slash *)
Definition escapes : list N :=
  [34; 92; 10; 9; 1; 127; 195; 169; 226; 130; 172; 240; 159; 152; 128; 47; 8; 12; 13; 0]%N.

Definition all_keys : list objectkeyval :=
  [ObjectKeyVal (codes "a") None None (Some qb);
   ObjectKeyVal (codes "if") None None (Some qb);
   ObjectKeyVal (codes "$x") None None (Some qb);
   ObjectKeyVal [] (Some (jstr "k")) None (Some (bin qa OpAdd qb));
   ObjectKeyVal [] (Some (jinterp "p" qa "")) None (Some (bin qa OpPipe qb));
   ObjectKeyVal [] None (Some (bin qa OpComma qb)) (Some qc);
   ObjectKeyVal (codes "b") None None None;
   ObjectKeyVal (codes "$__loc__") None None None;
   ObjectKeyVal [] (Some (jstr "k")) None None;
   ObjectKeyVal [] (Some (jinterp "" qa "s")) None None].

Definition kinds : list termkind :=
  [TIdentity; TRecurse; TNull; TTrue; TFalse;
   TIndex (Index (codes "x") None None None false);
   TIndex (Index (codes "if") None None None false);
   TIndex (Index [] (Some (jstr "k")) None None false);
   TIndex (Index [] (Some (jinterp "a" qb "")) None None false);
   TIndex (Index [] None (Some qa) None false);
   TIndex (Index [] None (Some qa) (Some qb) true);
   TIndex (Index [] None (Some qa) None true);
   TIndex (Index [] None None (Some qb) true);
   TFunc (Func (codes "a") []);
   TFunc (Func (codes "a") [qb; bin qc OpPipe qa]);
   TFunc (Func (codes "$x") []);
   TFunc (Func (codes "m::f") []);
   TFunc (Func (codes "$m::v") []);
   TObject [];
   TObject all_keys;
   TArray None;
   TArray (Some (bin qa OpComma qb));
   TNumber (codes "1") num0;
   TNumber (codes "1.5e3") num0;
   TFormat (codes "@base64") None;
   TFormat (codes "@json") (Some (jinterp "x" qa ""));
   TString (jstr "s");
   TString (JString escapes None);
   TString (jinterp "a" qb "c");
   TIf qa qb [] None;
   TIf qa qb [(qc, qa); (qb, qc)] (Some qa);
   TReduce qa (var "$x") qb qc;
   TForeach qa (Pattern [] [var "$x"; var "$y"] []) qb qc None;
   TForeach qa (var "$x") qb qc (Some qa);
   TBreak (codes "$l");
   TQuery (bin qa OpPipe qb);
   TQuery qa].

Definition sfxs : list suffix :=
  [s_name "b"; s_name "e1"; s_str "k";
   Suffix (Some (Index [] (Some (jinterp "a" qb "")) None None false)) false false;
   s_idx qi; s_slice (Some qi) (Some qj); s_slice (Some qi) None; s_slice None (Some qj); s_iter; s_opt].

Definition sfx_lists : list (list suffix) :=
  [[]] ++ map (fun s => [s]) sfxs ++ flat_map (fun s1 => map (fun s2 => [s1; s2]) sfxs) sfxs.
Definition sfx_lists1 : list (list suffix) := [[]] ++ map (fun s => [s]) sfxs.

Definition P (q : query) : prog := mkprog None [] q.
Definition PT (t : term) : prog := P (qterm t).

(* every kind x (no suffix, each suffix, each pair) *)
Definition kinds_small : list termkind :=
  [TIdentity; TRecurse; TIndex (Index (codes "x") None None None false); TFunc (Func (codes "a") []);
   TNumber (codes "1") num0; TFormat (codes "@base64") None; TString (jstr "s"); TQuery qa;
   TString (JString escapes None); TString (jinterp "a" qb "c"); TNumber (codes "1.5e3") num0;
   TFormat (codes "@json") (Some (jinterp "x" qa ""))].

Definition fam_terms : list prog :=
  flat_map (fun k => map (fun sl => PT (Term k sl)) sfx_lists1) kinds ++
  flat_map (fun k => map (fun sl => PT (Term k sl)) sfx_lists) kinds_small.

(* signs and try over every kind with at most one suffix *)
Definition fam_unary : list prog :=
  flat_map (fun k => flat_map (fun sl =>
     [PT (Term (TUnary OpSub (Term k sl)) []); PT (Term (TUnary OpAdd (Term k sl)) []);
      PT (Term (TTry (qterm (Term k sl)) None) []);
      PT (Term (TTry (qterm (Term k sl)) (Some (qterm (Term k sl)))) [])]) [[]; [s_name "b"]; [s_idx qi; s_opt]]) kinds.

Definition core_terms : list term :=
  map (fun k => Term k []) kinds ++
  flat_map (fun k => [Term k [s_name "b"]; Term k [s_idx qi]; Term k [s_opt]]) kinds_small.

Definition kv (v : query) : termkind := TObject [ObjectKeyVal (codes "a") None None (Some v)].

Definition contexts : list (query -> query) :=
  map (fun o q => bin q o qc) all_operators ++
  map (fun o q => bin qc o q) all_operators ++
  [fun q => qterm (Term (TQuery q) []);
   fun q => qterm (Term (TArray (Some q)) []);
   fun q => qterm (Term (kv q) []);
   fun q => qterm (Term (TObject [ObjectKeyVal [] None (Some q) (Some qc)]) []);
   fun q => qterm (Term (TFunc (Func (codes "f") [q])) []);
   fun q => qterm (Term (TFunc (Func (codes "f") [qa; q; qc])) []);
   fun q => qterm (Term (TIndex (Index [] None (Some q) None false)) []);
   fun q => qterm (Term (TIndex (Index [] None (Some q) (Some q) true)) []);
   fun q => qterm (Term (TFunc (Func (codes "a") [])) [s_idx q; s_slice (Some q) None; s_slice None (Some q)]);
   fun q => qterm (Term (TIf q q [(q, q)] (Some q)) []);
   fun q => qterm (Term (TReduce q (var "$x") q q) []);
   fun q => qterm (Term (TForeach q (var "$x") q q (Some q)) []);
   fun q => bind q [var "$x"] qc;
   fun q => bind qa [var "$x"] q;
   fun q => bind q [Pattern [] [var "$x"] []; Pattern [] [] [PatternObject (codes "$x") None None None;
                    PatternObject (codes "k") None None (Some (var "$y"));
                    PatternObject [] (Some (jstr "s")) None (Some (var "$y"));
                    PatternObject [] None (Some q) (Some (Pattern [] [var "$y"] []))]] q;
   fun q => with_defs [FuncDef (codes "f") [codes "g"; codes "$y"] q] qc;
   fun q => with_defs [fd "f" qa; fd "g" qb] q;
   fun q => label_q "$l" q;
   fun q => qterm (Term (TString (jinterp "x" q "y")) []);
   fun q => qterm (Term (TString (JString [] (Some [interp q; interp q]))) []);
   fun q => bin qa OpPipe (label_q "$l" (bin q OpComma (with_defs [fd "f" q] q)))].

(* contexts that take a TERM *)
Definition term_contexts : list (term -> query) :=
  [fun t => qterm (Term (TUnary OpSub t) []);
   fun t => qterm (Term (TTry (qterm t) (Some (qterm t))) []);
   fun t => bin (qterm (Term (TTry (qterm t) None) [])) OpAdd qc;
   fun t => bin (qterm (Term (TUnary OpAdd (Term (TUnary OpSub t) [])) [])) OpMul (qterm (Term (TUnary OpSub t) []))].

Definition fam_contexts : list prog :=
  flat_map (fun t => (map (fun c => P (c (qterm t))) contexts ++ map (fun c => P (c t)) term_contexts)%list) core_terms.

Definition meta1 : constobject :=
  [(codes "a", [], CNumber (codes "1")); ([], codes "k", CStr escapes); (codes "if", [], CNull);
   (codes "t", [], CTrue); (codes "f", [], CFalse); (codes "o", [], CObject []);
   (codes "p", [], CObject [(codes "x", [], CArray []); ([], codes "", CArray [CNumber (codes "1.5"); CStr (codes "s"); CObject []])])].

Definition fam_programs : list prog :=
  [mkprog (Some meta1) [] qa;
   mkprog (Some []) [None; Some meta1; None; Some []]
          (Query [Import (codes "p") (codes "m") []; Import (codes "p/q") (codes "$d") []; Import [] [] (codes "i");
                  Import [] [] (codes "j")] [fd "f" qa] (Some (tcall "b")) None None None []);
   mkprog None [] (Query [] [fd "f" qa; FuncDef (codes "g") [codes "x"] (with_defs [fd "h" qb] qc)] None None None None []);
   mkprog None [None] (Query [Import [] [] escapes] [] None None None None [])].

Definition rt_family : list prog := fam_terms ++ fam_unary ++ fam_contexts ++ fam_programs.
