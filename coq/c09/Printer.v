(* C09c / M1 — the printer of query.go, method by method, for the FULL AST.

   Every `writeTo(s *strings.Builder)` is a function  acc -> acc  where [acc] is the content of the Builder
   REVERSED (so that `s.String()[s.Len()-1]`, which Index.writeTo inspects, is the head of [acc], and
   `s.Len() > 0` is "acc is not empty").  String() = rev (writeTo []).

   Transcribed: Query.writeTo (module header and imports with their Meta: [print_prog]), Import.writeTo,
   FuncDef.writeTo, Term.writeTo (all 20 term types and the SuffixList loop with its `i == 0 && Identity &&
   Index != nil` case), Unary, Pattern, PatternObject, Index.writeTo (spacing rule: a space when the last byte is
   '.' or a digit) and writeSuffixTo, Func, String.writeTo (interpolation: `\` + query for non-string parts, the
   quoted print of a string part with the first and last byte cut off), Object, ObjectKeyVal, Array, Suffix,
   If, IfElif, Try, Reduce, Foreach, Label, ConstTerm, ConstObject, ConstObjectKeyVal, ConstArray,
   Operator.String (through the table translated from operator.go: GenGrammar.op_strings) and
   encoder.encodeString (= jsonEncodeString, encoder.go; utf8.DecodeRuneInString validity = Lexer.utf8_len).

   Where Go would dereference a nil pointer (Query.Left == nil with Right != nil, Index.Start == nil of a non-slice,
   a string part whose Term is nil) the model writes nothing: such ASTs are outside [wfq] (WfAst.v) and outside the
   image of the parser; the correspondence only ever sees ASTs gojq.Parse returned.  Definitions only. *)
From Coq Require Import List NArith ZArith Bool String.
From Verif Require Import common.Sexp sem.JV sem.Syntax c09.GrammarTypes gen.GenGrammar c09.Lexer c09.FullAst.
Import ListNotations.
Local Open Scope list_scope.
Local Open Scope N_scope.

Definition wb (c : N) (acc : list N) : list N := c :: acc.                       (* s.WriteByte(c) *)
Definition wbs (b : list N) (acc : list N) : list N := rev_append b acc.         (* s.WriteString(b) *)
Definition ws (s : string) (acc : list N) : list N := rev_append (codes s) acc.

(* Operator.String(): the switch of operator.go as translated (name -> text) *)
Definition op_text (o : operator) : list N :=
  match find (fun r => String.eqb (fst r) (op_name o)) op_strings with
  | Some (_, t) => codes t
  | None => []
  end.
Definition is_comma (o : option operator) : bool := match o with Some OpComma => true | _ => false end.

(* ---- encoder.encodeString ---------------------------------------------------------------------------- *)
Definition hexd (n : N) : N := if n <? 10 then 48 + n else 87 + n.          (* "0123456789abcdef"[n] *)

(* fuel = len(s)+1; bytes before the cursor that are not yet written are written as they are: the Go code
   copies s[start:i] verbatim, so writing byte by byte is the same output *)
Fixpoint enc_str_loop (fuel : nat) (s : list N) (acc : list N) : list N :=
  match fuel with
  | O => acc
  | S f =>
      match s with
      | [] => acc
      | b :: r =>
          if b <? 128 then
            if (32 <=? b) && (b <=? 126) && negb (b =? 34) && negb (b =? 92) then enc_str_loop f r (wb b acc)
            else if b =? 34 then enc_str_loop f r (ws "\""" acc)
            else if b =? 92 then enc_str_loop f r (ws "\\" acc)
            else if b =? 8 then enc_str_loop f r (ws "\b" acc)
            else if b =? 12 then enc_str_loop f r (ws "\f" acc)
            else if b =? 10 then enc_str_loop f r (ws "\n" acc)
            else if b =? 13 then enc_str_loop f r (ws "\r" acc)
            else if b =? 9 then enc_str_loop f r (ws "\t" acc)
            else enc_str_loop f r (wb (hexd (N.land b 15)) (wb (hexd (N.shiftr b 4)) (ws "\u00" acc)))
          else
            match utf8_len s with
            | None => enc_str_loop f r (ws "\ufffd" acc)             (* RuneError, size 1 *)
            | Some n => enc_str_loop f (skipn n s) (wbs (firstn n s) acc)
            end
      end
  end.
Definition encode_string (s : list N) (acc : list N) : list N :=
  wb 34 (enc_str_loop (S (List.length s)) s (wb 34 acc)).

(* ---- helpers for slices ------------------------------------------------------------------------------ *)
(* for i, x := range l { if i > 0 { sep }; f x } *)
Definition w_sep {T} (f : T -> list N -> list N) (sep : string) : list T -> list N -> list N :=
  fun l acc =>
    match l with
    | [] => acc
    | x :: r => (fix go (r : list T) (acc : list N) : list N :=
                   match r with [] => acc | y :: r' => go r' (f y (ws sep acc)) end) r (f x acc)
    end.
(* for _, x := range l { f x } *)
Definition w_each {T} (f : T -> list N -> list N) : list T -> list N -> list N :=
  fix go (l : list T) (acc : list N) : list N :=
    match l with [] => acc | x :: r => go r (f x acc) end.

Definition w_bytes_sep (sep : string) (l : list (list N)) (acc : list N) : list N := w_sep wbs sep l acc.

(* es[1 : len(es)-1] *)
Definition strip_ends (es : list N) : list N := removelast (tl es).

(* ---- ConstTerm / ConstObject / ConstArray ------------------------------------------------------------ *)
Fixpoint w_const (c : constterm) (acc : list N) : list N :=
  match c with
  | CObject kvs =>
      match kvs with
      | [] => ws "{}" acc
      | _ => ws " }" (w_sep (fun kv acc =>
                        let '(k, ks, v) := kv in
                        let acc := match k with [] => encode_string ks acc | _ => wbs k acc end in
                        w_const v (ws ": " acc)) ", " kvs (ws "{ " acc))
      end
  | CArray l => wb 93 (w_sep w_const ", " l (wb 91 acc))
  | CNumber t => wbs t acc
  | CStr s => encode_string s acc
  | CNull => ws "null" acc
  | CTrue => ws "true" acc
  | CFalse => ws "false" acc
  end.
Definition w_constobj (o : constobject) (acc : list N) : list N := w_const (CObject o) acc.

(* Import.writeTo *)
Definition w_import (im : import) (meta : option constobject) (acc : list N) : list N :=
  match im with
  | Import path alias incl =>
      let acc :=
        match path, alias with
        | [], [] => encode_string incl (ws "include " acc)
        | _, _ => wbs alias (ws " as " (encode_string path (ws "import " acc)))
        end in
      let acc := match meta with Some m => w_constobj m (wb 32 acc) | None => acc end in
      wb 10 (wb 59 acc)
  end.

(* Index.writeTo's look at the last byte written *)
Definition index_space (acc : list N) : list N :=
  match acc with
  | c :: _ => if (c =? 46) || ((48 <=? c) && (c <=? 57)) then wb 32 acc else acc
  | [] => acc
  end.

Definition has_str (k : termkind) : bool :=           (* e.Term.Str != nil *)
  match k with TString _ => true | TFormat _ (Some _) => true | _ => false end.

Fixpoint w_query (q : query) (acc : list N) {struct q} : list N :=
  match q with
  | Query imps fds t l o r pats =>
      let acc := w_each (fun im acc => w_import im None acc) imps acc in
      let acc := w_each (fun fd acc => wb 32 (w_funcdef fd acc)) fds acc in
      match t with
      | Some t => w_term t acc
      | None =>
          match r with
          | Some r =>
              let acc := match l with Some l => w_query l acc | None => acc end in
              let acc := if is_comma o then acc else wb 32 acc in
              let acc :=
                match pats with
                | [] => acc
                | p :: ps => w_each (fun p acc => wb 32 (w_pattern p (ws "?// " acc))) ps
                                    (wb 32 (w_pattern p (ws "as " acc)))
                end in
              let acc := match o with Some o => wbs (op_text o) acc | None => acc end in
              w_query r (wb 32 acc)
          | None => acc
          end
      end
  end
with w_funcdef (f : funcdef) (acc : list N) {struct f} : list N :=
  match f with
  | FuncDef name args body =>
      let acc := wbs name (ws "def " acc) in
      let acc := match args with [] => acc | _ => wb 41 (w_bytes_sep "; " args (wb 40 acc)) end in
      wb 59 (w_query body (ws ": " acc))
  end
with w_term (t : term) (acc : list N) {struct t} : list N :=
  match t with
  | Term k sfx =>
      let acc :=
        match k with
        | TIdentity => wb 46 acc
        | TRecurse => ws ".." acc
        | TNull => ws "null" acc
        | TTrue => ws "true" acc
        | TFalse => ws "false" acc
        | TIndex i => w_idx true i acc
        | TFunc f => w_func f acc
        | TObject kvs =>
            match kvs with
            | [] => ws "{}" acc
            | _ => ws " }" (w_sep w_kv ", " kvs (ws "{ " acc))
            end
        | TArray q => wb 93 (match q with Some q => w_query q (wb 91 acc) | None => wb 91 acc end)
        | TNumber tx _ => wbs tx acc
        | TUnary o t => w_term t (wbs (op_text o) acc)
        | TFormat f str =>
            let acc := wbs f acc in
            match str with Some s => w_jstring s (wb 32 acc) | None => acc end
        | TString s => w_jstring s acc
        | TIf c th el e =>
            let acc := w_query th (ws " then " (w_query c (ws "if " acc))) in
            let acc := w_each (fun ct acc =>
                                 w_query (snd ct) (ws " then " (w_query (fst ct) (ws "elif " (wb 32 acc))))) el acc in
            let acc := match e with Some e => w_query e (ws " else " acc) | None => acc end in
            ws " end" acc
        | TTry b c =>
            let acc := w_query b (ws "try " acc) in
            match c with Some c => w_query c (ws " catch " acc) | None => acc end
        | TReduce src p st up =>
            wb 41 (w_query up (ws "; " (w_query st (ws " (" (w_pattern p (ws " as " (w_query src (ws "reduce " acc))))))))
        | TForeach src p st up ex =>
            let acc := w_query up (ws "; " (w_query st (ws " (" (w_pattern p (ws " as " (w_query src (ws "foreach " acc))))))) in
            let acc := match ex with Some ex => w_query ex (ws "; " acc) | None => acc end in
            wb 41 acc
        | TLabel id b => w_query b (ws " | " (wbs id (ws "label " acc)))
        | TBreak l => wbs l (ws "break " acc)
        | TQuery q => wb 41 (w_query q (wb 40 acc))
        end in
      let is_identity := match k with TIdentity => true | _ => false end in
      (* for i, f := range e.SuffixList *)
      match sfx with
      | [] => acc
      | f :: rest =>
          let acc :=
            match f with
            | Suffix (Some i) _ _ => if is_identity then w_idx true i acc else w_suffix f acc
            | _ => w_suffix f acc
            end in
          w_each w_suffix rest acc
      end
  end
with w_idx (dot : bool) (i : index) (acc : list N) {struct i} : list N :=
  (* dot = true: Index.writeTo (spacing rule, '.', writeSuffixTo); dot = false: Index.writeSuffixTo *)
  let acc := if dot then wb 46 (index_space acc) else acc in
  match i with
  | Index name str st en sl =>
      match name with
      | _ :: _ => wbs name acc
      | [] =>
          match str with
          | Some s => w_jstring s acc
          | None =>
              let acc := wb 91 acc in
              let acc :=
                if sl then
                  let acc := match st with Some q => w_query q acc | None => acc end in
                  let acc := wb 58 acc in
                  match en with Some q => w_query q acc | None => acc end
                else match st with Some q => w_query q acc | None => acc end in
              wb 93 acc
          end
      end
  end
with w_func (f : func) (acc : list N) {struct f} : list N :=
  match f with
  | Func name args =>
      let acc := wbs name acc in
      match args with [] => acc | _ => wb 41 (w_sep w_query "; " args (wb 40 acc)) end
  end
with w_jstring (s : jstring) (acc : list N) {struct s} : list N :=
  match s with
  | JString str None => encode_string str acc
  | JString _ (Some qs) =>
      wb 34 (w_each (fun e acc =>
                       match e with
                       | Query _ _ (Some (Term k _)) _ _ _ _ =>
                           if has_str k then wbs (strip_ends (rev (w_query e []))) acc      (* es := e.String() *)
                           else w_query e (wb 92 acc)
                       | _ => acc
                       end) qs (wb 34 acc))
  end
with w_kv (kv : objectkeyval) (acc : list N) {struct kv} : list N :=
  match kv with
  | ObjectKeyVal k ks kq v =>
      let acc :=
        match k with
        | _ :: _ => wbs k acc
        | [] => match ks with
                | Some s => w_jstring s acc
                | None => match kq with Some q => wb 41 (w_query q (wb 40 acc)) | None => acc end
                end
        end in
      match v with Some v => w_query v (ws ": " acc) | None => acc end
  end
with w_suffix (s : suffix) (acc : list N) {struct s} : list N :=
  match s with
  | Suffix (Some i) _ _ =>
      match i with
      | Index (_ :: _) _ _ _ _ | Index _ (Some _) _ _ _ => w_idx true i acc
      | _ => w_idx false i acc
      end
  | Suffix None it op => if it then ws "[]" acc else if op then wb 63 acc else acc
  end
with w_pattern (p : pattern) (acc : list N) {struct p} : list N :=
  match p with
  | Pattern name arr obj =>
      match name with
      | _ :: _ => wbs name acc
      | [] =>
          match arr with
          | _ :: _ => wb 93 (w_sep w_pattern ", " arr (wb 91 acc))
          | [] =>
              match obj with
              | _ :: _ => wb 125 (w_sep w_patobj ", " obj (wb 123 acc))
              | [] => acc
              end
          end
      end
  end
with w_patobj (p : patternobject) (acc : list N) {struct p} : list N :=
  match p with
  | PatternObject k ks kq v =>
      let acc :=
        match k with
        | _ :: _ => wbs k acc
        | [] => match ks with
                | Some s => w_jstring s acc
                | None => match kq with Some q => wb 41 (w_query q (wb 40 acc)) | None => acc end
                end
        end in
      match v with Some v => w_pattern v (ws ": " acc) | None => acc end
  end.

(* Query.String() of a nested query *)
Definition print_query (q : query) : list N := rev (w_query q []).

Fixpoint w_imports (ims : list import) (metas : list (option constobject)) (acc : list N) : list N :=
  match ims with
  | [] => acc
  | im :: r => w_imports r (tl metas) (w_import im (match metas with m :: _ => m | [] => None end) acc)
  end.

(* Query.String() of what Parse returned *)
Definition print_prog (p : prog) : list N :=
  let acc := match pmeta p with
             | Some m => wb 10 (wb 59 (w_constobj m (ws "module " [])))
             | None => [] end in
  match pquery p with
  | Query imps fds t l o r pats =>
      rev (w_query (Query [] fds t l o r pats) (w_imports imps (pimeta p) acc))
  end.
