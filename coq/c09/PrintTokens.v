(* C09c / M3 (a) — lexing what the printer prints, UNBOUNDED, for a sub-grammar of terms with suffixes.

   Token alphabet [ftok]: identifiers (not keywords), .name, `.`, `..`, the single characters ( ) [ ] ?, and the 24
   operators (as binary operators and, for + and -, as unary signs).  [Lex_ftok]: one call of the lexer model on
   (optional space) ++ bytes of a token ++ rest returns that token and stops in front of rest, provided the next
   byte does not extend the token ([nb_ok]).  [lex_items]: a whole list of such tokens whose gaps satisfy [nb_ok]
   lexes to exactly those tokens, then eof.  Definitions and proofs (this file belongs to the proof side). *)
From Coq Require Import List NArith Bool String Arith Lia.
From Verif Require Import common.Sexp sem.JV sem.Syntax c09.GrammarTypes gen.GenGrammar c09.Lexer c09.LexProofs c09.Run
  c09.RespaceProofs c09.FullAst c09.Printer c09.StrLex.
Import ListNotations.
Local Open Scope nat_scope.
Local Open Scope list_scope.

Inductive kwd := KIf | KThen | KElse | KEnd | KTry | KCatch | KReduce | KForeach | KAs | KLabel | KBreak | KDef | KElif.
Inductive ftok := FName (n : list N) | FField (n : list N) | FDot | FRec | FCh (c : N) | FOp (o : operator)
                | FKw (k : kwd) | FVar (n : list N) | FNum (ds : list N) | FFmt (n : list N)
                | FStr (body : list N)          (* a whole string literal "body" without interpolation *)
                | FSStart                       (* the opening quote of an interpolated string *)
                | FSPiece (body : list N)       (* literal bytes inside an interpolated string *)
                | FSQuery                       (* \( *)
                | FSEnd                         (* the closing quote of an interpolated string *)
                | FDestAlt.                     (* ?// *)

(* tokens that Lex produces in inString mode, and the mode Lex leaves behind *)
Definition tmode (t : ftok) : bool := match t with FSPiece _ | FSQuery | FSEnd => true | _ => false end.
Definition tafter (t : ftok) : bool := match t with FSStart | FSPiece _ => true | _ => false end.

Definition kw_bytes (k : kwd) : list N :=
  match k with
  | KIf => [105; 102] | KThen => [116; 104; 101; 110] | KElse => [101; 108; 115; 101] | KEnd => [101; 110; 100]
  | KTry => [116; 114; 121] | KCatch => [99; 97; 116; 99; 104] | KReduce => [114; 101; 100; 117; 99; 101]
  | KForeach => [102; 111; 114; 101; 97; 99; 104] | KAs => [97; 115] | KLabel => [108; 97; 98; 101; 108]
  | KBreak => [98; 114; 101; 97; 107] | KDef => [100; 101; 102] | KElif => [101; 108; 105; 102]
  end%N.
Definition kw_tok (k : kwd) : string :=
  match k with
  | KIf => "tokIf" | KThen => "tokThen" | KElse => "tokElse" | KEnd => "tokEnd" | KTry => "tokTry"
  | KCatch => "tokCatch" | KReduce => "tokReduce" | KForeach => "tokForeach" | KAs => "tokAs" | KLabel => "tokLabel"
  | KBreak => "tokBreak" | KDef => "tokDef" | KElif => "tokElif"
  end.
(* the keywords map of the current lexer.go gives these spellings these tokens *)
Lemma kw_lookup : forall k, lookup_kw (kw_bytes k) keywords = Some (kw_tok k).
Proof. destruct k; vm_compute; reflexivity. Qed.

Definition fop_bytes (o : operator) : list N :=
  match o with
  | OpPipe => [124] | OpComma => [44] | OpAdd => [43] | OpSub => [45] | OpMul => [42] | OpDiv => [47] | OpMod => [37]
  | OpEq => [61; 61] | OpNe => [33; 61] | OpGt => [62] | OpLt => [60] | OpGe => [62; 61] | OpLe => [60; 61]
  | OpAnd => [97; 110; 100] | OpOr => [111; 114] | OpAlt => [47; 47] | OpAssign => [61] | OpModify => [124; 61]
  | OpUpdateAdd => [43; 61] | OpUpdateSub => [45; 61] | OpUpdateMul => [42; 61] | OpUpdateDiv => [47; 61]
  | OpUpdateMod => [37; 61] | OpUpdateAlt => [47; 47; 61]
  end%N.

(* what the printer writes for an operator (Operator.String() as translated from operator.go) *)
Lemma op_text_bytes : forall o, op_text o = fop_bytes o.
Proof. destruct o; vm_compute; reflexivity. Qed.

Definition fop_kind (o : operator) : tk :=
  match o with
  | OpPipe => KChar 124 | OpComma => KChar 44 | OpAdd => KChar 43 | OpSub => KChar 45 | OpMul => KChar 42
  | OpDiv => KChar 47 | OpMod => KChar 37
  | OpEq | OpNe | OpGt | OpLt | OpGe | OpLe => KTok "tokCompareOp"
  | OpAnd => KTok "tokAndOp" | OpOr => KTok "tokOrOp" | OpAlt => KTok "tokAltOp"
  | _ => KTok "tokUpdateOp"
  end.

Definition is_word (o : operator) : bool := match o with OpAnd | OpOr => true | _ => false end.
Definition punct (c : N) : bool :=
  ((c =? 40) || (c =? 41) || (c =? 91) || (c =? 93) || (c =? 63) || (c =? 59) || (c =? 58) || (c =? 123) || (c =? 125))%N.

(* scanNumber of lexer.go run over a whole literal: the state it ends in, None if it would stop or reject earlier *)
Fixpoint num_run (l : list N) (st : nstate) : option nstate :=
  match l with
  | [] => Some st
  | ch :: r =>
      if is_mantissa st then
        if isNumber ch then num_run r st
        else if (ch =? 46)%N then (if negb (is_lead st) then None else num_run r NFloat)
        else if ((ch =? 101) || (ch =? 69))%N then
          match r with
          | c2 :: r2 => if ((c2 =? 45) || (c2 =? 43))%N then num_run r2 NExpLead else num_run r NExpLead
          | [] => Some NExpLead
          end
        else None
      else if isNumber ch then num_run r NExp else None
  end.
Definition run_ok (o : option nstate) : bool := match o with Some st => negb (is_explead st) | None => false end.
Definition isdd (c : N) : bool := ((c =? 46) || ((48 <=? c) && (c <=? 57)))%N.     (* Index.writeTo's test *)
(* a number literal as Lex accepts it: DIGIT... or .DIGIT..., optional fraction and exponent; it ends in a digit or `.` *)
Definition num_lit (ds : list N) : bool :=
  match ds with
  | d0 :: r =>
      (if isNumber d0 then run_ok (num_run r NLead)
       else (d0 =? 46)%N && match r with d1 :: _ => isNumber d1 && run_ok (num_run r NFloat) | [] => false end)
      && isdd (last ds 0%N)
  | [] => false
  end.

Definition ftok_ok (t : ftok) : bool :=
  match t with
  | FName n => name_ok n && match lookup_kw n keywords with None => true | Some _ => false end
  | FField n => name_ok n
  | FVar n => name_ok n
  | FNum ds => num_lit ds
  | FFmt n => match n with [] => false | _ => forallb (fun c => isIdent c true) n end
  | FStr b => safeb b
  | FSPiece b => safeb b && negb (is_nil b)
  | FCh c => punct c
  | _ => true
  end.
Definition ftok_bytes (t : ftok) : list N :=
  match t with
  | FName n => n | FField n => 46%N :: n | FDot => [46%N] | FRec => [46%N; 46%N] | FCh c => [c] | FOp o => fop_bytes o
  | FKw k => kw_bytes k | FVar n => 36%N :: n | FNum ds => ds | FFmt n => 64%N :: n
  | FStr b => 34%N :: b ++ [34%N] | FSStart => [34%N] | FSPiece b => b | FSQuery => [92%N; 40%N] | FSEnd => [34%N]
  | FDestAlt => [63%N; 47%N; 47%N]
  end.
Definition ftok_kind (t : ftok) : tk :=
  match t with
  | FName _ => KTok "tokIdent" | FField _ => KTok "tokIndex" | FDot => KChar 46 | FRec => KTok "tokRecurse"
  | FCh c => KChar c | FOp o => fop_kind o
  | FKw k => KTok (kw_tok k) | FVar _ => KTok "tokVariable" | FNum _ => KTok "tokNumber" | FFmt _ => KTok "tokFormat"
  | FStr _ | FSPiece _ => KTok "tokString" | FSStart => KTok "tokStringStart" | FSQuery => KTok "tokStringQuery"
  | FSEnd => KTok "tokStringEnd" | FDestAlt => KTok "tokDestAltOp"
  end.

(* the bytes after a token must not extend it: [nb1] is the condition on the next byte, [colon_ok] excludes the `::`
   that would make an identifier, keyword or variable a module-qualified name *)
Definition nb1 (t : ftok) (d : N) : bool :=
  match t with
  | FName _ | FKw _ | FVar _ | FField _ | FFmt _ => negb (isIdent d true)
  | FDot => negb (d =? 46)%N && negb (isIdent d false) && negb (isNumber d)
  | FRec => true
  | FCh c => negb (c =? 63)%N || negb (d =? 47)%N
  | FOp o => negb (d =? 61)%N && negb (d =? 47)%N && (negb (is_word o) || negb (isIdent d true))
  | FNum _ => negb (isNumber d) && negb (d =? 46)%N && negb (d =? 101)%N && negb (d =? 69)%N && negb (isIdent d false)
  | _ => true
  end.
Definition colon_ok (f : list N) : bool :=
  match f with d :: e :: _ => negb ((d =? 58)%N && (e =? 58)%N) | _ => true end.
Definition wordlike (t : ftok) : bool :=
  match t with FName _ | FKw _ | FVar _ => true | FOp o => is_word o | _ => false end.
(* after the opening quote of an interpolated string: literal bytes, then \( *)
Fixpoint interp_ahead (l : list N) : bool :=
  match l with
  | [] => false
  | c :: r =>
      if (c =? 92)%N then
        match r with
        | e :: r2 =>
            if (e =? 40)%N then true
            else if (e =? 117)%N then
              match r2 with
              | h1 :: h2 :: h3 :: h4 :: r6 => isHex h1 && isHex h2 && isHex h3 && isHex h4 && interp_ahead r6
              | _ => false
              end
            else simple_esc e && interp_ahead r2
        | [] => false
        end
      else if (c =? 34)%N then false else interp_ahead r
  end.
Definition piece_end (f : list N) : bool :=
  match f with 34%N :: _ => true | 92%N :: 40%N :: _ => true | _ => false end.
Definition nb_ok (t : ftok) (f : list N) : bool :=
  match t with
  | FSStart => interp_ahead f
  | FSPiece _ => piece_end f
  | FStr _ | FSQuery | FSEnd | FDestAlt => true
  | _ => match f with [] => true | d :: _ => nb1 t d && (negb (wordlike t) || colon_ok f) end
  end.

Lemma interp_ahead_split : forall n f, List.length f <= n -> interp_ahead f = true ->
  exists piece rest, f = piece ++ 92%N :: 40%N :: rest /\ safeb piece = true.
Proof.
  induction n as [|n IH]; intros f L H.
  - destruct f; [discriminate H|simpl in L; lia].
  - destruct f as [|c r]; [discriminate H|]. simpl in H. destruct (c =? 92)%N eqn:E92.
    + apply N.eqb_eq in E92. subst c. destruct r as [|e r2]; [discriminate H|].
      destruct (e =? 40)%N eqn:E40.
      * apply N.eqb_eq in E40. subst e. exists [], r2. split; reflexivity.
      * destruct (e =? 117)%N eqn:E117.
        -- apply N.eqb_eq in E117. subst e.
           destruct r2 as [|h1 [|h2 [|h3 [|h4 r6]]]]; try discriminate H.
           apply andb_prop in H. destruct H as [HH H6].
           destruct (IH r6 ltac:(simpl in L; lia) H6) as (piece & rest & E & S).
           exists (92%N :: 117%N :: h1 :: h2 :: h3 :: h4 :: piece), rest. split; [rewrite E; reflexivity|].
           simpl. rewrite HH, S. reflexivity.
        -- apply andb_prop in H. destruct H as [SE H2].
           destruct (IH r2 ltac:(simpl in L; lia) H2) as (piece & rest & E & S).
           exists (92%N :: e :: piece), rest. split; [rewrite E; reflexivity|].
           simpl. rewrite E117, SE, S. reflexivity.
    + destruct (c =? 34)%N eqn:E34; [discriminate H|].
      destruct (IH r ltac:(simpl in L; lia) H) as (piece & rest & E & S).
      exists (c :: piece), rest. split; [rewrite E; reflexivity|]. simpl. rewrite E92, E34. exact S.
Qed.

Lemma interp_ahead_app : forall n a r, List.length a <= n -> safeb a = true -> interp_ahead (a ++ r) = interp_ahead r.
Proof.
  induction n as [|n IH]; intros a r L S.
  - destruct a; [reflexivity|simpl in L; lia].
  - destruct a as [|c a']; [reflexivity|].
    simpl in S. cbn [app interp_ahead]. destruct (c =? 92)%N eqn:E92.
    + destruct a' as [|e r2]; [discriminate S|]. cbn [app].
      destruct (e =? 117)%N eqn:E117.
      * apply N.eqb_eq in E117. subst e. change (117 =? 40)%N with false. cbv iota.
        destruct r2 as [|h1 [|h2 [|h3 [|h4 r6]]]]; try discriminate S. cbn [app].
        apply andb_prop in S. destruct S as [S S6]. rewrite S. cbn [andb].
        apply IH; [simpl in L; lia|exact S6].
      * apply andb_prop in S. destruct S as [SE S2]. destruct (simple_esc_not e SE) as [_ E40]. rewrite E40, SE.
        cbn [andb]. apply IH; [simpl in L; lia|exact S2].
    + destruct (c =? 34)%N eqn:E34; [discriminate S|]. apply IH; [simpl in L; lia|exact S].
Qed.


Definition spb (sp : bool) : list N := if sp then [32%N] else [].

(* ---- scanning identifiers up to a byte that is not an identifier byte -------------------------------- *)
Definition stop_ident (f : list N) : Prop := match f with [] => True | d :: _ => isIdent d true = false end.

Lemma scanIdent_stop : forall nr f o, forallb (fun c => isIdent c true) nr = true -> stop_ident f ->
  scanIdent_s (nr ++ f) o = mkpos (List.length nr + o) f.
Proof.
  induction nr as [|c nr IH]; intros f o H F.
  - simpl. destruct f as [|d r]; [reflexivity|]. simpl in F. simpl. rewrite F. reflexivity.
  - simpl in H. apply andb_prop in H. destruct H as [H1 H2]. simpl. rewrite H1. rewrite IH by auto. f_equal. lia.
Qed.

Lemma scanIdentOrModule_stop : forall nr f o, forallb (fun c => isIdent c true) nr = true -> stop_ident f ->
  colon_ok f = true ->
  scanIdentOrModule (mkpos o (nr ++ f)) = (mkpos (List.length nr + o) f, false).
Proof.
  intros nr f o H F C. unfold scanIdentOrModule, scanIdent. cbn [pr po]. rewrite scanIdent_stop by auto. cbn [pr po].
  destruct f as [|d [|d2 [|d3 r]]]; try reflexivity. simpl in C. apply negb_true_iff in C. rewrite C. reflexivity.
Qed.

Lemma dispatch_ident_stop : forall n0 nr f l o, isIdent n0 false = true ->
  forallb (fun c => isIdent c true) nr = true -> stop_ident f ->
  colon_ok f = true ->
  lex_dispatch l n0 (mkpos (S o) (nr ++ f)) =
  match lookup_kw (n0 :: nr) keywords with
  | Some k => fin l (KTok k) (mkpos (List.length nr + S o) f) (Some (n0 :: nr)) false
  | None => fin l (KTok "tokIdent") (mkpos (List.length nr + S o) f) (Some (n0 :: nr)) false
  end.
Proof.
  intros n0 nr f l o H1 H2 F C. unfold lex_dispatch. cbv zeta. rewrite H1.
  rewrite scanIdentOrModule_stop by auto. cbn [po pr Init.Nat.pred Nat.pred].
  rewrite slice_name. reflexivity.
Qed.

Lemma ident_not_46 : forall c, isIdent c false = true -> (c =? 46)%N = false.
Proof. intros c H. destruct (c =? 46)%N eqn:E; auto. apply N.eqb_eq in E. subst c. discriminate H. Qed.

Lemma hd_stop : forall f, match hd_error f with Some d => isIdent d true = false | None => True end -> stop_ident f.
Proof. intros [|d r] H; simpl in *; auto. Qed.

Ltac nb_split H :=
  repeat match goal with
         | X : (_ && _)%bool = true |- _ => let A := fresh "NB" in apply andb_prop in X; destruct X as [A X]
         end;
  repeat match goal with X : negb _ = true |- _ => apply negb_true_iff in X end.

Lemma digit_facts : forall c, isNumber c = true ->
  isIdent c false = false /\ isWhite c = false /\ (c =? 35)%N = false.
Proof.
  intros c H. unfold isNumber in H. apply andb_prop in H. destruct H as [A B].
  apply N.leb_le in A. apply N.leb_le in B.
  assert (R : forall a b, (a <= c)%N -> (c <= b)%N -> (b < 65)%N -> (35 < a)%N ->
              isIdent c false = false /\ isWhite c = false /\ (c =? 35)%N = false).
  { intros a b L1 L2 L3 L4. unfold isIdent, isWhite.
    replace (97 <=? c)%N with false by (symmetry; apply N.leb_gt; lia).
    replace (65 <=? c)%N with false by (symmetry; apply N.leb_gt; lia).
    replace (c =? 95)%N with false by (symmetry; apply N.eqb_neq; lia).
    replace (c =? 9)%N with false by (symmetry; apply N.eqb_neq; lia).
    replace (c =? 10)%N with false by (symmetry; apply N.eqb_neq; lia).
    replace (c =? 13)%N with false by (symmetry; apply N.eqb_neq; lia).
    replace (c =? 32)%N with false by (symmetry; apply N.eqb_neq; lia).
    replace (c =? 35)%N with false by (symmetry; apply N.eqb_neq; lia).
    repeat split; reflexivity. }
  apply (R 48%N 57%N); auto; lia.
Qed.

Lemma scanNumber_run : forall n l f o st st', List.length l <= n -> num_run l st = Some st' -> is_explead st' = false ->
  nb_ok (FNum [48%N]) f = true ->
  scanNumber_s (l ++ f) o st = (true, mkpos (List.length l + o) f).
Proof.
  induction n as [|n IH]; intros l f o st st' L R E NB.
  - destruct l; [|simpl in L; lia]. simpl in R. inversion R; subst st'. simpl.
    destruct f as [|d r].
    + destruct st; try reflexivity. discriminate E.
    + simpl in NB. nb_split NB. cbn [scanNumber_s].
      destruct st; cbn [is_mantissa is_lead is_explead negb];
        repeat match goal with X : _ = false |- _ => rewrite X end; try reflexivity; discriminate E.
  - destruct l as [|ch r].
    + apply (IH [] f o st st'); auto. simpl. lia.
    + cbn [app scanNumber_s]. cbn [num_run] in R.
      destruct (is_mantissa st) eqn:M.
      * destruct (isNumber ch) eqn:D.
        -- rewrite (IH r f (S o) st st') by (auto; simpl in L; lia). f_equal. f_equal. simpl. lia.
        -- destruct (ch =? 46)%N eqn:E46.
           ++ destruct (negb (is_lead st)) eqn:NL; [discriminate R|].
              rewrite (IH r f (S o) NFloat st') by (auto; simpl in L; lia). f_equal. f_equal. simpl. lia.
           ++ destruct ((ch =? 101) || (ch =? 69))%N eqn:EE; [|discriminate R].
              destruct r as [|c2 r2].
              ** inversion R; subst st'. discriminate E.
              ** cbn [app]. destruct ((c2 =? 45) || (c2 =? 43))%N eqn:PM.
                 --- rewrite (IH r2 f (S (S o)) NExpLead st') by (auto; simpl in L; lia). f_equal. f_equal. simpl. lia.
                 --- change (c2 :: r2 ++ f) with ((c2 :: r2) ++ f).
                     rewrite (IH (c2 :: r2) f (S o) NExpLead st') by (auto; simpl in *; lia). f_equal. f_equal. simpl. lia.
      * destruct (isNumber ch) eqn:D; [|discriminate R]. cbn [negb].
        rewrite (IH r f (S o) NExp st') by (auto; simpl in L; lia). f_equal. f_equal. simpl. lia.
Qed.

Ltac exists_single l :=
  eexists _, [], (ltoken l); split; [split; [reflexivity|split; reflexivity]|]; split; reflexivity.

Ltac op_case f E :=
  destruct f as [|?d ?r];
  [ do 3 eexists; split; [split; [reflexivity|split; reflexivity]|]; cbn; split; reflexivity
  | destruct E as [E61 E47]; do 3 eexists; split; [split; [reflexivity|split; reflexivity]|];
    unfold lex_dispatch, peek, adv, fin; cbn; rewrite ?E61, ?E47; cbn; rewrite ?E61, ?E47; split; reflexivity ].

Lemma word_nb : forall t f, wordlike t = true -> nb_ok t f = true -> stop_ident f /\ colon_ok f = true.
Proof.
  intros t [|d r] W NB; [split; reflexivity|].
  assert (NB' : nb1 t d && colon_ok (d :: r) = true).
  { destruct t; try discriminate W; unfold nb_ok in NB; rewrite W in NB; exact NB. }
  apply andb_prop in NB'. destruct NB' as [A C].
  split; [|exact C]. simpl.
  destruct t as [n|n| | |c|o|k|n|ds|n|b| |b| | |]; try discriminate W; simpl in A; try (apply negb_true_iff in A; exact A).
  destruct o; try discriminate W; simpl in A; nb_split A; assumption.
Qed.

Lemma slice_prefix : forall o (b g : list N), slice (mkpos o (b ++ g)) (mkpos (List.length b + o) g) = Some b.
Proof.
  intros. unfold slice. cbn [po pr].
  replace (o <=? List.length b + o) with true by (symmetry; apply Nat.leb_le; lia).
  replace (List.length b + o - o) with (List.length b) by lia.
  replace (List.length b <=? List.length (b ++ g)) with true
    by (symmetry; apply Nat.leb_le; rewrite app_length; lia).
  simpl. rewrite firstn_app_exact. reflexivity.
Qed.

Lemma dispatch_ftok : forall t f l off, ftok_ok t = true -> nb_ok t f = true -> linstr l = false -> tmode t = false ->
  exists c tbr tok', (ftok_bytes t = c :: tbr /\ isWhite c = false /\ (c =? 35)%N = false) /\
    lex_dispatch l c (mkpos (S off) (tbr ++ f)) =
      Some (ftok_kind t, mklexer (mkpos (List.length tbr + S off) f) tok' (ftok_kind t) (tafter t)) /\
    text_of (ftok_kind t) tok' = ftok_bytes t.
Proof.
  intros t f l off OK NB LI TM. destruct t as [n|n| | |c|o|k|n|ds|n|b| |b| | |]; try discriminate TM.
  - (* identifier *)
    unfold ftok_ok in OK. apply andb_prop in OK. destruct OK as [N K].
    destruct n as [|n0 nr]; [discriminate N|]. unfold name_ok in N. apply andb_prop in N. destruct N as [N1 N2].
    destruct (ident_not_white n0 N1) as [W1 W2].
    exists n0, nr, (n0 :: nr). split; [auto|].
    destruct (word_nb (FName (n0 :: nr)) f eq_refl NB) as [S1 S2]. rewrite dispatch_ident_stop by auto.
    destruct (lookup_kw (n0 :: nr) keywords); [discriminate K|]. split; reflexivity.
  - (* .name *)
    unfold ftok_ok in OK. destruct n as [|n0 nr]; [discriminate OK|]. unfold name_ok in OK.
    apply andb_prop in OK. destruct OK as [N1 N2].
    exists 46%N, (n0 :: nr), (46%N :: n0 :: nr). split; [split; [reflexivity|split; reflexivity]|].
    assert (S1 : stop_ident f).
    { destruct f as [|d r]; simpl; auto. simpl in NB. nb_split NB. auto. }
    unfold lex_dispatch. cbv zeta.
    change (isIdent 46 false) with false. change (isNumber 46) with false. change (46 =? 46)%N with true. cbv iota.
    unfold peek. cbn [pr app]. rewrite (ident_not_46 n0 N1), N1.
    unfold scanIdent. cbn [pr po]. change (scanIdent_s (n0 :: nr ++ f) (S off)) with (scanIdent_s ((n0 :: nr) ++ f) (S off)).
    rewrite scanIdent_stop; [|simpl; rewrite (proj1 (andb_true_iff _ _) (conj eq_refl N2) ) || idtac; auto|auto].
    + unfold fin_slice. cbn [Init.Nat.pred Nat.pred po pr].
      pose proof (slice_name 46%N (n0 :: nr) f off) as SL. cbn [app] in SL. rewrite SL. unfold fin. rewrite LI.
      split; reflexivity.
    + simpl. assert (T : isIdent n0 true = true).
      { unfold isIdent in *. apply orb_prop in N1. destruct N1 as [N1|N1]; [rewrite N1; reflexivity|discriminate N1]. }
      rewrite T. exact N2.
  - (* . *)
    exists 46%N, [], (ltoken l). split; [split; [reflexivity|split; reflexivity]|].
    unfold lex_dispatch. cbv zeta.
    change (isIdent 46 false) with false. change (isNumber 46) with false. change (46 =? 46)%N with true. cbv iota.
    unfold peek. cbn [pr app].
    destruct f as [|d r].
    + split; reflexivity.
    + simpl in NB. nb_split NB.
      repeat match goal with X : _ = false |- _ => rewrite X; clear X end. split; reflexivity.
  - (* .. *)
    exists 46%N, [46%N], [46%N; 46%N]. split; [split; [reflexivity|split; reflexivity]|].
    split; reflexivity.
  - (* ( ) [ ] ? *)
    unfold ftok_ok, punct in OK.
    repeat (apply orb_prop in OK; destruct OK as [OK|OK]); apply N.eqb_eq in OK; subst c;
      try (exists_single l).
    (* ? *)
    exists 63%N, [], (ltoken l). split; [split; [reflexivity|split; reflexivity]|].
    destruct f as [|d [|d2 r]]; try (split; reflexivity).
    simpl in NB. nb_split NB.
    unfold lex_dispatch. cbn. repeat match goal with X : _ = false |- _ => rewrite X; clear X end. split; reflexivity.
  - (* operators *)
    assert (E : match f with d :: _ => (d =? 61)%N = false /\ (d =? 47)%N = false | [] => True end).
    { destruct f as [|d r]; auto. simpl in NB. nb_split NB. auto. }
    destruct o; try (op_case f E).
    + (* and *)
      exists 97%N, [110%N; 100%N], [97%N; 110%N; 100%N]. split; [split; [reflexivity|split; reflexivity]|].
      destruct (word_nb (FOp OpAnd) f eq_refl NB) as [S1 S2]. rewrite dispatch_ident_stop; try reflexivity; auto.
    + (* or *)
      exists 111%N, [114%N], [111%N; 114%N]. split; [split; [reflexivity|split; reflexivity]|].
      destruct (word_nb (FOp OpOr) f eq_refl NB) as [S1 S2]. rewrite dispatch_ident_stop; try reflexivity; auto.
  - (* keywords *)
    destruct (word_nb (FKw k) f eq_refl NB) as [S1 S2].
    destruct k;
      (eexists; eexists; eexists; split; [split; [reflexivity|split; reflexivity]|];
       rewrite dispatch_ident_stop by (try reflexivity; auto); split; reflexivity).
  - (* $name *)
    unfold ftok_ok in OK. destruct n as [|n0 nr]; [discriminate OK|]. unfold name_ok in OK.
    apply andb_prop in OK. destruct OK as [N1 N2].
    exists 36%N, (n0 :: nr), (36%N :: n0 :: nr). split; [split; [reflexivity|split; reflexivity]|].
    destruct (word_nb (FVar (n0 :: nr)) f eq_refl NB) as [S1 S2].
    assert (T : isIdent n0 true = true).
    { unfold isIdent in *. apply orb_prop in N1. destruct N1 as [N1|N1]; [rewrite N1; reflexivity|discriminate N1]. }
    unfold lex_dispatch. cbv zeta.
    change (isIdent 36 false) with false. change (isNumber 36) with false. change (36 =? 46)%N with false.
    change (36 =? 36)%N with true. cbv iota.
    unfold peek. cbn [pr app]. rewrite N1.
    change (n0 :: nr ++ f) with ((n0 :: nr) ++ f).
    rewrite scanIdentOrModule_stop; [|simpl; rewrite T; exact N2|auto|auto].
    unfold fin_slice. cbn [Init.Nat.pred Nat.pred po pr].
    pose proof (slice_name 36%N (n0 :: nr) f off) as SL. cbn [app] in SL. cbn [app]. rewrite SL. unfold fin. rewrite LI.
    split; reflexivity.
  - (* number literal *)
    cbn [ftok_ok] in OK. unfold num_lit in OK. destruct ds as [|d0 dr]; [discriminate OK|].
    apply andb_prop in OK. destruct OK as [OK _].
    destruct (isNumber d0) eqn:N1.
    + destruct (digit_facts d0 N1) as (I1 & W1 & H1).
      destruct (num_run dr NLead) as [st'|] eqn:R; [|discriminate OK]. simpl in OK. apply negb_true_iff in OK.
      exists d0, dr, (d0 :: dr). split; [auto|].
      unfold lex_dispatch. cbv zeta. rewrite I1, N1.
      unfold scanNumber. cbn [pr po]. rewrite (scanNumber_run (List.length dr) dr f (S off) NLead st') by auto.
      unfold fin_slice. cbn [Init.Nat.pred Nat.pred po pr].
      rewrite slice_name. unfold fin. rewrite LI. split; reflexivity.
    + apply andb_prop in OK. destruct OK as [E46 OK]. apply N.eqb_eq in E46. subst d0.
      destruct dr as [|d1 dr1]; [discriminate OK|]. apply andb_prop in OK. destruct OK as [N2 OK].
      destruct (num_run (d1 :: dr1) NFloat) as [st'|] eqn:R; [|discriminate OK]. simpl in OK. apply negb_true_iff in OK.
      destruct (digit_facts d1 N2) as (I1 & _ & _).
      exists 46%N, (d1 :: dr1), (46%N :: d1 :: dr1). split; [split; [reflexivity|split; reflexivity]|].
      unfold lex_dispatch. cbv zeta.
      change (isIdent 46 false) with false. change (isNumber 46) with false. change (46 =? 46)%N with true. cbv iota.
      unfold peek. cbn [pr app].
      assert (D46 : (d1 =? 46)%N = false).
      { unfold isNumber in N2. apply andb_prop in N2. destruct N2 as [A _]. apply N.leb_le in A. apply N.eqb_neq. lia. }
      rewrite D46, I1, N2.
      unfold scanNumber. cbn [pr po]. change (d1 :: dr1 ++ f) with ((d1 :: dr1) ++ f).
      rewrite (scanNumber_run (List.length (d1 :: dr1)) (d1 :: dr1) f (S off) NFloat st') by auto.
      unfold fin_slice. cbn [Init.Nat.pred Nat.pred po pr].
      pose proof (slice_name 46%N (d1 :: dr1) f off) as SL. cbn [app] in SL. cbn [app]. rewrite SL.
      unfold fin. rewrite LI. split; reflexivity.
  - (* @format *)
    unfold ftok_ok in OK. destruct n as [|n0 nr]; [discriminate OK|].
    cbn [forallb] in OK. pose proof OK as OK2. apply andb_prop in OK. destruct OK as [N1 N2].
    exists 64%N, (n0 :: nr), (64%N :: n0 :: nr). split; [split; [reflexivity|split; reflexivity]|].
    assert (S1 : stop_ident f).
    { destruct f as [|d r]; simpl; auto. simpl in NB. nb_split NB. auto. }
    unfold lex_dispatch. cbv zeta.
    change (isIdent 64 false) with false. change (isNumber 64) with false.
    change (64 =? 46)%N with false. change (64 =? 36)%N with false. change (64 =? 124)%N with false.
    change (64 =? 63)%N with false. cbn [orb].
    change ((64 =? 43) || (64 =? 45) || (64 =? 42) || (64 =? 37))%N with false.
    change (64 =? 47)%N with false. change (64 =? 61)%N with false. change (64 =? 33)%N with false.
    change ((64 =? 62) || (64 =? 60))%N with false. change (64 =? 64)%N with true. cbv iota.
    unfold peek. cbn [pr app]. rewrite N1.
    unfold scanIdent. cbn [pr po]. change (scanIdent_s (n0 :: nr ++ f) (S off)) with (scanIdent_s ((n0 :: nr) ++ f) (S off)).
    rewrite scanIdent_stop; [|exact OK2|auto].
    unfold fin_slice. cbn [Init.Nat.pred Nat.pred po pr].
    pose proof (slice_name 64%N (n0 :: nr) f off) as SL. cbn [app] in SL. rewrite SL. unfold fin. rewrite LI.
    split; reflexivity.
  - (* "body" *)
    cbn [ftok_ok] in OK.
    exists 34%N, (b ++ [34%N]), (34%N :: b ++ [34%N]). split; [split; [reflexivity|split; reflexivity]|].
    unfold lex_dispatch. cbv zeta.
    change (isIdent 34 false) with false. change (isNumber 34) with false. cbv iota.
    repeat match goal with |- context [(34 =? ?k)%N] => let v := eval vm_compute in (34 =? k)%N in change (34 =? k)%N with v end.
    cbn [orb]. cbv iota.
    unfold scanString. cbn [pr po Init.Nat.pred Nat.pred].
    rewrite <- app_assoc. cbn [app].
    rewrite (scan_skip (List.length b) b) by auto.
    cbn [scanString_s]. change (34 =? 92)%N with false. change (34 =? 34)%N with true. cbn [negb]. cbv iota.
    pose proof (slice_prefix off (34%N :: b ++ [34%N]) f) as SL. cbn [app List.length] in SL. rewrite <- app_assoc in SL.
    cbn [app Nat.add] in SL.
    replace (S (S off + List.length b)) with (S (List.length (b ++ [34%N]) + off)) by (rewrite app_length; simpl; lia).
    rewrite SL. unfold fin. split; [|reflexivity].
    f_equal. f_equal. f_equal. f_equal. lia.
  - (* opening quote of an interpolated string *)
    cbn [nb_ok] in NB. destruct (interp_ahead_split (List.length f) f (le_n _) NB) as (piece & rest & E & S). subst f.
    exists 34%N, [], [34%N]. split; [split; [reflexivity|split; reflexivity]|].
    unfold lex_dispatch. cbv zeta.
    change (isIdent 34 false) with false. change (isNumber 34) with false. cbv iota.
    repeat match goal with |- context [(34 =? ?k)%N] => let v := eval vm_compute in (34 =? k)%N in change (34 =? k)%N with v end.
    cbn [orb]. cbv iota.
    unfold scanString. cbn [pr po Init.Nat.pred Nat.pred app].
    rewrite (scan_skip (List.length piece) piece) by auto.
    cbn [scanString_s]. change (92 =? 92)%N with true. change (40 =? 117)%N with false.
    change ((40 =? 34) || (40 =? 47) || (40 =? 92) || (40 =? 98) || (40 =? 102) || (40 =? 110) || (40 =? 114) || (40 =? 116))%N with false.
    change (40 =? 40)%N with true. cbn [negb]. cbv iota.
    pose proof (slice_prefix off [34%N] (piece ++ 92%N :: 40%N :: rest)) as SL. cbn [app List.length Nat.add] in SL.
    rewrite SL. unfold fin. split; reflexivity.
  - (* ?// *)
    exists 63%N, [47%N; 47%N], [63%N; 47%N; 47%N]. split; [split; [reflexivity|split; reflexivity]|].
    split; reflexivity.
Qed.

(* ---- one token ------------------------------------------------------------------------------------------ *)
Lemma next_plain : forall f o c r, isWhite c = false -> (c =? 35)%N = false ->
  next (S f) (mkpos o (c :: r)) = Some (c, false, mkpos (S o) r).
Proof. intros f o c r W H. cbn [next pr po]. rewrite H, W. reflexivity. Qed.

Lemma Lex_ftok : forall t sp f l o, ftok_ok t = true -> nb_ok t f = true -> tmode t = false ->
  linstr l = false -> lp l = mkpos o (spb sp ++ ftok_bytes t ++ f) ->
  exists tok', Lex l = Some (ftok_kind t,
                             mklexer (mkpos (List.length (spb sp) + List.length (ftok_bytes t) + o) f) tok' (ftok_kind t) (tafter t)) /\
               text_of (ftok_kind t) tok' = ftok_bytes t.
Proof.
  intros t sp f l o OK NB TM LI LP.
  destruct (dispatch_ftok t f l (List.length (spb sp) + o) OK NB LI TM) as (c & tbr & tok' & (B & W & H) & D & T).
  exists tok'. split; [|exact T].
  unfold Lex. rewrite LP, LI. rewrite B. cbn [pr po].
  destruct sp; cbn [spb app is_nil List.length] in *.
  - rewrite next_white by reflexivity. cbn [app]. rewrite next_plain by auto.
    cbn [plus] in D. rewrite D. f_equal. f_equal. f_equal. f_equal. simpl. lia.
  - rewrite next_plain by auto. cbn [plus] in D. rewrite D. f_equal. f_equal. f_equal. f_equal. simpl. lia.
Qed.

Lemma piece_end_cases : forall f, piece_end f = true ->
  (exists f1, f = 34%N :: f1) \/ (exists f2, f = 92%N :: 40%N :: f2).
Proof.
  intros [|d f1] H; [discriminate H|].
  destruct (N.eq_dec d 34) as [->|D34]; [left; eauto|].
  destruct (N.eq_dec d 92) as [->|D92].
  - destruct f1 as [|e f2]; [discriminate H|].
    destruct (N.eq_dec e 40) as [->|E40]; [right; eauto|].
    exfalso. destruct e as [|q]; [discriminate H|].
    repeat (destruct q as [q|q|]; try discriminate H); congruence.
  - exfalso. destruct d as [|q]; [discriminate H|].
    repeat (destruct q as [q|q|]; try discriminate H); congruence.
Qed.

(* a token of the inside of an interpolated string: Lex in inString mode (no white space is skipped there) *)
Lemma Lex_instring : forall t f l o, ftok_ok t = true -> nb_ok t f = true -> tmode t = true ->
  linstr l = true -> lp l = mkpos o (ftok_bytes t ++ f) ->
  exists tok', Lex l = Some (ftok_kind t,
                             mklexer (mkpos (List.length (ftok_bytes t) + o) f) tok' (ftok_kind t) (tafter t)) /\
               text_of (ftok_kind t) tok' = ftok_bytes t.
Proof.
  intros t f l o OK NB TM LI LP.
  destruct t as [n|n| | |c|o'|k|n|ds|n|b| |b| | |]; try discriminate TM.
  - (* piece *)
    cbn [ftok_ok] in OK. apply andb_prop in OK. destruct OK as [S NE].
    destruct b as [|b0 br]; [discriminate NE|].
    exists (b0 :: br). split; [|reflexivity].
    unfold Lex. rewrite LP, LI. cbn [ftok_bytes pr po app is_nil].
    unfold scanString. cbn [pr po].
    change (b0 :: br ++ f) with ((b0 :: br) ++ f).
    rewrite (scan_skip (List.length (b0 :: br)) (b0 :: br)) by auto.
    cbn [nb_ok] in NB. unfold piece_end in NB.
    pose proof (slice_prefix o (b0 :: br) f) as SL.
    destruct (piece_end_cases f NB) as [(f1 & ->)|(f2 & ->)].
    + cbn [scanString_s]. change (34 =? 92)%N with false. change (34 =? 34)%N with true.
      cbn [negb po]. cbv iota.
      replace (o + List.length (b0 :: br)) with (List.length (b0 :: br) + o) by lia.
      replace (o <? List.length (b0 :: br) + o) with true by (symmetry; apply Nat.ltb_lt; simpl; lia).
      rewrite SL. unfold fin. reflexivity.
    + cbn [scanString_s]. change (92 =? 92)%N with true. change (40 =? 117)%N with false.
      change ((40 =? 34) || (40 =? 47) || (40 =? 92) || (40 =? 98) || (40 =? 102) || (40 =? 110) || (40 =? 114) || (40 =? 116))%N with false.
      change (40 =? 40)%N with true. cbn [negb po]. cbv iota.
      replace (o + List.length (b0 :: br)) with (List.length (b0 :: br) + o) by lia.
      replace (List.length (b0 :: br) + o =? o) with false by (symmetry; apply Nat.eqb_neq; simpl; lia).
      rewrite SL. unfold fin. reflexivity.
  - (* \( *)
    exists [92%N; 40%N]. split; [|reflexivity].
    unfold Lex. rewrite LP, LI. cbn [ftok_bytes pr po app is_nil].
    unfold scanString. cbn [pr po scanString_s]. change (92 =? 92)%N with true. change (40 =? 117)%N with false.
    change ((40 =? 34) || (40 =? 47) || (40 =? 92) || (40 =? 98) || (40 =? 102) || (40 =? 110) || (40 =? 114) || (40 =? 116))%N with false.
    change (40 =? 40)%N with true. cbn [negb]. cbv iota. rewrite Nat.eqb_refl. unfold fin.
    f_equal. f_equal. f_equal. f_equal. simpl. lia.
  - (* closing quote *)
    exists [34%N]. split; [|reflexivity].
    unfold Lex. rewrite LP, LI. cbn [ftok_bytes pr po app is_nil].
    unfold scanString. cbn [pr po scanString_s]. change (34 =? 92)%N with false. change (34 =? 34)%N with true.
    cbn [negb]. cbv iota. rewrite Nat.ltb_irrefl. unfold fin. reflexivity.
Qed.

(* ---- a list of tokens ------------------------------------------------------------------------------------ *)
Definition fitem := (bool * ftok)%type.          (* (preceded by one space?, token) *)
Fixpoint frender (items : list fitem) : list N :=
  match items with [] => [] | (sp, t) :: r => spb sp ++ ftok_bytes t ++ frender r end.
(* every token is well formed and the bytes that follow it do not extend it *)
Fixpoint chain (items : list fitem) : bool :=
  match items with
  | [] => true
  | (sp, t) :: r => ftok_ok t && nb_ok t (frender r) && chain r
  end.
Definition fexpected (it : fitem) : tk * list N := (ftok_kind (snd it), ftok_bytes (snd it)).

(* what a token does to the open-parenthesis stack of the feedback emulation (true = opened by \( ) and the mode
   the NEXT Lex call runs in: the ')' that closes an interpolation switches the lexer back to inString *)
Definition effect (t : ftok) (stk : list bool) : list bool * bool :=
  match t with
  | FSQuery => (true :: stk, false)
  | FCh c =>
      if (c =? 40)%N then (false :: stk, false)
      else if (c =? 41)%N then match stk with true :: s => (s, true) | false :: s => (s, false) | [] => ([], false) end
      else (stk, false)
  | _ => (stk, tafter t)
  end.
(* every token is lexed in the mode it needs (and nothing is skipped before an inString token) *)
Fixpoint modes (instr : bool) (stk : list bool) (items : list fitem) : bool :=
  match items with
  | [] => true
  | (sp, t) :: r =>
      Bool.eqb instr (tmode t) && (negb (tmode t) || negb sp) &&
      modes (snd (effect t stk)) (fst (effect t stk)) r
  end.

Lemma fkind_not_end : forall t, ftok_ok t = true -> is_end (ftok_kind t) = false.
Proof.
  intros [n|n| | |c|o|k|n|ds|n|b| |b| | |] OK; try reflexivity.
  - unfold ftok_ok, punct in OK.
    repeat (apply orb_prop in OK; destruct OK as [OK|OK]); apply N.eqb_eq in OK; subst c; reflexivity.
  - destruct o; reflexivity.
Qed.

Lemma feedback_effect : forall t stk p tok, ftok_ok t = true ->
  feedback (ftok_kind t) stk (mklexer p tok (ftok_kind t) (tafter t)) =
  (fst (effect t stk), mklexer p tok (ftok_kind t) (snd (effect t stk))).
Proof.
  intros t stk p tok OK. destruct t as [n|n| | |c|o|k|n|ds|n|b| |b| | |]; try reflexivity.
  - unfold ftok_ok, punct in OK.
    repeat (apply orb_prop in OK; destruct OK as [OK|OK]); apply N.eqb_eq in OK; subst c; try reflexivity.
    destruct stk as [|[|] s]; reflexivity.
  - destruct o; reflexivity.
  - destruct k; reflexivity.
Qed.

Theorem lex_items : forall items l o stk f,
  chain items = true -> modes (linstr l) stk items = true -> lp l = mkpos o (frender items) ->
  List.length items < f ->
  option_map (map proj) (lex_all f l stk) = Some (map fexpected items ++ [(KEOF, [])]).
Proof.
  induction items as [|[sp t] r IH]; intros l o stk f CH MO LP L.
  - destruct f; [simpl in L; lia|]. simpl in LP.
    unfold lex_all. cbn [lex_with]. unfold Lex. rewrite LP. cbn [pr is_nil]. unfold fin. cbn [is_end].
    simpl. reflexivity.
  - destruct f; [simpl in L; lia|].
    simpl in CH. apply andb_prop in CH. destruct CH as [CH CH2]. apply andb_prop in CH. destruct CH as [OK NB].
    cbn [modes] in MO. apply andb_prop in MO. destruct MO as [MO MO2]. apply andb_prop in MO. destruct MO as [M1 M2].
    apply Bool.eqb_prop in M1.
    simpl in LP.
    assert (LX : exists tok', Lex l = Some (ftok_kind t,
                   mklexer (mkpos (List.length (spb sp) + List.length (ftok_bytes t) + o) (frender r)) tok' (ftok_kind t) (tafter t)) /\
                 text_of (ftok_kind t) tok' = ftok_bytes t).
    { destruct (tmode t) eqn:TM.
      - destruct sp; [discriminate M2|]. cbn [spb app List.length plus] in *.
        apply Lex_instring; auto.
      - apply Lex_ftok; auto. }
    destruct LX as (tok' & A & T).
    unfold lex_all. cbn [lex_with]. rewrite A. rewrite fkind_not_end by auto.
    rewrite feedback_effect by auto.
    assert (L' : List.length r < f) by (simpl in L; lia).
    match goal with |- context [lex_with _ _ f ?LX ?ST] =>
      specialize (IH LX (List.length (spb sp) + List.length (ftok_bytes t) + o) ST f CH2 MO2 eq_refl L') end.
    unfold lex_all in IH.
    match goal with |- context [lex_with ?a ?b f ?LX ?ST] => destruct (lex_with a b f LX ST) as [ts|] end; [|discriminate IH].
    simpl in IH. inversion IH as [IH']. simpl. f_equal. f_equal.
    + unfold proj, fexpected. simpl. f_equal.
      unfold tok_text. simpl. rewrite <- T. unfold text_of. destruct (ftok_kind t); reflexivity.
    + exact IH'.
Qed.

Lemma ftok_bytes_nonempty : forall t, ftok_ok t = true -> 1 <= List.length (ftok_bytes t).
Proof.
  intros t OK. destruct t as [n|n| | |c|o|k|n|ds|n|b| |b| | |]; simpl; try lia.
  - unfold ftok_ok in OK. apply andb_prop in OK. destruct OK as [N _]. destruct n; [discriminate N|simpl; lia].
  - destruct o; simpl; lia.
  - destruct k; simpl; lia.
  - cbn [ftok_ok] in OK. destruct ds; [discriminate OK|simpl; lia].
  - cbn [ftok_ok] in OK. apply andb_prop in OK. destruct OK as [_ NE]. destruct b; [discriminate NE|simpl; lia].
Qed.

Lemma frender_length : forall items, chain items = true -> List.length items <= List.length (frender items).
Proof.
  induction items as [|[sp t] r IH]; intros CH; simpl; [lia|].
  simpl in CH. apply andb_prop in CH. destruct CH as [CH CH2]. apply andb_prop in CH. destruct CH as [OK _].
  rewrite !app_length. specialize (IH CH2). pose proof (ftok_bytes_nonempty t OK). lia.
Qed.

(* lexing the bytes of a token list whose gaps are right yields exactly those tokens, then eof *)
Theorem tokenize_items : forall items, chain items = true -> modes false [] items = true ->
  option_map (map proj) (tokenize (frender items)) = Some (map fexpected items ++ [(KEOF, [])]).
Proof.
  intros items CH MO. unfold tokenize.
  apply (lex_items items (newLexer (frender items)) 0 [] _ CH MO eq_refl).
  pose proof (frender_length items CH). lia.
Qed.

(* ---- the same with ARBITRARY separators (whitespace and comments, RespaceProofs.sep) ------------------------ *)
Definition sitem := (sep * ftok)%type.
(* tokens lexed in the normal mode that leave the lexer in the normal mode (all but the parts of interpolated strings) *)
Definition simple_tok (t : ftok) : bool := negb (tmode t) && negb (tafter t).
Fixpoint srender (items : list sitem) (final : sep) : list N :=
  match items with [] => sep_bytes final | (s, t) :: r => sep_bytes s ++ ftok_bytes t ++ srender r final end.
Fixpoint schain (items : list sitem) (final : sep) : bool :=
  match items with
  | [] => true
  | (s, t) :: r => sep_ok s && ftok_ok t && simple_tok t && nb_ok t (srender r final) && schain r final
  end.

Lemma simple_tok_modes : forall t, simple_tok t = true -> tmode t = false /\ tafter t = false.
Proof. intros t H. unfold simple_tok in H. apply andb_prop in H. destruct H as [A B].
  apply negb_true_iff in A. apply negb_true_iff in B. auto. Qed.

Lemma Lex_ftok_sep : forall t s f l o, ftok_ok t = true -> simple_tok t = true -> sep_ok s = true -> nb_ok t f = true ->
  linstr l = false -> lp l = mkpos o (sep_bytes s ++ ftok_bytes t ++ f) ->
  exists tok', Lex l = Some (ftok_kind t,
                             mklexer (mkpos (List.length (sep_bytes s) + List.length (ftok_bytes t) + o) f) tok' (ftok_kind t) false) /\
               text_of (ftok_kind t) tok' = ftok_bytes t.
Proof.
  intros t s f l o OK ST SOK NB LI LP. destruct (simple_tok_modes t ST) as [TM TA].
  destruct (dispatch_ftok t f l (List.length (sep_bytes s) + o) OK NB LI TM) as (c & tbr & tok' & (B & W & H) & D & T).
  rewrite TA in D.
  exists tok'. split; [|exact T].
  unfold Lex. rewrite LP, LI. rewrite B. cbn [pr po].
  replace (sep_bytes s ++ (c :: tbr) ++ f) with (sep_bytes s ++ c :: (tbr ++ f)) by reflexivity.
  assert (NN : is_nil (sep_bytes s ++ c :: tbr ++ f) = false) by (destruct (sep_bytes s); reflexivity).
  rewrite NN.
  rewrite next_skip; auto; [|rewrite app_length; simpl; lia].
  rewrite D. f_equal. f_equal. f_equal. f_equal. simpl. lia.
Qed.

Lemma effect_simple : forall t stk, ftok_ok t = true -> simple_tok t = true -> Forall (fun b => b = false) stk ->
  snd (effect t stk) = false /\ Forall (fun b => b = false) (fst (effect t stk)).
Proof.
  intros t stk OK ST H. destruct t as [n|n| | |c|o|k|n|ds|n|b| |b| | |]; try discriminate ST; try (split; [reflexivity|exact H]).
  unfold ftok_ok, punct in OK.
  repeat (apply orb_prop in OK; destruct OK as [OK|OK]); apply N.eqb_eq in OK; subst c; try (split; [reflexivity|exact H]).
  - split; [reflexivity|constructor; auto].
  - destruct stk as [|b s]; [split; [reflexivity|constructor]|]. inversion H; subst. split; [reflexivity|assumption].
Qed.

Theorem lex_sitems : forall items final l o stk f,
  schain items final = true -> sep_ok final = true -> linstr l = false -> lp l = mkpos o (srender items final) ->
  Forall (fun b => b = false) stk -> List.length items < f ->
  option_map (map proj) (lex_all f l stk) = Some (map (fun it => (ftok_kind (snd it), ftok_bytes (snd it))) items ++ [(KEOF, [])]).
Proof.
  induction items as [|[s t] r IH]; intros final l o stk f CH FOK LI LP ST L.
  - destruct f; [simpl in L; lia|]. simpl in LP.
    destruct (Lex_eof final l o FOK LI LP) as (l1 & A & B).
    unfold lex_all. cbn [lex_with]. rewrite A. cbn [is_end]. simpl. unfold proj. simpl. rewrite B. reflexivity.
  - destruct f; [simpl in L; lia|].
    simpl in CH. apply andb_prop in CH. destruct CH as [CH CH2]. apply andb_prop in CH. destruct CH as [CH NB].
    apply andb_prop in CH. destruct CH as [CH SI]. apply andb_prop in CH. destruct CH as [SOK OK].
    simpl in LP.
    destruct (Lex_ftok_sep t s (srender r final) l o OK SI SOK NB LI LP) as (tok' & A & T).
    unfold lex_all. cbn [lex_with]. rewrite A. rewrite fkind_not_end by auto.
    destruct (simple_tok_modes t SI) as [_ TA].
    pose proof (feedback_effect t stk (mkpos (List.length (sep_bytes s) + List.length (ftok_bytes t) + o) (srender r final)) tok' OK) as FB.
    rewrite TA in FB. rewrite FB.
    destruct (effect_simple t stk OK SI ST) as [E1 E2]. rewrite E1.
    assert (L' : List.length r < f) by (simpl in L; lia).
    match goal with |- context [lex_with _ _ f ?LX ?STK] =>
      specialize (IH final LX (List.length (sep_bytes s) + List.length (ftok_bytes t) + o) STK f CH2 FOK eq_refl eq_refl E2 L') end.
    unfold lex_all in IH.
    match goal with |- context [lex_with ?a ?b f ?LX ?STK] => destruct (lex_with a b f LX STK) as [ts|] end; [|discriminate IH].
    simpl in IH. inversion IH as [IH']. simpl. f_equal. f_equal.
    + unfold proj. simpl. f_equal.
      unfold tok_text. simpl. rewrite <- T. unfold text_of. destruct (ftok_kind t); reflexivity.
    + exact IH'.
Qed.

Lemma srender_length : forall items final, schain items final = true -> List.length items <= List.length (srender items final).
Proof.
  induction items as [|[s t] r IH]; intros final CH; simpl; [lia|].
  simpl in CH. apply andb_prop in CH. destruct CH as [CH CH2]. apply andb_prop in CH. destruct CH as [CH _].
  apply andb_prop in CH. destruct CH as [CH _]. apply andb_prop in CH. destruct CH as [_ OK].
  rewrite !app_length. specialize (IH final CH2). pose proof (ftok_bytes_nonempty t OK). lia.
Qed.

(* whitespace and comments between the tokens of this alphabet are irrelevant to the token stream *)
Theorem tokenize_sitems : forall items final, schain items final = true -> sep_ok final = true ->
  option_map (map proj) (tokenize (srender items final)) =
  Some (map (fun it => (ftok_kind (snd it), ftok_bytes (snd it))) items ++ [(KEOF, [])]).
Proof.
  intros items final CH FOK. unfold tokenize.
  apply (lex_sitems items final (newLexer (srender items final)) 0 [] _ CH FOK eq_refl eq_refl (Forall_nil _)).
  pose proof (srender_length items final CH). lia.
Qed.

Theorem respace_tokens_ext : forall items1 items2 final1 final2,
  map snd items1 = map snd items2 ->
  schain items1 final1 = true -> schain items2 final2 = true -> sep_ok final1 = true -> sep_ok final2 = true ->
  option_map (map proj) (tokenize (srender items1 final1)) = option_map (map proj) (tokenize (srender items2 final2)).
Proof.
  intros i1 i2 f1 f2 E C1 C2 F1 F2. rewrite (tokenize_sitems i1 f1 C1 F1), (tokenize_sitems i2 f2 C2 F2).
  f_equal. f_equal.
  rewrite <- (map_map snd (fun t => (ftok_kind t, ftok_bytes t)) i1).
  rewrite <- (map_map snd (fun t => (ftok_kind t, ftok_bytes t)) i2). rewrite E. reflexivity.
Qed.
