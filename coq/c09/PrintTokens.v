(* C09c / M3 (a) — lexing what the printer prints, UNBOUNDED, for a sub-grammar of terms with suffixes.

   Token alphabet [ftok]: identifiers (not keywords), .name, `.`, `..`, the single characters ( ) [ ] ?, and the 24
   operators (as binary operators and, for + and -, as unary signs).  [Lex_ftok]: one call of the lexer model on
   (optional space) ++ bytes of a token ++ rest returns that token and stops in front of rest, provided the next
   byte does not extend the token ([nb_ok]).  [lex_items]: a whole list of such tokens whose gaps satisfy [nb_ok]
   lexes to exactly those tokens, then eof.  Definitions and proofs (this file belongs to the proof side). *)
From Coq Require Import List NArith Bool String Arith Lia.
From Verif Require Import common.Sexp sem.JV sem.Syntax c09.GrammarTypes gen.GenGrammar c09.Lexer c09.LexProofs c09.Run
  c09.RespaceProofs c09.FullAst c09.Printer.
Import ListNotations.
Local Open Scope nat_scope.
Local Open Scope list_scope.

Inductive kwd := KIf | KThen | KElse | KEnd | KTry | KCatch | KReduce | KForeach | KAs | KLabel | KBreak | KDef | KElif.
Inductive ftok := FName (n : list N) | FField (n : list N) | FDot | FRec | FCh (c : N) | FOp (o : operator)
                | FKw (k : kwd) | FVar (n : list N) | FNum (ds : list N) | FFmt (n : list N).

Definition kw_bytes (k : kwd) : list N :=
  match k with
  | KIf => [105; 102] | KThen => [116; 104; 101; 110] | KElse => [101; 108; 115; 101] | KEnd => [101; 110; 100]
  | KTry => [116; 114; 121] | KCatch => [99; 97; 116; 99; 104] | KReduce => [114; 101; 100; 117; 99; 101]
  | KForeach => [102; 111; 114; 101; 97; 99; 104] | KAs => [97; 115] | KLabel => [108; 97; 98; 101; 108]
  | KBreak => [98; 114; 101; 97; 107] | KDef => [100; 101; 102] | KElif => [101; 108; 105; 102]
  end%N.
Definition kw_tok (k : kwd) : string :=
  match k with
  | KIf => "tokIf" | KThen => "tokThen" | KElse => "tokElse" | KEnd => "tokEnd" | KTry => "tokTry"
  | KCatch => "tokCatch" | KReduce => "tokReduce" | KForeach => "tokForeach" | KAs => "tokAs" | KLabel => "tokLabel"
  | KBreak => "tokBreak" | KDef => "tokDef" | KElif => "tokElif"
  end.
(* the keywords map of the current lexer.go gives these spellings these tokens *)
Lemma kw_lookup : forall k, lookup_kw (kw_bytes k) keywords = Some (kw_tok k).
Proof. destruct k; vm_compute; reflexivity. Qed.

Definition fop_bytes (o : operator) : list N :=
  match o with
  | OpPipe => [124] | OpComma => [44] | OpAdd => [43] | OpSub => [45] | OpMul => [42] | OpDiv => [47] | OpMod => [37]
  | OpEq => [61; 61] | OpNe => [33; 61] | OpGt => [62] | OpLt => [60] | OpGe => [62; 61] | OpLe => [60; 61]
  | OpAnd => [97; 110; 100] | OpOr => [111; 114] | OpAlt => [47; 47] | OpAssign => [61] | OpModify => [124; 61]
  | OpUpdateAdd => [43; 61] | OpUpdateSub => [45; 61] | OpUpdateMul => [42; 61] | OpUpdateDiv => [47; 61]
  | OpUpdateMod => [37; 61] | OpUpdateAlt => [47; 47; 61]
  end%N.

(* what the printer writes for an operator (Operator.String() as translated from operator.go) *)
Lemma op_text_bytes : forall o, op_text o = fop_bytes o.
Proof. destruct o; vm_compute; reflexivity. Qed.

Definition fop_kind (o : operator) : tk :=
  match o with
  | OpPipe => KChar 124 | OpComma => KChar 44 | OpAdd => KChar 43 | OpSub => KChar 45 | OpMul => KChar 42
  | OpDiv => KChar 47 | OpMod => KChar 37
  | OpEq | OpNe | OpGt | OpLt | OpGe | OpLe => KTok "tokCompareOp"
  | OpAnd => KTok "tokAndOp" | OpOr => KTok "tokOrOp" | OpAlt => KTok "tokAltOp"
  | _ => KTok "tokUpdateOp"
  end.

Definition is_word (o : operator) : bool := match o with OpAnd | OpOr => true | _ => false end.
Definition punct (c : N) : bool :=
  ((c =? 40) || (c =? 41) || (c =? 91) || (c =? 93) || (c =? 63) || (c =? 59) || (c =? 58) || (c =? 123) || (c =? 125))%N.

Definition ftok_ok (t : ftok) : bool :=
  match t with
  | FName n => name_ok n && match lookup_kw n keywords with None => true | Some _ => false end
  | FField n => name_ok n
  | FVar n => name_ok n
  | FNum ds => match ds with [] => false | _ => forallb isNumber ds end
  | FFmt n => match n with [] => false | _ => forallb (fun c => isIdent c true) n end
  | FCh c => punct c
  | _ => true
  end.
Definition ftok_bytes (t : ftok) : list N :=
  match t with
  | FName n => n | FField n => 46%N :: n | FDot => [46%N] | FRec => [46%N; 46%N] | FCh c => [c] | FOp o => fop_bytes o
  | FKw k => kw_bytes k | FVar n => 36%N :: n | FNum ds => ds | FFmt n => 64%N :: n
  end.
Definition ftok_kind (t : ftok) : tk :=
  match t with
  | FName _ => KTok "tokIdent" | FField _ => KTok "tokIndex" | FDot => KChar 46 | FRec => KTok "tokRecurse"
  | FCh c => KChar c | FOp o => fop_kind o
  | FKw k => KTok (kw_tok k) | FVar _ => KTok "tokVariable" | FNum _ => KTok "tokNumber" | FFmt _ => KTok "tokFormat"
  end.

(* the bytes after a token must not extend it: [nb1] is the condition on the next byte, [colon_ok] excludes the `::`
   that would make an identifier, keyword or variable a module-qualified name *)
Definition nb1 (t : ftok) (d : N) : bool :=
  match t with
  | FName _ | FKw _ | FVar _ | FField _ | FFmt _ => negb (isIdent d true)
  | FDot => negb (d =? 46)%N && negb (isIdent d false) && negb (isNumber d)
  | FRec => true
  | FCh c => negb (c =? 63)%N || negb (d =? 47)%N
  | FOp o => negb (d =? 61)%N && negb (d =? 47)%N && (negb (is_word o) || negb (isIdent d true))
  | FNum _ => negb (isNumber d) && negb (d =? 46)%N && negb (d =? 101)%N && negb (d =? 69)%N && negb (isIdent d false)
  end.
Definition colon_ok (f : list N) : bool :=
  match f with d :: e :: _ => negb ((d =? 58)%N && (e =? 58)%N) | _ => true end.
Definition wordlike (t : ftok) : bool :=
  match t with FName _ | FKw _ | FVar _ => true | FOp o => is_word o | _ => false end.
Definition nb_ok (t : ftok) (f : list N) : bool :=
  match f with [] => true | d :: _ => nb1 t d && (negb (wordlike t) || colon_ok f) end.

Definition spb (sp : bool) : list N := if sp then [32%N] else [].

(* ---- scanning identifiers up to a byte that is not an identifier byte -------------------------------- *)
Definition stop_ident (f : list N) : Prop := match f with [] => True | d :: _ => isIdent d true = false end.

Lemma scanIdent_stop : forall nr f o, forallb (fun c => isIdent c true) nr = true -> stop_ident f ->
  scanIdent_s (nr ++ f) o = mkpos (List.length nr + o) f.
Proof.
  induction nr as [|c nr IH]; intros f o H F.
  - simpl. destruct f as [|d r]; [reflexivity|]. simpl in F. simpl. rewrite F. reflexivity.
  - simpl in H. apply andb_prop in H. destruct H as [H1 H2]. simpl. rewrite H1. rewrite IH by auto. f_equal. lia.
Qed.

Lemma scanIdentOrModule_stop : forall nr f o, forallb (fun c => isIdent c true) nr = true -> stop_ident f ->
  colon_ok f = true ->
  scanIdentOrModule (mkpos o (nr ++ f)) = (mkpos (List.length nr + o) f, false).
Proof.
  intros nr f o H F C. unfold scanIdentOrModule, scanIdent. cbn [pr po]. rewrite scanIdent_stop by auto. cbn [pr po].
  destruct f as [|d [|d2 [|d3 r]]]; try reflexivity. simpl in C. apply negb_true_iff in C. rewrite C. reflexivity.
Qed.

Lemma dispatch_ident_stop : forall n0 nr f l o, isIdent n0 false = true ->
  forallb (fun c => isIdent c true) nr = true -> stop_ident f ->
  colon_ok f = true ->
  lex_dispatch l n0 (mkpos (S o) (nr ++ f)) =
  match lookup_kw (n0 :: nr) keywords with
  | Some k => fin l (KTok k) (mkpos (List.length nr + S o) f) (Some (n0 :: nr)) false
  | None => fin l (KTok "tokIdent") (mkpos (List.length nr + S o) f) (Some (n0 :: nr)) false
  end.
Proof.
  intros n0 nr f l o H1 H2 F C. unfold lex_dispatch. cbv zeta. rewrite H1.
  rewrite scanIdentOrModule_stop by auto. cbn [po pr Init.Nat.pred Nat.pred].
  rewrite slice_name. reflexivity.
Qed.

Lemma ident_not_46 : forall c, isIdent c false = true -> (c =? 46)%N = false.
Proof. intros c H. destruct (c =? 46)%N eqn:E; auto. apply N.eqb_eq in E. subst c. discriminate H. Qed.

Lemma hd_stop : forall f, match hd_error f with Some d => isIdent d true = false | None => True end -> stop_ident f.
Proof. intros [|d r] H; simpl in *; auto. Qed.

Ltac nb_split H :=
  repeat match goal with
         | X : (_ && _)%bool = true |- _ => let A := fresh "NB" in apply andb_prop in X; destruct X as [A X]
         end;
  repeat match goal with X : negb _ = true |- _ => apply negb_true_iff in X end.

Lemma digit_facts : forall c, isNumber c = true ->
  isIdent c false = false /\ isWhite c = false /\ (c =? 35)%N = false.
Proof.
  intros c H. unfold isNumber in H. apply andb_prop in H. destruct H as [A B].
  apply N.leb_le in A. apply N.leb_le in B.
  assert (R : forall a b, (a <= c)%N -> (c <= b)%N -> (b < 65)%N -> (35 < a)%N ->
              isIdent c false = false /\ isWhite c = false /\ (c =? 35)%N = false).
  { intros a b L1 L2 L3 L4. unfold isIdent, isWhite.
    replace (97 <=? c)%N with false by (symmetry; apply N.leb_gt; lia).
    replace (65 <=? c)%N with false by (symmetry; apply N.leb_gt; lia).
    replace (c =? 95)%N with false by (symmetry; apply N.eqb_neq; lia).
    replace (c =? 9)%N with false by (symmetry; apply N.eqb_neq; lia).
    replace (c =? 10)%N with false by (symmetry; apply N.eqb_neq; lia).
    replace (c =? 13)%N with false by (symmetry; apply N.eqb_neq; lia).
    replace (c =? 32)%N with false by (symmetry; apply N.eqb_neq; lia).
    replace (c =? 35)%N with false by (symmetry; apply N.eqb_neq; lia).
    repeat split; reflexivity. }
  apply (R 48%N 57%N); auto; lia.
Qed.

Lemma scanNumber_digits : forall dr f o, forallb isNumber dr = true -> nb_ok (FNum [48%N]) f = true ->
  scanNumber_s (dr ++ f) o NLead = (true, mkpos (List.length dr + o) f).
Proof.
  induction dr as [|d dr IH]; intros f o H NB.
  - simpl. destruct f as [|d r]; [reflexivity|]. simpl in NB. nb_split NB.
    cbn [scanNumber_s is_mantissa is_lead].
    repeat match goal with X : _ = false |- _ => rewrite X; clear X end. reflexivity.
  - simpl in H. apply andb_prop in H. destruct H as [H1 H2].
    cbn [app scanNumber_s is_mantissa]. rewrite H1. rewrite IH by auto. f_equal. f_equal. simpl. lia.
Qed.

Ltac exists_single l :=
  eexists _, [], (ltoken l); split; [split; [reflexivity|split; reflexivity]|]; split; reflexivity.

Ltac op_case f E :=
  destruct f as [|?d ?r];
  [ do 3 eexists; split; [split; [reflexivity|split; reflexivity]|]; cbn; split; reflexivity
  | destruct E as [E61 E47]; do 3 eexists; split; [split; [reflexivity|split; reflexivity]|];
    unfold lex_dispatch, peek, adv, fin; cbn; rewrite ?E61, ?E47; cbn; rewrite ?E61, ?E47; split; reflexivity ].

Lemma word_nb : forall t f, wordlike t = true -> nb_ok t f = true -> stop_ident f /\ colon_ok f = true.
Proof.
  intros t [|d r] W NB; [split; reflexivity|].
  unfold nb_ok in NB. rewrite W in NB. cbn [negb orb] in NB. apply andb_prop in NB. destruct NB as [A C].
  split; [|exact C]. simpl.
  destruct t as [n|n| | |c|o|k|n|ds|n]; try discriminate W; simpl in A; try (apply negb_true_iff in A; exact A).
  destruct o; try discriminate W; simpl in A; nb_split A; assumption.
Qed.

Lemma dispatch_ftok : forall t f l off, ftok_ok t = true -> nb_ok t f = true -> linstr l = false ->
  exists c tbr tok', (ftok_bytes t = c :: tbr /\ isWhite c = false /\ (c =? 35)%N = false) /\
    lex_dispatch l c (mkpos (S off) (tbr ++ f)) =
      Some (ftok_kind t, mklexer (mkpos (List.length tbr + S off) f) tok' (ftok_kind t) false) /\
    text_of (ftok_kind t) tok' = ftok_bytes t.
Proof.
  intros t f l off OK NB LI. destruct t as [n|n| | |c|o|k|n|ds|n].
  - (* identifier *)
    unfold ftok_ok in OK. apply andb_prop in OK. destruct OK as [N K].
    destruct n as [|n0 nr]; [discriminate N|]. unfold name_ok in N. apply andb_prop in N. destruct N as [N1 N2].
    destruct (ident_not_white n0 N1) as [W1 W2].
    exists n0, nr, (n0 :: nr). split; [auto|].
    destruct (word_nb (FName (n0 :: nr)) f eq_refl NB) as [S1 S2]. rewrite dispatch_ident_stop by auto.
    destruct (lookup_kw (n0 :: nr) keywords); [discriminate K|]. split; reflexivity.
  - (* .name *)
    unfold ftok_ok in OK. destruct n as [|n0 nr]; [discriminate OK|]. unfold name_ok in OK.
    apply andb_prop in OK. destruct OK as [N1 N2].
    exists 46%N, (n0 :: nr), (46%N :: n0 :: nr). split; [split; [reflexivity|split; reflexivity]|].
    assert (S1 : stop_ident f).
    { destruct f as [|d r]; simpl; auto. simpl in NB. nb_split NB. auto. }
    unfold lex_dispatch. cbv zeta.
    change (isIdent 46 false) with false. change (isNumber 46) with false. change (46 =? 46)%N with true. cbv iota.
    unfold peek. cbn [pr app]. rewrite (ident_not_46 n0 N1), N1.
    unfold scanIdent. cbn [pr po]. change (scanIdent_s (n0 :: nr ++ f) (S off)) with (scanIdent_s ((n0 :: nr) ++ f) (S off)).
    rewrite scanIdent_stop; [|simpl; rewrite (proj1 (andb_true_iff _ _) (conj eq_refl N2) ) || idtac; auto|auto].
    + unfold fin_slice. cbn [Init.Nat.pred Nat.pred po pr].
      pose proof (slice_name 46%N (n0 :: nr) f off) as SL. cbn [app] in SL. rewrite SL. unfold fin. rewrite LI.
      split; reflexivity.
    + simpl. assert (T : isIdent n0 true = true).
      { unfold isIdent in *. apply orb_prop in N1. destruct N1 as [N1|N1]; [rewrite N1; reflexivity|discriminate N1]. }
      rewrite T. exact N2.
  - (* . *)
    exists 46%N, [], (ltoken l). split; [split; [reflexivity|split; reflexivity]|].
    unfold lex_dispatch. cbv zeta.
    change (isIdent 46 false) with false. change (isNumber 46) with false. change (46 =? 46)%N with true. cbv iota.
    unfold peek. cbn [pr app].
    destruct f as [|d r].
    + split; reflexivity.
    + simpl in NB. nb_split NB.
      repeat match goal with X : _ = false |- _ => rewrite X; clear X end. split; reflexivity.
  - (* .. *)
    exists 46%N, [46%N], [46%N; 46%N]. split; [split; [reflexivity|split; reflexivity]|].
    split; reflexivity.
  - (* ( ) [ ] ? *)
    unfold ftok_ok, punct in OK.
    repeat (apply orb_prop in OK; destruct OK as [OK|OK]); apply N.eqb_eq in OK; subst c;
      try (exists_single l).
    (* ? *)
    exists 63%N, [], (ltoken l). split; [split; [reflexivity|split; reflexivity]|].
    destruct f as [|d [|d2 r]]; try (split; reflexivity).
    simpl in NB. nb_split NB.
    unfold lex_dispatch. cbn. repeat match goal with X : _ = false |- _ => rewrite X; clear X end. split; reflexivity.
  - (* operators *)
    assert (E : match f with d :: _ => (d =? 61)%N = false /\ (d =? 47)%N = false | [] => True end).
    { destruct f as [|d r]; auto. simpl in NB. nb_split NB. auto. }
    destruct o; try (op_case f E).
    + (* and *)
      exists 97%N, [110%N; 100%N], [97%N; 110%N; 100%N]. split; [split; [reflexivity|split; reflexivity]|].
      destruct (word_nb (FOp OpAnd) f eq_refl NB) as [S1 S2]. rewrite dispatch_ident_stop; try reflexivity; auto.
    + (* or *)
      exists 111%N, [114%N], [111%N; 114%N]. split; [split; [reflexivity|split; reflexivity]|].
      destruct (word_nb (FOp OpOr) f eq_refl NB) as [S1 S2]. rewrite dispatch_ident_stop; try reflexivity; auto.
  - (* keywords *)
    destruct (word_nb (FKw k) f eq_refl NB) as [S1 S2].
    destruct k;
      (eexists; eexists; eexists; split; [split; [reflexivity|split; reflexivity]|];
       rewrite dispatch_ident_stop by (try reflexivity; auto); split; reflexivity).
  - (* $name *)
    unfold ftok_ok in OK. destruct n as [|n0 nr]; [discriminate OK|]. unfold name_ok in OK.
    apply andb_prop in OK. destruct OK as [N1 N2].
    exists 36%N, (n0 :: nr), (36%N :: n0 :: nr). split; [split; [reflexivity|split; reflexivity]|].
    destruct (word_nb (FVar (n0 :: nr)) f eq_refl NB) as [S1 S2].
    assert (T : isIdent n0 true = true).
    { unfold isIdent in *. apply orb_prop in N1. destruct N1 as [N1|N1]; [rewrite N1; reflexivity|discriminate N1]. }
    unfold lex_dispatch. cbv zeta.
    change (isIdent 36 false) with false. change (isNumber 36) with false. change (36 =? 46)%N with false.
    change (36 =? 36)%N with true. cbv iota.
    unfold peek. cbn [pr app]. rewrite N1.
    change (n0 :: nr ++ f) with ((n0 :: nr) ++ f).
    rewrite scanIdentOrModule_stop; [|simpl; rewrite T; exact N2|auto|auto].
    unfold fin_slice. cbn [Init.Nat.pred Nat.pred po pr].
    pose proof (slice_name 36%N (n0 :: nr) f off) as SL. cbn [app] in SL. cbn [app]. rewrite SL. unfold fin. rewrite LI.
    split; reflexivity.
  - (* digits *)
    unfold ftok_ok in OK. destruct ds as [|d0 dr]; [discriminate OK|].
    cbn [forallb] in OK. apply andb_prop in OK. destruct OK as [N1 N2].
    destruct (digit_facts d0 N1) as (I1 & W1 & H1).
    exists d0, dr, (d0 :: dr). split; [auto|].
    unfold lex_dispatch. cbv zeta. rewrite I1, N1.
    unfold scanNumber. cbn [pr po]. rewrite scanNumber_digits by auto.
    unfold fin_slice. cbn [Init.Nat.pred Nat.pred po pr].
    rewrite slice_name. unfold fin. rewrite LI. split; reflexivity.
  - (* @format *)
    unfold ftok_ok in OK. destruct n as [|n0 nr]; [discriminate OK|].
    cbn [forallb] in OK. pose proof OK as OK2. apply andb_prop in OK. destruct OK as [N1 N2].
    exists 64%N, (n0 :: nr), (64%N :: n0 :: nr). split; [split; [reflexivity|split; reflexivity]|].
    assert (S1 : stop_ident f).
    { destruct f as [|d r]; simpl; auto. simpl in NB. nb_split NB. auto. }
    unfold lex_dispatch. cbv zeta.
    change (isIdent 64 false) with false. change (isNumber 64) with false.
    change (64 =? 46)%N with false. change (64 =? 36)%N with false. change (64 =? 124)%N with false.
    change (64 =? 63)%N with false. cbn [orb].
    change ((64 =? 43) || (64 =? 45) || (64 =? 42) || (64 =? 37))%N with false.
    change (64 =? 47)%N with false. change (64 =? 61)%N with false. change (64 =? 33)%N with false.
    change ((64 =? 62) || (64 =? 60))%N with false. change (64 =? 64)%N with true. cbv iota.
    unfold peek. cbn [pr app]. rewrite N1.
    unfold scanIdent. cbn [pr po]. change (scanIdent_s (n0 :: nr ++ f) (S off)) with (scanIdent_s ((n0 :: nr) ++ f) (S off)).
    rewrite scanIdent_stop; [|exact OK2|auto].
    unfold fin_slice. cbn [Init.Nat.pred Nat.pred po pr].
    pose proof (slice_name 64%N (n0 :: nr) f off) as SL. cbn [app] in SL. rewrite SL. unfold fin. rewrite LI.
    split; reflexivity.
Qed.

(* ---- one token ------------------------------------------------------------------------------------------ *)
Lemma next_plain : forall f o c r, isWhite c = false -> (c =? 35)%N = false ->
  next (S f) (mkpos o (c :: r)) = Some (c, false, mkpos (S o) r).
Proof. intros f o c r W H. cbn [next pr po]. rewrite H, W. reflexivity. Qed.

Lemma Lex_ftok : forall t sp f l o, ftok_ok t = true -> nb_ok t f = true ->
  linstr l = false -> lp l = mkpos o (spb sp ++ ftok_bytes t ++ f) ->
  exists tok', Lex l = Some (ftok_kind t,
                             mklexer (mkpos (List.length (spb sp) + List.length (ftok_bytes t) + o) f) tok' (ftok_kind t) false) /\
               text_of (ftok_kind t) tok' = ftok_bytes t.
Proof.
  intros t sp f l o OK NB LI LP.
  destruct (dispatch_ftok t f l (List.length (spb sp) + o) OK NB LI) as (c & tbr & tok' & (B & W & H) & D & T).
  exists tok'. split; [|exact T].
  unfold Lex. rewrite LP, LI. rewrite B. cbn [pr po].
  destruct sp; cbn [spb app is_nil List.length] in *.
  - rewrite next_white by reflexivity. cbn [app]. rewrite next_plain by auto.
    cbn [plus] in D. rewrite D. f_equal. f_equal. f_equal. f_equal. simpl. lia.
  - rewrite next_plain by auto. cbn [plus] in D. rewrite D. f_equal. f_equal. f_equal. f_equal. simpl. lia.
Qed.

(* ---- a list of tokens ------------------------------------------------------------------------------------ *)
Definition fitem := (bool * ftok)%type.          (* (preceded by one space?, token) *)
Fixpoint frender (items : list fitem) : list N :=
  match items with [] => [] | (sp, t) :: r => spb sp ++ ftok_bytes t ++ frender r end.
(* every token is well formed and the byte that follows it does not extend it *)
Fixpoint chain (items : list fitem) : bool :=
  match items with
  | [] => true
  | (sp, t) :: r => ftok_ok t && nb_ok t (frender r) && chain r
  end.
Definition fexpected (it : fitem) : tk * list N := (ftok_kind (snd it), ftok_bytes (snd it)).

Lemma fkind_not_end : forall t, ftok_ok t = true -> is_end (ftok_kind t) = false.
Proof.
  intros [n|n| | |c|o|k|n|ds|n] OK; try reflexivity.
  - unfold ftok_ok, punct in OK.
    repeat (apply orb_prop in OK; destruct OK as [OK|OK]); apply N.eqb_eq in OK; subst c; reflexivity.
  - destruct o; reflexivity.
Qed.

Lemma feedback_ftok : forall t stk l, ftok_ok t = true -> Forall (fun b => b = false) stk ->
  exists stk', feedback (ftok_kind t) stk l = (stk', l) /\ Forall (fun b => b = false) stk'.
Proof.
  intros t stk l OK H.
  assert (P40 : exists stk', feedback (KChar 40) stk l = (stk', l) /\ Forall (fun b => b = false) stk').
  { exists (false :: stk). split; [reflexivity|constructor; auto]. }
  assert (P41 : exists stk', feedback (KChar 41) stk l = (stk', l) /\ Forall (fun b => b = false) stk').
  { destruct stk as [|b stk]; [exists []; split; [reflexivity|constructor]|].
    inversion H; subst. exists stk. split; [reflexivity|assumption]. }
  destruct t as [n|n| | |c|o|k|n|ds|n]; try (exists stk; split; [reflexivity|exact H]).
  - unfold ftok_ok, punct in OK.
    repeat (apply orb_prop in OK; destruct OK as [OK|OK]); apply N.eqb_eq in OK; subst c; auto;
      (exists stk; split; [reflexivity|exact H]).
  - exists stk. split; [destruct o; reflexivity|exact H].
  - exists stk. split; [destruct k; reflexivity|exact H].
Qed.

Theorem lex_items : forall items l o stk f,
  chain items = true -> linstr l = false -> lp l = mkpos o (frender items) -> Forall (fun b => b = false) stk ->
  List.length items < f ->
  option_map (map proj) (lex_all f l stk) = Some (map fexpected items ++ [(KEOF, [])]).
Proof.
  induction items as [|[sp t] r IH]; intros l o stk f CH LI LP ST L.
  - destruct f; [simpl in L; lia|]. simpl in LP.
    unfold lex_all. cbn [lex_with]. unfold Lex. rewrite LP. cbn [pr is_nil]. unfold fin. cbn [is_end].
    simpl. reflexivity.
  - destruct f; [simpl in L; lia|].
    simpl in CH. apply andb_prop in CH. destruct CH as [CH CH2]. apply andb_prop in CH. destruct CH as [OK NB].
    simpl in LP.
    destruct (Lex_ftok t sp (frender r) l o OK NB LI LP) as (tok' & A & T).
    unfold lex_all. cbn [lex_with]. rewrite A. rewrite fkind_not_end by auto.
    match goal with |- context [feedback _ stk ?LX] => destruct (feedback_ftok t stk LX OK ST) as (stk' & FB & ST'); rewrite FB end.
    assert (L' : List.length r < f) by (simpl in L; lia).
    match goal with |- context [lex_with _ _ f ?LX stk'] =>
      specialize (IH LX (List.length (spb sp) + List.length (ftok_bytes t) + o) stk' f CH2 eq_refl eq_refl ST' L') end.
    unfold lex_all in IH.
    match goal with |- context [lex_with ?a ?b f ?LX stk'] => destruct (lex_with a b f LX stk') as [ts|] end; [|discriminate IH].
    simpl in IH. inversion IH as [IH']. simpl. f_equal. f_equal.
    + unfold proj, fexpected. simpl. f_equal.
      unfold tok_text. simpl. rewrite <- T. unfold text_of. destruct (ftok_kind t); reflexivity.
    + exact IH'.
Qed.

Lemma frender_length : forall items, chain items = true -> List.length items <= List.length (frender items).
Proof.
  induction items as [|[sp t] r IH]; intros CH; simpl; [lia|].
  simpl in CH. apply andb_prop in CH. destruct CH as [CH CH2]. apply andb_prop in CH. destruct CH as [OK _].
  rewrite !app_length. specialize (IH CH2).
  assert (1 <= List.length (ftok_bytes t)).
  { destruct t as [n|n| | |c|o|k|n|ds|n]; simpl; try lia.
    - unfold ftok_ok in OK. apply andb_prop in OK. destruct OK as [N _]. destruct n; [discriminate N|simpl; lia].
    - destruct o; simpl; lia.
    - destruct k; simpl; lia.
    - unfold ftok_ok in OK. destruct ds; [discriminate OK|simpl; lia]. }
  lia.
Qed.

(* lexing the bytes of a token list whose gaps are right yields exactly those tokens, then eof *)
Theorem tokenize_items : forall items, chain items = true ->
  option_map (map proj) (tokenize (frender items)) = Some (map fexpected items ++ [(KEOF, [])]).
Proof.
  intros items CH. unfold tokenize.
  apply (lex_items items (newLexer (frender items)) 0 [] _ CH eq_refl eq_refl (Forall_nil _)).
  pose proof (frender_length items CH). lia.
Qed.

(* ---- the same with ARBITRARY separators (whitespace and comments, RespaceProofs.sep) ------------------------ *)
Definition sitem := (sep * ftok)%type.
Fixpoint srender (items : list sitem) (final : sep) : list N :=
  match items with [] => sep_bytes final | (s, t) :: r => sep_bytes s ++ ftok_bytes t ++ srender r final end.
Fixpoint schain (items : list sitem) (final : sep) : bool :=
  match items with
  | [] => true
  | (s, t) :: r => sep_ok s && ftok_ok t && nb_ok t (srender r final) && schain r final
  end.

Lemma Lex_ftok_sep : forall t s f l o, ftok_ok t = true -> sep_ok s = true -> nb_ok t f = true ->
  linstr l = false -> lp l = mkpos o (sep_bytes s ++ ftok_bytes t ++ f) ->
  exists tok', Lex l = Some (ftok_kind t,
                             mklexer (mkpos (List.length (sep_bytes s) + List.length (ftok_bytes t) + o) f) tok' (ftok_kind t) false) /\
               text_of (ftok_kind t) tok' = ftok_bytes t.
Proof.
  intros t s f l o OK SOK NB LI LP.
  destruct (dispatch_ftok t f l (List.length (sep_bytes s) + o) OK NB LI) as (c & tbr & tok' & (B & W & H) & D & T).
  exists tok'. split; [|exact T].
  unfold Lex. rewrite LP, LI. rewrite B. cbn [pr po].
  replace (sep_bytes s ++ (c :: tbr) ++ f) with (sep_bytes s ++ c :: (tbr ++ f)) by reflexivity.
  assert (NN : is_nil (sep_bytes s ++ c :: tbr ++ f) = false) by (destruct (sep_bytes s); reflexivity).
  rewrite NN.
  rewrite next_skip; auto; [|rewrite app_length; simpl; lia].
  rewrite D. f_equal. f_equal. f_equal. f_equal. simpl. lia.
Qed.

Theorem lex_sitems : forall items final l o stk f,
  schain items final = true -> sep_ok final = true -> linstr l = false -> lp l = mkpos o (srender items final) ->
  Forall (fun b => b = false) stk -> List.length items < f ->
  option_map (map proj) (lex_all f l stk) = Some (map (fun it => (ftok_kind (snd it), ftok_bytes (snd it))) items ++ [(KEOF, [])]).
Proof.
  induction items as [|[s t] r IH]; intros final l o stk f CH FOK LI LP ST L.
  - destruct f; [simpl in L; lia|]. simpl in LP.
    destruct (Lex_eof final l o FOK LI LP) as (l1 & A & B).
    unfold lex_all. cbn [lex_with]. rewrite A. cbn [is_end]. simpl. unfold proj. simpl. rewrite B. reflexivity.
  - destruct f; [simpl in L; lia|].
    simpl in CH. apply andb_prop in CH. destruct CH as [CH CH2]. apply andb_prop in CH. destruct CH as [CH NB].
    apply andb_prop in CH. destruct CH as [SOK OK].
    simpl in LP.
    destruct (Lex_ftok_sep t s (srender r final) l o OK SOK NB LI LP) as (tok' & A & T).
    unfold lex_all. cbn [lex_with]. rewrite A. rewrite fkind_not_end by auto.
    match goal with |- context [feedback _ stk ?LX] => destruct (feedback_ftok t stk LX OK ST) as (stk' & FB & ST'); rewrite FB end.
    assert (L' : List.length r < f) by (simpl in L; lia).
    match goal with |- context [lex_with _ _ f ?LX stk'] =>
      specialize (IH final LX (List.length (sep_bytes s) + List.length (ftok_bytes t) + o) stk' f CH2 FOK eq_refl eq_refl ST' L') end.
    unfold lex_all in IH.
    match goal with |- context [lex_with ?a ?b f ?LX stk'] => destruct (lex_with a b f LX stk') as [ts|] end; [|discriminate IH].
    simpl in IH. inversion IH as [IH']. simpl. f_equal. f_equal.
    + unfold proj. simpl. f_equal.
      unfold tok_text. simpl. rewrite <- T. unfold text_of. destruct (ftok_kind t); reflexivity.
    + exact IH'.
Qed.

Lemma srender_length : forall items final, schain items final = true -> List.length items <= List.length (srender items final).
Proof.
  induction items as [|[s t] r IH]; intros final CH; simpl; [lia|].
  simpl in CH. apply andb_prop in CH. destruct CH as [CH CH2]. apply andb_prop in CH. destruct CH as [CH _].
  apply andb_prop in CH. destruct CH as [_ OK].
  rewrite !app_length. specialize (IH final CH2).
  assert (1 <= List.length (ftok_bytes t)).
  { destruct t as [n|n| | |c|o|k|n|ds|n]; simpl; try lia.
    - unfold ftok_ok in OK. apply andb_prop in OK. destruct OK as [N _]. destruct n; [discriminate N|simpl; lia].
    - destruct o; simpl; lia.
    - destruct k; simpl; lia.
    - unfold ftok_ok in OK. destruct ds; [discriminate OK|simpl; lia]. }
  lia.
Qed.

(* whitespace and comments between the tokens of this alphabet are irrelevant to the token stream *)
Theorem tokenize_sitems : forall items final, schain items final = true -> sep_ok final = true ->
  option_map (map proj) (tokenize (srender items final)) =
  Some (map (fun it => (ftok_kind (snd it), ftok_bytes (snd it))) items ++ [(KEOF, [])]).
Proof.
  intros items final CH FOK. unfold tokenize.
  apply (lex_sitems items final (newLexer (srender items final)) 0 [] _ CH FOK eq_refl eq_refl (Forall_nil _)).
  pose proof (srender_length items final CH). lia.
Qed.

Theorem respace_tokens_ext : forall items1 items2 final1 final2,
  map snd items1 = map snd items2 ->
  schain items1 final1 = true -> schain items2 final2 = true -> sep_ok final1 = true -> sep_ok final2 = true ->
  option_map (map proj) (tokenize (srender items1 final1)) = option_map (map proj) (tokenize (srender items2 final2)).
Proof.
  intros i1 i2 f1 f2 E C1 C2 F1 F2. rewrite (tokenize_sitems i1 f1 C1 F1), (tokenize_sitems i2 f2 C2 F2).
  f_equal. f_equal.
  rewrite <- (map_map snd (fun t => (ftok_kind t, ftok_bytes t)) i1).
  rewrite <- (map_map snd (fun t => (ftok_kind t, ftok_bytes t)) i2). rewrite E. reflexivity.
Qed.
