(* C09c / M2 — the semantic actions of parser.go.y, transcribed, and PINNED to their Go text.

   [sval] is what a slot of goyacc's value stack holds as far as the actions can tell: the `token` field the lexer
   set (STok), the `operator` field (SOp), or the dynamic type and content of the `value` field (one constructor
   per Go type the actions store: *Query, *Term, []*FuncDef, ... ; SNilQuery is the typed nil `(Query)(nil)` (a nil pointer of type Query)).
   A type assertion `$k.(T)` is an extractor [aT ...] that fails (SBad) on any other constructor; reading the token
   field of a slot that has none fails too.

   [action_table] maps the ACTION TEXT (whitespace-normalised, exactly as the translator extracts it from the
   current parser.go.y into GenGrammar.action_texts) to its transcription.  Production n runs the transcription
   found under its current text; an action that was edited (or a new one) has no entry: the model then answers
   SBad for every program that uses the production, i.e. the tie with the implementation breaks visibly and the
   check goes searching.  The empty text is goyacc's default action $$ = $1.

   Go details kept: `append` to the consumed slice (values are used linearly: each slot is read by exactly one
   reduction, so no aliasing is observable); the in-place `$1.(Term).SuffixList = append(...)` with $$ = $1;
   prependFuncDef; reverseFuncDef; `[]*Query{}` (non-nil, empty) of `stringparts` versus the nil Queries of a plain
   string (JString _ None); the `if suffix.Iter` of `term: '.' suffix`.  Definitions only. *)
From Coq Require Import List NArith ZArith Bool String.
From Verif Require Import common.Sexp sem.JV sem.Syntax c09.FullAst.
Import ListNotations.
Local Open Scope list_scope.
Local Open Scope string_scope.

Inductive sval :=
| SNone                                   (* a slot none of whose fields was set by the lexer for this token *)
| STok (t : bytes)                        (* .token *)
| SOp (o : operator)                      (* .operator *)
| SQuery (q : query) | SNilQuery
| STerm (t : term)
| SFuncDefs (l : list funcdef) | SFuncDef (f : funcdef) | SStrs (l : list bytes)
| SPatterns (l : list pattern) | SPattern (p : pattern)
| SPatObjs (l : list patternobject) | SPatObj (p : patternobject)
| SString (s : jstring) | SQueries (l : list query)
| SSuffix (s : suffix)
| SElifs (l : list (query * query))
| SKVs (l : list objectkeyval) | SKV (k : objectkeyval)
| SConst (c : constterm) | SConstObj (o : option constobject)
| SConstKVs (l : list (bytes * bytes * constterm)) | SConstKV (k : bytes * bytes * constterm)
| SConstArr (l : list constterm) | SConstElems (l : list constterm)
| SImports (l : list (import * option constobject)) | SImport (i : import * option constobject)
| SProg (p : prog)                        (* the lexer's result field *)
| SBad.

Definition bnd {A} (o : option A) (f : A -> sval) : sval := match o with Some a => f a | None => SBad end.
Notation "x <- e ;; k" := (bnd e (fun x => k)) (at level 61, e at next level, right associativity).

(* $k of a production with right-hand side values [args] *)
Definition arg (args : list sval) (k : nat) : sval := nth (k - 1) args SBad.

Definition aTok v := match v with STok t => Some t | _ => None end.
Definition aOp v := match v with SOp o => Some o | _ => None end.
Definition aQ v := match v with SQuery q => Some q | _ => None end.
Definition aOQ v := match v with SQuery q => Some (Some q) | SNilQuery => Some None | _ => None end.
Definition aT v := match v with STerm t => Some t | _ => None end.
Definition aFuncDefs v := match v with SFuncDefs l => Some l | _ => None end.
Definition aFuncDef v := match v with SFuncDef l => Some l | _ => None end.
Definition aStrs v := match v with SStrs l => Some l | _ => None end.
Definition aPatterns v := match v with SPatterns l => Some l | _ => None end.
Definition aPattern v := match v with SPattern l => Some l | _ => None end.
Definition aPatObjs v := match v with SPatObjs l => Some l | _ => None end.
Definition aPatObj v := match v with SPatObj l => Some l | _ => None end.
Definition aStr v := match v with SString l => Some l | _ => None end.
Definition aQueries v := match v with SQueries l => Some l | _ => None end.
Definition aSuffix v := match v with SSuffix l => Some l | _ => None end.
Definition aElifs v := match v with SElifs l => Some l | _ => None end.
Definition aKVs v := match v with SKVs l => Some l | _ => None end.
Definition aKV v := match v with SKV l => Some l | _ => None end.
Definition aConst v := match v with SConst l => Some l | _ => None end.
Definition aConstObj v := match v with SConstObj l => Some l | _ => None end.
Definition aConstKVs v := match v with SConstKVs l => Some l | _ => None end.
Definition aConstKV v := match v with SConstKV l => Some l | _ => None end.
Definition aConstArr v := match v with SConstArr l => Some l | _ => None end.
Definition aConstElems v := match v with SConstElems l => Some l | _ => None end.
Definition aImports v := match v with SImports l => Some l | _ => None end.
Definition aImport v := match v with SImport l => Some l | _ => None end.

Definition qterm (t : term) : query := Query [] [] (Some t) None None None [].

Definition action_table : list (string * (list sval -> sval)) :=
  [
  ("{ query := $3.(*Query) query.Meta = $1.(*ConstObject) query.Imports = $2.([]*Import) yylex.(*lexer).result = query }",
   fun args =>
     m <- aConstObj (arg args 1) ;; ims <- aImports (arg args 2) ;; q <- aQ (arg args 3) ;;
     match q with Query _ fds t l o r ps => SProg (mkprog m (map snd ims) (Query (map fst ims) fds t l o r ps)) end);
  ("{ $$ = (*ConstObject)(nil) }",
   fun args =>
     SConstObj None);
  ("{ $$ = $2; }",
   fun args =>
     arg args 2);
  ("{ $$ = []*Import(nil) }",
   fun args =>
     SImports []);
  ("{ $$ = append($1.([]*Import), $2.(*Import)) }",
   fun args =>
     l <- aImports (arg args 1) ;; i <- aImport (arg args 2) ;; SImports (l ++ [i]));
  ("{ $$ = &Import{ImportPath: $2, ImportAlias: $4, Meta: $5.(*ConstObject)} }",
   fun args =>
     p <- aTok (arg args 2) ;; al <- aTok (arg args 4) ;; m <- aConstObj (arg args 5) ;; SImport (Import p al [], m));
  ("{ $$ = &Import{IncludePath: $2, Meta: $3.(*ConstObject)} }",
   fun args =>
     p <- aTok (arg args 2) ;; m <- aConstObj (arg args 3) ;; SImport (Import [] [] p, m));
  ("",
   fun args =>
     arg args 1);
  ("{ $$ = &Query{FuncDefs: reverseFuncDef($1.([]*FuncDef))} }",
   fun args =>
     l <- aFuncDefs (arg args 1) ;; SQuery (Query [] (rev l) None None None None []));
  ("{ $$ = []*FuncDef(nil) }",
   fun args =>
     SFuncDefs []);
  ("{ $$ = append($2.([]*FuncDef), $1.(*FuncDef)) }",
   fun args =>
     l <- aFuncDefs (arg args 2) ;; f <- aFuncDef (arg args 1) ;; SFuncDefs (l ++ [f]));
  ("{ $$ = &FuncDef{Name: $2, Body: $4.(*Query)} }",
   fun args =>
     n <- aTok (arg args 2) ;; b <- aQ (arg args 4) ;; SFuncDef (FuncDef n [] b));
  ("{ $$ = &FuncDef{$2, $4.([]string), $7.(*Query)} }",
   fun args =>
     n <- aTok (arg args 2) ;; a <- aStrs (arg args 4) ;; b <- aQ (arg args 7) ;; SFuncDef (FuncDef n a b));
  ("{ $$ = []string{$1} }",
   fun args =>
     s <- aTok (arg args 1) ;; SStrs [s]);
  ("{ $$ = append($1.([]string), $3) }",
   fun args =>
     l <- aStrs (arg args 1) ;; s <- aTok (arg args 3) ;; SStrs (l ++ [s]));
  ("{ query := $2.(*Query) query.FuncDefs = prependFuncDef(query.FuncDefs, $1.(*FuncDef)) $$ = query }",
   fun args =>
     q <- aQ (arg args 2) ;; f <- aFuncDef (arg args 1) ;;
     match q with Query ims fds t l o r ps => SQuery (Query ims (f :: fds) t l o r ps) end);
  ("{ $$ = &Query{Left: $1.(*Query), Op: OpPipe, Right: $3.(*Query)} }",
   fun args =>
     l <- aQ (arg args 1) ;; r <- aQ (arg args 3) ;; SQuery (Query [] [] None (Some l) (Some OpPipe) (Some r) []));
  ("{ $$ = &Query{Left: $1.(*Query), Op: OpComma, Right: $3.(*Query)} }",
   fun args =>
     l <- aQ (arg args 1) ;; r <- aQ (arg args 3) ;; SQuery (Query [] [] None (Some l) (Some OpComma) (Some r) []));
  ("{ $$ = &Query{Left: $1.(*Query), Op: OpOr, Right: $3.(*Query)} }",
   fun args =>
     l <- aQ (arg args 1) ;; r <- aQ (arg args 3) ;; SQuery (Query [] [] None (Some l) (Some OpOr) (Some r) []));
  ("{ $$ = &Query{Left: $1.(*Query), Op: OpAnd, Right: $3.(*Query)} }",
   fun args =>
     l <- aQ (arg args 1) ;; r <- aQ (arg args 3) ;; SQuery (Query [] [] None (Some l) (Some OpAnd) (Some r) []));
  ("{ $$ = &Query{Left: $1.(*Query), Op: OpAdd, Right: $3.(*Query)} }",
   fun args =>
     l <- aQ (arg args 1) ;; r <- aQ (arg args 3) ;; SQuery (Query [] [] None (Some l) (Some OpAdd) (Some r) []));
  ("{ $$ = &Query{Left: $1.(*Query), Op: OpSub, Right: $3.(*Query)} }",
   fun args =>
     l <- aQ (arg args 1) ;; r <- aQ (arg args 3) ;; SQuery (Query [] [] None (Some l) (Some OpSub) (Some r) []));
  ("{ $$ = &Query{Left: $1.(*Query), Op: OpMul, Right: $3.(*Query)} }",
   fun args =>
     l <- aQ (arg args 1) ;; r <- aQ (arg args 3) ;; SQuery (Query [] [] None (Some l) (Some OpMul) (Some r) []));
  ("{ $$ = &Query{Left: $1.(*Query), Op: OpDiv, Right: $3.(*Query)} }",
   fun args =>
     l <- aQ (arg args 1) ;; r <- aQ (arg args 3) ;; SQuery (Query [] [] None (Some l) (Some OpDiv) (Some r) []));
  ("{ $$ = &Query{Left: $1.(*Query), Op: OpMod, Right: $3.(*Query)} }",
   fun args =>
     l <- aQ (arg args 1) ;; r <- aQ (arg args 3) ;; SQuery (Query [] [] None (Some l) (Some OpMod) (Some r) []));
  ("{ $$ = &Query{Left: $1.(*Query), Op: $2, Right: $3.(*Query)} }",
   fun args =>
     l <- aQ (arg args 1) ;; o <- aOp (arg args 2) ;; r <- aQ (arg args 3) ;; SQuery (Query [] [] None (Some l) (Some o) (Some r) []));
  ("{ $$ = &Query{Left: $1.(*Query), Op: OpPipe, Right: $5.(*Query), Patterns: $3.([]*Pattern)} }",
   fun args =>
     l <- aQ (arg args 1) ;; r <- aQ (arg args 5) ;; ps <- aPatterns (arg args 3) ;; SQuery (Query [] [] None (Some l) (Some OpPipe) (Some r) ps));
  ("{ $$ = &Query{Term: &Term{Type: TermTypeLabel, Label: &Label{$2, $4.(*Query)}}} }",
   fun args =>
     n <- aTok (arg args 2) ;; b <- aQ (arg args 4) ;; SQuery (qterm (Term (TLabel n b) [])));
  ("{ $$ = &Query{Term: $1.(*Term)} }",
   fun args =>
     t <- aT (arg args 1) ;; SQuery (qterm t));
  ("{ $$ = []*Pattern{$1.(*Pattern)} }",
   fun args =>
     p <- aPattern (arg args 1) ;; SPatterns [p]);
  ("{ $$ = append($1.([]*Pattern), $3.(*Pattern)) }",
   fun args =>
     l <- aPatterns (arg args 1) ;; p <- aPattern (arg args 3) ;; SPatterns (l ++ [p]));
  ("{ $$ = &Pattern{Name: $1} }",
   fun args =>
     n <- aTok (arg args 1) ;; SPattern (Pattern n [] []));
  ("{ $$ = &Pattern{Array: $2.([]*Pattern)} }",
   fun args =>
     l <- aPatterns (arg args 2) ;; SPattern (Pattern [] l []));
  ("{ $$ = &Pattern{Object: $2.([]*PatternObject)} }",
   fun args =>
     l <- aPatObjs (arg args 2) ;; SPattern (Pattern [] [] l));
  ("{ $$ = []*PatternObject{$1.(*PatternObject)} }",
   fun args =>
     p <- aPatObj (arg args 1) ;; SPatObjs [p]);
  ("{ $$ = append($1.([]*PatternObject), $3.(*PatternObject)) }",
   fun args =>
     l <- aPatObjs (arg args 1) ;; p <- aPatObj (arg args 3) ;; SPatObjs (l ++ [p]));
  ("{ $$ = &PatternObject{Key: $1, Val: $3.(*Pattern)} }",
   fun args =>
     k <- aTok (arg args 1) ;; v <- aPattern (arg args 3) ;; SPatObj (PatternObject k None None (Some v)));
  ("{ $$ = &PatternObject{KeyString: $1.(*String), Val: $3.(*Pattern)} }",
   fun args =>
     k <- aStr (arg args 1) ;; v <- aPattern (arg args 3) ;; SPatObj (PatternObject [] (Some k) None (Some v)));
  ("{ $$ = &PatternObject{KeyQuery: $2.(*Query), Val: $5.(*Pattern)} }",
   fun args =>
     k <- aQ (arg args 2) ;; v <- aPattern (arg args 5) ;; SPatObj (PatternObject [] None (Some k) (Some v)));
  ("{ $$ = &PatternObject{Key: $1} }",
   fun args =>
     k <- aTok (arg args 1) ;; SPatObj (PatternObject k None None None));
  ("{ $$ = &Term{Type: TermTypeIdentity} }",
   fun args =>
     STerm (Term TIdentity []));
  ("{ $$ = &Term{Type: TermTypeRecurse} }",
   fun args =>
     STerm (Term TRecurse []));
  ("{ $$ = &Term{Type: TermTypeIndex, Index: &Index{Name: $1}} }",
   fun args =>
     n <- aTok (arg args 1) ;; STerm (Term (TIndex (Index n None None None false)) []));
  ("{ suffix := $2.(*Suffix) if suffix.Iter { $$ = &Term{Type: TermTypeIdentity, SuffixList: []*Suffix{suffix}} } else { $$ = &Term{Type: TermTypeIndex, Index: suffix.Index} } }",
   fun args =>
     s <- aSuffix (arg args 2) ;;
     match s with
     | Suffix i true _ => STerm (Term TIdentity [s])
     | Suffix (Some i) false _ => STerm (Term (TIndex i) [])
     | Suffix None false _ => SBad      (* Index: nil with Type TermTypeIndex: no suffix production builds it *)
     end);
  ("{ $$ = &Term{Type: TermTypeIndex, Index: &Index{Str: $2.(*String)}} }",
   fun args =>
     s <- aStr (arg args 2) ;; STerm (Term (TIndex (Index [] (Some s) None None false)) []));
  ("{ $$ = &Term{Type: TermTypeNull} }",
   fun args =>
     STerm (Term TNull []));
  ("{ $$ = &Term{Type: TermTypeTrue} }",
   fun args =>
     STerm (Term TTrue []));
  ("{ $$ = &Term{Type: TermTypeFalse} }",
   fun args =>
     STerm (Term TFalse []));
  ("{ $$ = &Term{Type: TermTypeFunc, Func: &Func{Name: $1}} }",
   fun args =>
     n <- aTok (arg args 1) ;; STerm (Term (TFunc (Func n [])) []));
  ("{ $$ = &Term{Type: TermTypeFunc, Func: &Func{Name: $1, Args: $3.([]*Query)}} }",
   fun args =>
     n <- aTok (arg args 1) ;; a <- aQueries (arg args 3) ;; STerm (Term (TFunc (Func n a)) []));
  ("{ $$ = &Term{Type: TermTypeObject, Object: &Object{}} }",
   fun args =>
     STerm (Term (TObject []) []));
  ("{ $$ = &Term{Type: TermTypeObject, Object: &Object{$2.([]*ObjectKeyVal)}} }",
   fun args =>
     l <- aKVs (arg args 2) ;; STerm (Term (TObject l) []));
  ("{ $$ = &Term{Type: TermTypeArray, Array: &Array{}} }",
   fun args =>
     STerm (Term (TArray None) []));
  ("{ $$ = &Term{Type: TermTypeArray, Array: &Array{$2.(*Query)}} }",
   fun args =>
     q <- aQ (arg args 2) ;; STerm (Term (TArray (Some q)) []));
  ("{ $$ = &Term{Type: TermTypeNumber, Number: $1} }",
   fun args =>
     n <- aTok (arg args 1) ;; STerm (Term (TNumber n num0) []));
  ("{ $$ = &Term{Type: TermTypeUnary, Unary: &Unary{OpAdd, $2.(*Term)}} }",
   fun args =>
     t <- aT (arg args 2) ;; STerm (Term (TUnary OpAdd t) []));
  ("{ $$ = &Term{Type: TermTypeUnary, Unary: &Unary{OpSub, $2.(*Term)}} }",
   fun args =>
     t <- aT (arg args 2) ;; STerm (Term (TUnary OpSub t) []));
  ("{ $$ = &Term{Type: TermTypeFormat, Format: $1} }",
   fun args =>
     f <- aTok (arg args 1) ;; STerm (Term (TFormat f None) []));
  ("{ $$ = &Term{Type: TermTypeFormat, Format: $1, Str: $2.(*String)} }",
   fun args =>
     f <- aTok (arg args 1) ;; s <- aStr (arg args 2) ;; STerm (Term (TFormat f (Some s)) []));
  ("{ $$ = &Term{Type: TermTypeString, Str: $1.(*String)} }",
   fun args =>
     s <- aStr (arg args 1) ;; STerm (Term (TString s) []));
  ("{ $$ = &Term{Type: TermTypeIf, If: &If{$2.(*Query), $4.(*Query), $5.([]*IfElif), $6.(*Query)}} }",
   fun args =>
     c <- aQ (arg args 2) ;; t <- aQ (arg args 4) ;; el <- aElifs (arg args 5) ;; e <- aOQ (arg args 6) ;; STerm (Term (TIf c t el e) []));
  ("{ $$ = &Term{Type: TermTypeTry, Try: &Try{$2.(*Query), $3.(*Query)}} }",
   fun args =>
     b <- aQ (arg args 2) ;; c <- aOQ (arg args 3) ;; STerm (Term (TTry b c) []));
  ("{ $$ = &Term{Type: TermTypeReduce, Reduce: &Reduce{$2.(*Query), $4.(*Pattern), $6.(*Query), $8.(*Query)}} }",
   fun args =>
     s <- aQ (arg args 2) ;; p <- aPattern (arg args 4) ;; st <- aQ (arg args 6) ;; up <- aQ (arg args 8) ;; STerm (Term (TReduce s p st up) []));
  ("{ $$ = &Term{Type: TermTypeForeach, Foreach: &Foreach{$2.(*Query), $4.(*Pattern), $6.(*Query), $8.(*Query), nil}} }",
   fun args =>
     s <- aQ (arg args 2) ;; p <- aPattern (arg args 4) ;; st <- aQ (arg args 6) ;; up <- aQ (arg args 8) ;; STerm (Term (TForeach s p st up None) []));
  ("{ $$ = &Term{Type: TermTypeForeach, Foreach: &Foreach{$2.(*Query), $4.(*Pattern), $6.(*Query), $8.(*Query), $10.(*Query)}} }",
   fun args =>
     s <- aQ (arg args 2) ;; p <- aPattern (arg args 4) ;; st <- aQ (arg args 6) ;; up <- aQ (arg args 8) ;; ex <- aQ (arg args 10) ;; STerm (Term (TForeach s p st up (Some ex)) []));
  ("{ $$ = &Term{Type: TermTypeBreak, Break: $2} }",
   fun args =>
     l <- aTok (arg args 2) ;; STerm (Term (TBreak l) []));
  ("{ $$ = &Term{Type: TermTypeQuery, Query: $2.(*Query)} }",
   fun args =>
     q <- aQ (arg args 2) ;; STerm (Term (TQuery q) []));
  ("{ $1.(*Term).SuffixList = append($1.(*Term).SuffixList, &Suffix{Index: &Index{Name: $2}}) }",
   fun args =>
     t <- aT (arg args 1) ;; n <- aTok (arg args 2) ;; match t with Term k sl => STerm (Term k (sl ++ [Suffix (Some (Index n None None None false)) false false])) end);
  ("{ $1.(*Term).SuffixList = append($1.(*Term).SuffixList, $2.(*Suffix)) }",
   fun args =>
     t <- aT (arg args 1) ;; s <- aSuffix (arg args 2) ;; match t with Term k sl => STerm (Term k (sl ++ [s])) end);
  ("{ $1.(*Term).SuffixList = append($1.(*Term).SuffixList, &Suffix{Optional: true}) }",
   fun args =>
     t <- aT (arg args 1) ;;  match t with Term k sl => STerm (Term k (sl ++ [Suffix None false true])) end);
  ("{ $1.(*Term).SuffixList = append($1.(*Term).SuffixList, $3.(*Suffix)) }",
   fun args =>
     t <- aT (arg args 1) ;; s <- aSuffix (arg args 3) ;; match t with Term k sl => STerm (Term k (sl ++ [s])) end);
  ("{ $1.(*Term).SuffixList = append($1.(*Term).SuffixList, &Suffix{Index: &Index{Str: $3.(*String)}}) }",
   fun args =>
     t <- aT (arg args 1) ;; s <- aStr (arg args 3) ;; match t with Term k sl => STerm (Term k (sl ++ [Suffix (Some (Index [] (Some s) None None false)) false false])) end);
  ("{ $$ = &String{Str: $1} }",
   fun args =>
     s <- aTok (arg args 1) ;; SString (JString s None));
  ("{ $$ = &String{Queries: $2.([]*Query)} }",
   fun args =>
     l <- aQueries (arg args 2) ;; SString (JString [] (Some l)));
  ("{ $$ = []*Query{} }",
   fun args =>
     SQueries []);
  ("{ $$ = append($1.([]*Query), &Query{Term: &Term{Type: TermTypeString, Str: &String{Str: $2}}}) }",
   fun args =>
     l <- aQueries (arg args 1) ;; s <- aTok (arg args 2) ;; SQueries (l ++ [qterm (Term (TString (JString s None)) [])]));
  ("{ yylex.(*lexer).inString = true $$ = append($1.([]*Query), &Query{Term: &Term{Type: TermTypeQuery, Query: $3.(*Query)}}) }",
   fun args =>
     l <- aQueries (arg args 1) ;; q <- aQ (arg args 3) ;; SQueries (l ++ [qterm (Term (TQuery q) [])]));
  ("{ $$ = &Suffix{Iter: true} }",
   fun args =>
     SSuffix (Suffix None true false));
  ("{ $$ = &Suffix{Index: &Index{Start: $2.(*Query)}} }",
   fun args =>
     q <- aQ (arg args 2) ;; SSuffix (Suffix (Some (Index [] None (Some q) None false)) false false));
  ("{ $$ = &Suffix{Index: &Index{Start: $2.(*Query), IsSlice: true}} }",
   fun args =>
     q <- aQ (arg args 2) ;; SSuffix (Suffix (Some (Index [] None (Some q) None true)) false false));
  ("{ $$ = &Suffix{Index: &Index{End: $3.(*Query), IsSlice: true}} }",
   fun args =>
     q <- aQ (arg args 3) ;; SSuffix (Suffix (Some (Index [] None None (Some q) true)) false false));
  ("{ $$ = &Suffix{Index: &Index{Start: $2.(*Query), End: $4.(*Query), IsSlice: true}} }",
   fun args =>
     q <- aQ (arg args 2) ;; e <- aQ (arg args 4) ;; SSuffix (Suffix (Some (Index [] None (Some q) (Some e) true)) false false));
  ("{ $$ = []*Query{$1.(*Query)} }",
   fun args =>
     q <- aQ (arg args 1) ;; SQueries [q]);
  ("{ $$ = append($1.([]*Query), $3.(*Query)) }",
   fun args =>
     l <- aQueries (arg args 1) ;; q <- aQ (arg args 3) ;; SQueries (l ++ [q]));
  ("{ $$ = []*IfElif(nil) }",
   fun args =>
     SElifs []);
  ("{ $$ = append($1.([]*IfElif), &IfElif{$3.(*Query), $5.(*Query)}) }",
   fun args =>
     l <- aElifs (arg args 1) ;; c <- aQ (arg args 3) ;; t <- aQ (arg args 5) ;; SElifs (l ++ [(c, t)]));
  ("{ $$ = (*Query)(nil) }",
   fun args =>
     SNilQuery);
  ("{ $$ = $2 }",
   fun args =>
     arg args 2);
  ("{ $$ = []*ObjectKeyVal{$1.(*ObjectKeyVal)} }",
   fun args =>
     k <- aKV (arg args 1) ;; SKVs [k]);
  ("{ $$ = append($1.([]*ObjectKeyVal), $3.(*ObjectKeyVal)) }",
   fun args =>
     l <- aKVs (arg args 1) ;; k <- aKV (arg args 3) ;; SKVs (l ++ [k]));
  ("{ $$ = &ObjectKeyVal{Key: $1, Val: $3.(*Query)} }",
   fun args =>
     k <- aTok (arg args 1) ;; v <- aQ (arg args 3) ;; SKV (ObjectKeyVal k None None (Some v)));
  ("{ $$ = &ObjectKeyVal{KeyString: $1.(*String), Val: $3.(*Query)} }",
   fun args =>
     k <- aStr (arg args 1) ;; v <- aQ (arg args 3) ;; SKV (ObjectKeyVal [] (Some k) None (Some v)));
  ("{ $$ = &ObjectKeyVal{KeyQuery: $2.(*Query), Val: $5.(*Query)} }",
   fun args =>
     k <- aQ (arg args 2) ;; v <- aQ (arg args 5) ;; SKV (ObjectKeyVal [] None (Some k) (Some v)));
  ("{ $$ = &ObjectKeyVal{Key: $1} }",
   fun args =>
     k <- aTok (arg args 1) ;; SKV (ObjectKeyVal k None None None));
  ("{ $$ = &ObjectKeyVal{KeyString: $1.(*String)} }",
   fun args =>
     k <- aStr (arg args 1) ;; SKV (ObjectKeyVal [] (Some k) None None));
  ("{ $$ = &ConstTerm{Object: $1.(*ConstObject)} }",
   fun args =>
     o <- aConstObj (arg args 1) ;; match o with Some kvs => SConst (CObject kvs) | None => SBad end);
  ("{ $$ = &ConstTerm{Array: $1.(*ConstArray)} }",
   fun args =>
     l <- aConstArr (arg args 1) ;; SConst (CArray l));
  ("{ $$ = &ConstTerm{Number: $1} }",
   fun args =>
     n <- aTok (arg args 1) ;; SConst (CNumber n));
  ("{ $$ = &ConstTerm{Str: $1} }",
   fun args =>
     s <- aTok (arg args 1) ;; SConst (CStr s));
  ("{ $$ = &ConstTerm{Null: true} }",
   fun args =>
     SConst CNull);
  ("{ $$ = &ConstTerm{True: true} }",
   fun args =>
     SConst CTrue);
  ("{ $$ = &ConstTerm{False: true} }",
   fun args =>
     SConst CFalse);
  ("{ $$ = &ConstObject{} }",
   fun args =>
     SConstObj (Some []));
  ("{ $$ = &ConstObject{$2.([]*ConstObjectKeyVal)} }",
   fun args =>
     l <- aConstKVs (arg args 2) ;; SConstObj (Some l));
  ("{ $$ = []*ConstObjectKeyVal{$1.(*ConstObjectKeyVal)} }",
   fun args =>
     k <- aConstKV (arg args 1) ;; SConstKVs [k]);
  ("{ $$ = append($1.([]*ConstObjectKeyVal), $3.(*ConstObjectKeyVal)) }",
   fun args =>
     l <- aConstKVs (arg args 1) ;; k <- aConstKV (arg args 3) ;; SConstKVs (l ++ [k]));
  ("{ $$ = &ConstObjectKeyVal{Key: $1, Val: $3.(*ConstTerm)} }",
   fun args =>
     k <- aTok (arg args 1) ;; v <- aConst (arg args 3) ;; SConstKV (k, [], v));
  ("{ $$ = &ConstObjectKeyVal{KeyString: $1, Val: $3.(*ConstTerm)} }",
   fun args =>
     k <- aTok (arg args 1) ;; v <- aConst (arg args 3) ;; SConstKV ([], k, v));
  ("{ $$ = &ConstArray{} }",
   fun args =>
     SConstArr []);
  ("{ $$ = &ConstArray{$2.([]*ConstTerm)} }",
   fun args =>
     l <- aConstElems (arg args 2) ;; SConstArr l);
  ("{ $$ = []*ConstTerm{$1.(*ConstTerm)} }",
   fun args =>
     c <- aConst (arg args 1) ;; SConstElems [c]);
  ("{ $$ = append($1.([]*ConstTerm), $3.(*ConstTerm)) }",
   fun args =>
     l <- aConstElems (arg args 1) ;; c <- aConst (arg args 3) ;; SConstElems (l ++ [c]))
  ].

(* the production whose action sets yylex.(lexer).inString = true *)
Definition sets_instring (text : string) : bool :=
  let p := "{ yylex.(*lexer).inString = true " in String.eqb p (substring 0 (String.length p) text).
