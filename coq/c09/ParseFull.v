(* C09c / M2 — gojq.Parse as a Gallina function: the lexer model (Lexer.v) feeding goyacc's driver (c08/LR.v's
   transcription of yyParserImpl.Parse, used unchanged) over the tables of the CURRENT parser.go (gen/GenTables.v),
   decorated with the value stack on which the transcribed actions of parser.go.y (ParseActions.v) run.

   One round = one call of LR.step.  What the round does to the value stack is re-derived from the same table
   functions by LRTie.decide (shift / reduce by production n); the value stack must stay as long as LR's state
   stack (else PModelError).  The LEXER IS DRIVEN BY THE PARSER, as in Go: before each round the next token is
   lexed speculatively from the current lexer state (Lex is a pure function in the model) and offered to LR.step as
   its only input; the new lexer state is committed iff the round consumed it (nlex advanced).  So the one feedback
   of the parser into the lexer — `yylex.(lexer).inString = true` in the action of
   `stringparts: stringparts tokStringQuery query ')'` — acts on the real lexer state at the real moment (no
   parenthesis-matching emulation here).

   Semantic value of a shifted token = yyrcvr.lval as Lex left it: `lval.token = l.token` for identifiers, keywords,
   variables, numbers, formats; `l.token[1:]` for tokIndex; the unquoted text for tokString (Unquote.v);
   `lval.operator` for tokAltOp/tokUpdateOp/tokCompareOp (table lex_ops, translated from Lex).  Other tokens carry
   no field an action may read (SNone).

   Result: PAccept prog | PError offset token (the ParseError lexer.Error builds at the first syntax error; the
   grammar has no error productions, so the first error ends the parse) | PModelError (table index out of range,
   fuel, stack desynchronised, an action not transcribed, a failed type assertion).  Definitions only. *)
From Coq Require Import List NArith ZArith Bool String Ascii Arith.
From Verif Require Import common.Sexp sem.JV sem.Syntax c09.GrammarTypes gen.GenGrammar gen.GenTables c08.LR
  c09.Lexer c09.LRTie c09.FullAst c09.Unquote c09.ParseActions.
Import ListNotations.
Local Open Scope list_scope.

(* ---- actions per production (evaluated once) -------------------------------------------------------- *)
Definition find_action (text : string) : option (list sval -> sval) :=
  match find (fun r => String.eqb (fst r) text) action_table with Some (_, f) => Some f | None => None end.

(* evaluated when this file is compiled (the VM re-evaluates a constant applied to nothing at every use, and
   act runs at every reduction): the value is the literal list of the transcriptions, in production order *)
Definition prod_actions : list (option (list sval -> sval) * bool) :=
  Eval vm_compute in
  (map (fun text => (find_action text, sets_instring text)) action_texts).

(* every action text of the current grammar has a transcription *)
Definition all_actions_transcribed : bool :=
  forallb (fun p => match fst p with Some _ => true | None => false end) prod_actions.

Definition act (n : Z) (args : list sval) : sval * bool :=
  match nth_error prod_actions (Z.to_nat (n - 1)) with
  | Some (Some f, fb) => (f args, fb)
  | _ => (SBad, false)
  end.

(* ---- tokens ------------------------------------------------------------------------------------------ *)
Definition tok_char (k : tk) : option Z :=
  match k with
  | KEOF => Some (-1)%Z
  | KChar c => Some (Z.of_N c)
  | KTok n => match find (fun r => String.eqb (fst r) n) tok_num with Some (_, z) => Some z | None => None end
  end.

Definition text_tokens : list string :=
  ["tokIdent"; "tokModuleIdent"; "tokVariable"; "tokModuleVariable"; "tokNumber"; "tokFormat"]%string.
Definition op_tokens : list string := ["tokAltOp"; "tokUpdateOp"; "tokCompareOp"]%string.
Definition mem_str (s : string) (l : list string) : bool := existsb (String.eqb s) l.

Definition strip_quotes (t : list N) : list N := removelast (tl t).

(* instr = l.inString after the Lex call: true for the pieces of an interpolated string (unquote(_, true)) *)
Definition tokval (k : tk) (text : list N) (instr : bool) : sval :=
  match k with
  | KTok n =>
      if mem_str n text_tokens || existsb (fun kw => String.eqb (snd kw) n) keywords then STok text
      else if String.eqb n "tokIndex" then STok (tl text)
      else if String.eqb n "tokString" then
        match unquote (if instr then text else strip_quotes text) with Some s => STok s | None => SBad end
      else if mem_str n op_tokens then
        match find (fun r => list_N_eqb (codes (fst (fst r))) text && String.eqb (snd (fst r)) n) lex_ops with
        | Some (_, _, oname) => match operator_of_name oname with Some o => SOp o | None => SBad end
        | None => SBad
        end
      else SNone
  | _ => SNone
  end.

(* ---- the driver -------------------------------------------------------------------------------------- *)
Inductive presult := PAccept (p : prog) | PError (offset : nat) (token : list N) | PModelError (why : nat).

Record pst := mkpst { pcfg : cfg; pvals : list sval; plex : lexer; pla : sval }.

Definition with_inp (c : cfg) (i : list Z) : cfg :=
  {| stk := stk c; vals := vals c; char := char c; token := token c; errflag := errflag c; inp := i;
     nlex := nlex c; errat := errat c |}.

Definition set_instring (l : lexer) : lexer := mklexer (lp l) (ltoken l) (ltype l) true.

Definition pstep (s : pst) : pst + presult :=
  match Lex (plex s) with
  | None => inr (PModelError 1)
  | Some (k, l1) =>
      match tok_char k with
      | None => inr (PModelError 2)
      | Some ch =>
          let c := with_inp (pcfg s) [ch] in
          match decide the_tables c with
          | Panic _ => inr (PModelError 3)
          | Ok d =>
              let after (c' : cfg) := negb (Z.eqb (nlex c') (nlex c)) in
              match step the_tables c with
              | Cont c' =>
                  let lexed := after c' in
                  let lx := if lexed then l1 else plex s in
                  let la := if lexed then tokval k (ltoken l1) (linstr l1) else pla s in
                  let vs := pvals s in
                  match d with
                  | DShift =>
                      if Nat.eqb (S (List.length vs)) (List.length (stk c'))
                      then inl (mkpst c' (la :: vs) lx la) else inr (PModelError 4)
                  | DReduce n =>
                      match idx 30 (tR2 the_tables) n with
                      | Ok r2 =>
                          let k2 := Z.to_nat r2 in
                          let '(v, fb) := act n (rev (firstn k2 vs)) in
                          let vs' := v :: skipn k2 vs in
                          match v with
                          | SBad => inr (PModelError 5)
                          | _ =>
                              if Nat.eqb (List.length vs') (List.length (stk c'))
                              then inl (mkpst c' vs' (if fb then set_instring lx else lx) la)
                              else inr (PModelError 6)
                          end
                      | Panic _ => inr (PModelError 7)
                      end
                  | DNone => inr (PModelError 8)      (* error recovery continuing: no error productions exist *)
                  end
              | Accept c' =>
                  match pvals s with
                  | SProg p :: _ => inr (PAccept p)
                  | _ => inr (PModelError 9)
                  end
              | Reject c' =>
                  let lx := if after c' then l1 else plex s in
                  let '(off, tok) := lex_error lx in inr (PError off tok)
              | Crash e => inr (PModelError (100 + e))
              end
          end
      end
  end.

Fixpoint prun (fuel : nat) (s : pst) : presult :=
  match fuel with
  | O => PModelError 10
  | S f => match pstep s with inl s' => prun f s' | inr r => r end
  end.

Definition parse_prog (src : list N) : presult :=
  prun (60 * S (List.length src)) (mkpst (init []) [SNone] (newLexer src) SNone).

(* gojq.Parse, projected on the query (Meta of the module and of the imports dropped) *)
Definition parse_model (src : list N) : option query :=
  match parse_prog src with PAccept p => Some (pquery p) | _ => None end.
