(* C09c correspondence: the full-grammar parser and printer models against gojq.Parse / Query.String().

   Line kinds (harness/c09/full.go; byte strings <h> = (h <hex chunk> ...) as in Run.v; <prog> as FullAst.eprog):

     (full <h src> <prog> <h String()>)      gojq.Parse(src) = <prog>, printed as String()
     (full <h src> (err <offset> <h token>) -)   gojq.Parse(src) failed with that ParseError
     (parse <h src> <prog | (err ..)>)       the parser alone
     (print <prog> <h String()>)             the printer alone

   Verdict of `full`: ok iff
     1. parse_prog src is exactly that AST / that (Offset, Token);
     2. print_prog of the implementation's AST is exactly the bytes of String();
     3. (model-level round trip) parse_prog (print_prog ast) = PAccept ast;
     4. the AST satisfies the syntactic description of the parser's image, WfAst.wf_prog.
   Otherwise (bad parse <model result>) | (bad print <h model bytes>) | (bad roundtrip <model result>) | (bad wfq). *)
From Coq Require Import List NArith ZArith Bool String Arith.
From Verif Require Import common.Sexp sem.JV sem.Syntax sem.AstDecode c09.Lexer c09.Run c09.FullAst c09.Printer
  c09.ParseActions c09.ParseFull c09.WfAst.
Import ListNotations.
Local Open Scope list_scope.

Definition enc_presult (r : presult) : sexp :=
  match r with
  | PAccept p => eprog p
  | PError off tok => SList [A "err"; SA (print_nat off); enc_hexl tok]
  | PModelError n => SList [A "model-error"; SA (print_nat n)]
  end.

Definition check_parse (src : list N) (expected : sexp) : option sexp :=
  let r := enc_presult (parse_prog src) in
  if sexp_eq r expected then None else Some (SList [A "bad"; A "parse"; r]).

Definition check_print (p : prog) (str : list N) : option sexp :=
  let out := print_prog p in
  if list_N_eqb out str then None else Some (SList [A "bad"; A "print"; enc_hexl out]).

Definition check_roundtrip (p : prog) : option sexp :=
  let r := enc_presult (parse_prog (print_prog p)) in
  if sexp_eq r (eprog p) then None else Some (SList [A "bad"; A "roundtrip"; r]).

(* the implementation's AST lies in the syntactically described image of the parser (WfAst.wf_prog) *)
Definition check_wfq (p : prog) : option sexp :=
  if wf_prog p then None else Some (SList [A "bad"; A "wfq"]).

(* the AST is decoded once *)
Definition with_prog (fuel : nat) (ast : sexp) (checks : prog -> list (option sexp)) : list (option sexp) :=
  match dec_prog fuel ast with
  | None => [Some (A "undecodable-ast")]
  | Some p => checks p
  end.

Definition is_err (e : sexp) : bool := match e with SList (t :: _) => atom_is "err" t | _ => false end.

Definition first_bad (l : list (option sexp)) : sexp :=
  match find (fun o => match o with Some _ => true | None => false end) l with
  | Some (Some e) => e
  | _ => A "ok"
  end.

Definition run_full_sexp (fuel : nat) (e : sexp) : sexp :=
  match e with
  | SList [k; a; b; c] =>
      if atom_is "full" k then
        match dec_hexl a with
        | None => A "undecodable"
        | Some src =>
            if is_err b then first_bad [check_parse src b]
            else match dec_hexl c with
                 | None => A "undecodable"
                 | Some str => first_bad (check_parse src b :: with_prog fuel b (fun p => [check_print p str; check_roundtrip p; check_wfq p]))
                 end
        end
      else A "undecodable"
  | SList [k; a; b] =>
      if atom_is "parse" k then
        match dec_hexl a with Some src => first_bad [check_parse src b] | None => A "undecodable" end
      else if atom_is "print" k then
        match dec_hexl b with Some str => first_bad (with_prog fuel a (fun p => [check_print p str])) | None => A "undecodable" end
      else A "undecodable"
  | _ => A "undecodable"
  end.

Definition run_line (l : list N) : list N :=
  match Sexp.parse l with
  | Some e => print (run_full_sexp (List.length l) e)
  | None => codes "unparsable"
  end.
