(* C09c / M3 (c) — finite round-trip theorem over the real tables: for every program of RoundTripCases.rt_family,
   parsing (lexer model + goyacc driver over the current tables + transcribed actions) what the printer model
   prints gives the program back. *)
From Coq Require Import List NArith ZArith Bool String.
From Verif Require Import common.Sexp sem.JV sem.Syntax c09.FullAst c09.Printer c09.ParseActions c09.ParseFull
  c09.FullCases c09.RoundTripCases c09.FinLemmas c09.WfAst.
Import ListNotations.

Lemma rt_family_roundtrip : forall p, In p rt_family -> parse_prog (print_prog p) = PAccept p.
Proof.
  apply (map_eq_pointwise (fun p => parse_prog (print_prog p)) PAccept rt_family).
  vm_cast_no_check (eq_refl (map PAccept rt_family)).
Qed.

Lemma rt_family_size : N.of_nat (List.length rt_family) = 7516%N.
Proof. vm_compute. reflexivity. Qed.

(* every program of the family lies in the syntactically described image of the parser *)
Lemma rt_family_wf : forallb wf_prog rt_family = true.
Proof. vm_cast_no_check (eq_refl true). Qed.
