(* C09 — the token stream of the operator sublanguage does not depend on the whitespace and comments between
   its tokens (Lexer.v model of lexer.go), hence neither does the AST; and the bytes String() prints for an AST of
   the parser's image lex and parse back to that AST. *)
From Coq Require Import List NArith Bool String Arith Lia.
From Verif Require Import common.Sexp c09.GrammarTypes gen.GenGrammar c09.Ops c09.OpsProofs c09.OpsInst c09.Lexer c09.LexProofs c09.Run.
Import ListNotations.
Local Open Scope nat_scope.
Local Open Scope list_scope.

(* ------------------------------------------------------------------------------------------------ *)
(* separators: any sequence of whitespace bytes and comments.  A comment is '#', a body without LF, CR and
   backslash (a backslash continues the comment over the line end; not needed to state insensitivity), LF *)
Inductive sunit := Ws (c : N) | Cm (body : list N).
Definition cm_byte_ok (c : N) : bool := negb ((c =? 10) || (c =? 13) || (c =? 92))%N.
Definition sunit_ok (u : sunit) : bool := match u with Ws c => isWhite c | Cm b => forallb cm_byte_ok b end.
Definition sunit_bytes (u : sunit) : list N := match u with Ws c => [c] | Cm b => 35%N :: b ++ [10%N] end.
Definition sep := list sunit.
Definition sep_ok (s : sep) : bool := forallb sunit_ok s.
Definition sep_bytes (s : sep) : list N := flat_map sunit_bytes s.

(* bytes after which every token of the alphabet ends: whitespace, '#', '(', ')', ',' (or the end) *)
Definition delim (d : N) : bool := isWhite d || (d =? 35)%N || (d =? 40)%N || (d =? 41)%N || (d =? 44)%N.
Definition follow_ok (f : list N) : Prop := match f with [] => True | d :: _ => delim d = true end.

Lemma delim_cases : forall d, delim d = true ->
  d = 9%N \/ d = 10%N \/ d = 13%N \/ d = 32%N \/ d = 35%N \/ d = 40%N \/ d = 41%N \/ d = 44%N.
Proof.
  intros d H. unfold delim, isWhite in H.
  repeat (apply orb_prop in H; destruct H as [H|H]); apply N.eqb_eq in H; tauto.
Qed.

Lemma white_cases : forall d, isWhite d = true -> d = 9%N \/ d = 10%N \/ d = 13%N \/ d = 32%N.
Proof.
  intros d H. unfold isWhite in H.
  repeat (apply orb_prop in H; destruct H as [H|H]); apply N.eqb_eq in H; tauto.
Qed.

Lemma skipComment_body : forall b rest o, forallb cm_byte_ok b = true ->
  skipComment_s (b ++ 10%N :: rest) o = (false, mkpos (List.length b + o) (10%N :: rest)).
Proof.
  induction b as [|c b IH]; intros rest o H.
  - reflexivity.
  - simpl in H. apply andb_prop in H. destruct H as [H1 H2].
    unfold cm_byte_ok in H1. apply negb_true_iff in H1.
    apply orb_false_iff in H1. destruct H1 as [H1 H92]. apply orb_false_iff in H1. destruct H1 as [H10 H13].
    simpl app. cbn [skipComment_s]. rewrite H92, H10, H13. cbn [orb].
    rewrite IH by auto. replace (List.length b + S o) with (List.length (c :: b) + o) by (simpl; lia).
    destruct (c =? 0)%N; reflexivity.
Qed.

Lemma next_white : forall f o w r, isWhite w = true ->
  next (S f) (mkpos o (w :: r)) = match r with [] => Some (0%N, true, mkpos (S o) []) | _ => next f (mkpos (S o) r) end.
Proof.
  intros f o w r H. cbn [next pr po].
  destruct (white_cases w H) as [E|[E|[E|E]]]; subst w; destruct r; reflexivity.
Qed.

Lemma next_comment : forall f o b r, forallb cm_byte_ok b = true ->
  next (S f) (mkpos o (35%N :: b ++ 10%N :: r)) = next f (mkpos (List.length b + S o) (10%N :: r)).
Proof.
  intros f o b r H. cbn [next pr po]. replace (35 =? 35)%N with true by reflexivity.
  unfold skipComment. cbn [pr po]. rewrite skipComment_body by auto. reflexivity.
Qed.

Lemma sep_bytes_cons : forall u s, sep_bytes (u :: s) = sunit_bytes u ++ sep_bytes s.
Proof. reflexivity. Qed.

(* skipping a separator in front of a byte that starts a token *)
Lemma next_skip : forall s c r o f, sep_ok s = true -> isWhite c = false -> (c =? 35)%N = false ->
  List.length (sep_bytes s) < f ->
  next f (mkpos o (sep_bytes s ++ c :: r)) = Some (c, false, mkpos (S (List.length (sep_bytes s) + o)) r).
Proof.
  induction s as [|u s IH]; intros c r o f OK W H L.
  - destruct f; [simpl in L; lia|]. cbn [sep_bytes flat_map app next pr po]. rewrite H, W. reflexivity.
  - simpl in OK. apply andb_prop in OK. destruct OK as [OKu OKs].
    rewrite sep_bytes_cons in *. rewrite app_length in L.
    destruct u as [w|b]; cbn [sunit_bytes] in *.
    + destruct f; [simpl in L; lia|].
      replace (([w] ++ sep_bytes s) ++ c :: r) with (w :: (sep_bytes s ++ c :: r)) by reflexivity.
      rewrite next_white by auto.
      destruct (sep_bytes s ++ c :: r) eqn:E; [destruct (sep_bytes s); discriminate|]. rewrite <- E.
      rewrite IH; auto; [|simpl in L; lia]. f_equal. f_equal. simpl. f_equal. lia.
    + simpl in L. rewrite app_length in L. simpl in L.
      destruct f; [lia|]. destruct f; [lia|].
      replace (((35%N :: b ++ [10%N]) ++ sep_bytes s) ++ c :: r) with (35%N :: b ++ 10%N :: (sep_bytes s ++ c :: r))
        by (simpl; rewrite <- !app_assoc; reflexivity).
      rewrite next_comment by auto.
      rewrite next_white by reflexivity.
      destruct (sep_bytes s ++ c :: r) eqn:E; [destruct (sep_bytes s); discriminate|]. rewrite <- E.
      rewrite IH; auto; [|lia]. f_equal. f_equal. f_equal. simpl. rewrite !app_length. simpl. lia.
Qed.

(* a non-empty separator at the end of the source: eof *)
Lemma next_skip_eof : forall s o f, sep_ok s = true -> s <> [] -> List.length (sep_bytes s) < f ->
  exists p, next f (mkpos o (sep_bytes s)) = Some (0%N, true, p).
Proof.
  induction s as [|u s IH]; intros o f OK NE L; [congruence|].
  simpl in OK. apply andb_prop in OK. destruct OK as [OKu OKs].
  rewrite sep_bytes_cons in *. rewrite app_length in L.
  destruct u as [w|b]; cbn [sunit_bytes] in *.
  - destruct f; [simpl in L; lia|]. simpl app. rewrite next_white by auto.
    assert (L' : List.length (sep_bytes s) < f) by (change (List.length [w]) with 1 in L; lia).
    destruct s as [|u' s']; [simpl; eexists; reflexivity|].
    destruct (IH (S o) f OKs ltac:(discriminate) L') as [p HP].
    destruct (sep_bytes (u' :: s')) eqn:E; [destruct u'; simpl in E; discriminate|].
    exists p. exact HP.
  - simpl in L. rewrite app_length in L. simpl in L.
    destruct f; [lia|]. destruct f; [lia|].
    replace ((35%N :: b ++ [10%N]) ++ sep_bytes s) with (35%N :: b ++ 10%N :: sep_bytes s)
      by (simpl; rewrite <- app_assoc; reflexivity).
    rewrite next_comment by auto.
    rewrite next_white by reflexivity.
    assert (L' : List.length (sep_bytes s) < f) by lia.
    destruct s as [|u' s']; [simpl; eexists; reflexivity|].
    destruct (IH (S (List.length b + S o)) f OKs ltac:(discriminate) L') as [p HP].
    destruct (sep_bytes (u' :: s')) eqn:E; [destruct u'; simpl in E; discriminate|].
    exists p. exact HP.
Qed.

Lemma sep_first_delim : forall s, sep_ok s = true -> follow_ok (sep_bytes s).
Proof.
  intros [|u s] H; simpl; auto. simpl in H. apply andb_prop in H. destruct H as [H _].
  destruct u as [w|b]; simpl.
  - unfold delim. simpl in H. rewrite H. reflexivity.
  - reflexivity.
Qed.

(* ------------------------------------------------------------------------------------------------ *)
(* the token alphabet of the operator sublanguage *)
Inductive otok := OAtom (name : list N) | OOp (o : binop) | OLP | ORP.

Definition name_ok (n : list N) : bool :=
  match n with c :: r => isIdent c false && forallb (fun c => isIdent c true) r | [] => false end.
Definition otok_ok (t : otok) : bool :=
  match t with
  | OAtom n => name_ok n && match lookup_kw n keywords with None => true | Some _ => false end
  | _ => true
  end.
Definition otok_bytes (t : otok) : list N :=
  match t with OAtom n => n | OOp o => jq_op_bytes o | OLP => [40%N] | ORP => [41%N] end.
Definition op_kind (o : binop) : tk :=
  match o with
  | OpPipe => KChar 124 | OpComma => KChar 44 | OpAdd => KChar 43 | OpSub => KChar 45 | OpMul => KChar 42
  | OpDiv => KChar 47 | OpMod => KChar 37
  | OpEq | OpNe | OpGt | OpLt | OpGe | OpLe => KTok "tokCompareOp"
  | OpAnd => KTok "tokAndOp" | OpOr => KTok "tokOrOp" | OpAlt => KTok "tokAltOp"
  | _ => KTok "tokUpdateOp"
  end.
Definition otok_kind (t : otok) : tk :=
  match t with OAtom _ => KTok "tokIdent" | OOp o => op_kind o | OLP => KChar 40 | ORP => KChar 41 end.

(* the text of a token as the parser side sees it (Run.tok_text) *)
Definition text_of (k : tk) (tok : list N) : list N := match k with KChar c => [c] | _ => tok end.

Lemma delim_not_ident : forall d, delim d = true -> isIdent d true = false /\ (d =? 58)%N = false.
Proof. intros d H. destruct (delim_cases d H) as [E|[E|[E|[E|[E|[E|[E|E]]]]]]]; subst d; split; reflexivity. Qed.

Lemma scanIdent_name : forall nr f o, forallb (fun c => isIdent c true) nr = true -> follow_ok f ->
  scanIdent_s (nr ++ f) o = mkpos (List.length nr + o) f.
Proof.
  induction nr as [|c nr IH]; intros f o H F.
  - simpl. destruct f as [|d r]; [reflexivity|]. simpl in F. destruct (delim_not_ident d F) as [A _].
    simpl. rewrite A. reflexivity.
  - simpl in H. apply andb_prop in H. destruct H as [H1 H2]. simpl. rewrite H1. rewrite IH by auto.
    f_equal. lia.
Qed.

Lemma scanIdentOrModule_name : forall nr f o, forallb (fun c => isIdent c true) nr = true -> follow_ok f ->
  scanIdentOrModule (mkpos o (nr ++ f)) = (mkpos (List.length nr + o) f, false).
Proof.
  intros nr f o H F. unfold scanIdentOrModule, scanIdent. cbn [pr po]. rewrite scanIdent_name by auto. cbn [pr po].
  destruct f as [|d [|d2 [|d3 r]]]; try reflexivity.
  simpl in F. destruct (delim_not_ident d F) as [_ A]. rewrite A. reflexivity.
Qed.

Lemma firstn_app_exact : forall (a b : list N), firstn (List.length a) (a ++ b) = a.
Proof. induction a; intros; simpl; auto. f_equal. auto. Qed.

Lemma slice_name : forall n0 nr f o,
  slice (mkpos o (n0 :: nr ++ f)) (mkpos (List.length nr + S o) f) = Some (n0 :: nr).
Proof.
  intros. unfold slice. cbn [po pr].
  replace (o <=? List.length nr + S o) with true by (symmetry; apply Nat.leb_le; lia).
  replace (List.length nr + S o - o) with (S (List.length nr)) by lia.
  replace (S (List.length nr) <=? List.length (n0 :: nr ++ f)) with true
    by (symmetry; apply Nat.leb_le; simpl; rewrite app_length; lia).
  simpl. rewrite firstn_app_exact. reflexivity.
Qed.

Lemma dispatch_ident : forall n0 nr f l o, isIdent n0 false = true ->
  forallb (fun c => isIdent c true) nr = true -> follow_ok f ->
  lex_dispatch l n0 (mkpos (S o) (nr ++ f)) =
  match lookup_kw (n0 :: nr) keywords with
  | Some k => fin l (KTok k) (mkpos (List.length nr + S o) f) (Some (n0 :: nr)) false
  | None => fin l (KTok "tokIdent") (mkpos (List.length nr + S o) f) (Some (n0 :: nr)) false
  end.
Proof.
  intros n0 nr f l o H1 H2 F. unfold lex_dispatch. cbv zeta. rewrite H1.
  rewrite scanIdentOrModule_name by auto. cbn [po pr Init.Nat.pred Nat.pred].
  rewrite slice_name. reflexivity.
Qed.

Lemma dispatch_op : forall o f l off, follow_ok f ->
  exists c tbr tok', (jq_op_bytes o = c :: tbr /\ isWhite c = false /\ (c =? 35)%N = false) /\
    lex_dispatch l c (mkpos (S off) (tbr ++ f)) =
      Some (op_kind o, mklexer (mkpos (List.length tbr + S off) f) tok' (op_kind o) false) /\
    text_of (op_kind o) tok' = jq_op_bytes o.
Proof.
  intros o f l off F.
  destruct o;
    try (do 3 eexists; split; [split; [reflexivity|split; reflexivity]|];
         destruct f as [|d r];
         [split; [|reflexivity]; reflexivity
         |simpl in F; destruct (delim_cases d F) as [E|[E|[E|[E|[E|[E|[E|E]]]]]]]; subst d; (split; [|reflexivity]); reflexivity]).
  - (* and *)
    exists 97%N, [110%N; 100%N], [97%N; 110%N; 100%N]. split; [split; [reflexivity|split; reflexivity]|].
    rewrite dispatch_ident by auto. split; reflexivity.
  - (* or *)
    exists 111%N, [114%N], [111%N; 114%N]. split; [split; [reflexivity|split; reflexivity]|].
    rewrite dispatch_ident by auto. split; reflexivity.
Qed.

Definition free_tok (t : otok) : bool := match t with OLP | ORP | OOp OpComma => true | _ => false end.

Lemma ident_not_white : forall c, isIdent c false = true -> isWhite c = false /\ (c =? 35)%N = false.
Proof.
  intros c H. split.
  - destruct (isWhite c) eqn:W; auto. destruct (white_cases c W) as [E|[E|[E|E]]]; subst c; discriminate H.
  - destruct (c =? 35)%N eqn:E; auto. apply N.eqb_eq in E. subst c. discriminate H.
Qed.

Lemma dispatch_tok : forall t f l off, otok_ok t = true -> (free_tok t = true \/ follow_ok f) ->
  exists c tbr tok', (otok_bytes t = c :: tbr /\ isWhite c = false /\ (c =? 35)%N = false) /\
    lex_dispatch l c (mkpos (S off) (tbr ++ f)) =
      Some (otok_kind t, mklexer (mkpos (List.length tbr + S off) f) tok' (otok_kind t) false) /\
    text_of (otok_kind t) tok' = otok_bytes t.
Proof.
  intros t f l off OK FF. destruct t as [n|o| |].
  - destruct FF as [FF|FF]; [simpl in FF; discriminate FF|].
    unfold otok_ok in OK. apply andb_prop in OK. destruct OK as [N K].
    destruct n as [|n0 nr]; [discriminate N|]. unfold name_ok in N. apply andb_prop in N. destruct N as [N1 N2].
    destruct (ident_not_white n0 N1) as [W1 W2].
    exists n0, nr, (n0 :: nr). split; [auto|]. rewrite dispatch_ident by auto.
    destruct (lookup_kw (n0 :: nr) keywords); [discriminate K|]. split; reflexivity.
  - destruct FF as [FF|FF].
    + destruct o; try (simpl in FF; discriminate FF). do 3 eexists. split; [split; [reflexivity|split; reflexivity]|].
      split; [|reflexivity]. reflexivity.
    + apply dispatch_op. exact FF.
  - do 3 eexists. split; [split; [reflexivity|split; reflexivity]|]. split; [|reflexivity]. reflexivity.
  - do 3 eexists. split; [split; [reflexivity|split; reflexivity]|]. split; [|reflexivity]. reflexivity.
Qed.

Lemma Lex_tok : forall t s f l o, otok_ok t = true -> sep_ok s = true -> (free_tok t = true \/ follow_ok f) ->
  linstr l = false -> lp l = mkpos o (sep_bytes s ++ otok_bytes t ++ f) ->
  exists tok', Lex l = Some (otok_kind t,
                             mklexer (mkpos (List.length (sep_bytes s) + List.length (otok_bytes t) + o) f) tok' (otok_kind t) false) /\
               text_of (otok_kind t) tok' = otok_bytes t.
Proof.
  intros t s f l o OK SOK FF LI LP.
  destruct (dispatch_tok t f l (List.length (sep_bytes s) + o) OK FF) as (c & tbr & tok' & (B & W & H) & D & T).
  exists tok'. split; [|exact T].
  unfold Lex. rewrite LP, LI. rewrite B. cbn [pr po].
  replace (sep_bytes s ++ (c :: tbr) ++ f) with (sep_bytes s ++ c :: (tbr ++ f)) by reflexivity.
  assert (NN : is_nil (sep_bytes s ++ c :: tbr ++ f) = false) by (destruct (sep_bytes s); reflexivity).
  rewrite NN.
  rewrite next_skip; auto; [|rewrite app_length; simpl; lia].
  rewrite D. f_equal. f_equal. f_equal. f_equal. simpl. lia.
Qed.

Definition item := (sep * otok)%type.
Fixpoint render (items : list item) (final : sep) : list N :=
  match items with [] => sep_bytes final | (s, t) :: r => sep_bytes s ++ otok_bytes t ++ render r final end.
Definition item_ok (it : item) : bool := sep_ok (fst it) && otok_ok (snd it).
(* the separator before a token may be empty only next to '(' ')' ',' *)
Fixpoint gaps_ok (prev : otok) (items : list item) : bool :=
  match items with
  | [] => true
  | (s, t) :: r => (negb (is_nil s) || free_tok prev || free_tok t) && gaps_ok t r
  end.
Definition items_ok (items : list item) : bool :=
  forallb item_ok items && match items with [] => true | (_, t) :: r => gaps_ok t r end.

Definition expected (it : item) : tk * list N := (otok_kind (snd it), otok_bytes (snd it)).

Lemma follow_render : forall t r final, forallb item_ok r = true -> sep_ok final = true -> gaps_ok t r = true ->
  free_tok t = true \/ follow_ok (render r final).
Proof.
  intros t r final OK FOK G. destruct r as [|[s' t'] r'].
  - right. simpl. apply sep_first_delim. exact FOK.
  - simpl in G. apply andb_prop in G. destruct G as [G _].
    simpl in OK. apply andb_prop in OK. destruct OK as [OK _]. unfold item_ok in OK. simpl in OK.
    apply andb_prop in OK. destruct OK as [SOK TOK].
    apply orb_prop in G. destruct G as [G|G]; [apply orb_prop in G; destruct G as [G|G]|].
    + right. simpl. destruct s' as [|u s'']; [discriminate G|].
      pose proof (sep_first_delim (u :: s'') SOK) as F. destruct (sep_bytes (u :: s'')) eqn:E.
      * destruct u; discriminate E.
      * simpl. exact F.
    + left. exact G.
    + right. simpl. destruct s' as [|u s''].
      * simpl. destruct t' as [n|o| |]; try discriminate G; [destruct o; try discriminate G|..]; reflexivity.
      * pose proof (sep_first_delim (u :: s'') SOK) as F. destruct (sep_bytes (u :: s'')) eqn:E.
        -- destruct u; discriminate E.
        -- simpl. exact F.
Qed.

Lemma kind_not_end : forall t, is_end (otok_kind t) = false.
Proof. intros [n|o| |]; try reflexivity. destruct o; reflexivity. Qed.

Lemma feedback_tok : forall t stk l, Forall (fun b => b = false) stk ->
  exists stk', feedback (otok_kind t) stk l = (stk', l) /\ Forall (fun b => b = false) stk'.
Proof.
  intros t stk l H. destruct t as [n|o| |].
  - exists stk. split; [reflexivity|exact H].
  - exists stk. split; [destruct o; reflexivity|exact H].
  - exists (false :: stk). split; [reflexivity|constructor; auto].
  - destruct stk as [|b stk]; [exists []; split; [reflexivity|constructor]|].
    inversion H; subst. exists stk. split; [reflexivity|assumption].
Qed.

Lemma Lex_eof : forall final l o, sep_ok final = true -> linstr l = false -> lp l = mkpos o (sep_bytes final) ->
  exists l1, Lex l = Some (KEOF, l1) /\ ltoken l1 = [].
Proof.
  intros final l o OK LI LP. unfold Lex. rewrite LP, LI. cbn [pr po].
  destruct final as [|u s].
  - simpl. unfold fin. eexists. split; reflexivity.
  - assert (NN : is_nil (sep_bytes (u :: s)) = false) by (destruct u; reflexivity).
    rewrite NN.
    destruct (next_skip_eof (u :: s) o (S (List.length (sep_bytes (u :: s)))) OK ltac:(discriminate) ltac:(lia)) as [p HP].
    rewrite HP. unfold fin. eexists. split; reflexivity.
Qed.

Theorem lex_render : forall items final l o stk f,
  forallb item_ok items = true -> sep_ok final = true ->
  match items with [] => True | (_, t) :: r => gaps_ok t r = true end ->
  linstr l = false -> lp l = mkpos o (render items final) -> Forall (fun b => b = false) stk ->
  List.length items < f ->
  option_map (map proj) (lex_all f l stk) = Some (map expected items ++ [(KEOF, [])]).
Proof.
  induction items as [|[s t] r IH]; intros final l o stk f OK FOK G LI LP ST L.
  - destruct f; [simpl in L; lia|]. simpl in LP.
    destruct (Lex_eof final l o FOK LI LP) as (l1 & A & B).
    unfold lex_all. cbn [lex_with]. rewrite A. cbn [is_end]. simpl. unfold proj. simpl. rewrite B. reflexivity.
  - destruct f; [simpl in L; lia|].
    simpl in OK. apply andb_prop in OK. destruct OK as [OK1 OK2].
    unfold item_ok in OK1. simpl in OK1. apply andb_prop in OK1. destruct OK1 as [SOK TOK].
    pose proof (follow_render t r final OK2 FOK G) as FF.
    simpl in LP.
    destruct (Lex_tok t s (render r final) l o TOK SOK FF LI LP) as (tok' & A & T).
    unfold lex_all. cbn [lex_with]. rewrite A. rewrite kind_not_end.
    destruct (feedback_tok t stk (mklexer (mkpos (List.length (sep_bytes s) + List.length (otok_bytes t) + o) (render r final)) tok' (otok_kind t) false) ST)
      as (stk' & FB & ST').
    rewrite FB.
    specialize (IH final (mklexer (mkpos (List.length (sep_bytes s) + List.length (otok_bytes t) + o) (render r final)) tok' (otok_kind t) false)
                  (List.length (sep_bytes s) + List.length (otok_bytes t) + o) stk' f OK2 FOK).
    assert (G' : match r with [] => True | (_, t0) :: r0 => gaps_ok t0 r0 = true end).
    { destruct r as [|[s' t'] r']; auto. simpl in G. apply andb_prop in G. tauto. }
    specialize (IH G' eq_refl eq_refl ST' ltac:(simpl in L; lia)).
    unfold lex_all in IH.
    destruct (lex_with (list bool) feedback f _ stk') as [ts|]; [|discriminate IH].
    simpl in IH. inversion IH as [IH']. simpl. f_equal. f_equal.
    unfold proj, expected. simpl. f_equal.
    + unfold tok_text. simpl. rewrite <- T. unfold text_of. destruct (otok_kind t); reflexivity.
    + exact IH'.
Qed.

(* ------------------------------------------------------------------------------------------------ *)
(* from the token stream to the AST *)
Definition tok_of (t : otok) : tok (list N) :=
  match t with OAtom n => TAtom n | OOp o => TOp o | OLP => TLP | ORP => TRP end.

Lemma optok_expected : forall t, optok_of true (otok_kind t) (otok_bytes t) = Some (tok_of t).
Proof. intros [n|o| |]; try reflexivity. destruct o; vm_compute; reflexivity. Qed.

Lemma to_optoks_cons : forall g k text r, k <> KEOF ->
  to_optoks g ((k, text) :: r) =
  match optok_of g k text, to_optoks g r with Some x, Some xs => Some (x :: xs) | _, _ => None end.
Proof. intros g k text r H. destruct k; [congruence| |]; reflexivity. Qed.

Lemma kind_not_eof : forall t, otok_kind t <> KEOF.
Proof. intros [n|o| |]; try discriminate. destruct o; discriminate. Qed.

Lemma to_optoks_expected : forall items,
  to_optoks true (map expected items ++ [(KEOF, [])]) = Some (map (fun it => tok_of (snd it)) items).
Proof.
  induction items as [|[s t] r IH]; [reflexivity|].
  simpl map. simpl app. unfold expected at 1. simpl snd.
  rewrite to_optoks_cons by apply kind_not_eof. rewrite optok_expected, IH. reflexivity.
Qed.

Lemma otok_bytes_nonempty : forall t, otok_ok t = true -> 1 <= List.length (otok_bytes t).
Proof.
  intros [n|o| |] H; simpl; try lia.
  - destruct n; [discriminate H|simpl; lia].
  - destruct o; vm_compute; lia.
Qed.

Lemma render_length : forall items final, forallb item_ok items = true ->
  List.length items <= List.length (render items final).
Proof.
  induction items as [|[s t] r IH]; intros final H; simpl; [lia|].
  simpl in H. apply andb_prop in H. destruct H as [H1 H2]. unfold item_ok in H1. simpl in H1.
  apply andb_prop in H1. destruct H1 as [_ H1]. pose proof (otok_bytes_nonempty t H1).
  rewrite !app_length. specialize (IH final H2). lia.
Qed.

Theorem respace_tokens : forall items final, items_ok items = true -> sep_ok final = true ->
  option_map (map proj) (tokenize (render items final)) = Some (map expected items ++ [(KEOF, [])]).
Proof.
  intros items final OK FOK. unfold items_ok in OK. apply andb_prop in OK. destruct OK as [OK G].
  unfold tokenize. apply (lex_render items final (newLexer (render items final)) 0 []); auto.
  - destruct items as [|[s t] r]; auto.
  - pose proof (render_length items final OK). lia.
Qed.

Theorem respace_parse : forall items final, items_ok items = true -> sep_ok final = true ->
  model_parse true (render items final) =
  Some (Ops.parse (list N) gen_lvl gen_asc (map (fun it => tok_of (snd it)) items)).
Proof.
  intros items final OK FOK. pose proof (respace_tokens items final OK FOK) as H.
  unfold model_parse. destruct (tokenize (render items final)) as [ts|]; [|discriminate H].
  simpl in H. inversion H as [H']. rewrite H'. rewrite to_optoks_expected. reflexivity.
Qed.

(* the AST depends only on the token sequence: two spacings of the same tokens parse alike *)
Theorem respace_invariant : forall items1 items2 final1 final2,
  map snd items1 = map snd items2 ->
  items_ok items1 = true -> items_ok items2 = true -> sep_ok final1 = true -> sep_ok final2 = true ->
  model_parse true (render items1 final1) = model_parse true (render items2 final2).
Proof.
  intros. rewrite !respace_parse by auto. f_equal. f_equal.
  rewrite <- (map_map snd tok_of items1), <- (map_map snd tok_of items2). congruence.
Qed.

(* ------------------------------------------------------------------------------------------------ *)
(* the printer: Query.writeTo emits the tokens of the AST with these separators *)
Fixpoint items_of (first : sep) (e : expr (list N)) : list item :=
  match e with
  | Atom a => [(first, OAtom a)]
  | Paren e => (first, OLP) :: items_of [] e ++ [([], ORP)]
  | Bin o l r => items_of first l ++ ((if binop_eqb o OpComma then [] else [Ws 32%N]), OOp o) :: items_of [Ws 32%N] r
  end.

Fixpoint atoms_ok (e : expr (list N)) : bool :=
  match e with
  | Atom a => otok_ok (OAtom a)
  | Paren e => atoms_ok e
  | Bin _ l r => atoms_ok l && atoms_ok r
  end.

Arguments otok_ok : simpl never.
Arguments lookup_kw : simpl never.

Lemma render_app : forall a b final, render (a ++ b) final = render a [] ++ render b final.
Proof.
  induction a as [|[s t] a IH]; intros b final; simpl; auto.
  rewrite IH. rewrite <- ?app_assoc. reflexivity.
Qed.

Lemma print_render : forall e first,
  sep_bytes first ++ print_bytes jq_op_bytes e = render (items_of first e) [].
Proof.
  induction e as [a|e IH|o l IHl r IHr]; intros first.
  - simpl. rewrite app_nil_r. reflexivity.
  - simpl. rewrite render_app. rewrite <- IH. simpl. rewrite <- ?app_assoc. reflexivity.
  - simpl. rewrite render_app. rewrite <- IHl. simpl. rewrite <- IHr.
    rewrite <- ?app_assoc. f_equal. f_equal.
    destruct (binop_eqb o OpComma); reflexivity.
Qed.

Lemma items_of_toks : forall e first, map (fun it => tok_of (snd it)) (items_of first e) = toks (list N) e.
Proof.
  induction e as [a|e IH|o l IHl r IHr]; intros first; simpl; auto.
  - rewrite map_app. rewrite IH. reflexivity.
  - rewrite map_app. simpl. rewrite IHl, IHr. reflexivity.
Qed.

Lemma items_of_item_ok : forall e first, atoms_ok e = true -> sep_ok first = true ->
  forallb item_ok (items_of first e) = true.
Proof.
  induction e as [a|e IH|o l IHl r IHr]; intros first A S.
  - simpl. unfold item_ok. simpl fst. simpl snd. rewrite S. simpl in A. rewrite A. reflexivity.
  - simpl. unfold item_ok at 1. simpl fst. simpl snd. rewrite S. simpl andb.
    rewrite forallb_app. rewrite IH by auto. reflexivity.
  - simpl in A. apply andb_prop in A. destruct A as [A1 A2].
    simpl. rewrite forallb_app. rewrite IHl by auto. simpl.
    rewrite IHr by auto. unfold item_ok. simpl. destruct (binop_eqb o OpComma); reflexivity.
Qed.

Definition last_tok (p : otok) (a : list item) : otok := snd (last a ([], p)).

Lemma last_indep : forall (a : list item) i d1 d2, last (i :: a) d1 = last (i :: a) d2.
Proof. induction a as [|j a IH]; intros i d1 d2; [reflexivity|]. simpl. simpl in IH. apply (IH j). Qed.

Lemma gaps_app : forall a p b, gaps_ok p (a ++ b) = gaps_ok p a && gaps_ok (last_tok p a) b.
Proof.
  induction a as [|[s t] a IH]; intros p b.
  - reflexivity.
  - simpl app. simpl gaps_ok. rewrite IH. rewrite andb_assoc. f_equal. f_equal.
    unfold last_tok. destruct a as [|i a]; [reflexivity|].
    change (last ((s, t) :: i :: a) ([], p)) with (last (i :: a) ([], p)). f_equal. apply last_indep.
Qed.

Lemma items_of_gaps : forall e first p, (negb (is_nil first) || free_tok p) = true ->
  gaps_ok p (items_of first e) = true.
Proof.
  induction e as [a|e IH|o l IHl r IHr]; intros first p H.
  - simpl. rewrite H. reflexivity.
  - simpl. rewrite orb_true_r. simpl. rewrite gaps_app. rewrite IH by reflexivity.
    simpl. rewrite !orb_true_r. reflexivity.
  - simpl. rewrite gaps_app. rewrite IHl by auto. simpl.
    rewrite IHr by reflexivity. rewrite andb_true_r.
    destruct o; simpl; rewrite ?orb_true_r; reflexivity.
Qed.

Lemma items_of_ok : forall e, atoms_ok e = true -> items_ok (items_of [] e) = true.
Proof.
  intros e A. unfold items_ok. rewrite items_of_item_ok by auto. simpl.
  pose proof (items_of_gaps e [] OLP eq_refl) as G.
  destruct (items_of [] e) as [|[s t] r]; auto. simpl in G. apply andb_prop in G. tauto.
Qed.

Lemma print_bytes_ext : forall (f g : binop -> list N), (forall o, f o = g o) ->
  forall e, print_bytes f e = print_bytes g e.
Proof. intros f g H. induction e; simpl; auto; congruence. Qed.

Lemma gen_op_bytes_jq : forall o, gen_op_bytes o = jq_op_bytes o.
Proof. intros o. unfold gen_op_bytes, jq_op_bytes. rewrite printed_as_jq. reflexivity. Qed.

(* the round trip on BYTES: for every AST of the parser's image whose atoms are identifiers, the bytes that
   String() prints lex (Lexer.v) and parse back to the same AST *)
Theorem bytes_roundtrip : forall e, atoms_ok e = true -> wf (list N) gen_lvl gen_asc e ->
  model_parse true (print_bytes gen_op_bytes e) = Some (Some e).
Proof.
  intros e A W.
  rewrite (print_bytes_ext gen_op_bytes jq_op_bytes gen_op_bytes_jq).
  pose proof (print_render e []) as P. simpl in P. rewrite P.
  rewrite respace_parse by (auto using items_of_ok).
  rewrite items_of_toks. f_equal. apply gen_print_parse. exact W.
Qed.
