(* C09 / C08 / C17 — model of lexer.go, function by function.  Definitions only.

   Bytes are N (0..255).  A position [pos] is the offset together with the bytes from that offset on
   (invariant, proved in LexProofs.v: pr = skipn po source, po <= len source).  Every access the Go code makes is
   explicit:  l.source[l.offset]  is a match on the remaining bytes whose empty case is the model error
   [None] ("index out of range"); slices  l.source[i:j]  go through [slice], which is [None] unless
   i <= j <= len.  LexProofs.v proves the error branch unreachable.  l.offset++ in the code is always guarded
   by a peek() that returned a non-zero byte; the model advances only by matching on the remaining bytes.
   l.offset-- / l.offset -= 2 (backtracking) is modelled by keeping the earlier position.

   Not modelled: the decoded value lval.token of string tokens (json.Unmarshal of the quoted text), hence the
   tokInvalid result of scanString when unquote fails (it cannot: scanString validates every escape; the
   correspondence stream compares token kinds on all generated strings).  *)
From Coq Require Import List NArith Bool String Arith.
From Verif Require Import common.Sexp c09.GrammarTypes gen.GenGrammar.
Import ListNotations.
Local Open Scope list_scope.
Local Open Scope N_scope.

Record pos := mkpos { po : nat; pr : list N }.

(* token kinds: eof (-1), a byte returned as int(ch), or a named goyacc token constant *)
Inductive tk := KEOF | KChar (c : N) | KTok (name : string).

Record lexer := mklexer { lp : pos; ltoken : list N; ltype : tk; linstr : bool }.

Definition newLexer (src : list N) : lexer := mklexer (mkpos 0 src) [] (KChar 0) false.

Definition isWhite (ch : N) : bool := (ch =? 9) || (ch =? 10) || (ch =? 13) || (ch =? 32).
Definition isNumber (ch : N) : bool := (48 <=? ch) && (ch <=? 57).
Definition isIdent (ch : N) (tail : bool) : bool :=
  ((97 <=? ch) && (ch <=? 122)) || ((65 <=? ch) && (ch <=? 90)) || (ch =? 95) || (tail && isNumber ch).
Definition isHex (ch : N) : bool :=
  ((97 <=? ch) && (ch <=? 102)) || ((65 <=? ch) && (ch <=? 70)) || isNumber ch.

(* func (l * lexer) peek() byte: 0 at the end of the source (and for a NUL byte) *)
Definition peek (p : pos) : N := match pr p with [] => 0 | c :: _ => c end.

(* l.source[i:j] for positions i, j of the same source *)
Definition slice (i j : pos) : option (list N) :=
  if (po i <=? po j)%nat && (po j - po i <=? List.length (pr i))%nat then Some (firstn (po j - po i) (pr i)) else None.

(* func (l * lexer) skipComment() bool — r = bytes from l.offset on, o = l.offset *)
Fixpoint skipComment_s (r : list N) (o : nat) : bool * pos :=
  match r with
  | [] => (true, mkpos o [])
  | c :: r1 =>
      if c =? 0 then skipComment_s r1 (S o)             (* peek() = 0 but not at the end: l.offset++ *)
      else if c =? 92 then                               (* '\\': l.offset++ ; switch l.peek() *)
        match r1 with
        | [] => skipComment_s r1 (S o)
        | d :: r2 =>
            if (d =? 92) || (d =? 10) then skipComment_s r2 (S (S o))
            else if d =? 13 then
              match r2 with
              | d2 :: r3 => if d2 =? 10 then skipComment_s r3 (S (S (S o))) else skipComment_s r2 (S (S o))
              | [] => skipComment_s r2 (S (S o))
              end
            else skipComment_s r1 (S o)
        end
      else if (c =? 10) || (c =? 13) then (false, mkpos o r)
      else skipComment_s r1 (S o)
  end.
Definition skipComment (p : pos) : bool * pos := skipComment_s (pr p) (po p).

(* func (l * lexer) next() (byte, bool): returns the byte, whether it is EOF, and the position after it *)
Fixpoint next (fuel : nat) (p : pos) : option (N * bool * pos) :=
  match fuel with
  | O => None
  | S f =>
      match pr p with
      | [] => None                                       (* l.source[l.offset] out of range *)
      | ch :: r =>
          let p1 := mkpos (S (po p)) r in
          if ch =? 35 then                               (* '#' *)
            let '(e, p2) := skipComment p1 in
            if e then Some (0, true, p2) else next f p2
          else if negb (isWhite ch) then Some (ch, false, p1)
          else match r with [] => Some (0, true, p1) | _ => next f p1 end
      end
  end.

(* func (l * lexer) scanIdent() int *)
Fixpoint scanIdent_s (r : list N) (o : nat) : pos :=
  match r with
  | c :: r1 => if isIdent c true then scanIdent_s r1 (S o) else mkpos o r
  | [] => mkpos o []
  end.
Definition scanIdent (p : pos) : pos := scanIdent_s (pr p) (po p).

Definition adv (p : pos) : option pos :=
  match pr p with [] => None | _ :: r => Some (mkpos (S (po p)) r) end.

(* func (l * lexer) scanIdentOrModule() (int, bool): index and l.offset coincide on return *)
Definition scanIdentOrModule (p : pos) : pos * bool :=
  let p1 := scanIdent p in
  match pr p1 with
  | c1 :: c2 :: c3 :: r3 =>
      if (c1 =? 58) && (c2 =? 58) && isIdent c3 false
      then (scanIdent (mkpos (S (S (S (po p1)))) r3), true)
      else (p1, false)
  | _ => (p1, false)
  end.

Inductive nstate := NLead | NFloat | NExpLead | NExp.
Definition is_lead (s : nstate) : bool := match s with NLead => true | _ => false end.
Definition is_explead (s : nstate) : bool := match s with NExpLead => true | _ => false end.
Definition is_mantissa (s : nstate) : bool := match s with NLead | NFloat => true | _ => false end.

(* func (l * lexer) scanNumber(state int) int: (true, p) = returns p.offset, (false, p) = returns -p.offset *)
Fixpoint scanNumber_s (r : list N) (o : nat) (state : nstate) : bool * pos :=
  match r with
  | [] =>
      if is_mantissa state then (true, mkpos o [])
      else if is_explead state then (false, mkpos o []) else (true, mkpos o [])
  | ch :: r1 =>
      if is_mantissa state then
        if isNumber ch then scanNumber_s r1 (S o) state
        else if ch =? 46 then
          if negb (is_lead state) then (false, mkpos (S o) r1) else scanNumber_s r1 (S o) NFloat
        else if (ch =? 101) || (ch =? 69) then
          match r1 with
          | c2 :: r2 => if (c2 =? 45) || (c2 =? 43) then scanNumber_s r2 (S (S o)) NExpLead
                        else scanNumber_s r1 (S o) NExpLead
          | [] => scanNumber_s r1 (S o) NExpLead
          end
        else if isIdent ch false then (false, mkpos (S o) r1)
        else (true, mkpos o r)
      else
        if negb (isNumber ch) then
          if isIdent ch false then (false, mkpos (S o) r1)
          else if is_explead state then (false, mkpos o r) else (true, mkpos o r)
        else scanNumber_s r1 (S o) NExp
  end.
Definition scanNumber (p : pos) (state : nstate) : bool * pos := scanNumber_s (pr p) (po p) state.

(* result of scanString: token kind, new l.offset, new l.token (None = left unchanged), new inString *)
Definition sres := (tk * pos * option (list N) * bool)%type.

Definition TStr (n : string) : tk := KTok n.

(* func (l * lexer) scanString(start int) (int, string) — the loop  for i := l.offset; i < len; i++ ,
   r = bytes from i on.  p0 = l.offset at entry, start = the start argument. *)
Fixpoint scanString_s (r : list N) (i : nat) (start p0 : pos) (instr : bool) : option sres :=
  match r with
  | [] => Some (KTok "tokUnterminatedString", mkpos i [], Some [], instr)
  | ch :: r1 =>
      if ch =? 92 then                                   (* '\\' *)
        match r1 with
        | [] => Some (KTok "tokUnterminatedString", mkpos (S i) [], Some [], instr)   (* i++; i >= len: break *)
        | e :: r2 =>
            if e =? 117 then                             (* 'u': four hex digits *)
              match r2 with
              | h1 :: r3 =>
                  if isHex h1 then
                    match r3 with
                    | h2 :: r4 =>
                        if isHex h2 then
                          match r4 with
                          | h3 :: r5 =>
                              if isHex h3 then
                                match r5 with
                                | h4 :: r6 =>
                                    if isHex h4 then scanString_s r6 (i + 6) start p0 instr
                                    else Some (KTok "tokInvalidEscapeSequence", mkpos (i + 5) r5, Some [92; e; h1; h2; h3], instr)
                                | [] => Some (KTok "tokInvalidEscapeSequence", mkpos (i + 5) r5, Some [92; e; h1; h2; h3], instr)
                                end
                              else Some (KTok "tokInvalidEscapeSequence", mkpos (i + 4) r4, Some [92; e; h1; h2], instr)
                          | [] => Some (KTok "tokInvalidEscapeSequence", mkpos (i + 4) r4, Some [92; e; h1; h2], instr)
                          end
                        else Some (KTok "tokInvalidEscapeSequence", mkpos (i + 3) r3, Some [92; e; h1], instr)
                    | [] => Some (KTok "tokInvalidEscapeSequence", mkpos (i + 3) r3, Some [92; e; h1], instr)
                    end
                  else Some (KTok "tokInvalidEscapeSequence", mkpos (i + 2) r2, Some [92; e], instr)
              | [] => Some (KTok "tokInvalidEscapeSequence", mkpos (i + 2) r2, Some [92; e], instr)
              end
            else if (e =? 34) || (e =? 47) || (e =? 92) || (e =? 98) || (e =? 102) || (e =? 110) || (e =? 114) || (e =? 116)
            then scanString_s r2 (i + 2) start p0 instr
            else if e =? 40 then                         (* '(' *)
              if negb instr then
                match slice start p0 with                (* l.token = l.source[start:l.offset] *)
                | Some t => Some (KTok "tokStringStart", p0, Some t, true)
                | None => None
                end
              else if (i =? po p0)%nat then              (* i == l.offset+1 after the i++ *)
                Some (KTok "tokStringQuery", mkpos (i + 2) r2, Some [92; 40], false)
              else
                match slice start (mkpos i r) with
                | Some t => Some (KTok "tokString", mkpos i r, Some t, instr)
                | None => None
                end
            else Some (KTok "tokInvalidEscapeSequence", mkpos (i + 2) r2, Some [92; e], instr)
        end
      else if ch =? 34 then                              (* double quote *)
        if negb instr then
          match slice start (mkpos (S i) r1) with
          | Some t => Some (KTok "tokString", mkpos (S i) r1, Some t, instr)
          | None => None
          end
        else if (po p0 <? i)%nat then
          match slice start (mkpos i r) with
          | Some t => Some (KTok "tokString", mkpos i r, Some t, instr)
          | None => None
          end
        else Some (KTok "tokStringEnd", mkpos (S i) r1, Some [34], false)
      else scanString_s r1 (S i) start p0 instr
  end.
Definition scanString (start p0 : pos) (instr : bool) : option sres := scanString_s (pr p0) (po p0) start p0 instr.

(* utf8.DecodeRuneInString on the bytes starting with the lead byte: Some n = a valid encoding of n bytes
   (l.token = those n source bytes), None = RuneError with size 1 (l.token = the one source byte) *)
Definition cont (c : N) : bool := (128 <=? c) && (c <=? 191).
Definition utf8_len (s : list N) : option nat :=
  match s with
  | c0 :: r =>
      if c0 <? 128 then Some 1%nat
      else if (194 <=? c0) && (c0 <=? 223) then
        match r with c1 :: _ => if cont c1 then Some 2%nat else None | _ => None end
      else if (224 <=? c0) && (c0 <=? 239) then
        match r with
        | c1 :: c2 :: _ =>
            let lo := if c0 =? 224 then 160 else 128 in
            let hi := if c0 =? 237 then 159 else 191 in
            if (lo <=? c1) && (c1 <=? hi) && cont c2 then Some 3%nat else None
        | _ => None
        end
      else if (240 <=? c0) && (c0 <=? 244) then
        match r with
        | c1 :: c2 :: c3 :: _ =>
            let lo := if c0 =? 240 then 144 else 128 in
            let hi := if c0 =? 244 then 143 else 191 in
            if (lo <=? c1) && (c1 <=? hi) && cont c2 && cont c3 then Some 4%nat else None
        | _ => None
        end
      else None
  | [] => None
  end.

(* the keywords map *)
Fixpoint lookup_kw (t : list N) (kws : list (string * string)) : option string :=
  match kws with
  | [] => None
  | (k, v) :: r => if list_N_eqb t (codes k) then Some v else lookup_kw t r
  end.

Definition fin (l : lexer) (k : tk) (p : pos) (t : option (list N)) (instr : bool) : option (tk * lexer) :=
  Some (k, mklexer p (match t with Some t => t | None => ltoken l end) k instr).

(* token text given as a slice; None (out of range) propagates *)
Definition fin_slice (l : lexer) (k : tk) (i j : pos) : option (tk * lexer) :=
  match slice i j with Some t => fin l k j (Some t) (linstr l) | None => None end.

Definition is_nil {A} (l : list A) : bool := match l with [] => true | _ => false end.

(* the part of Lex after next() returned the byte ch (not eof); p1 = position after ch *)
Definition lex_dispatch (l : lexer) (ch : N) (p1 : pos) : option (tk * lexer) :=
  let pch := mkpos (pred (po p1)) (ch :: pr p1) in              (* l.offset - 1 *)
  let single := fin l (KChar ch) p1 None false in
  if isIdent ch false then
    let '(j, isModule) := scanIdentOrModule p1 in
    match slice pch j with
    | None => None
    | Some t =>
        if isModule then fin l (KTok "tokModuleIdent") j (Some t) false
        else match lookup_kw t keywords with
             | Some k => fin l (KTok k) j (Some t) false
             | None => fin l (KTok "tokIdent") j (Some t) false
             end
    end
  else if isNumber ch then
    let '(ok, j) := scanNumber p1 NLead in
    fin_slice l (if ok then KTok "tokNumber" else KTok "tokInvalid") pch j
  else if ch =? 46 then                                          (* '.' *)
    let c := peek p1 in
    if c =? 46 then
      match adv p1 with Some p2 => fin l (KTok "tokRecurse") p2 (Some [46; 46]) false | None => None end
    else if isIdent c false then fin_slice l (KTok "tokIndex") pch (scanIdent p1)
    else if isNumber c then
      let '(ok, j) := scanNumber p1 NFloat in
      fin_slice l (if ok then KTok "tokNumber" else KTok "tokInvalid") pch j
    else single
  else if ch =? 36 then                                          (* '$' *)
    if isIdent (peek p1) false then
      let '(j, isModule) := scanIdentOrModule p1 in
      fin_slice l (if isModule then KTok "tokModuleVariable" else KTok "tokVariable") pch j
    else single
  else if ch =? 124 then                                         (* '|' *)
    if peek p1 =? 61 then
      match adv p1 with Some p2 => fin l (KTok "tokUpdateOp") p2 (Some [124; 61]) false | None => None end
    else single
  else if ch =? 63 then                                          (* '?' *)
    match pr p1 with
    | c1 :: c2 :: r2 =>
        if (c1 =? 47) && (c2 =? 47)
        then fin l (KTok "tokDestAltOp") (mkpos (S (S (po p1))) r2) (Some [63; 47; 47]) false
        else single
    | _ => single
    end
  else if (ch =? 43) || (ch =? 45) || (ch =? 42) || (ch =? 37) then    (* + - * % *)
    if peek p1 =? 61 then
      match adv p1 with Some p2 => fin l (KTok "tokUpdateOp") p2 (Some [ch; 61]) false | None => None end
    else single
  else if ch =? 47 then                                          (* '/' *)
    let c := peek p1 in
    if c =? 61 then
      match adv p1 with Some p2 => fin l (KTok "tokUpdateOp") p2 (Some [47; 61]) false | None => None end
    else if c =? 47 then
      match adv p1 with
      | Some p2 =>
          if peek p2 =? 61 then
            match adv p2 with Some p3 => fin l (KTok "tokUpdateOp") p3 (Some [47; 47; 61]) false | None => None end
          else fin l (KTok "tokAltOp") p2 (Some [47; 47]) false
      | None => None
      end
    else single
  else if ch =? 61 then                                          (* '=' *)
    if peek p1 =? 61 then
      match adv p1 with Some p2 => fin l (KTok "tokCompareOp") p2 (Some [61; 61]) false | None => None end
    else fin l (KTok "tokUpdateOp") p1 (Some [61]) false
  else if ch =? 33 then                                          (* '!' *)
    if peek p1 =? 61 then
      match adv p1 with Some p2 => fin l (KTok "tokCompareOp") p2 (Some [33; 61]) false | None => None end
    else single
  else if (ch =? 62) || (ch =? 60) then                          (* '>' '<' *)
    if peek p1 =? 61 then
      match adv p1 with Some p2 => fin l (KTok "tokCompareOp") p2 (Some [ch; 61]) false | None => None end
    else fin l (KTok "tokCompareOp") p1 (Some [ch]) false
  else if ch =? 64 then                                          (* '@' *)
    if isIdent (peek p1) true then fin_slice l (KTok "tokFormat") pch (scanIdent p1)
    else single
  else if ch =? 34 then                                          (* double quote *)
    match scanString pch p1 false with
    | Some (k, p, t, instr) => fin l k p t instr
    | None => None
    end
  else if 128 <=? ch then                                        (* ch >= utf8.RuneSelf *)
    match utf8_len (ch :: pr p1) with
    | Some n =>
        let p2 := mkpos (po p1 + (n - 1)) (skipn (n - 1) (pr p1)) in
        if (n - 1 <=? List.length (pr p1))%nat then fin_slice l (KChar ch) pch p2 else None
    | None => fin_slice l (KChar ch) pch p1                        (* RuneError, size 1: the byte itself *)
    end
  else single.

(* func (l * lexer) Lex(lval * yySymType) (tokenType int) *)
Definition Lex (l : lexer) : option (tk * lexer) :=
  let p0 := lp l in
  if is_nil (pr p0) then fin l KEOF p0 (Some []) (linstr l)           (* len(l.source) == l.offset *)
  else if linstr l then
    match scanString p0 p0 true with
    | Some (k, p, t, instr) => fin l k p t instr
    | None => None
    end
  else
    match next (S (List.length (pr p0))) p0 with
    | None => None
    | Some (ch, iseof, p1) => if iseof then fin l KEOF p1 (Some []) false else lex_dispatch l ch p1
    end.

(* func (l * lexer) Error(string): the (Offset, Token) of the ParseError it builds *)
Definition lex_error (l : lexer) : nat * list N :=
  (po (lp l),
   match ltype l with
   | KChar c => if c <? 128 then [c] else ltoken l
   | _ => ltoken l
   end).

(* ------------------------------------------------------------------------------------------------ *)
(* driving the lexer the way the parser does.  The only feedback of the parser is
     stringparts : stringparts tokStringQuery query ')'  { yylex.[lexer].inString = true ... }
   reduced (by a default reduction, without lookahead) right after the ')' that closes the interpolation.
   Up to the first syntax error that ')' is the one matching the tokStringQuery, so the feedback is
   emulated by a stack of open parentheses: true = opened by tokStringQuery, false = opened by '('. *)
Record ltok := mkltok { tkind : tk; ttext : list N; tend : nat; tinstr : bool; terr : nat * list N }.

Definition feedback (k : tk) (stk : list bool) (l : lexer) : list bool * lexer :=
  match k with
  | KTok n => if String.eqb n "tokStringQuery" then (true :: stk, l) else (stk, l)
  | KChar c =>
      if c =? 40 then (false :: stk, l)
      else if c =? 41 then
        match stk with
        | true :: s => (s, mklexer (lp l) (ltoken l) (ltype l) true)
        | false :: s => (s, l)
        | [] => ([], l)
        end
      else (stk, l)
  | KEOF => (stk, l)
  end.

(* goyacc's yylex1 takes every value <= 0 as the end of input: eof (-1) and a NUL byte returned as int(ch) *)
Definition is_end (k : tk) : bool := match k with KEOF => true | KChar c => c =? 0 | KTok _ => false end.

(* F = what the parser does to the lexer between two Lex calls, with its own state S *)
Section Driver.
  Variable S0 : Type.
  Variable F : tk -> S0 -> lexer -> S0 * lexer.
  Fixpoint lex_with (fuel : nat) (l : lexer) (st : S0) : option (list ltok) :=
    match fuel with
    | O => None
    | S f =>
        match Lex l with
        | None => None
        | Some (k, l1) =>
            let t := mkltok k (ltoken l1) (po (lp l1)) (linstr l1) (lex_error l1) in
            if is_end k then Some [t]
            else let '(st', l2) := F k st l1 in
                 match lex_with f l2 st' with Some ts => Some (t :: ts) | None => None end
        end
    end.
End Driver.

Definition lex_all := lex_with (list bool) feedback.

Definition tokenize (src : list N) : option (list ltok) := lex_all (S (List.length src)) (newLexer src) [].
