(* C09c — the decoded value (lval.token) of a string token: `unquote` of lexer.go scanString.

   unquote(src, quote) = json.Unmarshal of the quoted text in which quoteAndEscape has rewritten every raw
   control character (below space) as \u00XX; when the text has no escape and no byte > tilde the text itself is
   returned (the same value: the JSON decoding of plain ASCII is the identity, and a control character
   escaped and decoded again is itself).  So the value is [unquote body] with body = the bytes between the
   quotes (or the bytes of the piece inside an interpolated string), where [unquote] is encoding/json's
   unquoteBytes extended with "a raw control character denotes itself":

     backslash + one of  quote \ / b f n r t      the character
     \uXXXX                       the rune, UTF-8 encoded; a surrogate followed by \uYYYY forming a valid pair
                                  (utf16.DecodeRune) gives the combined rune and consumes both; any other
                                  surrogate gives U+FFFD and consumes only itself
     a valid UTF-8 sequence       itself (utf8.DecodeRune + utf8.EncodeRune)
     an invalid byte              U+FFFD (EF BF BD), one byte consumed
     anything else                itself

   Escapes have been validated by scanString; on a malformed escape (unreachable) the model returns None where
   Go returns tokInvalid.  encoding/json is standard library: this file is its transcription, and the token values
   are compared with the implementation's on every string of the correspondence (they are part of the AST).
   Definitions only. *)
From Coq Require Import List NArith Bool.
From Verif Require Import c09.Lexer.
Import ListNotations.
Local Open Scope list_scope.
Local Open Scope N_scope.

Definition hexv (c : N) : N := if c <=? 57 then c - 48 else if c <=? 70 then c - 55 else c - 87.
Definition u4 (h1 h2 h3 h4 : N) : N := ((hexv h1 * 16 + hexv h2) * 16 + hexv h3) * 16 + hexv h4.

(* utf8.EncodeRune for 0 <= r <= 0x10FFFF, r not a surrogate *)
Definition encode_rune (r : N) : list N :=
  if r <? 128 then [r]
  else if r <? 2048 then [192 + N.shiftr r 6; 128 + N.land r 63]
  else if r <? 65536 then [224 + N.shiftr r 12; 128 + N.land (N.shiftr r 6) 63; 128 + N.land r 63]
  else [240 + N.shiftr r 18; 128 + N.land (N.shiftr r 12) 63; 128 + N.land (N.shiftr r 6) 63; 128 + N.land r 63].

Definition is_surrogate (r : N) : bool := (55296 <=? r) && (r <? 57344).
Definition replacement : list N := [239; 191; 189].

(* getu4: s starts with \uXXXX *)
Definition getu4 (s : list N) : option N :=
  match s with
  | 92 :: 117 :: h1 :: h2 :: h3 :: h4 :: _ =>
      if isHex h1 && isHex h2 && isHex h3 && isHex h4 then Some (u4 h1 h2 h3 h4) else None
  | _ => None
  end.

Fixpoint unquote_loop (fuel : nat) (s : list N) : option (list N) :=
  match fuel with
  | O => None
  | S f =>
      match s with
      | [] => Some []
      | c :: r =>
          if c =? 92 then
            match r with
            | [] => None
            | e :: r2 =>
                let simple (b : N) := option_map (cons b) (unquote_loop f r2) in
                if (e =? 34) || (e =? 92) || (e =? 47) then simple e
                else if e =? 98 then simple 8
                else if e =? 102 then simple 12
                else if e =? 110 then simple 10
                else if e =? 114 then simple 13
                else if e =? 116 then simple 9
                else if e =? 117 then
                  match getu4 s with
                  | None => None
                  | Some rr =>
                      let r6 := skipn 6 s in
                      if is_surrogate rr then
                        match getu4 r6 with
                        | Some rr1 =>
                            if (rr <? 56320) && (56320 <=? rr1) && (rr1 <? 57344) then
                              option_map (app (encode_rune (65536 + (rr - 55296) * 1024 + (rr1 - 56320))))
                                         (unquote_loop f (skipn 6 r6))
                            else option_map (app replacement) (unquote_loop f r6)
                        | None => option_map (app replacement) (unquote_loop f r6)
                        end
                      else option_map (app (encode_rune rr)) (unquote_loop f r6)
                  end
                else None
            end
          else if c <? 128 then option_map (cons c) (unquote_loop f r)
          else
            match utf8_len s with
            | Some n => option_map (app (firstn n s)) (unquote_loop f (skipn n s))
            | None => option_map (app replacement) (unquote_loop f r)
            end
      end
  end.

Definition unquote (body : list N) : option (list N) := unquote_loop (S (List.length body)) body.
