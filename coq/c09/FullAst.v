(* C09c — what sem/Syntax.v leaves out of the AST of query.go, and the transport of whole programs.

   sem/Syntax.v (read-only import) is query.go type for type, except Query.Meta and Import.Meta (module
   metadata: ConstObject / ConstTerm / ConstArray / ConstObjectKeyVal).  They are added here:

     constterm   Go's ConstTerm is a struct with seven fields of which the parser sets exactly one; here a sum
                 with one constructor per field (the image of the parser; ConstTerm.writeTo's if-chain picks the
                 same field for such values: a tokNumber text is never "").
     prog        what gojq.Parse returns: the top-level Query together with its Meta and the Meta of each of its
                 Imports (only the `program` production sets them; nested queries never carry either).

   The number VALUE that Syntax.TNumber carries next to the text is not part of Go's AST (Term.Number is a
   string); C09c always uses [NInt 0] there (the harness prints (i 0)), so AST equality is equality of the
   Go structs.  Definitions only. *)
From Coq Require Import List NArith ZArith Bool String.
From Verif Require Import common.Sexp sem.JV sem.Syntax sem.AstDecode.
Import ListNotations.
Local Open Scope list_scope.

Inductive constterm :=
| CObject (kvs : list (bytes * bytes * constterm))      (* ConstObjectKeyVal{Key, KeyString, Val} *)
| CArray (elems : list constterm)
| CNumber (text : bytes)
| CStr (s : bytes)
| CNull | CTrue | CFalse.

Definition constobject := list (bytes * bytes * constterm).

(* Meta == nil <-> None *)
Record prog := mkprog { pmeta : option constobject; pimeta : list (option constobject); pquery : query }.

Definition num0 : num := NInt 0%Z.

(* ---- names ---------------------------------------------------------------------------------------- *)
Definition op_name (o : operator) : string :=
  match o with
  | OpPipe => "OpPipe" | OpComma => "OpComma" | OpAdd => "OpAdd" | OpSub => "OpSub" | OpMul => "OpMul"
  | OpDiv => "OpDiv" | OpMod => "OpMod" | OpEq => "OpEq" | OpNe => "OpNe" | OpGt => "OpGt" | OpLt => "OpLt"
  | OpGe => "OpGe" | OpLe => "OpLe" | OpAnd => "OpAnd" | OpOr => "OpOr" | OpAlt => "OpAlt"
  | OpAssign => "OpAssign" | OpModify => "OpModify" | OpUpdateAdd => "OpUpdateAdd"
  | OpUpdateSub => "OpUpdateSub" | OpUpdateMul => "OpUpdateMul" | OpUpdateDiv => "OpUpdateDiv"
  | OpUpdateMod => "OpUpdateMod" | OpUpdateAlt => "OpUpdateAlt"
  end%string.

Definition all_operators : list operator :=
  [OpPipe; OpComma; OpAdd; OpSub; OpMul; OpDiv; OpMod; OpEq; OpNe; OpGt; OpLt; OpGe; OpLe; OpAnd; OpOr; OpAlt;
   OpAssign; OpModify; OpUpdateAdd; OpUpdateSub; OpUpdateMul; OpUpdateDiv; OpUpdateMod; OpUpdateAlt].

Definition operator_of_name (s : string) : option operator :=
  find (fun o => String.eqb (op_name o) s) all_operators.

(* ---- encoder: AST -> the s-expression of harness/c09/ast.go (inverse of sem/AstDecode.v) ------------ *)
Definition eb (b : bytes) : sexp := Atom (print_hexs b).
Definition ebool (b : bool) : sexp := if b then A "t" else A "f".
Definition eopt {T} (f : T -> sexp) (o : option T) : sexp := match o with Some x => f x | None => A "_" end.
Definition elist {T} (f : T -> sexp) (l : list T) : sexp := SList (map f l).

Definition op_tag (o : operator) : string :=
  match o with
  | OpPipe => "pipe" | OpComma => "comma" | OpAdd => "add" | OpSub => "sub" | OpMul => "mul"
  | OpDiv => "div" | OpMod => "mod" | OpEq => "eq" | OpNe => "ne" | OpGt => "gt" | OpLt => "lt"
  | OpGe => "ge" | OpLe => "le" | OpAnd => "and" | OpOr => "or" | OpAlt => "alt"
  | OpAssign => "assign" | OpModify => "modify" | OpUpdateAdd => "uadd"
  | OpUpdateSub => "usub" | OpUpdateMul => "umul" | OpUpdateDiv => "udiv"
  | OpUpdateMod => "umod" | OpUpdateAlt => "ualt"
  end%string.
Definition eop (o : operator) : sexp := A (op_tag o).

Definition enum (n : num) : sexp :=
  match n with
  | NInt z => SList [A "i"; Atom (print_Z z)]
  | NFlt f => SList [A "f"; Atom (print_Z (f_bits f))]
  end.

Definition eimport (i : import) : sexp :=
  match i with Import a b c => SList [eb a; eb b; eb c] end.

Fixpoint equery (q : query) : sexp :=
  match q with
  | Query imps fds t l o r pats =>
      SList [A "q"; elist eimport imps; SList (map efuncdef fds); eopt eterm t; eopt equery l; eopt eop o;
             eopt equery r; SList (map epattern pats)]
  end
with efuncdef (f : funcdef) : sexp :=
  match f with FuncDef n args body => SList [eb n; elist eb args; equery body] end
with eterm (t : term) : sexp :=
  match t with
  | Term k sfx =>
      let s := SList (map esuffix sfx) in
      match k with
      | TIdentity => SList [A "identity"; s]
      | TRecurse => SList [A "recurse"; s]
      | TNull => SList [A "null"; s]
      | TTrue => SList [A "true"; s]
      | TFalse => SList [A "false"; s]
      | TIndex i => SList [A "index"; eindex i; s]
      | TFunc f => SList [A "func"; efunc f; s]
      | TObject kvs => SList [A "object"; SList (map ekv kvs); s]
      | TArray q => SList [A "array"; eopt equery q; s]
      | TNumber tx v => SList [A "number"; eb tx; enum v; s]
      | TUnary o t => SList [A "unary"; eop o; eterm t; s]
      | TFormat f str => SList [A "format"; eb f; eopt ejstring str; s]
      | TString str => SList [A "string"; ejstring str; s]
      | TIf c t el e =>
          SList [A "if"; equery c; equery t; SList (map (fun ct => SList [equery (fst ct); equery (snd ct)]) el);
                 eopt equery e; s]
      | TTry b c => SList [A "try"; equery b; eopt equery c; s]
      | TReduce src p st up => SList [A "reduce"; equery src; epattern p; equery st; equery up; s]
      | TForeach src p st up ex => SList [A "foreach"; equery src; epattern p; equery st; equery up; eopt equery ex; s]
      | TLabel id b => SList [A "label"; eb id; equery b; s]
      | TBreak l => SList [A "break"; eb l; s]
      | TQuery q => SList [A "query"; equery q; s]
      end
  end
with eindex (i : index) : sexp :=
  match i with
  | Index n str st en sl => SList [eb n; eopt ejstring str; eopt equery st; eopt equery en; ebool sl]
  end
with efunc (f : func) : sexp :=
  match f with Func n args => SList [eb n; SList (map equery args)] end
with ejstring (s : jstring) : sexp :=
  match s with
  | JString str qs => SList [eb str; match qs with Some l => SList (map equery l) | None => A "_" end]
  end
with ekv (kv : objectkeyval) : sexp :=
  match kv with
  | ObjectKeyVal k ks kq v => SList [eb k; eopt ejstring ks; eopt equery kq; eopt equery v]
  end
with esuffix (s : suffix) : sexp :=
  match s with Suffix i it op => SList [eopt eindex i; ebool it; ebool op] end
with epattern (p : pattern) : sexp :=
  match p with
  | Pattern n arr obj => SList [eb n; SList (map epattern arr); SList (map epatobj obj)]
  end
with epatobj (p : patternobject) : sexp :=
  match p with
  | PatternObject k ks kq v => SList [eb k; eopt ejstring ks; eopt equery kq; eopt epattern v]
  end.

Fixpoint econst (c : constterm) : sexp :=
  match c with
  | CObject kvs => SList [A "o"; SList (map (fun kv => SList [eb (fst (fst kv)); eb (snd (fst kv)); econst (snd kv)]) kvs)]
  | CArray l => SList [A "a"; SList (map econst l)]
  | CNumber t => SList [A "n"; eb t]
  | CStr s => SList [A "s"; eb s]
  | CNull => A "null" | CTrue => A "true" | CFalse => A "false"
  end.
Definition econstobj (o : constobject) : sexp := econst (CObject o).

(* (prog <constobject|_> (<constobject|_> ...) <query>) *)
Definition eprog (p : prog) : sexp :=
  SList [A "prog"; eopt econstobj (pmeta p); elist (eopt econstobj) (pimeta p); equery (pquery p)].

(* ---- decoder of the additions ----------------------------------------------------------------------- *)
Fixpoint dec_const (n : nat) (e : sexp) : option constterm :=
  match n with O => None | S n =>
  match e with
  | Atom _ =>
      if atom_is "null" e then Some CNull else if atom_is "true" e then Some CTrue
      else if atom_is "false" e then Some CFalse else None
  | SList [t; x] =>
      if atom_is "o" t then
        match x with
        | SList l =>
            option_map CObject
              (map_opt (fun kv => match kv with
                                  | SList [k; ks; v] =>
                                      match dec_bytes k, dec_bytes ks, dec_const n v with
                                      | Some k, Some ks, Some v => Some (k, ks, v)
                                      | _, _, _ => None
                                      end
                                  | _ => None end) l)
        | _ => None
        end
      else if atom_is "a" t then
        match x with SList l => option_map CArray (map_opt (dec_const n) l) | _ => None end
      else if atom_is "n" t then option_map CNumber (dec_bytes x)
      else if atom_is "s" t then option_map CStr (dec_bytes x)
      else None
  | _ => None
  end end.

Definition dec_constobj (n : nat) (e : sexp) : option constobject :=
  match dec_const n e with Some (CObject kvs) => Some kvs | _ => None end.

Definition dec_prog (n : nat) (e : sexp) : option prog :=
  match e with
  | SList [t; m; ims; q] =>
      if atom_is "prog" t then
        match dec_opt (dec_constobj n) m, dec_list (dec_opt (dec_constobj n)) ims, dec_query n q with
        | Some m, Some ims, Some q => Some (mkprog m ims q)
        | _, _, _ => None
        end
      else None
  | _ => None
  end.

(* structural equality of transport trees: the judge of "the model's AST is the implementation's AST" *)
Fixpoint sexp_eq (a b : sexp) : bool :=
  match a, b with
  | Atom x, Atom y => list_N_eqb x y
  | SList l, SList m =>
      (fix go (l m : list sexp) : bool :=
         match l, m with
         | [], [] => true
         | x :: l', y :: m' => sexp_eq x y && go l' m'
         | _, _ => false
         end) l m
  | _, _ => false
  end.
