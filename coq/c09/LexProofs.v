(* C08 / C17 — proofs about the lexer model of Lexer.v: for every byte string and every lexer state whose
   position is consistent with the source (and whatever the parser did to inString), a Lex call
   - never takes the model-error branch (no index or slice out of range, no fuel exhaustion),
   - leaves a consistent position with offset <= len(source), strictly larger unless it returns eof,
   - and the (Offset, Token) that lexer.Error would put into a ParseError satisfy
     Offset <= len(source) and Token = the bytes of the source ending at Offset (or empty). *)
From Coq Require Import List NArith Bool String Arith Lia.
From Verif Require Import common.Sexp c09.GrammarTypes gen.GenGrammar c09.Lexer.
Import ListNotations.
Local Open Scope nat_scope.
Local Open Scope list_scope.

Definition vs (src r : list N) (o : nat) : Prop := o <= List.length src /\ r = skipn o src.
Definition vp (src : list N) (p : pos) : Prop := vs src (pr p) (po p).
Definition ends_with (t s : list N) : Prop := exists pre, s = pre ++ t.

Lemma skipn_cons_inv : forall (l : list N) n c r, skipn n l = c :: r -> skipn (S n) l = r /\ n < List.length l.
Proof.
  induction l as [|x l IH]; intros n c r H.
  - destruct n; discriminate.
  - destruct n.
    + simpl in H. inversion H; subst. simpl. split; [reflexivity|lia].
    + simpl in H. apply IH in H. destruct H. split; [exact H|simpl; lia].
Qed.

Lemma vs_step : forall src c r o, vs src (c :: r) o -> vs src r (S o).
Proof.
  intros src c r o [H1 H2]. symmetry in H2. apply skipn_cons_inv in H2. destruct H2. split; [lia|auto].
Qed.

Lemma vs_len : forall src r o, vs src r o -> List.length r = List.length src - o.
Proof. intros src r o [H1 H2]. subst. apply skipn_length. Qed.

Lemma vs_nil : forall src o, vs src [] o -> o = List.length src.
Proof. intros src o H. pose proof (vs_len _ _ _ H). destruct H. simpl in *. lia. Qed.

Lemma firstn_S_skipn : forall (l : list N) n c r, skipn n l = c :: r -> firstn (S n) l = firstn n l ++ [c].
Proof.
  induction l as [|x l IH]; intros n c r H.
  - destruct n; discriminate.
  - destruct n.
    + simpl in H. inversion H; subst. reflexivity.
    + simpl in H. simpl. f_equal. eapply IH; eauto.
Qed.

Lemma vs_app : forall t src r o, vs src (t ++ r) o ->
  vs src r (o + List.length t) /\ firstn (o + List.length t) src = firstn o src ++ t.
Proof.
  induction t as [|c t IH]; intros src r o H.
  - simpl. rewrite Nat.add_0_r, app_nil_r. auto.
  - simpl in H. pose proof (vs_step _ _ _ _ H) as H'. apply IH in H'. destruct H' as [A B].
    simpl List.length. replace (o + S (List.length t)) with (S o + List.length t) by lia.
    split; auto. rewrite B. destruct H as [_ H]. symmetry in H.
    rewrite (firstn_S_skipn _ _ _ _ H). rewrite <- app_assoc. reflexivity.
Qed.

Lemma ends_with_nil : forall s, ends_with [] s.
Proof. intros s. exists s. rewrite app_nil_r. reflexivity. Qed.

Lemma vs_ends : forall t src r o, vs src (t ++ r) o -> ends_with t (firstn (o + List.length t) src).
Proof. intros. apply vs_app in H. destruct H as [_ H]. rewrite H. eexists; eauto. Qed.

Lemma firstn_add_skipn : forall (l : list N) a d, firstn (a + d) l = firstn a l ++ firstn d (skipn a l).
Proof.
  induction l as [|x l IH]; intros a d.
  - rewrite skipn_nil, !firstn_nil. reflexivity.
  - destruct a; simpl; auto. f_equal. apply IH.
Qed.

Lemma slice_ok : forall src i j, vp src i -> vp src j -> po i <= po j ->
  exists t, slice i j = Some t /\ firstn (po j) src = firstn (po i) src ++ t.
Proof.
  intros src i j Hi Hj L. unfold slice.
  pose proof (vs_len _ _ _ Hi) as Li. destruct Hi as [Hi1 Hi2]. destruct Hj as [Hj1 Hj2].
  replace (po i <=? po j) with true by (symmetry; apply Nat.leb_le; lia).
  replace (po j - po i <=? List.length (pr i)) with true by (symmetry; apply Nat.leb_le; lia).
  simpl. eexists. split; [reflexivity|].
  rewrite Hi2. replace (po j) with (po i + (po j - po i)) at 1 by lia. apply firstn_add_skipn.
Qed.

Lemma slice_ends : forall src i j, vp src i -> vp src j -> po i <= po j ->
  exists t, slice i j = Some t /\ ends_with t (firstn (po j) src).
Proof.
  intros. destruct (slice_ok src i j) as [t [A B]]; auto. exists t. split; auto. rewrite B. eexists; eauto.
Qed.

(* ------------------------------------------------------------------------------------------------ *)
(* the scanning loops keep a consistent position and only move forward *)

Lemma scanIdent_s_ok : forall src r o, vs src r o -> vp src (scanIdent_s r o) /\ o <= po (scanIdent_s r o).
Proof.
  intros src r. induction r as [|c r IH]; intros o H; simpl.
  - split; [exact H|simpl; lia].
  - destruct (isIdent c true).
    + apply vs_step in H. apply IH in H. destruct H. split; auto. lia.
    + split; [exact H|simpl; lia].
Qed.

Lemma scanIdent_ok : forall src p, vp src p -> vp src (scanIdent p) /\ po p <= po (scanIdent p).
Proof. intros. apply scanIdent_s_ok. exact H. Qed.

Lemma skipComment_s_ok : forall src n r o, List.length r <= n -> vs src r o ->
  let '(e, p) := skipComment_s r o in
  vp src p /\ o <= po p /\ (e = false -> pr p <> []).
Proof.
  intros src n. induction n as [|n IH]; intros r o L H.
  - destruct r; simpl in L; try lia. simpl. split; [exact H|split; [simpl; lia|discriminate]].
  - destruct r as [|c r1]; simpl.
    + split; [exact H|split; [simpl; lia|discriminate]].
    + simpl in L. pose proof (vs_step _ _ _ _ H) as H1.
      assert (REC1 : let '(e, p) := skipComment_s r1 (S o) in vp src p /\ o <= po p /\ (e = false -> pr p <> [])).
      { specialize (IH r1 (S o) ltac:(lia) H1). destruct (skipComment_s r1 (S o)). intuition lia. }
      destruct (N.eqb c 0); [exact REC1|].
      destruct (N.eqb c 92).
      * destruct r1 as [|d r2]; [exact REC1|].
        simpl in L. pose proof (vs_step _ _ _ _ H1) as H2.
        assert (REC2 : let '(e, p) := skipComment_s r2 (S (S o)) in vp src p /\ o <= po p /\ (e = false -> pr p <> [])).
        { specialize (IH r2 (S (S o)) ltac:(lia) H2). destruct (skipComment_s r2 (S (S o))). intuition lia. }
        destruct (N.eqb d 92 || N.eqb d 10)%bool; [exact REC2|].
        destruct (N.eqb d 13); [|exact REC1].
        destruct r2 as [|d2 r3]; [exact REC2|].
        destruct (N.eqb d2 10); [|exact REC2].
        simpl in L. pose proof (vs_step _ _ _ _ H2) as H3.
        specialize (IH r3 (S (S (S o))) ltac:(lia) H3). destruct (skipComment_s r3 (S (S (S o)))). intuition lia.
      * destruct (N.eqb c 10 || N.eqb c 13)%bool; [|exact REC1].
        split; [exact H|split; [simpl; lia|intros _; simpl; discriminate]].
Qed.

Lemma skipComment_ok : forall src p, vp src p ->
  let '(e, q) := skipComment p in vp src q /\ po p <= po q /\ (e = false -> pr q <> []).
Proof. intros. apply (skipComment_s_ok src (List.length (pr p))); auto. Qed.

(* next: with enough fuel it returns; the byte it returns is the one just before the new position *)
Lemma next_ok : forall src fuel p, vp src p -> pr p <> [] -> List.length (pr p) < fuel ->
  exists ch e p1, next fuel p = Some (ch, e, p1) /\ vp src p1 /\ po p < po p1 /\
                  (e = false -> vp src (mkpos (pred (po p1)) (ch :: pr p1))).
Proof.
  intros src fuel. induction fuel as [|f IH]; intros p V NE L; [lia|].
  simpl. destruct (pr p) as [|ch r] eqn:E; [congruence|].
  assert (V1 : vp src (mkpos (S (po p)) r)).
  { unfold vp in *. rewrite E in V. simpl. eapply vs_step; eauto. }
  simpl in L.
  destruct (N.eqb ch 35).
  - pose proof (skipComment_ok src _ V1) as SC. destruct (skipComment (mkpos (S (po p)) r)) as [e p2].
    destruct SC as (V2 & L2 & NE2). simpl in L2.
    destruct e.
    + exists 0%N, true, p2. split; [reflexivity|split; [exact V2|split; [lia|intros X; discriminate X]]].
    + pose proof (vs_len _ _ _ V2) as LEN2. pose proof (vs_len _ _ _ V1) as LEN1. simpl in LEN1.
      destruct (IH p2 V2 (NE2 eq_refl)) as (c2 & e2 & p3 & A & B & C & D); [lia|].
      exists c2, e2, p3. split; [exact A|split; [exact B|split; [lia|exact D]]].
  - destruct (negb (isWhite ch)).
    + exists ch, false, (mkpos (S (po p)) r). split; [reflexivity|split; [exact V1|split; [simpl; lia|]]].
      intros _. simpl. unfold vp. simpl. unfold vp in V. rewrite E in V. exact V.
    + destruct r as [|c2 r2] eqn:ER.
      * exists 0%N, true, (mkpos (S (po p)) []). split; [reflexivity|split; [exact V1|split; [simpl; lia|intros X; discriminate X]]].
      * destruct (IH (mkpos (S (po p)) (c2 :: r2)) V1) as (c3 & e3 & p3 & A & B & C & D).
        -- simpl. discriminate.
        -- simpl. simpl in L. lia.
        -- exists c3, e3, p3. split; [exact A|split; [exact B|split; [simpl in C; lia|exact D]]].
Qed.

Lemma scanIdentOrModule_ok : forall src p, vp src p ->
  vp src (fst (scanIdentOrModule p)) /\ po p <= po (fst (scanIdentOrModule p)).
Proof.
  intros src p V. unfold scanIdentOrModule.
  destruct (scanIdent_ok src p V) as [V1 L1].
  destruct (pr (scanIdent p)) as [|c1 [|c2 [|c3 r3]]] eqn:E; simpl; auto.
  destruct (N.eqb c1 58 && N.eqb c2 58 && isIdent c3 false)%bool; simpl; auto.
  unfold vp in V1. rewrite E in V1.
  assert (V3 : vp src (mkpos (S (S (S (po (scanIdent p))))) r3)).
  { unfold vp. simpl. repeat apply vs_step in V1. exact V1. }
  destruct (scanIdent_ok src _ V3) as [V4 L4]. simpl in L4. split; auto. lia.
Qed.

Lemma scanNumber_s_ok : forall src n r o st, List.length r <= n -> vs src r o ->
  vp src (snd (scanNumber_s r o st)) /\ o <= po (snd (scanNumber_s r o st)).
Proof.
  intros src n. induction n as [|n IH]; intros r o st L H.
  - destruct r; simpl in L; try lia.
    simpl. destruct (is_mantissa st); [|destruct (is_explead st)]; simpl; split; auto.
  - destruct r as [|ch r1].
    + simpl. destruct (is_mantissa st); [|destruct (is_explead st)]; simpl; split; auto.
    + simpl in L. pose proof (vs_step _ _ _ _ H) as H1.
      assert (REC : forall st', vp src (snd (scanNumber_s r1 (S o) st')) /\ o <= po (snd (scanNumber_s r1 (S o) st'))).
      { intros st'. destruct (IH r1 (S o) st' ltac:(lia) H1). split; auto. lia. }
      assert (HERE : vp src (mkpos o (ch :: r1)) /\ o <= o) by (split; auto).
      assert (NEXT : vp src (mkpos (S o) r1) /\ o <= S o) by (split; auto).
      simpl. destruct (is_mantissa st).
      * destruct (isNumber ch); [apply REC|].
        destruct (N.eqb ch 46).
        -- destruct (negb (is_lead st)); [exact NEXT|apply REC].
        -- destruct (N.eqb ch 101 || N.eqb ch 69)%bool.
           ++ destruct r1 as [|c2 r2]; [apply REC|].
              destruct (N.eqb c2 45 || N.eqb c2 43)%bool; [|apply REC].
              pose proof (vs_step _ _ _ _ H1) as H2. simpl in L.
              destruct (IH r2 (S (S o)) NExpLead ltac:(lia) H2). split; auto. lia.
           ++ destruct (isIdent ch false); [exact NEXT|exact HERE].
      * destruct (negb (isNumber ch)).
        -- destruct (isIdent ch false); [exact NEXT|]. destruct (is_explead st); exact HERE.
        -- apply REC.
Qed.

Lemma scanNumber_ok : forall src p st, vp src p ->
  vp src (snd (scanNumber p st)) /\ po p <= po (snd (scanNumber p st)).
Proof. intros. apply (scanNumber_s_ok src (List.length (pr p))); auto. Qed.

(* ------------------------------------------------------------------------------------------------ *)
(* scanString *)

(* the token lexer.Error reports for a token of kind k when l.token = tok *)
Definition errtok (k : tk) (tok : list N) : list N :=
  match k with KChar c => if (c <? 128)%N then [c] else tok | _ => tok end.

Definition sres_ok (src : list N) (p0 : pos) (instr : bool) (res : sres) : Prop :=
  let '(k, p, t, instr') := res in
  vp src p /\ po p0 <= po p /\ (instr = true -> po p0 < po p) /\ k <> KEOF /\
  match t with Some t => ends_with (errtok k t) (firstn (po p) src) | None => False end.

Lemma mk_ok : forall src p0 instr k t rk i instr', vs src (t ++ rk) i -> po p0 <= i -> t <> [] ->
  sres_ok src p0 instr (KTok k, mkpos (i + List.length t) rk, Some t, instr').
Proof.
  intros. unfold sres_ok. pose proof (vs_app _ _ _ _ H) as [A B].
  assert (0 < List.length t) by (destruct t; simpl; [congruence|lia]).
  split; [exact A|]. simpl. split; [lia|]. split; [intros; lia|]. split; [discriminate|]. rewrite B. eexists; eauto.
Qed.

Lemma scanString_s_ok : forall src start p0 instr, vp src start -> vp src p0 -> po start <= po p0 ->
  forall n r i, List.length r <= n -> vs src r i -> po p0 <= i -> (po p0 < i \/ r <> []) ->
  exists res, scanString_s r i start p0 instr = Some res /\ sres_ok src p0 instr res.
Proof.
  intros src start p0 instr Vs V0 L0 n. induction n as [|n IH]; intros r i L H P Q.
  - destruct r; simpl in L; try lia. simpl. eexists. split; [reflexivity|].
    unfold sres_ok. split; [exact H|]. simpl. split; [lia|]. split; [intros _; destruct Q; [lia|congruence]|]. split; [discriminate|apply ends_with_nil].
  - destruct r as [|ch r1].
    + simpl. eexists. split; [reflexivity|].
      unfold sres_ok. split; [exact H|]. simpl. split; [lia|]. split; [intros _; destruct Q; [lia|congruence]|]. split; [discriminate|apply ends_with_nil].
    + simpl in L. pose proof (vs_step _ _ _ _ H) as H1.
      assert (REC1 : exists res, scanString_s r1 (S i) start p0 instr = Some res /\ sres_ok src p0 instr res).
      { apply IH; auto; lia. }
      simpl. destruct (N.eqb ch 92) eqn:E92.
      * apply N.eqb_eq in E92. subst ch.
        destruct r1 as [|e r2].
        { eexists. split; [reflexivity|]. unfold sres_ok. split; [exact H1|]. simpl. split; [lia|].
          split; [intros; lia|]. split; [discriminate|apply ends_with_nil]. }
        simpl in L. pose proof (vs_step _ _ _ _ H1) as H2.
        assert (REC2 : exists res, scanString_s r2 (i + 2) start p0 instr = Some res /\ sres_ok src p0 instr res).
        { apply IH; try lia. replace (i + 2) with (S (S i)) by lia. exact H2. }
        assert (BAD2 : sres_ok src p0 instr (KTok "tokInvalidEscapeSequence", mkpos (i + 2) r2, Some [92%N; e], instr)).
        { apply (mk_ok src p0 instr _ [92%N; e] r2 i instr); auto. discriminate. }
        destruct (N.eqb e 117) eqn:E117.
        { destruct r2 as [|h1 r3]; [eexists; split; [reflexivity|exact BAD2]|].
          destruct (isHex h1); [|eexists; split; [reflexivity|exact BAD2]].
          assert (BAD3 : sres_ok src p0 instr (KTok "tokInvalidEscapeSequence", mkpos (i + 3) r3, Some [92%N; e; h1], instr)).
          { apply (mk_ok src p0 instr _ [92%N; e; h1] r3 i instr); auto. discriminate. }
          destruct r3 as [|h2 r4]; [eexists; split; [reflexivity|exact BAD3]|].
          destruct (isHex h2); [|eexists; split; [reflexivity|exact BAD3]].
          assert (BAD4 : sres_ok src p0 instr (KTok "tokInvalidEscapeSequence", mkpos (i + 4) r4, Some [92%N; e; h1; h2], instr)).
          { apply (mk_ok src p0 instr _ [92%N; e; h1; h2] r4 i instr); auto. discriminate. }
          destruct r4 as [|h3 r5]; [eexists; split; [reflexivity|exact BAD4]|].
          destruct (isHex h3); [|eexists; split; [reflexivity|exact BAD4]].
          assert (BAD5 : sres_ok src p0 instr (KTok "tokInvalidEscapeSequence", mkpos (i + 5) r5, Some [92%N; e; h1; h2; h3], instr)).
          { apply (mk_ok src p0 instr _ [92%N; e; h1; h2; h3] r5 i instr); auto. discriminate. }
          destruct r5 as [|h4 r6]; [eexists; split; [reflexivity|exact BAD5]|].
          destruct (isHex h4); [|eexists; split; [reflexivity|exact BAD5]].
          simpl in L. apply IH; try lia.
          pose proof (vs_app [92%N; e; h1; h2; h3; h4] src r6 i H) as [A _]. exact A. }
        destruct (N.eqb e 34 || N.eqb e 47 || N.eqb e 92 || N.eqb e 98 || N.eqb e 102 || N.eqb e 110 || N.eqb e 114 || N.eqb e 116)%bool;
          [exact REC2|].
        destruct (N.eqb e 40) eqn:E40; [|eexists; split; [reflexivity|exact BAD2]].
        apply N.eqb_eq in E40. subst e.
        destruct instr; simpl.
        { destruct (i =? po p0) eqn:EI.
          - eexists. split; [reflexivity|].
            apply (mk_ok src p0 true _ [92%N; 40%N] r2 i false); auto. discriminate.
          - apply Nat.eqb_neq in EI.
            destruct (slice_ends src start (mkpos i (92%N :: 40%N :: r2))) as [t [A B]]; auto; [simpl; lia|].
            rewrite A. eexists. split; [reflexivity|]. unfold sres_ok. split; [exact H|]. simpl.
            split; [lia|]. split; [intros; lia|]. split; [discriminate|exact B]. }
        { destruct (slice_ends src start p0) as [t [A B]]; auto.
          rewrite A. eexists. split; [reflexivity|]. unfold sres_ok. split; [exact V0|].
          split; [lia|]. split; [intros X; discriminate X|]. split; [discriminate|exact B]. }
      * destruct (N.eqb ch 34) eqn:E34; [|exact REC1].
        apply N.eqb_eq in E34. subst ch.
        destruct instr; simpl.
        { destruct (po p0 <? i) eqn:EI.
          - apply Nat.ltb_lt in EI.
            destruct (slice_ends src start (mkpos i (34%N :: r1))) as [t [A B]]; auto; [simpl; lia|].
            rewrite A. eexists. split; [reflexivity|]. unfold sres_ok. split; [exact H|]. simpl.
            split; [lia|]. split; [intros; lia|]. split; [discriminate|exact B].
          - eexists. split; [reflexivity|].
            replace (S i) with (i + List.length [34%N]) by (simpl; lia).
            apply (mk_ok src p0 true _ [34%N] r1 i false); auto. discriminate. }
        { destruct (slice_ends src start (mkpos (S i) r1)) as [t [A B]]; auto; [simpl; lia|].
          rewrite A. eexists. split; [reflexivity|]. unfold sres_ok. split; [exact H1|]. simpl.
          split; [lia|]. split; [intros X; discriminate X|]. split; [discriminate|exact B]. }
Qed.

Lemma scanString_ok : forall src start p0 instr, vp src start -> vp src p0 -> po start <= po p0 -> pr p0 <> [] ->
  exists res, scanString start p0 instr = Some res /\ sres_ok src p0 instr res.
Proof.
  intros. unfold scanString. apply (scanString_s_ok src start p0 instr H H0 H1 (List.length (pr p0))); auto.
Qed.

(* ------------------------------------------------------------------------------------------------ *)
(* Lex *)

Definition tok_ok (src : list N) (l : lexer) : Prop :=
  fst (lex_error l) <= List.length src /\ ends_with (snd (lex_error l)) (firstn (fst (lex_error l)) src).

Definition lex_post (src : list N) (l : lexer) (res : option (tk * lexer)) : Prop :=
  exists k l', res = Some (k, l') /\ vp src (lp l') /\ ltype l' = k /\
               po (lp l) <= po (lp l') /\ (k <> KEOF -> po (lp l) < po (lp l')) /\ tok_ok src l'.

Lemma lex_error_errtok : forall p tok k i, lex_error (mklexer p tok k i) = (po p, errtok k tok).
Proof. intros. unfold lex_error, errtok. simpl. reflexivity. Qed.

Lemma fin_gen : forall src l k p t instr, vp src p -> po (lp l) <= po p -> (k <> KEOF -> po (lp l) < po p) ->
  ends_with (errtok k (match t with Some t => t | None => ltoken l end)) (firstn (po p) src) ->
  lex_post src l (fin l k p t instr).
Proof.
  intros src l k p t instr V L1 L2 E. unfold fin. eexists. eexists. split; [reflexivity|].
  simpl. split; [exact V|]. split; [reflexivity|]. split; [exact L1|]. split; [exact L2|].
  unfold tok_ok. rewrite lex_error_errtok. simpl. destruct V as [V1 _]. split; auto.
Qed.

Lemma fin_tok : forall src l n p t instr, vp src p -> po (lp l) < po p -> ends_with t (firstn (po p) src) ->
  lex_post src l (fin l (KTok n) p (Some t) instr).
Proof. intros. apply fin_gen; auto; try lia. Qed.

Lemma fin_eof : forall src l p instr, vp src p -> po (lp l) <= po p -> lex_post src l (fin l KEOF p (Some []) instr).
Proof. intros. apply fin_gen; auto. - congruence. - apply ends_with_nil. Qed.

Lemma ends_at : forall src t r o n, vs src (t ++ r) o -> n = o + List.length t -> ends_with t (firstn n src).
Proof. intros. subst. eapply vs_ends; eauto. Qed.

Lemma vs_at : forall src t r o n, vs src (t ++ r) o -> n = o + List.length t -> vs src r n.
Proof. intros. subst. apply vs_app in H. tauto. Qed.

Lemma fin_single : forall src l ch r o, vs src (ch :: r) o -> po (lp l) <= o -> (ch <? 128)%N = true ->
  lex_post src l (fin l (KChar ch) (mkpos (S o) r) None false).
Proof.
  intros src l ch r o V L C. apply fin_gen.
  - eapply vs_step; eauto.
  - cbn [po]. lia.
  - intros _. cbn [po]. lia.
  - unfold errtok. rewrite C. cbn [po]. apply (ends_at src [ch] r o); auto. simpl. lia.
Qed.

Lemma fin_hi : forall src l ch p t instr, vp src p -> po (lp l) < po p -> (ch <? 128)%N = false ->
  ends_with t (firstn (po p) src) -> lex_post src l (fin l (KChar ch) p (Some t) instr).
Proof. intros. apply fin_gen; auto; try lia. simpl. rewrite H1. exact H2. Qed.

Lemma fin_slice_tok : forall src l n i j, vp src i -> vp src j -> po i <= po j -> po (lp l) < po j ->
  lex_post src l (fin_slice l (KTok n) i j).
Proof.
  intros. unfold fin_slice. destruct (slice_ends src i j) as [t [A B]]; auto. rewrite A. apply fin_tok; auto.
Qed.

Lemma fin_slice_hi : forall src l ch i j, vp src i -> vp src j -> po i <= po j -> po (lp l) < po j ->
  (ch <? 128)%N = false -> lex_post src l (fin_slice l (KChar ch) i j).
Proof.
  intros. unfold fin_slice. destruct (slice_ends src i j) as [t [A B]]; auto. rewrite A. apply fin_hi; auto.
Qed.

Lemma fin_x1 : forall src l n a r o instr, vs src (a :: r) o -> po (lp l) <= o ->
  lex_post src l (fin l (KTok n) (mkpos (S o) r) (Some [a]) instr).
Proof.
  intros. apply fin_tok.
  - eapply vs_step; eauto.
  - cbn [po]. lia.
  - cbn [po]. apply (ends_at src [a] r o); auto. simpl. lia.
Qed.

Lemma fin_x2 : forall src l n a b r o instr, vs src (a :: b :: r) o -> po (lp l) <= o ->
  lex_post src l (fin l (KTok n) (mkpos (S (S o)) r) (Some [a; b]) instr).
Proof.
  intros. apply fin_tok.
  - apply (vs_at src [a; b] r o); auto. simpl. lia.
  - cbn [po]. lia.
  - cbn [po]. apply (ends_at src [a; b] r o); auto. simpl. lia.
Qed.

Lemma fin_x3 : forall src l n a b c r o instr, vs src (a :: b :: c :: r) o -> po (lp l) <= o ->
  lex_post src l (fin l (KTok n) (mkpos (S (S (S o))) r) (Some [a; b; c]) instr).
Proof.
  intros. apply fin_tok.
  - apply (vs_at src [a; b; c] r o); auto. simpl. lia.
  - cbn [po]. lia.
  - cbn [po]. apply (ends_at src [a; b; c] r o); auto. simpl. lia.
Qed.

Lemma utf8_len_bound : forall s n, utf8_len s = Some n -> 1 <= n /\ n <= List.length s.
Proof.
  intros s n H. unfold utf8_len in H.
  destruct s as [|c0 r]; [discriminate|].
  destruct (c0 <? 128)%N; [inversion H; simpl; lia|].
  destruct ((194 <=? c0) && (c0 <=? 223))%N.
  { destruct r as [|c1 r]; [discriminate|]. destruct (cont c1); inversion H; simpl; lia. }
  destruct ((224 <=? c0) && (c0 <=? 239))%N.
  { destruct r as [|c1 [|c2 r]]; try discriminate.
    match type of H with (if ?b then _ else _) = _ => destruct b end; inversion H; simpl; lia. }
  destruct ((240 <=? c0) && (c0 <=? 244))%N; [|discriminate].
  destruct r as [|c1 [|c2 [|c3 r]]]; try discriminate.
  match type of H with (if ?b then _ else _) = _ => destruct b end; inversion H; simpl; lia.
Qed.

Lemma skipn_add : forall (l : list N) o k, skipn k (skipn o l) = skipn (o + k) l.
Proof.
  induction l as [|x l IH]; intros o k.
  - rewrite !skipn_nil. reflexivity.
  - destruct o; simpl; auto.
Qed.

Lemma vs_skipn : forall src r o k, vs src r o -> k <= List.length r -> vs src (skipn k r) (o + k).
Proof.
  intros src r o k [H1 H2] L. pose proof (skipn_length o src) as SL. rewrite <- H2 in SL.
  split; [lia|]. subst r. apply skipn_add.
Qed.

Ltac eqb_case c n H :=
  destruct (N.eqb c n) eqn:H; [apply N.eqb_eq in H|].

Theorem Lex_ok : forall src l, vp src (lp l) -> lex_post src l (Lex l).
Proof.
  intros src l V. unfold Lex.
  destruct (pr (lp l)) as [|c0 r0] eqn:E0.
  { simpl. apply fin_eof; auto. }
  assert (NE : pr (lp l) <> []) by (rewrite E0; discriminate).
  cbn [is_nil].
  destruct (linstr l) eqn:EI.
  { destruct (scanString_ok src (lp l) (lp l) true V V (le_n _) NE) as [[[[k p] t] i'] [A B]].
    rewrite A. destruct B as (B1 & B2 & B3 & B4 & B5). destruct t as [t|]; [|contradiction].
    apply fin_gen; auto. }
  destruct (next_ok src (S (List.length (pr (lp l)))) (lp l) V NE (Nat.lt_succ_diag_r _)) as (ch & e & p1 & A & B & C & D).
  rewrite E0 in A. rewrite A.
  destruct e.
  { apply fin_eof; auto. lia. }
  specialize (D eq_refl). unfold lex_dispatch.
  destruct p1 as [o1 rp]. cbn [po pr] in *. destruct o1 as [|o]; [lia|]. cbn [pred] in D.
  unfold vp in D, B. cbn [po pr] in D, B.
  assert (LO : po (lp l) <= o) by lia.
  cbv zeta. cbn [po pr Init.Nat.pred Nat.pred].
  (* identifiers and keywords *)
  destruct (isIdent ch false) eqn:EID.
  { pose proof (scanIdentOrModule_ok src (mkpos (S o) rp) B) as [SV SL].
    destruct (scanIdentOrModule (mkpos (S o) rp)) as [j im]. cbn [fst po] in SV, SL.
    destruct (slice_ends src (mkpos o (ch :: rp)) j) as [t [SA SB]]; auto; [cbn [po]; lia|].
    rewrite SA. destruct im; [apply fin_tok; auto; lia|].
    destruct (lookup_kw t keywords); apply fin_tok; auto; lia. }
  (* numbers *)
  destruct (isNumber ch) eqn:ENUM.
  { pose proof (scanNumber_ok src (mkpos (S o) rp) NLead B) as [SV SL].
    destruct (scanNumber (mkpos (S o) rp) NLead) as [ok j]. cbn [snd po] in SV, SL.
    destruct ok; apply fin_slice_tok; auto; cbn [po]; lia. }
  assert (SINGLE : (ch <? 128)%N = true -> lex_post src l (fin l (KChar ch) (mkpos (S o) rp) None false)).
  { intros. apply fin_single; auto. }
  eqb_case ch 46%N E.
  { subst ch. unfold peek, adv. cbn [pr po].
    destruct rp as [|c rp']; [apply SINGLE; reflexivity|].
    eqb_case c 46%N E1.
    - subst c. apply fin_x2; auto.
    - destruct (isIdent c false).
      + pose proof (scanIdent_ok src (mkpos (S o) (c :: rp')) B) as [SV SL]. cbn [po] in SL.
        apply fin_slice_tok; auto; cbn [po]; lia.
      + destruct (isNumber c); [|apply SINGLE; reflexivity].
        pose proof (scanNumber_ok src (mkpos (S o) (c :: rp')) NFloat B) as [SV SL].
        destruct (scanNumber (mkpos (S o) (c :: rp')) NFloat) as [ok j]. cbn [snd po] in SV, SL.
        destruct ok; apply fin_slice_tok; auto; cbn [po]; lia. }
  eqb_case ch 36%N E1.
  { subst ch. destruct (isIdent (peek (mkpos (S o) rp)) false); [|apply SINGLE; reflexivity].
    pose proof (scanIdentOrModule_ok src (mkpos (S o) rp) B) as [SV SL].
    destruct (scanIdentOrModule (mkpos (S o) rp)) as [j im]. cbn [fst po] in SV, SL.
    destruct im; apply fin_slice_tok; auto; cbn [po]; lia. }
  eqb_case ch 124%N E2.
  { subst ch. unfold peek, adv. cbn [pr po]. destruct rp as [|c rp']; [apply SINGLE; reflexivity|].
    eqb_case c 61%N E3; [subst c; apply fin_x2; auto|apply SINGLE; reflexivity]. }
  eqb_case ch 63%N E3.
  { subst ch. cbn [pr po]. destruct rp as [|c1 [|c2 rp']]; try (apply SINGLE; reflexivity).
    destruct (N.eqb c1 47) eqn:F1; destruct (N.eqb c2 47) eqn:F2; cbn [andb]; try (apply SINGLE; reflexivity).
    apply N.eqb_eq in F1, F2. subst. apply fin_x3; auto. }
  destruct ((ch =? 43) || (ch =? 45) || (ch =? 42) || (ch =? 37))%N eqn:E4.
  { assert (C128 : (ch <? 128)%N = true).
    { apply orb_prop in E4. destruct E4 as [E4|E4]; [apply orb_prop in E4; destruct E4 as [E4|E4]; [apply orb_prop in E4; destruct E4 as [E4|E4]|]|];
        apply N.eqb_eq in E4; subst ch; reflexivity. }
    unfold peek, adv. cbn [pr po]. destruct rp as [|c rp']; [apply SINGLE; exact C128|].
    eqb_case c 61%N E5; [subst c; apply fin_x2; auto|apply SINGLE; exact C128]. }
  eqb_case ch 47%N E5.
  { subst ch. unfold peek, adv. cbn [pr po]. destruct rp as [|c rp']; [apply SINGLE; reflexivity|].
    eqb_case c 61%N E6; [subst c; apply fin_x2; auto|].
    eqb_case c 47%N E7; [subst c|apply SINGLE; reflexivity].
    cbn [pr po]. destruct rp' as [|c2 rp'']; [apply fin_x2; auto|].
    eqb_case c2 61%N E8; [subst c2; apply fin_x3; auto|apply fin_x2; auto]. }
  eqb_case ch 61%N E6.
  { subst ch. unfold peek, adv. cbn [pr po]. destruct rp as [|c rp']; [apply fin_x1; auto|].
    eqb_case c 61%N E7; [subst c; apply fin_x2; auto|apply fin_x1; auto]. }
  eqb_case ch 33%N E7.
  { subst ch. unfold peek, adv. cbn [pr po]. destruct rp as [|c rp']; [apply SINGLE; reflexivity|].
    eqb_case c 61%N E8; [subst c; apply fin_x2; auto|apply SINGLE; reflexivity]. }
  destruct ((ch =? 62) || (ch =? 60))%N eqn:E8.
  { unfold peek, adv. cbn [pr po]. destruct rp as [|c rp']; [apply fin_x1; auto|].
    eqb_case c 61%N E9; [subst c; apply fin_x2; auto|apply fin_x1; auto]. }
  eqb_case ch 64%N E9.
  { subst ch. destruct (isIdent (peek (mkpos (S o) rp)) true); [|apply SINGLE; reflexivity].
    pose proof (scanIdent_ok src (mkpos (S o) rp) B) as [SV SL]. cbn [po] in SL.
    apply fin_slice_tok; auto; cbn [po]; lia. }
  eqb_case ch 34%N E10.
  { subst ch.
    destruct rp as [|c rp'].
    - (* the quote is the last byte: scanString on the empty rest *)
      unfold scanString. cbn [pr po scanString_s].
      apply fin_tok; [exact B|cbn [po]; lia|apply ends_with_nil].
    - destruct (scanString_ok src (mkpos o (34%N :: c :: rp')) (mkpos (S o) (c :: rp')) false D B) as [[[[k p] t] i'] [SA SB]];
        [cbn [po]; lia|cbn [pr]; discriminate|].
      rewrite SA. destruct SB as (B1 & B2 & B3 & B4 & B5). destruct t as [t|]; [|contradiction].
      cbn [po] in B2. apply fin_gen; auto; try lia. }
  destruct (128 <=? ch)%N eqn:E11.
  { assert (C128 : (ch <? 128)%N = false) by (apply N.ltb_ge; apply N.leb_le; exact E11).
    destruct (utf8_len (ch :: rp)) as [n|] eqn:EU.
    - apply utf8_len_bound in EU. destruct EU as [U1 U2]. simpl in U2.
      replace (n - 1 <=? List.length rp) with true by (symmetry; apply Nat.leb_le; lia).
      apply fin_slice_hi; auto; cbn [po]; try lia.
      unfold vp. cbn [po pr]. apply vs_skipn; auto. lia.
    - apply fin_slice_hi; auto; cbn [po]; lia. }
  apply SINGLE. apply N.ltb_lt. apply N.leb_gt. exact E11.
Qed.

(* ------------------------------------------------------------------------------------------------ *)
(* the whole token stream, whatever the parser does to the lexer between two calls (it may only touch
   inString: the position is left alone) *)

Definition ltok_ok (src : list N) (t : ltok) : Prop :=
  tend t <= List.length src /\ fst (terr t) <= List.length src /\
  ends_with (snd (terr t)) (firstn (fst (terr t)) src).

Section Total.
  Variable S0 : Type.
  Variable F : tk -> S0 -> lexer -> S0 * lexer.
  Hypothesis F_pos : forall k s l, lp (snd (F k s l)) = lp l.

  Lemma lex_with_total : forall src f l st, vp src (lp l) -> List.length src - po (lp l) < f ->
    exists ts, lex_with S0 F f l st = Some ts /\ Forall (ltok_ok src) ts /\
               exists ts' t, ts = ts' ++ [t] /\ is_end (tkind t) = true /\
                             Forall (fun x => is_end (tkind x) = false) ts'.
  Proof.
    intros src f. induction f as [|f IH]; intros l st V L; [lia|].
    simpl. destruct (Lex_ok src l V) as (k & l1 & A & V1 & T1 & L1 & L2 & K1).
    rewrite A.
    assert (OK1 : ltok_ok src (mkltok k (ltoken l1) (po (lp l1)) (linstr l1) (lex_error l1))).
    { unfold ltok_ok. simpl. destruct V1 as [V1 _]. destruct K1 as [K1 K2]. auto. }
    destruct (is_end k) eqn:EK.
    - eexists. split; [reflexivity|]. split; [constructor; auto|].
      exists [], (mkltok k (ltoken l1) (po (lp l1)) (linstr l1) (lex_error l1)).
      split; [reflexivity|]. split; [exact EK|constructor].
    - assert (NK : k <> KEOF) by (intros X; rewrite X in EK; simpl in EK; discriminate EK).
      specialize (L2 NK).
      pose proof (F_pos k st l1) as FP. destruct (F k st l1) as [st' l2]. simpl in FP.
      assert (V2 : vp src (lp l2)) by (rewrite FP; exact V1).
      destruct V1 as [V1a _].
      destruct (IH l2 st' V2) as (ts & B & C & ts' & t & D1 & D2 & D3); [rewrite FP; lia|].
      rewrite B. eexists. split; [reflexivity|]. split; [constructor; auto|].
      exists (mkltok k (ltoken l1) (po (lp l1)) (linstr l1) (lex_error l1) :: ts'), t.
      split; [rewrite D1; reflexivity|]. split; [exact D2|]. constructor; auto.
  Qed.
End Total.

Lemma feedback_pos : forall k s l, lp (snd (feedback k s l)) = lp l.
Proof.
  intros k s l. unfold feedback. destruct k as [|c|n]; simpl; auto.
  - destruct (N.eqb c 40); simpl; auto. destruct (N.eqb c 41); simpl; auto.
    destruct s as [|[|] s]; simpl; auto.
  - destruct (String.eqb n "tokStringQuery"); simpl; auto.
Qed.

Lemma newLexer_vp : forall src, vp src (lp (newLexer src)).
Proof. intros src. unfold vp, vs. simpl. split; [lia|reflexivity]. Qed.

(* C08: for EVERY byte string and EVERY parser behaviour, lexing terminates within len(src)+1 Lex calls, never
   takes an out-of-range branch, ends with an end-of-input token, and every token carries an in-range offset and
   an error token that is the text of the source ending there *)
Theorem lex_total : forall (S0 : Type) (F : tk -> S0 -> lexer -> S0 * lexer) (st : S0),
  (forall k s l, lp (snd (F k s l)) = lp l) ->
  forall src, exists ts, lex_with S0 F (S (List.length src)) (newLexer src) st = Some ts /\
    Forall (ltok_ok src) ts /\
    exists ts' t, ts = ts' ++ [t] /\ is_end (tkind t) = true /\ Forall (fun x => is_end (tkind x) = false) ts'.
Proof.
  intros S0 F st FP src. apply lex_with_total; auto.
  - apply newLexer_vp.
  - simpl. lia.
Qed.

Theorem tokenize_total : forall src, exists ts, tokenize src = Some ts /\ Forall (ltok_ok src) ts.
Proof.
  intros src. destruct (lex_total (list bool) feedback [] feedback_pos src) as (ts & A & B & _).
  exists ts. split; auto.
Qed.

(* C17: one Lex call from any consistent state *)
Theorem lex_offset : forall src l, vp src (lp l) ->
  exists k l', Lex l = Some (k, l') /\ vp src (lp l') /\
    po (lp l) <= po (lp l') /\ (k <> KEOF -> po (lp l) < po (lp l')) /\
    fst (lex_error l') = po (lp l') /\ fst (lex_error l') <= List.length src /\
    exists pre, firstn (fst (lex_error l')) src = pre ++ snd (lex_error l').
Proof.
  intros src l V. destruct (Lex_ok src l V) as (k & l' & A & B & C & D & E & [F1 F2]).
  exists k, l'. repeat (split; auto).
Qed.
