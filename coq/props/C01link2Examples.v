(* C01link2Examples — further non-vacuity examples for coq/props/C01link2.v, by vm_compute: the VM of c01vm2 on the final
   compiled code, c01vm2's den and Sem.observe on the translated program agree (ex_ok).  Separate from C01link2.v so that
   the props file, which is recompiled on every run to print its assumptions, stays small. *)
From Coq Require Import String.
From Coq Require Import List ZArith NArith.
From Verif Require Import common.Sexp sem.JV sem.Syntax sem.Natives sem.Sem sem.DenLink sem.DenLink2 sem.DenLink2All
  sem.VmLink2Def sem.VmLink2Rel sem.VmLink2 sem.ObjLink2 gen.GenBuiltins props.C01link2.
From Verif Require c01vm2.Syntax c01vm2.VM c01vm2.Compile c01vm2.Den.
Import ListNotations.

(* object patterns for both values of rs:  . as {a: $x} | $x  on an object and on an array (the error text of gojq) *)
Example C01link2_ex_destructure_obj :
  let q := S.QBindP S.QId (S.PObj (S.OKey (codes "a") (S.PVar 0%N) S.ONil)) (S.QVar 0%N) in
  ex_ok false q (S.VObj [(codes "a", S.VNum 7)]) [VInt 7] EndNormal /\
  ex_ok false q (S.VArr [S.VNum 1]) [] (EndError EExpectedObject (Some (VStr (codes "expected an object but got: array ([1])")))).
Proof. vm_compute. repeat split; try reflexivity. right; reflexivity. Qed.

(* [.[(0,1)], .[1:length]] and .[:(2|.)] with an absent bound *)
Example C01link2_ex_index_slice :
  let q := S.QComma (S.QArray (S.QComma (S.QIndexQ S.QId (S.QComma (ex_num 0) (ex_num 1))) (S.QSlice S.QId (ex_num 1) (S.QCall0 S.F0Length))))
                    (S.QSlice S.QId (S.QConst S.VNull) (S.QPipe (ex_num 2) S.QId)) in
  ex_ok false q (S.VArr [S.VNum 10; S.VNum 20; S.VNum 30])
    [VArr [VInt 10; VInt 20; VArr [VInt 20; VInt 30]]; VArr [VInt 10; VInt 20]] EndNormal.
Proof. vm_compute. repeat split; reflexivity. Qed.

(* string interpolation "a\(.[])b" as compiler.go desugars it, an operator with generators on both sides (right operand
   = outer loop), a caught type error of + whose message becomes data *)
Example C01link2_ex_interp_binop :
  let q := S.QComma (S.QBinop S.OAdd (S.QBinop S.OAdd (ex_str "a") (S.QPipe (S.QIter S.QId) (S.QCall0 S.F0ToString))) (ex_str "b"))
            (S.QComma (S.QArray (S.QBinop S.OSub (S.QIter S.QId) (S.QIter S.QId)))
                      (S.QTry (S.QBinop S.OAdd S.QId (ex_str "s")) (Some S.QId))) in
  ex_ok false q (S.VArr [S.VNum 1; S.VNum 10])
    [VStr (codes "a1b"); VStr (codes "a10b"); VArr [VInt 0; VInt 9; VInt (-9); VInt 0];
     VStr (codes "cannot add: array ([1,10]) and string (""s"")")] EndNormal.
Proof. vm_compute. repeat split; reflexivity. Qed.

(* constant keys of every form: .[-1], .[1:], .[:-1] (a negative literal is a unary minus in gojq's AST), ."" *)
Example C01link2_ex_const_keys :
  let sl a b := S.VObj [(codes "end", b); (codes "start", a)] in
  let q := S.QArray (S.QComma (S.QIndex S.QId (S.VNum (-1))) (S.QComma (S.QIndex S.QId (sl (S.VNum 1) S.VNull))
             (S.QComma (S.QIndex S.QId (sl S.VNull (S.VNum (-1)))) (S.QTry (S.QIndex S.QId (S.VStr [])) (Some (ex_num 0)))))) in
  ex_ok false q (S.VArr [S.VNum 10; S.VNum 20; S.VNum 30])
    [VArr [VInt 30; VArr [VInt 20; VInt 30]; VArr [VInt 10; VInt 20]; VInt 0]] EndNormal.
Proof. vm_compute. repeat split; reflexivity. Qed.

(* constant arrays (one opconst in the code): [1, [2, "x"], []] | .[1] , length *)
Example C01link2_ex_const_array :
  let c := S.VArr [S.VNum 1; S.VArr [S.VNum 2; S.VStr (codes "x")]; S.VArr []] in
  let q := S.QPipe (S.QConst c) (S.QComma (S.QIndex S.QId (S.VNum 1)) (S.QCall0 S.F0Length)) in
  ex_ok false q S.VNull [VArr [VInt 2; VStr (codes "x")]; VInt 3] EndNormal.
Proof. vm_compute. repeat split; reflexivity. Qed.

(* label / break through an object construction, reduce / foreach with a destructured source element *)
Example C01link2_ex_mixed :
  let q := S.QArray (S.QLabel 0%N (S.QObject [(inl (codes "x"), S.QComma (ex_num 1) (S.QComma (S.QBreak 0%N) (ex_num 3)))])) in
  let q2 := S.QReduce (S.QIter S.QId) (S.PVar 0%N) (ex_num 0)
              (S.QBindP (S.QVar 0%N) (S.PObj (S.OKey (codes "a") (S.PVar 1%N) S.ONil)) (S.QBinop S.OAdd S.QId (S.QVar 1%N))) in
  ex_ok false q S.VNull [VArr [VObj [(codes "x", VInt 1)]]] EndNormal /\
  ex_ok false q2 (S.VArr [S.VObj [(codes "a", S.VNum 1)]; S.VObj [(codes "a", S.VNum 5)]]) [VInt 6] EndNormal.
Proof. vm_compute. repeat split; reflexivity. Qed.
