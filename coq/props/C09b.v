(* C09b — "binds as in jq" as a statement about the ACTUAL goyacc tables of the current parser.go, inside Coq.
   [lr_parse] (coq/c09/LRTie.v) runs c08/LR.v's transcription of yyParserImpl.Parse ([LR.step], used unchanged)
   over the tables translated from parser.go (coq/gen/GenTables.v), decorated with a value stack whose semantic
   actions are those of parser.go.y for the operator sublanguage (classified by the translator: GenGrammar.
   productions) and fed with the token numbers of parser.go (GenGrammar.tok_num).  [spec_parse] is the operator-
   precedence parser of C09_parse_iff with the table computed from parser.go.y.
   All statements are FINITE, the bound being the quantification over the 24-element type [binop] (checked by
   vm_compute in coq/c09/LRTieProofs.v: 24 + 3*576 + 13824 + 6561 driver runs). *)
From Coq Require Import List NArith ZArith Bool String.
From Verif Require Import common.Sexp c09.GrammarTypes gen.GenGrammar gen.GenTables c08.LR c09.Ops c09.OpsInst c09.LRTie c09.LRTieProofs.
Import ListNotations.

(* the production list the semantic actions are indexed by is the grammar the tables were generated from:
   same number of rules, same right-hand-side lengths (yyR2), same left-hand-side partition (yyR1) *)
Theorem C09b_productions_match_tables : productions_match_tables = true.
Proof. exact productions_ok. Qed.
Print Assumptions C09b_productions_match_tables.

(* one operator: 24 strings *)
Theorem C09b_lr_one : forall o1 : binop,
  lr_parse [tA; TOp o1; tB] = Some (spec_parse [tA; TOp o1; tB]).
Proof. exact lr1. Qed.
Print Assumptions C09b_lr_one.

(* two operators, plain and with either pair parenthesised: 3 * 576 strings *)
Theorem C09b_lr_two : forall o1 o2 : binop,
  lr_parse [tA; TOp o1; tB; TOp o2; tC] = Some (spec_parse [tA; TOp o1; tB; TOp o2; tC]) /\
  lr_parse [TLP; tA; TOp o1; tB; TRP; TOp o2; tC] = Some (spec_parse [TLP; tA; TOp o1; tB; TRP; TOp o2; tC]) /\
  lr_parse [tA; TOp o1; TLP; tB; TOp o2; tC; TRP] = Some (spec_parse [tA; TOp o1; TLP; tB; TOp o2; tC; TRP]).
Proof. exact lr2. Qed.
Print Assumptions C09b_lr_two.

(* three operators: 13824 strings; the automaton returns the spec parser's tree or both reject *)
Theorem C09b_lr_three : forall o1 o2 o3 : binop,
  lr_parse [tA; TOp o1; tB; TOp o2; tC; TOp o3; tD] = Some (spec_parse [tA; TOp o1; tB; TOp o2; tC; TOp o3; tD]).
Proof. exact lr3. Qed.
Print Assumptions C09b_lr_three.

(* in jq's terms: the automaton of parser.go groups every operator pair as jq's table says (left / right /
   syntax error for a non-associative chain) *)
Theorem C09b_lr_binds_as_jq : forall o1 o2 : binop,
  lr_parse [tA; TOp o1; tB; TOp o2; tC] =
  Some (match cmp jq_lvl jq_asc o1 o2 with
        | Reduce => Some (Bin o2 (Bin o1 (Atom [97%N]) (Atom [98%N])) (Atom [99%N]))
        | Shift => Some (Bin o1 (Atom [97%N]) (Bin o2 (Atom [98%N]) (Atom [99%N])))
        | Err => None
        end).
Proof. exact lr_prec_jq. Qed.
Print Assumptions C09b_lr_binds_as_jq.

(* with C09_parse_iff: on these strings the automaton accepts exactly the precedence-respecting bracketing *)
Theorem C09b_lr_three_iff : forall (o1 o2 o3 : binop) (e : expr (list N)),
  lr_parse [tA; TOp o1; tB; TOp o2; tC; TOp o3; tD] = Some (Some e) <->
  (wf (list N) gen_lvl gen_asc e /\ toks (list N) e = [tA; TOp o1; tB; TOp o2; tC; TOp o3; tD]).
Proof. exact lr3_iff. Qed.
Print Assumptions C09b_lr_three_iff.

(* four operators, one representative per precedence level: 9^4 = 6561 strings *)
Theorem C09b_lr_four_levels : forall o1 o2 o3 o4 : binop,
  In o1 level_reps -> In o2 level_reps -> In o3 level_reps -> In o4 level_reps ->
  lr_parse [tA; TOp o1; tB; TOp o2; tC; TOp o3; tD; TOp o4; tE] =
  Some (spec_parse [tA; TOp o1; tB; TOp o2; tC; TOp o3; tD; TOp o4; tE]).
Proof. exact lr4. Qed.
Print Assumptions C09b_lr_four_levels.

(* deeper: all nine levels in one expression, and nested parentheses *)
Example C09b_deeper :
  let a n := TAtom [n] in let A n := Atom [n] in
  lr_parse [a 97%N; TOp OpPipe; a 98%N; TOp OpComma; a 99%N; TOp OpAlt; a 100%N; TOp OpAssign; a 101%N; TOp OpOr;
            a 102%N; TOp OpAnd; a 103%N; TOp OpEq; a 104%N; TOp OpAdd; a 105%N; TOp OpMul; a 106%N]
  = Some (Some (Bin OpPipe (A 97%N) (Bin OpComma (A 98%N) (Bin OpAlt (A 99%N) (Bin OpAssign (A 100%N)
       (Bin OpOr (A 101%N) (Bin OpAnd (A 102%N) (Bin OpEq (A 103%N) (Bin OpAdd (A 104%N) (Bin OpMul (A 105%N) (A 106%N)))))))))))
  /\ lr_parse [TLP; TLP; a 97%N; TOp OpMul; a 98%N; TRP; TOp OpSub; a 99%N; TOp OpSub; TLP; a 100%N; TOp OpComma; a 101%N; TRP; TRP; TOp OpDiv; a 102%N]
  = Some (spec_parse [TLP; TLP; a 97%N; TOp OpMul; a 98%N; TRP; TOp OpSub; a 99%N; TOp OpSub; TLP; a 100%N; TOp OpComma; a 101%N; TRP; TRP; TOp OpDiv; a 102%N])
  /\ lr_parse [a 97%N; TOp OpLt; a 98%N; TOp OpAdd; a 99%N; TOp OpLt; a 100%N] = Some None.
Proof. vm_compute. repeat split; reflexivity. Qed.
