(* C08 (integration of C09, C08, C03, C12) — the per-stage no-panic theorems side by side, seams explicit.
   Statements only; closed by [exact] of coq/integ/NoCrash.v (read its header for what is assumed at each seam).

   Stages and their models:  Lex (c09/Lexer.v)  ->  goyacc driver over the translated tables (c08/LR.v)  ->
   [semantic actions, Compile, VM: not modelled]  ->  natives (c03/Dispatch.v)  ->  encoder (c12/Encode.v, c08/Preview.v);
   command line: c08/Flags.v.
   [tok_num] is the numbering of the named goyacc tokens (the `const tokXxx = 57346+i` block of parser.go): it is not
   available in Coq, so every statement is for ALL numberings; [tk_code tok_num k] is the Go int that Lex returns for
   the token kind k (eof = -1, int(ch), or the constant). *)
From Coq Require Import List ZArith NArith Bool String.
From Verif Require gen.GenTables c09.Lexer c08.LR c08.LRCheck.
From Verif Require Import integ.NoCrash.
From Verif Require c08.Flags c08.Utf8Dec c08.Preview c12.Encode c12.JsonRef integ.EncodeStringAgree.
From Verif Require props.C08.
Import ListNotations.

(* every code the lexer model can hand over is in the driver's token range, for every numbering *)
Theorem C08_lexer_codes_in_driver_range : forall tok_num k,
  exists t, LR.yylex1 LR.the_tables (tk_code tok_num k) = LR.Ok t /\ In t (LRCheck.all_tokens LR.the_tables).
Proof. exact code_in_token_range. Qed.
Print Assumptions C08_lexer_codes_in_driver_range.

(* stages 1+2 composed: for EVERY byte string, EVERY parser feedback that leaves the lexer position alone and EVERY
   token numbering: lexing returns within len(src)+1 calls without an out-of-range access, every token carries an
   in-range Offset, the stream ends with one end-of-input token, every code is in the driver's token range, and the
   LR driver over the tables of the current parser.go fed these codes never reaches a Panic site *)
Theorem C08_lex_then_parse_no_panic : forall tok_num, lex_parse_no_panic tok_num.
Proof. exact lex_then_parse. Qed.
Print Assumptions C08_lex_then_parse_no_panic.

(* all stage interfaces: lexer+driver, flag parser, natives dispatch, error previews, encoder slicing, encoder
   output accepted by the reference JSON reader *)
Theorem C08_pipeline_no_panic : forall tok_num, pipeline_no_panic tok_num.
Proof. exact pipeline_never_panics. Qed.
Print Assumptions C08_pipeline_no_panic.

(* [C08_full] of props/C08.v lists what the full property needs, as five parameters.  Two of them are now
   theorems (lexer totality = C08_lex_total, natives totality = C03_dispatch_total); what REMAINS ASSUMED is
   exactly: compile_total (compiler well-scopedness), vm_total (VM stack discipline) and cli_status_total (the
   command's status mapping, C15) — and the seams described in coq/integ/NoCrash.v. *)
Theorem C08_full_modulo_compiler_vm_cli : forall compile_total vm_total cli_status_total : Prop,
  compile_total -> vm_total -> cli_status_total ->
  C08.C08_full
    (forall (S0 : Type) (F : Lexer.tk -> S0 -> Lexer.lexer -> S0 * Lexer.lexer) (st : S0),
       (forall k s l, Lexer.lp (snd (F k s l)) = Lexer.lp l) ->
       forall src : list N, exists ts : list Lexer.ltok,
         Lexer.lex_with S0 F (S (List.length src)) (Lexer.newLexer src) st = Some ts /\
         Forall (fun t => (Lexer.tend t <= List.length src)%nat /\ (fst (Lexer.terr t) <= List.length src)%nat /\
                          exists pre, firstn (fst (Lexer.terr t)) src = pre ++ snd (Lexer.terr t)) ts /\
         exists ts' t, ts = ts' ++ [t] /\ Lexer.is_end (Lexer.tkind t) = true /\
                       Forall (fun x => Lexer.is_end (Lexer.tkind x) = false) ts')
    (forall pf ff l1 l2 l3 jd lp fuel name v args o,
       Wf.hole_free v = true -> NoPanic3.arity_ok name (List.length args) = true ->
       Dispatch.call_native pf ff l1 l2 l3 jd lp fuel name v args = Some o -> Wf.np o)
    vm_total compile_total cli_status_total.
Proof.
  exact (fun ct vt st Hc Hv Hs =>
    conj LexProofs.lex_total
   (conj LRInstance.parse_driver_total
   (conj Hc (conj Hv (conj DispatchTotal.dispatch_total
   (conj PreviewProofs.type_error_preview_total
   (conj (FlagsProofs.parse_flags_total GenFlagTable.flag_table) Hs))))))).
Qed.
Print Assumptions C08_full_modulo_compiler_vm_cli.

(* the two independent models of encoder.go encodeString — c08/Preview.v (Go ints, explicit slicing, Panic sites, fuel)
   and c12/Encode.v (lists) with their two different UTF-8 decoder models — compute the same bytes for EVERY byte string:
   the C08 "never slices out of range, terminates" and the C12 "JSON string literal / valid UTF-8 / reads back as sanitize s"
   theorems are about the same function *)
Theorem C08_C12_encode_string_models_agree : forall s : list N, Forall (fun b => (b < 256)%N) s ->
  Preview.enc_string Utf8Dec.decode_rune s = LR.Ok (Encode.encode_string s).
Proof. exact EncodeStringAgree.enc_string_agree. Qed.
Print Assumptions C08_C12_encode_string_models_agree.

(* ... and so are the two UTF-8 decoder models, through Unicode Table 3-7 *)
Theorem C08_decoder_is_table_3_7 : forall b0 r, (128 <= b0)%N ->
  Utf8Dec.decode_rune (b0 :: r) =
  match JsonRef.utf8_step (b0 :: r) with None => (false, 1%nat) | Some (_, n) => (true, n) end.
Proof. exact DecoderAgree.c08_dec_step. Qed.
Print Assumptions C08_decoder_is_table_3_7.

(* non-vacuity: `.foo|bar` is lexed to tokIndex '|' tokIdent eof; with the real constants for the two named kinds
   involved the driver accepts, with a deliberately wrong numbering (every name -> 1) it rejects — and does not panic *)
Example C08b_nonvacuous :
  let real := fun n : string => if String.eqb n "tokIndex" then 57376%Z else if String.eqb n "tokIdent" then 57371%Z else 0%Z in
  option_map (map (fun t => tk_code real (Lexer.tkind t))) (Lexer.tokenize (Sexp.codes ".foo|bar"))
    = Some [57376; 124; 57371; -1]%Z /\
  (exists c, LR.run LR.the_tables 100 (LR.init [57376; 124; 57371; -1]%Z) = LR.OAccept c) /\
  (exists c, LR.run LR.the_tables 100 (LR.init [1; 124; 1; -1]%Z) = LR.OReject c).
Proof. vm_compute. repeat split; eexists; reflexivity. Qed.
