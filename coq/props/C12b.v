(* C12 (integration with C15) — the two models of what the command prints for one value agree.
   Statements only; closed by [exact] of coq/integ/RenderAgree.v.
   C15 (c15/Cli.v) renders by a layout pass [reindent] over gojq.Marshal's compact text and lets its run loop
   write the terminator; C12 (c12/CliEncode.v) models the encoder itself and [cli_print].  In both models the
   terminator is written after marshal, by the loop.  C15 has no colour: the agreement is for monochrome output. *)
From Coq Require Import ZArith List NArith.
From Verif Require c15.Cli.
From Verif Require Import common.Sexp c12.JsonRef c12.Encode c12.CliEncode c12.CliPure c12.NumProofs c12.ValueProofs
  c12.RawProofs integ.RenderAgree.
Import ListNotations.
Open Scope N_scope.

(* the layout pass applied to the library encoder's text is the command's plain text, at every level *)
Theorem C12b_reindent_is_pp : forall fmt_float,
  (forall f e, finite f -> fnum_shape e (fmt_float f e) = true) ->
  forall o, indenting o = true -> forall v, wfv v ->
  forall lvl dz rest, (0 <= dz)%Z -> Z.to_nat dz = (lvl * Z.to_nat (o_indent o))%nat ->
  Cli.reindent (repeat (unit_byte o) (Z.to_nat (o_indent o))) (encode fmt_float v ++ rest) false false lvl
  = pp fmt_float (plain_opts o) dz v ++ Cli.reindent (repeat (unit_byte o) (Z.to_nat (o_indent o))) rest false false lvl.
Proof. exact reindent_pp. Qed.
Print Assumptions C12b_reindent_is_pp.

Theorem C12b_render_agree : forall fmt_float,
  (forall f e, finite f -> fnum_shape e (fmt_float f e) = true) ->
  forall f ex nu sl v tbl, f_color f = false -> (forall z, f_indent f = Some z -> (0 <= z)%Z) -> wfv v ->
  Cli.render (opts15 f ex nu sl) (to15 fmt_float v) = cli_marshal fmt_float (opts_of f tbl) v.
Proof. exact render_agree. Qed.
Print Assumptions C12b_render_agree.

(* rawMarshaler, NUL refusal and terminators: what C15's run loop appends to stdout for a value is what C12 prints *)
Theorem C12b_print_agree : forall fmt_float,
  (forall f e, finite f -> fnum_shape e (fmt_float f e) = true) ->
  forall f ex nu sl v, f_color f = false -> (forall z, f_indent f = Some z -> (0 <= z)%Z) -> wfv v ->
  cli_print fmt_float f v =
  match Cli.marshal (opts15 f ex nu sl) (to15 fmt_float v) with
  | Some b => Out (b ++ Cli.terminator (opts15 f ex nu sl))
  | None => Err
  end.
Proof. exact print_agree. Qed.
Print Assumptions C12b_print_agree.
