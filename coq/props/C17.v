(* C17 — Reported error positions point at the offending byte.
   Statements only; every theorem is closed by [exact] of a lemma proved under coq/c17/.
   Model: coq/c17/ErrPos.v (cli/error.go), coq/c17/Window.v (cli/inputs.go); vocabulary: coq/c17/Spec.v.
   [swidth] is go-runewidth's StringWidth, universally quantified (no hypothesis on it is needed). *)
From Coq Require Import ZArith List NArith String.
From Verif Require Import common.Sexp c17.ErrPos c17.Spec c17.Window c17.Oracle c17.ErrPosProofs c17.WindowProofs
  c17.OracleProofs c17.Refute c17.Yaml c17.YamlProofs.
Import ListNotations.
Open Scope Z_scope.

(* 1. line_by_offset_correct — getLineByOffset, EVERY contents c and EVERY offset.
   (a) an offending byte o inside c (offsets are 1-based: o + 1): the line number is
       1 + #terminators ending at or before o (CR LF once), the excerpt is a piece  w ++ r  of the line
       containing byte o, the caret column is the display width of w, w ends at the offending byte (at most
       3 bytes before it if the bytes are not UTF-8); for a well-formed UTF-8 line no character is cut by the
       48/64-byte window and r starts with the very character containing byte o. *)
Theorem C17_line_by_offset_correct : forall swidth c o, (o < List.length c)%nat ->
  pos_ok swidth c o (getLineByOffset swidth c (Z.of_nat o + 1)).
Proof. exact glbo_in_range. Qed.
Print Assumptions C17_line_by_offset_correct.

(* (b) offsets at/after the end (io.ErrUnexpectedEOF uses len(contents)+1): the line holding the last byte,
       caret after its content *)
Theorem C17_line_by_offset_past_end : forall swidth c off, zlen c < off ->
  pos_ok_eof swidth c (getLineByOffset swidth c off).
Proof. exact glbo_past_end. Qed.
Print Assumptions C17_line_by_offset_past_end.

(* (c) offsets 0 and below (no position known) behave like the first byte *)
Theorem C17_line_by_offset_low : forall swidth c off, off <= 1 ->
  getLineByOffset swidth c off = getLineByOffset swidth c 1.
Proof. exact glbo_low. Qed.
Print Assumptions C17_line_by_offset_low.

(* 2. seekable_window_correct — getContents' re-reading loop (code after the repair of finding "cr-window": the
      dropped bytes are counted by countNewlines = Count("\n") + Count("\r") - Count("\r\n"), and a chunk whose last
      byte is CR gives that byte back (n--, Seek(-1)), so a CR LF pair is never split between dropped bytes and what
      follows).  For EVERY file, every offset and every mix of LF / CR LF / CR, with no hypothesis on the
      terminators: the report is getLineByOffset's on the whole file, hence correct (theorem 1). *)
Definition C17_seekable_window_full : Prop := forall swidth c E, 1 <= E <= zlen c ->
  pos_ok swidth c (Z.to_nat (E - 1)) (report_of swidth (seek_report c (Some E))).

Theorem C17_seekable_window_correct : forall swidth c E, 1 <= E <= zlen c ->
  report_of swidth (seek_report c (Some E)) = getLineByOffset swidth c E.
Proof. exact seek_window_correct. Qed.
Print Assumptions C17_seekable_window_correct.

Theorem C17_seekable_window_full_holds : C17_seekable_window_full.
Proof. exact seek_window_pos_ok. Qed.
Print Assumptions C17_seekable_window_full_holds.

(* regression: with the counting BEFORE the repair (crfix = false, bytes.Count(dropped, "\n") — [lf_seek_report])
   the full statement is false: 200 x 100-byte documents ending in a lone CR report line 42 instead of 201; the
   current code reports 201 on the same input.  Reverting the repair in the model breaks theorem 2 and this. *)
Example C17_seekable_window_old_counting_wrong : 1 <= cr_E <= zlen cr_input /\
  (forall swidth, ~ pos_ok swidth cr_input (Z.to_nat (cr_E - 1)) (report_of swidth (lf_seek_report cr_input (Some cr_E)))) /\
  (forall swidth, report_of swidth (seek_report cr_input (Some cr_E)) =
                  (codes "{""b"": tru }", 201, swidth (codes "{""b"": tru"))).
Proof. split; [vm_compute; split; discriminate|]. split; [exact cr_seek_old_wrong | exact cr_seek_now_right]. Qed.

(* 3. pipe_window_correct — the non-seekable window (CURRENT code: after the repair of D7 and of "cr-window": the
      trimmed bytes are counted by countNewlines and a trailing CR stays in the buffer), for EVERY behaviour of the
      decoder: any number of bytes read ahead (r_i >= p_i) at every delivered value, every mix of LF / CR LF / CR,
      no hypothesis on the terminators:
      (a) the window never drops the offending byte, the line number is the specification's, excerpt and
          caret are getLineByOffset's on the kept part of the input (to which theorem 1 applies);
      (b) if the window starts at the beginning or >= 52 bytes before the offending byte and >= 64 bytes
          after it were read (or the input ends), the report IS getLineByOffset's on the whole input.
      Without (b)'s room the quoted excerpt may start at the window start instead of 48 bytes before the
      caret (still a piece of the right line with the caret under the offending byte). *)
Theorem C17_pipe_window_correct : forall swidth c steps rerr E,
  chunking_ok c steps rerr E ->
  let start := p_start (pipe_run c steps) in
  let '(ex, line, col) := report_of swidth (pipe_report c steps rerr (Some E)) in
  0 <= start < E /\ line = spec_line c (Z.to_nat (E - 1)) /\
  (ex, col) = (let '(ex', _, col') := getLineByOffset swidth (ztake (rerr - start) (zdrop start c)) (E - start)
               in (ex', col')).
Proof. exact pipe_window_kept. Qed.
Print Assumptions C17_pipe_window_correct.

Theorem C17_pipe_window_exact : forall swidth c steps rerr E,
  chunking_ok c steps rerr E ->
  let start := p_start (pipe_run c steps) in
  (start = 0 \/ start + 52 <= E - 1) -> (E - 1 + 64 <= rerr \/ rerr = zlen c) ->
  report_of swidth (pipe_report c steps rerr (Some E)) = getLineByOffset swidth c E.
Proof. exact pipe_window_exact. Qed.
Print Assumptions C17_pipe_window_exact.

(* regression: the counting before the repair ([lf_pipe_report]) on the CR input, every value delivered with
   everything already read: wrong line; the current code: line 201 *)
Example C17_pipe_window_old_counting_wrong : chunking_ok cr_input cr_steps 20012 cr_E /\
  (forall swidth, ~ pos_ok swidth cr_input (Z.to_nat (cr_E - 1))
                     (report_of swidth (lf_pipe_report cr_input cr_steps 20012 (Some cr_E)))) /\
  (forall swidth, report_of swidth (pipe_report cr_input cr_steps 20012 (Some cr_E)) =
                  (codes "{""b"": tru }", 201, swidth (codes "{""b"": tru"))).
Proof. split; [exact cr_chunking|]. split; [exact cr_pipe_old_wrong | exact cr_pipe_now_right]. Qed.

(* instances with a CR LF pair exactly at a boundary: CR = byte 16383 (last byte of getContents' first chunk / last
   byte the decoder consumed when the pipe buffer is trimmed), LF = byte 16384; later a lone CR and CR CR LF.
   The CR is kept (window starts at 16383), line 5 = the specification's *)
Example C17_split_crlf_counted_once : forall swidth,
  (zidx split_input 16383 = 13%N /\ zidx split_input 16384 = 10%N /\
   report_of swidth (seek_report split_input (Some split_E)) = (codes "{""b"": tru }", 5, swidth (codes "{""b"": tru")) /\
   spec_line split_input (Z.to_nat (split_E - 1)) = 5) /\
  (chunking_ok split_input [(17000, 16384)] (zlen split_input) split_E /\
   p_start (pipe_run split_input [(17000, 16384)]) = 16383 /\
   report_of swidth (pipe_report split_input [(17000, 16384)] (zlen split_input) (Some split_E)) =
     (codes "{""b"": tru }", 5, swidth (codes "{""b"": tru"))).
Proof. intros. split; [apply split_seek_right|apply split_pipe_right]. Qed.

(* 3'. unexpected EOF (io.ErrUnexpectedEOF): the offending position is the end of the input.
      Seekable: pos = Seek(0, SeekEnd), getContents' loop, Error() asks for len(contents)+1.
      Non-seekable: contents = buf.String(), everything has been read (rerr = len c); the delivered values
      consumed p_i < len c bytes (a truncated document follows), read-ahead arbitrary. *)
Theorem C17_seekable_window_eof : forall swidth c,
  report_of swidth (seek_report c None) = getLineByOffset swidth c (zlen c + 1).
Proof. exact seek_window_eof_correct. Qed.
Print Assumptions C17_seekable_window_eof.

Theorem C17_pipe_window_eof : forall swidth c steps, chunking_eof_ok c steps ->
  let start := p_start (pipe_run c steps) in
  let '(ex, line, col) := report_of swidth (pipe_report c steps (zlen c) None) in
  0 <= start < zlen c /\ line = spec_line c (List.length c - 1) /\
  (ex, col) = (let '(ex', _, col') := getLineByOffset swidth (zdrop start c) (zlen (zdrop start c) + 1)
               in (ex', col')).
Proof. exact pipe_window_eof_kept. Qed.
Print Assumptions C17_pipe_window_eof.

Theorem C17_pipe_window_eof_exact : forall swidth c steps, chunking_eof_ok c steps ->
  let start := p_start (pipe_run c steps) in
  (start = 0 \/ start + 53 <= zlen c) ->
  report_of swidth (pipe_report c steps (zlen c) None) = getLineByOffset swidth c (zlen c + 1).
Proof. exact pipe_window_eof_exact. Qed.
Print Assumptions C17_pipe_window_eof_exact.

(* 3''. The executable oracle that judges the IMPLEMENTATION's stderr in the correspondence (Oracle.pos_chk /
      pos_eof_chk, run as extracted code by checks/c17.py) is literally the specification used above:
      with ctx = true it decides pos_ok / pos_ok_eof; with ctx = false (non-seekable transport, where only part of
      the line may be in the window) it decides the same specification without the two clauses about the amount
      of quoted context (pos_ok_w, implied by pos_ok). *)
Theorem C17_oracle_is_spec : forall swidth c o ex line col,
  pos_chk swidth true c o ex line col = true <-> pos_ok swidth c o (ex, line, col).
Proof. exact pos_chk_iff. Qed.
Print Assumptions C17_oracle_is_spec.

Theorem C17_oracle_eof_is_spec : forall swidth c ex line col,
  pos_eof_chk swidth true c ex line col = true <-> pos_ok_eof swidth c (ex, line, col).
Proof. exact pos_eof_chk_iff. Qed.
Print Assumptions C17_oracle_eof_is_spec.

Theorem C17_oracle_weak_is_spec : forall swidth c o ex line col,
  (pos_chk swidth false c o ex line col = true <-> pos_ok_w swidth c o (ex, line, col)) /\
  (pos_eof_chk swidth false c ex line col = true <-> pos_ok_eof_w swidth c (ex, line, col)) /\
  (pos_ok swidth c o (ex, line, col) -> pos_ok_w swidth c o (ex, line, col)).
Proof. exact oracle_weak. Qed.
Print Assumptions C17_oracle_weak_is_spec.

(* 4. lexer_offset_token: correspondence level (the lexer is modelled under C08/C09): checked on generated
      bad queries by the harness (Offset/Token identify bytes of the source, position of the injected token).
   5. --stream: encoding/json's Token() reports offsets that are not absolute; the model takes the reported
      offset as a parameter, so theorems 2 and 3 say nothing about --stream (finding "stream-offset"). *)

(* 6. YAML.  go-yaml is external: it reports yaml_mark_t{index, line, column} and advances index/column once per
      CHARACTER, so ParserError.Index / UnmarshalError.Index is a 0-based character index.  gojq's side
      (yamlParseError.Error, current code): a range loop turns it into the byte offset of that character
      (len(contents) if there is none) and calls getLineByOffset(contents, offset+1).  Proved, for every contents
      and index: the report is correct for the first byte of CHARACTER number Index ([char_offset], the byte offset
      of a character number, is the specification side), or for the end of the contents, and the text printed is
      `render` of it.  Which mark go-yaml reports for which error is go-yaml's business (sampled only). *)
Theorem C17_yaml_report : forall swidth fname contents index,
  let o := char_offset contents index in
  let rep := getLineByOffset swidth contents (yaml_offset contents (Z.of_nat index) + 1) in
  ((o < List.length contents)%nat -> pos_ok swidth contents o rep) /\
  ((o >= List.length contents)%nat -> pos_ok_eof swidth contents rep) /\
  yaml_error_header swidth fname contents (Z.of_nat index) =
    (let '(ls, line, col) := rep in render (codes "invalid yaml: ") fname contents true fname ls line col).
Proof. exact yaml_report_correct. Qed.
Print Assumptions C17_yaml_report.

Theorem C17_yaml_ascii_chars_are_bytes : forall contents index, (index <= List.length contents)%nat ->
  forallb is_ascii (firstn index contents) = true -> char_offset contents index = index.
Proof. exact char_offset_ascii_text. Qed.
Print Assumptions C17_yaml_ascii_chars_are_bytes.

(* regression example: the arithmetic before 652e0ad (Index+1 used as a byte offset) on `世界: 1\n  x: 2\n`,
   go-yaml index 9: reports line 1; the current code reports line 2, excerpt "  x: 2", caret after "  x" *)
Example C17_yaml_old_arithmetic_wrong : forall swidth,
  (char_offset yaml_wide 9 = 13%nat /\
   ~ pos_ok swidth yaml_wide (char_offset yaml_wide 9) (getLineByOffset swidth yaml_wide (Z.of_nat 9 + 1))) /\
  getLineByOffset swidth yaml_wide (yaml_offset yaml_wide 9 + 1) = (codes "  x: 2", 2, swidth (codes "  x")).
Proof. intros. split; [apply yaml_wide_wrong|apply yaml_wide_now_right]. Qed.

(* regression example D7: on the reads observed for 164 documents of 100 bytes + {"b": tru } + 1 2 3, the
   arithmetic before e216f69 (whole buffer dropped) reports line 168 with an empty excerpt; the current
   arithmetic reports line 165 and quotes the faulty line *)
Example C17_D7_old_arithmetic_wrong :
  chunking_ok d7_input d7_steps d7_rerr d7_E /\
  (forall swidth, ~ pos_ok swidth d7_input (Z.to_nat (d7_E - 1))
                     (report_of swidth (old_pipe_report d7_input d7_steps d7_rerr (Some d7_E)))) /\
  (forall swidth, report_of swidth (pipe_report d7_input d7_steps d7_rerr (Some d7_E)) =
                  (codes "{""b"": tru }", 165, swidth (codes "{""b"": tru"))).
Proof. split; [exact d7_chunking|]. split; [exact d7_old_wrong | exact d7_now_right]. Qed.

(* non-vacuity: hypotheses are satisfiable and the statements speak about real reports *)
Example C17_nonvacuous :
  utf8 [228; 184; 150; 97]%N /\
  getLineByOffset (fun s => zlen s) (codes "ab" ++ [10%N] ++ codes "cd") 5 = (codes "cd", 2, 1) /\
  spec_line (codes "ab" ++ [13; 10]%N ++ codes "cd") 4 = 2 /\
  chunking_ok d7_input d7_steps d7_rerr d7_E /\ chunking_ok cr_input cr_steps 20012 cr_E.
Proof.
  split; [apply (utf8_app [228; 184; 150]%N); [reflexivity|]; apply (utf8_app [97%N]); [reflexivity|constructor]|].
  split; [vm_compute; reflexivity|]. split; [reflexivity|].
  split; [exact d7_chunking|exact cr_chunking].
Qed.
