(* C12 — Every emitted value serialises to valid JSON that reads back equal.
   Statements only; every theorem is closed by [exact] of a lemma proved in coq/c12/*Proofs.v.
   Models: c12/Utf8.v (Go's utf8.DecodeRuneInString), c12/Encode.v (/repo/encoder.go),
   c12/CliEncode.v (/repo/cli/encoder.go, color.go); reference vocabulary: c12/JsonRef.v. *)
From Coq Require Import String.
From Coq Require Import ZArith List NArith Bool.
From Coq Require Import Sorted Permutation.
From Verif Require Import common.Sexp c12.Utf8 c12.JsonRef c12.Encode c12.CliEncode c12.CliPure c12.Utf8Proofs c12.StrProofs
  c12.NumProofs c12.SortProofs c12.ValueProofs c12.IndentProofs c12.DecodeProofs c12.PolicyProofs c12.RawProofs c12.FloatProofs.
Import ListNotations.
Open Scope N_scope.

(* ---- (a) encodeString: for EVERY byte string the output is a JSON string literal ... *)
Theorem C12_string_literal : forall s, bytes s -> string_literal (encode_string s).
Proof. exact encode_string_literal. Qed.
Print Assumptions C12_string_literal.

(* ... without any raw control byte or DEL (quote and backslash only inside escapes: previous theorem) ... *)
Theorem C12_string_printable : forall s, bytes s ->
  Forall (fun b => 0x20 <= b /\ b <> 0x7F /\ b < 256) (encode_string s).
Proof. exact encode_string_printable. Qed.
Print Assumptions C12_string_printable.

(* ... it is valid UTF-8 ... *)
Theorem C12_string_utf8 : forall s, bytes s -> utf8_valid (encode_string s).
Proof. exact encode_string_utf8. Qed.
Print Assumptions C12_string_utf8.

(* ... and it reads back as [sanitize s] (each byte that does not start a well-formed UTF-8 sequence
   replaced by U+FFFD), whatever follows it ... *)
Theorem C12_string_reads_back : forall s rest, bytes s ->
  read_string (encode_string s ++ rest) = Some (sanitize s, rest).
Proof. exact read_encode_string. Qed.
Print Assumptions C12_string_reads_back.

(* ... which is s itself when s is valid UTF-8, and valid UTF-8 in any case. *)
Theorem C12_sanitize_valid : forall s, utf8_valid s -> sanitize s = s.
Proof. exact sanitize_valid. Qed.
Print Assumptions C12_sanitize_valid.

Theorem C12_sanitize_utf8 : forall s, utf8_valid (sanitize s).
Proof. exact sanitize_utf8. Qed.
Print Assumptions C12_sanitize_utf8.

(* Go's decoder (the model of utf8.DecodeRuneInString) rejects exactly what Unicode Table 3-7 rejects,
   and Table 3-7 ([utf8_step]) is sound and complete for the RFC 3629 encoding of scalar values. *)
Theorem C12_go_decoder_is_table_3_7 : forall b r, 0x80 <= b -> b < 256 ->
  match utf8_step (b :: r) with
  | None => decode_rune (b :: r) = (rune_error, 1%nat)
  | Some (cp, n) => snd (decode_rune (b :: r)) = n /\ (2 <= n)%nat /\ (n <= length (b :: r))%nat
  end.
Proof. exact decode_agree. Qed.
Print Assumptions C12_go_decoder_is_table_3_7.

Theorem C12_table_3_7_sound : forall s cp n, utf8_step s = Some (cp, n) ->
  scalar cp /\ firstn n s = utf8_enc cp /\ n = length (utf8_enc cp).
Proof. exact step_sound. Qed.
Print Assumptions C12_table_3_7_sound.

Theorem C12_table_3_7_complete : forall cp r, scalar cp ->
  utf8_step (utf8_enc cp ++ r) = Some (cp, length (utf8_enc cp)).
Proof. exact step_complete. Qed.
Print Assumptions C12_table_3_7_complete.

(* ---- numbers.  Integers (int and big.Int) are printed as decimal literals denoting exactly z ... *)
Theorem C12_int_literal : forall z, number_literal (print_Z z) /\ num_denote (print_Z z) = Some (z, 0%Z).
Proof. exact (fun z => conj (int_literal z) (num_denote_int z)). Qed.
Print Assumptions C12_int_literal.

(* ... and a literal built by the RFC 8259 grammar is accepted as a whole by the reference scanner. *)
Theorem C12_literal_scans : forall p rest, np_ok p = true -> num_end rest = true ->
  scan_number (np_text p ++ rest) = Some (np_text p, rest).
Proof. exact scan_number_np. Qed.
Print Assumptions C12_literal_scans.

(* Floats.  strconv.AppendFloat is not gojq's code: [fmt_float] with the hypothesis fmt_shape ('e': [-]d[.d+]e(+|-)dd+,
   'f': [-]d+[.d+]).  gojq's part: NaN -> null (in [encode_float] / [norm]), +-Inf clamped to +-MaxFloat64, format
   choice, e-09 -> e-9.  The text is a JSON number literal that denotes what strconv printed for the clamped
   float in the chosen format (the clean-up changes no value) ... *)
Theorem C12_float_literal : forall fmt_float,
  (forall f e, finite f -> fnum_shape e (fmt_float f e) = true) ->
  forall b, is_nan b = false ->
  number_literal (encode_float fmt_float b) /\
  num_denote (encode_float fmt_float b) = Some (fnum_den (fmt_float (clamp b) (fmt_is_e (clamp b)))).
Proof. exact (fun fmt H b Hb => conj (encode_float_literal fmt H b Hb) (encode_float_denote fmt H b Hb)). Qed.
Print Assumptions C12_float_literal.

(* ... hence, if strconv's digits parse back to the float they were printed from (fmt_round; checked on the
   implementation by the harness), gojq's text parses back to the clamped float. *)
Theorem C12_float_round_trip : forall fmt_float,
  (forall f e, finite f -> fnum_shape e (fmt_float f e) = true) ->
  forall parse_float : Z * Z -> N,
  (forall f e, finite f -> parse_float (fnum_den (fmt_float f e)) = f) ->
  forall b, is_nan b = false ->
  option_map parse_float (num_denote (encode_float fmt_float b)) = Some (clamp b).
Proof. exact encode_float_round. Qed.
Print Assumptions C12_float_round_trip.

Theorem C12_nan_is_null : forall fmt_float b, is_nan b = true -> encode_float fmt_float b = txt_null.
Proof. intros fmt_float b H. unfold encode_float. rewrite H. reflexivity. Qed.
Print Assumptions C12_nan_is_null.

(* the e-09 clean-up, on the structured form: only a two-digit negative exponent with a leading zero changes *)
Theorem C12_cleanup : forall x, fnum_shape true x = true -> cleanup (fnum_text x) = fnum_text (cleanup_fnum x).
Proof. exact cleanup_fnum_text. Qed.
Print Assumptions C12_cleanup.

(* ---- objects: members are written in ascending bytewise key order, each exactly once *)
Theorem C12_keys_sorted : forall (m : list (list N * value)),
  Sorted key_le (sort_kvs m) /\ Permutation (sort_kvs m) m.
Proof. exact (fun m => conj (sort_sorted m) (sort_perm m)). Qed.
Print Assumptions C12_keys_sorted.

(* ---- (b) decode (encode v) = Some (norm v) for every well-formed value: NaN -> null, strings and keys
   sanitized, members in key order, numbers as the literals characterised above.  Library encoder
   (gojq.Marshal, tojson, @json; tostring/@text on non-strings) ... *)
Theorem C12_decode_encode : forall fmt_float,
  (forall f e, finite f -> fnum_shape e (fmt_float f e) = true) ->
  forall v, wfv v -> json_decode (encode fmt_float v) = Some (norm fmt_float v).
Proof. exact decode_encode. Qed.
Print Assumptions C12_decode_encode.

(* ... and every layout of the command's encoder (compact, indent n, tab; colour on with any table of SGR
   sequences or off), after removing the SGR sequences. *)
Theorem C12_decode_cli : forall fmt_float,
  (forall f e, finite f -> fnum_shape e (fmt_float f e) = true) ->
  forall o v, wf_colors (o_colors o) -> wfv v ->
  json_decode (strip_sgr (cli_marshal fmt_float o v)) = Some (norm fmt_float v).
Proof. exact decode_cli. Qed.
Print Assumptions C12_decode_cli.

(* ---- (c) indentation.  writeIndentInternal n appends exactly n copies of the unit, for EVERY n (the
   block of 16 tabs / 32 spaces followed by the doubling self-copy loop) ... *)
Theorem C12_indent_writer : forall unit blk n st, (0 < blk)%nat ->
  let st' := write_indent_internal n (repeat unit blk) st in
  c_buf st' = c_buf st ++ repeat unit n /\ c_out st' = c_out st /\ c_depth st' = c_depth st.
Proof. exact wii_spec. Qed.
Print Assumptions C12_indent_writer.

(* ... the stateful encoder (buffer, 8 KiB flushes, depth counter) appends exactly the pure text [pp] and
   restores the depth, whatever the flush history: chunking does not change the concatenation ... *)
Theorem C12_encoder_pure : forall fmt_float o v st,
  let st' := c_encode fmt_float o v st in
  c_out st' ++ c_buf st' = c_out st ++ c_buf st ++ pp fmt_float o (c_depth st) v /\ c_depth st' = c_depth st.
Proof.
  intros fmt_float o v st. destruct (c_encode_pp fmt_float o v st) as [H1 H2]. unfold total in H1.
  cbn zeta. rewrite H1, <- app_assoc. auto.
Qed.
Print Assumptions C12_encoder_pure.

(* ... and every line of an indented output starts with exactly depth * indent unit bytes ([indent_ok],
   JsonRef.v: depth = number of open brackets, a closing bracket is one level up; no empty line). *)
Theorem C12_indent_exact : forall fmt_float,
  (forall f e, finite f -> fnum_shape e (fmt_float f e) = true) ->
  forall o, (0 <= o_indent o)%Z -> forall v, wf_colors (o_colors o) -> wfv v ->
  indent_ok (if o_tab o then 9 else 32) (Z.to_nat (o_indent o)) (strip_sgr (cli_marshal fmt_float o v)) = true.
Proof.
  intros fmt_float Hf o Hi v Hc Hv. rewrite cli_marshal_pp.
  pose proof (pp_strip_sgr fmt_float Hf o Hc v Hv 0%Z []) as H. rewrite !app_nil_r in H. rewrite H.
  apply (indent_exact fmt_float Hf o); [apply Z.leb_le, Hi|exact Hv].
Qed.
Print Assumptions C12_indent_exact.

(* ---- (d) all modes agree: SGR sequences and insignificant whitespace (outside strings) removed, the
   command's output in every mode is the library encoder's text *)
Theorem C12_modes_agree : forall fmt_float,
  (forall f e, finite f -> fnum_shape e (fmt_float f e) = true) ->
  forall o v, wf_colors (o_colors o) -> wfv v ->
  strip_ws (strip_sgr (cli_marshal fmt_float o v)) = encode fmt_float v.
Proof. exact modes_agree. Qed.
Print Assumptions C12_modes_agree.

(* the colour tables the command can install are well-formed: the default one ... *)
Theorem C12_default_colors_wf : wf_colors default_colors.
Proof. repeat split; try exact I; eexists; (split; [reflexivity|reflexivity]). Qed.
Print Assumptions C12_default_colors_wf.

(* ---- the bit-pattern tests of the float model are the binary64 semantics of the Go code, for EVERY double
   (bridge to Flocq: F b = Bits.b64_of_bits b; go_lt/go_ge/go_ne = IEEE comparisons through Binary.Bcompare, go_abs =
   Babs off NaN, go_min/go_max = the builtins; FloatProofs.v).  math.IsNaN ... *)
Theorem C12_float_isnan_is_ieee : forall b, b < 2 ^ 64 -> go_isnan (F b) = is_nan b.
Proof. exact is_nan_flocq. Qed.
Print Assumptions C12_float_isnan_is_ieee.

(* ... f = min(max(f, -math.MaxFloat64), math.MaxFloat64) ... *)
Theorem C12_float_clamp_is_ieee : forall b, b < 2 ^ 64 -> is_nan b = false ->
  Bits.bits_of_b64 (go_min (go_max (F b) f_negmax) f_max) = Z.of_N (clamp b).
Proof. exact clamp_flocq. Qed.
Print Assumptions C12_float_clamp_is_ieee.

(* ... and the format choice  x := math.Abs(f); x != 0 && x < 1e-6 || x >= 1e21. *)
Theorem C12_float_format_is_ieee : forall b, b < 2 ^ 64 -> is_nan b = false ->
  (let x := go_abs (F b) in (go_ne x f_zero && go_lt x f_1em6) || go_ge x f_1e21) = fmt_is_e b.
Proof. exact format_flocq. Qed.
Print Assumptions C12_float_format_is_ieee.

(* the float constants are the doubles nearest to 1e-6 (m * 2^-72, within half an ulp), 1e21 (exact) and MaxFloat64 *)
Theorem C12_float_constants :
  (2 * Z.abs (4722366482869645 * 10 ^ 6 - 2 ^ 72) <= 10 ^ 6)%Z /\ (7629394531250000 * 2 ^ 17 = 10 ^ 21)%Z /\
  Binary.B2SF 53 1024 f_1em6 = SpecFloat.S754_finite false 4722366482869645 (-72) /\
  Binary.B2SF 53 1024 f_1e21 = SpecFloat.S754_finite false 7629394531250000 17 /\
  Binary.B2SF 53 1024 f_max = SpecFloat.S754_finite false (2 ^ 53 - 1) (1024 - 53).
Proof.
  split; [exact const_1em6|]. split; [exact const_1e21|].
  split; [unfold f_1em6, F; rewrite B2SF_bits; vm_compute; reflexivity|].
  split; [unfold f_1e21, F; rewrite B2SF_bits; vm_compute; reflexivity|exact SF_max].
Qed.
Print Assumptions C12_float_constants.

(* ---- the escaping policy of encodeString (jq's, not encoding/json's): a change is a broken obligation.
   A byte below 0x80 is copied iff it is in 0x20..0x7E and is neither the quote nor the backslash: so '<', '>', '&',
   '/', the apostrophe are NOT escaped, DEL and every control byte are ... *)
Theorem C12_policy_ascii : forall b, b < 0x80 ->
  encode_string [b] = quote :: (if verbatim b then [b] else escape b) ++ [quote] /\
  (verbatim b = true <-> (0x20 <= b <= 0x7E /\ b <> 0x22 /\ b <> 0x5C)).
Proof. exact (fun b H => conj (encode_one_ascii b H) (verbatim_iff b)). Qed.
Print Assumptions C12_policy_ascii.

(* ... the short escapes are those of quote, backslash, BS, FF, LF, CR, TAB; every other escaped byte is \u00XX with
   lower-case hex digits ... *)
Theorem C12_policy_escapes :
  (escape 0x22 = [92; 34] /\ escape 0x5C = [92; 92] /\ escape 8 = [92; 98] /\ escape 12 = [92; 102] /\
   escape 10 = [92; 110] /\ escape 13 = [92; 114] /\ escape 9 = [92; 116]) /\
  (forall b, b < 0x80 -> verbatim b = false -> ~ In b [0x22; 0x5C; 8; 12; 10; 13; 9] ->
     escape b = [92; 117; 48; 48; hexdig (b / 16); hexdig (b mod 16)]).
Proof. split; [repeat split; reflexivity|exact escape_long]. Qed.
Print Assumptions C12_policy_escapes.

(* ... and NO character outside ASCII is ever escaped (U+2028 and U+2029 included): valid UTF-8 whose ASCII bytes
   are all of the copied class is written as it is between the quotes. *)
Theorem C12_policy_non_ascii_raw : forall s, utf8_valid s -> Forall (fun b => b < 0x80 -> verbatim b = true) s ->
  encode_string s = quote :: s ++ [quote].
Proof. exact encode_string_copies. Qed.
Print Assumptions C12_policy_non_ascii_raw.

Theorem C12_policy_examples :
  encode_string (codes "<>&/'"%string) = codes """<>&/'"""%string /\
  encode_string [0xE2; 0x80; 0xA8] = quote :: [0xE2; 0x80; 0xA8] ++ [quote] /\
  encode_string [0xE2; 0x80; 0xA9] = quote :: [0xE2; 0x80; 0xA9] ++ [quote] /\
  encode_string [0x7F] = codes """\u007f"""%string /\
  encode_string [0x1F; 0x20] = codes """\u001f """%string.
Proof. exact policy_examples. Qed.
Print Assumptions C12_policy_examples.

(* ---- the whole command for one value ([cli_print] = createMarshaler + rawMarshaler + the terminator written
   by printValues + GOJQ_COLORS).  -r / -j / --raw-output0 on a STRING: exactly the bytes of the string (not quoted,
   not sanitized, not coloured), then newline / nothing / NUL ... *)
Theorem C12_raw_string : forall fmt f s tbl, table_of f = Some tbl -> rawmode f = true ->
  f_raw0 f && contains_nul s = false ->
  cli_print fmt f (VStr s) = Out (s ++ (if f_raw0 f then [0] else if f_join f then [] else [10])).
Proof. exact raw_string. Qed.
Print Assumptions C12_raw_string.

(* ... --raw-output0 refuses a string containing NUL ... *)
Theorem C12_raw0_nul : forall fmt f s tbl, table_of f = Some tbl -> f_raw0 f = true -> contains_nul s = true ->
  cli_print fmt f (VStr s) = Err.
Proof. exact raw0_nul. Qed.
Print Assumptions C12_raw0_nul.

(* ... and on everything else (any non-string under any flags, any value without raw flags) the text is the
   encoder's under options in which the raw flags do not take part, followed by the same terminator. *)
Theorem C12_raw_other : forall fmt f v tbl, table_of f = Some tbl ->
  (rawmode f = false \/ forall s, v <> VStr s) ->
  cli_print fmt f v =
  Out (cli_marshal fmt {| o_tab := f_tab f; o_indent := resolve_indent f; o_nocolor := negb (f_color f); o_colors := tbl |} v
       ++ (if f_raw0 f then [0] else if f_join f then [] else [10])).
Proof. exact nonraw_value. Qed.
Print Assumptions C12_raw_other.

(* ---- GOJQ_COLORS: every table setColors can install is a table of SGR sequences (so (b), (c), (d) above apply
   to every table the command can use); an invalid colour is an error of the command and nothing is printed *)
Theorem C12_set_colors_wf : forall s t, set_colors s = Some t -> wf_colors t.
Proof. exact set_colors_wf. Qed.
Print Assumptions C12_set_colors_wf.

Theorem C12_bad_colors : forall fmt f v, table_of f = None -> cli_print fmt f v = Err.
Proof. exact bad_colors. Qed.
Print Assumptions C12_bad_colors.

Theorem C12_set_colors_error : forall s,
  (let (c, _) := cut_colon s in c <> [] /\ valid_color c = false) -> set_colors s = None.
Proof. exact set_colors_error_first. Qed.
Print Assumptions C12_set_colors_error.

(* what any printed value is, for every flag combination and every GOJQ_COLORS: a raw string, or a text that -
   colour and insignificant whitespace removed - is the library encoder's and reads back as norm v *)
Theorem C12_cli_print_sound : forall fmt_float,
  (forall f e, finite f -> fnum_shape e (fmt_float f e) = true) ->
  forall f v b, wfv v -> cli_print fmt_float f v = Out b ->
  (exists s, v = VStr s /\ rawmode f = true /\ b = s ++ terminator f) \/
  (exists body, b = body ++ terminator f /\
     strip_ws (strip_sgr body) = encode fmt_float v /\
     json_decode (strip_sgr body) = Some (norm fmt_float v)).
Proof. exact cli_print_sound. Qed.
Print Assumptions C12_cli_print_sound.

(* The clause of the property that is NOT proved: text written with --yaml-output reads back with
   --yaml-input as the same value (go-yaml is outside /repo; only exercised by the harness). *)

(* non-vacuity: a string with a control byte, a quote, DEL, a surrogate encoded in UTF-8 (invalid: three
   bytes replaced one by one), U+2028 (kept raw) and a truncated sequence *)
Example C12_nonvacuous :
  let s := [1; 34; 127; 0xED; 0xA0; 0x80; 0xE2; 0x80; 0xA8; 0xC3] in
  bytes s /\
  encode_string s = codes """\u0001\""\u007f\ufffd\ufffd\ufffd"%string ++ [0xE2; 0x80; 0xA8] ++ codes "\ufffd"""%string /\
  sanitize s = [1; 34; 127] ++ fffd ++ fffd ++ fffd ++ [0xE2; 0x80; 0xA8] ++ fffd.
Proof.
  cbv zeta. split; [|split; vm_compute; reflexivity].
  unfold bytes. repeat (apply Forall_cons; [reflexivity|]). apply Forall_nil.
Qed.

(* non-vacuity of the value theorems: a well-formed value with every kind of node, and a float oracle that
   satisfies fmt_shape on the floats used *)
Example C12_nonvacuous_value :
  let v := VObj [([98], VArr [VNull; VBool true; VInt (-5); VLit (codes "1.50"%string); VStr [0xFF]]); ([97], VObj [])] in
  let o := {| o_tab := false; o_indent := 2; o_nocolor := false; o_colors := default_colors |} in
  let fmt := fun (_ : N) (_ : bool) => {| fneg := false; fint := [48]; ffrac := []; fexp := None |} in
  encode fmt v = codes "{""a"":{},""b"":[null,true,-5,1.50,""\ufffd""]}"%string /\
  strip_ws (strip_sgr (cli_marshal fmt o v)) = encode fmt v /\
  indent_ok 32 2 (strip_sgr (cli_marshal fmt o v)) = true /\
  json_decode (encode fmt v) = Some (norm fmt v).
Proof. cbv zeta. repeat split; vm_compute; reflexivity. Qed.

(* non-vacuity of the Flocq bridge: the neighbours of the thresholds, an infinity, a subnormal *)
Example C12_nonvacuous_float :
  fmt_is_e (bits_1em6 - 1) = true /\ fmt_is_e bits_1em6 = false /\ fmt_is_e (bits_1e21 - 1) = false /\
  fmt_is_e bits_1e21 = true /\ fmt_is_e 1 = true /\ fmt_is_e 0 = false /\ fmt_is_e two63 = false /\
  clamp (two63 + inf_bits) = two63 + max_bits /\ clamp inf_bits = max_bits /\ is_nan (inf_bits + 1) = true /\
  go_lt (go_abs (F (two63 + bits_1em6 - 1))) f_1em6 = true /\ go_ge (F inf_bits) f_1e21 = true.
Proof. repeat split; vm_compute; reflexivity. Qed.
