(* C12 — Every emitted value serialises to valid JSON that reads back equal.
   Statements only; every theorem is closed by [exact] of a lemma proved in coq/c12/*Proofs.v.
   Models: c12/Utf8.v (Go's utf8.DecodeRuneInString), c12/Encode.v (/repo/encoder.go),
   c12/CliEncode.v (/repo/cli/encoder.go, color.go); reference vocabulary: c12/JsonRef.v. *)
From Coq Require Import String.
From Coq Require Import ZArith List NArith.
From Verif Require Import common.Sexp c12.Utf8 c12.JsonRef c12.Encode c12.CliEncode c12.Utf8Proofs c12.StrProofs.
Import ListNotations.
Open Scope N_scope.

(* ---- (a) encodeString: for EVERY byte string the output is a JSON string literal ... *)
Theorem C12_string_literal : forall s, bytes s -> string_literal (encode_string s).
Proof. exact encode_string_literal. Qed.
Print Assumptions C12_string_literal.

(* ... without any raw control byte or DEL (quote and backslash only inside escapes: previous theorem) ... *)
Theorem C12_string_printable : forall s, bytes s ->
  Forall (fun b => 0x20 <= b /\ b <> 0x7F /\ b < 256) (encode_string s).
Proof. exact encode_string_printable. Qed.
Print Assumptions C12_string_printable.

(* ... it is valid UTF-8 ... *)
Theorem C12_string_utf8 : forall s, bytes s -> utf8_valid (encode_string s).
Proof. exact encode_string_utf8. Qed.
Print Assumptions C12_string_utf8.

(* ... and it reads back as [sanitize s] (each byte that does not start a well-formed UTF-8 sequence
   replaced by U+FFFD), whatever follows it ... *)
Theorem C12_string_reads_back : forall s rest, bytes s ->
  read_string (encode_string s ++ rest) = Some (sanitize s, rest).
Proof. exact read_encode_string. Qed.
Print Assumptions C12_string_reads_back.

(* ... which is s itself when s is valid UTF-8, and valid UTF-8 in any case. *)
Theorem C12_sanitize_valid : forall s, utf8_valid s -> sanitize s = s.
Proof. exact sanitize_valid. Qed.
Print Assumptions C12_sanitize_valid.

Theorem C12_sanitize_utf8 : forall s, utf8_valid (sanitize s).
Proof. exact sanitize_utf8. Qed.
Print Assumptions C12_sanitize_utf8.

(* Go's decoder (the model of utf8.DecodeRuneInString) rejects exactly what Unicode Table 3-7 rejects,
   and Table 3-7 ([utf8_step]) is sound and complete for the RFC 3629 encoding of scalar values. *)
Theorem C12_go_decoder_is_table_3_7 : forall b r, 0x80 <= b -> b < 256 ->
  match utf8_step (b :: r) with
  | None => decode_rune (b :: r) = (rune_error, 1%nat)
  | Some (cp, n) => snd (decode_rune (b :: r)) = n /\ (2 <= n)%nat /\ (n <= length (b :: r))%nat
  end.
Proof. exact decode_agree. Qed.
Print Assumptions C12_go_decoder_is_table_3_7.

Theorem C12_table_3_7_sound : forall s cp n, utf8_step s = Some (cp, n) ->
  scalar cp /\ firstn n s = utf8_enc cp /\ n = length (utf8_enc cp).
Proof. exact step_sound. Qed.
Print Assumptions C12_table_3_7_sound.

Theorem C12_table_3_7_complete : forall cp r, scalar cp ->
  utf8_step (utf8_enc cp ++ r) = Some (cp, length (utf8_enc cp)).
Proof. exact step_complete. Qed.
Print Assumptions C12_table_3_7_complete.

(* non-vacuity: a string with a control byte, a quote, DEL, a surrogate encoded in UTF-8 (invalid: three
   bytes replaced one by one), U+2028 (kept raw) and a truncated sequence *)
Example C12_nonvacuous :
  let s := [1; 34; 127; 0xED; 0xA0; 0x80; 0xE2; 0x80; 0xA8; 0xC3] in
  bytes s /\
  encode_string s = codes """\u0001\""\u007f\ufffd\ufffd\ufffd"%string ++ [0xE2; 0x80; 0xA8] ++ codes "\ufffd"""%string /\
  sanitize s = [1; 34; 127] ++ fffd ++ fffd ++ fffd ++ [0xE2; 0x80; 0xA8] ++ fffd.
Proof.
  cbv zeta. split; [|split; vm_compute; reflexivity].
  unfold bytes. repeat (apply Forall_cons; [reflexivity|]). apply Forall_nil.
Qed.
