(* C02 — Paths and update operators equal their defining reductions.
   Statements only; every theorem is closed by [exact] of a lemma proved in coq/c02.

   What is proved here is the NATIVE layer of the property: the update natives of func.go, modelled at
   heap level (coq/c02/HeapPath.v: slice headers, pointer-keyed allocator, in-place writes, in-place growth),
   against the value-level functions of coq/c02/Path.v, and laws of those functions.  The jq-level part
   ("p |= f equals its defining reduction") is checked by the implementation-only oracles of
   harness/c02 (no model needed) and needs the language semantics of another slice to be stated in Coq.

   The model is of the CURRENT code ([current]: three-index reslice of fix 8b3b8e6, two-parameter deleteEmpty
   of fix 96ad5a7, in-place growth that clears the cells it exposes of fix 73ac0b6).  Since that last fix the
   ownership invariant [orep] no longer says "the cells beyond the length of an owned array are nil": they are
   arbitrary, every theorem below holds for this WEAKER invariant, and a second positive theorem
   ([C02_abs_update_own], [C02_abs_update_prefix]) covers a new value that is a part of the value it replaces
   (an update body returning its input, a child, or a prefix slice .[:k]: the shape of the repaired D11).  The full-strength refinement statement is still FALSE for it (known findings D5, D9 in
   docs/C02.md).  It is kept visible as [C02_heap_full]; dropping either of the two hypotheses "the new value
   is frozen" / "ownership invariant [orep]" is refuted by witnesses computed with the model, and the positive
   theorem is proved under those hypotheses for every path in which no slice is directly followed by
   another slice ([ok_path]); that last shape is modelled and corresponded but neither proved nor refuted
   ([C02_heap_inner_slices_open]).  D4 (repaired) is kept as a regression example. *)
From Coq Require Import List ZArith NArith.
From Verif Require Import c02.Path c02.PathProofs c02.HeapPath c02.HeapInv c02.HeapProofs c02.HeapSlice c02.HeapInner c02.HeapAbs c02.HeapOwn c02.HeapWitness c02.HeapSweep c02.HeapDelpaths c02.HeapReduce.
Import ListNotations.

(* The statement one would like (DESIGN section 5, C02 T.1): on ANY acyclic heap, for ANY path and ANY
   acyclic new value, update returns a value that denotes Path.setpath of the denoted input. *)
Definition C02_heap_full : Prop := forall p h ps v j n jn,
  alloc_wf ps -> (exists fuel, abs fuel h v = Some j) -> (exists fuel, abs fuel h n = Some jn) ->
  refines current h ps v p n j jn.

(* Open (neither proved nor refuted; 0 deviations in the `heapsafe` stream, 460 000 cases): the positive
   theorem for EVERY path, i.e. also for a slice component DIRECTLY followed by another slice.  Every other
   shape ([ok_path]: a slice is last or is followed by an index) is proved below. *)
Definition C02_heap_inner_slices_open : Prop := forall p h ps v j fp n jn,
  alloc_wf ps -> orep h ps j v fp -> NoDup fp -> frep h ps jn n -> refines current h ps v p n j jn.

(* ---- positive theorem ---- *)
(* On a heap satisfying the ownership invariant (allocated containers form a tree below the state, each
   with one owner, seen through full slice headers; everything else is never written), for a path of keys
   indices and slices in which every slice is the last component or is followed by an index ([ok_path]:
   `.a[1][2:4] = x`, `del(.a[1:])`, `.[2:4][0].b |= f`, the shape of the repaired D4, ...) and a new value that
   contains no allocated container (through a slice, update works on the window v[start:end:end] of the
   backing array and splices the result back; an index inside a window that starts at cell 0 of an owned
   array is written in place, every other write through a window copies it):
   update fails exactly when Path.setpath fails; otherwise it returns (h',u) such that
   - abs h' u = setpath (abs h v) path n for every sufficient fuel (so u is ACYCLIC),
   - FRAME: every value x that does not reach an allocated container denotes the same value in h',
   - the invariant holds again for u (so the next step of the reduction may rely on it). *)
Theorem C02_abs_update : forall p h ps v j fp n jn,
  alloc_wf ps -> orep h ps j v fp -> NoDup fp -> frep h ps jn n -> ok_path p ->
  match setpath j p jn with
  | None => update current h (Some ps) v p n = None
  | Some j' =>
      exists h' ps' u fp',
        update current h (Some ps) v p n = Some (h', Some ps', u) /\
        (forall fuel, depth j' < fuel -> abs fuel h' u = Some j') /\
        (forall jx x, frep h ps jx x -> frep h' ps' jx x /\ forall fuel, depth jx < fuel -> abs fuel h' x = Some jx) /\
        orep h' ps' j' u fp' /\ NoDup fp' /\ alloc_wf ps'
  end.
Proof. exact abs_update. Qed.
Print Assumptions C02_abs_update.

(* ---- second positive theorem: the new value OWNS allocated containers, all of them taken from the value it
   replaces ----
   [own_at h ps v p fn]: following p from v as getpath does, the value found there has a footprint that contains
   fn (fn = the allocated containers of the new value n).  Covers what `p |= f` stores when f returns its input
   (`.`), a child of it (`.[0]`, `.a`, `first(.[])`) or a PREFIX SLICE of it (`.[:k]`, `.[0:k]`: same pointer,
   smaller length, the hidden cells keep their content).  Paths of keys and indices ([no_slice]).
   Conclusion as for C02_abs_update: refinement of setpath, no cycle, frame, invariant (so the next path of the
   reduction may write the stored container in place: growth clears what it exposes). *)
Theorem C02_abs_update_own : forall p h ps v j fp n jn fn,
  alloc_wf ps -> orep h ps j v fp -> NoDup fp ->
  orep h ps jn n fn -> NoDup fn -> own_at h ps v p fn -> no_slice p ->
  match setpath j p jn with
  | None => update current h (Some ps) v p n = None
  | Some j' =>
      exists h' ps' u fp',
        update current h (Some ps) v p n = Some (h', Some ps', u) /\
        (forall fuel, depth j' < fuel -> abs fuel h' u = Some j') /\
        (forall jx x, frep h ps jx x -> frep h' ps' jx x /\ forall fuel, depth jx < fuel -> abs fuel h' x = Some jx) /\
        orep h' ps' j' u fp' /\ NoDup fp' /\ alloc_wf ps'
  end.
Proof. exact abs_update_own. Qed.
Print Assumptions C02_abs_update_own.

(* `p |= .[:k]` as one step: x is the alias getpath hands to the body, the body returns v[:k] of it *)
Theorem C02_abs_update_prefix : forall p h ps v j fp x js fx k,
  alloc_wf ps -> orep h ps j v fp -> NoDup fp -> no_slice p ->
  h_getpath h v p = Some x -> orep h ps (JArr js) x fx -> NoDup fx -> k <= hlen x ->
  match setpath j p (JArr (firstn k js)) with
  | None => update current h (Some ps) v p (reslice false x 0 k) = None
  | Some j' =>
      exists h' ps' u fp',
        update current h (Some ps) v p (reslice false x 0 k) = Some (h', Some ps', u) /\
        (forall fuel, depth j' < fuel -> abs fuel h' u = Some j') /\
        (forall jx x, frep h ps jx x -> frep h' ps' jx x /\ forall fuel, depth jx < fuel -> abs fuel h' x = Some jx) /\
        orep h' ps' j' u fp' /\ NoDup fp' /\ alloc_wf ps'
  end.
Proof. exact abs_update_prefix. Qed.
Print Assumptions C02_abs_update_prefix.

(* a Go value has one representation: footprints are a function of (heap, allocator, value) *)
Theorem C02_footprint_unique : forall j h ps v f1, orep h ps j v f1 -> forall j2 f2, orep h ps j2 v f2 -> f1 = f2.
Proof. exact orep_fp_fun. Qed.
Print Assumptions C02_footprint_unique.

(* non-vacuity on the state of D11 after its first path: the hypotheses of C02_abs_update_prefix hold, the update
   leaves a prefix header over STALE cells, that state satisfies the invariant, the next write grows in place *)
Example C02_own_nonvacuous :
  let h := [OArr [HNum 10; HNum 2; HNum 3]; OMap [(ka, HArr 0 0 3 3)]] in
  let h' := [OArr [HNum 10; HNum 2; HNum 3]; OMap [(ka, HArr 0 0 1 3)]] in
  let ps := [PArr 0 0; PMap 1] in
  alloc_wf ps /\ orep h ps (JObj [(ka, JArr [JNum 10; JNum 2; JNum 3])]) (HMap 1) [1; 0] /\ NoDup [1; 0] /\
  no_slice [PK ka] /\ h_getpath h (HMap 1) [PK ka] = Some (HArr 0 0 3 3) /\
  orep h ps (JArr [JNum 10; JNum 2; JNum 3]) (HArr 0 0 3 3) [0] /\ NoDup [0] /\ 1 <= hlen (HArr 0 0 3 3) /\
  update current h (Some ps) (HMap 1) [PK ka] (reslice false (HArr 0 0 3 3) 0 1) = Some (h', Some ps, HMap 1) /\
  orep h' ps (JObj [(ka, JArr [JNum 10])]) (HMap 1) [1; 0] /\
  update current h' (Some ps) (HMap 1) [PK ka; PI 2%Z] (HNum 10) =
    Some ([OArr [HNum 10; HNull; HNum 10]; OMap [(ka, HArr 0 0 3 3)]], Some ps, HMap 1) /\
  setpath (JObj [(ka, JArr [JNum 10])]) [PK ka; PI 2%Z] (JNum 10) = Some (JObj [(ka, JArr [JNum 10; JNull; JNum 10])]).
Proof. exact own_nonvacuous. Qed.

(* OPEN (stated, not proved): the compiled `p |= f` loop for a body that returns a PART of its input.
   C02_modify_sound needs [body_ok] (output frozen).  The relaxed side condition below lets the output own
   containers taken from the footprint of the body's input.  Missing for a proof: (1) C02_abs_update_own is
   proved for paths of keys and indices; through a slice path getpath hands the body a WINDOW of an owned array
   (offset > 0 or smaller capacity), whose prefix slices are not owned headers; (2) the loop invariant [inv]
   of HeapReduce (hclean, framed) is carried for frozen outputs only; (3) the final delpaths.  Evidence: oracle
   block `modify-grow` (1 716 cases per run: (A[i], A, A[j]) and variants x 11 slice-returning bodies) and the
   random cases with the 7 slice-returning bodies: 0 deviations on the current tree. *)
Definition C02_modify_part_open : Prop := forall fv fh, body_part_ok fv fh -> forall qs h ps v j fp,
  inv h ps j v fp -> Forall no_slice qs ->
  match modify_v fv j qs with
  | None => forall fuel, modify fh fuel h (Some ps) v qs = None
  | Some j' => exists fuel0, forall fuel, fuel0 <= fuel ->
      exists h' ps' u fp',
        modify fh fuel h (Some ps) v qs = Some (h', Some ps', u) /\
        inv h' ps' j' u fp' /\ framed h ps h' ps' /\ denotes h' u j'
  end.

(* the invariant implies that the executable abstraction reads the denoted value: no cycle *)
Theorem C02_invariant_acyclic : forall j h ps v fp, orep h ps j v fp -> forall fuel, depth j < fuel -> abs fuel h v = Some j.
Proof. exact orep_abs. Qed.
Print Assumptions C02_invariant_acyclic.

(* ---- delpaths at heap level ---- *)
(* [inv] = allocator well formed, no marker outside what the allocator owns, ownership invariant, one owner
   each; [framed] = every value the allocator does not reach denotes what it denoted.
   Mark-then-sweep with the owned-only deleteEmpty of the current code denotes Path.delpaths (every path
   marked against the state it is given, one sweep at the end, so that indices keep their meaning), for
   paths of keys / indices / a trailing slice; the result is acyclic and the invariant holds again. *)
Theorem C02_abs_delpaths : forall paths h ps v j fp,
  inv h ps j v fp -> Forall ok_path paths ->
  match Path.delpaths j paths with
  | None => forall fuel, HeapPath.delpaths current fuel h (Some ps) v paths = None
  | Some j' => exists fuel0, forall fuel, fuel0 <= fuel ->
      exists h' ps' u fp',
        HeapPath.delpaths current fuel h (Some ps) v paths = Some (h', Some ps', u) /\
        inv h' ps' j' u fp' /\ framed h ps h' ps' /\
        (forall fuel', depth j' < fuel' -> abs fuel' h' u = Some j')
  end.
Proof. exact abs_delpaths. Qed.
Print Assumptions C02_abs_delpaths.

(* the sweep alone *)
Theorem C02_sweep_sound : forall j ps fuel x f hc,
  alloc_wf ps -> depth j < fuel -> hclean hc ps -> orep hc ps j x f -> NoDup f ->
  exists h1 x' f', HeapPath.delete_empty fuel hc (Some ps) x = Some (h1, x') /\
    orep h1 ps (Path.delete_empty j) x' f' /\ NoDup f' /\ post hc ps f h1 ps f'.
Proof. exact sweep_sound. Qed.
Print Assumptions C02_sweep_sound.

(* getpath hands out an alias that denotes Path.getpath *)
Theorem C02_getpath_sound : forall q, ok_path q -> forall h ps j v fp,
  orep h ps j v fp ->
  match getpath j q with
  | None => h_getpath h v q = None
  | Some jx => exists x, h_getpath h v q = Some x /\ denotes h x jx
  end.
Proof. exact getpath_sound. Qed.
Print Assumptions C02_getpath_sound.

(* ---- the defining reductions: the compiled loops with ONE allocator shared by all setpath calls ---- *)
(* `p = $x`: the loop of compileAssign equals the fold of Path.update, for a new value without allocated
   container (always the case: $x exists before the allocator does) *)
Theorem C02_assign_sound : forall qs h ps v j fp n jn,
  inv h ps j v fp -> frep h ps jn n -> Forall ok_path qs ->
  match assign_v j qs jn with
  | None => assign_loop h (Some ps) v qs n = None
  | Some j' => exists h' ps' u fp',
      assign_loop h (Some ps) v qs n = Some (h', Some ps', u) /\ inv h' ps' j' u fp' /\ framed h ps h' ps' /\
      denotes h' u j'
  end.
Proof. exact assign_sound. Qed.
Print Assumptions C02_assign_sound.

(* `p |= f`: the loop of compileModify (getpath hands an alias to the body, first output of the body, empty
   => the path is collected, one delpaths with the same allocator at the end) equals the defining reduction
   [modify_v] (= _mref of the harness) WHEN the body satisfies [body_ok]: its output never contains a
   container the allocator may still write in place.  The known findings D5 and D9 are exactly the runs
   outside this side condition (`[.]`, `[.,.]` given an allocated container or a slice of one). *)
Theorem C02_modify_sound : forall fv fh, body_ok fv fh -> forall qs h ps v j fp,
  inv h ps j v fp -> Forall ok_path qs ->
  match modify_v fv j qs with
  | None => forall fuel, modify fh fuel h (Some ps) v qs = None
  | Some j' => exists fuel0, forall fuel, fuel0 <= fuel ->
      exists h' ps' u fp',
        modify fh fuel h (Some ps) v qs = Some (h', Some ps', u) /\
        inv h' ps' j' u fp' /\ framed h ps h' ps' /\ denotes h' u j'
  end.
Proof. exact modify_sound. Qed.
Print Assumptions C02_modify_sound.

(* the side condition is satisfiable, and the compiled loop computes on a concrete heap *)
Example C02_body_ok_const : forall z, body_ok (fun _ => Some (JNum z)) (fun h _ => (h, Some (HNum z))).
Proof. exact body_ok_const. Qed.
Example C02_body_ok_empty : body_ok (fun _ => None) (fun h _ => (h, None)).
Proof. exact body_ok_empty. Qed.

(* ---- the full statement is false; each of the two hypotheses is necessary (known findings D5, D9) ---- *)
Theorem C02_heap_full_refuted : ~ C02_heap_full.
Proof. exact heap_full_refuted. Qed.
Print Assumptions C02_heap_full_refuted.

(* D4 (repaired): the old two-index reslice gives [1,7,7,7] on the recorded witness, the current code the
   reference value [1,7,2,7] *)
Example C02_D4_regression :
  let run cfg := match update cfg h4 (Some [PArr 0 0]) (HArr 0 0 3 3) p4 (HNum 7%Z) with
                 | Some (h', _, u) => abs 8 h' u | None => None end in
  run two_index = Some (JArr [JNum 1; JNum 7; JNum 7; JNum 7]) /\
  run current = Some (JArr [JNum 1; JNum 7; JNum 2; JNum 7]) /\
  setpath (JArr [JNum 1; JNum 2; JNum 7]) p4 (JNum 7%Z) = Some (JArr [JNum 1; JNum 7; JNum 2; JNum 7]).
Proof. exact D4_regression. Qed.

(* D11 (repaired by 73ac0b6): {"a":[1,2,3]} | (.a[0],.a,.a[2]) |= (if type=="array" then .[0:1] else 10 end), the
   whole compiled reduction on the model (getpath alias, body, update, one allocator): the update body returns a
   prefix slice of an array the reduction owns, the third path grows it in place.  Code before the fix
   ([old_growth]: exposed cells keep their stale content) {"a":[10,2,10]}; current code (clear(v[l:i]))
   {"a":[10,null,10]} = the fold of getpath/setpath; the input is left alone *)
Example C02_D11_regression :
  let out cfg := match run11 cfg with Some (h, v) => abs 8 h v | None => None end in
  out old_growth = Some (JObj [(key_a, JArr [JNum 10; JNum 2; JNum 10])]) /\
  out current = Some (JObj [(key_a, JArr [JNum 10; JNull; JNum 10])]) /\
  ref11 = Some (JObj [(key_a, JArr [JNum 10; JNull; JNum 10])]) /\
  (forall cfg, match run11 cfg with Some (h, _) => abs 8 h (HMap 1) | None => None end =
               Some (JObj [(key_a, JArr [JNum 1; JNum 2; JNum 3])])).
Proof. exact D11_regression. Qed.

(* the native step alone, on the state the second path leaves (allocated array, prefix header, stale cells) *)
Example C02_D11_step :
  let h := [OArr [HNum 10; HNum 2; HNum 3]] in
  let run cfg := match update cfg h (Some [PArr 0 0]) (HArr 0 0 1 3) [PI 2%Z] (HNum 10) with
                 | Some (h', _, u) => Some (h', u) | None => None end in
  run old_growth = Some ([OArr [HNum 10; HNum 2; HNum 10]], HArr 0 0 3 3) /\
  run current = Some ([OArr [HNum 10; HNull; HNum 10]], HArr 0 0 3 3) /\
  setpath (JArr [JNum 10]) [PI 2%Z] (JNum 10) = Some (JArr [JNum 10; JNull; JNum 10]).
Proof. exact D11_step. Qed.

(* D5 on the current code with its slice path: the second step of [0,1] | (.[1:],.[1:]) |= [.] returns a
   value that is cyclic for every fuel *)
Example C02_D5_cyclic :
  exists h' A',
    update current h5s (Some [PArr 1 0]) (HArr 1 0 2 2) [PS (Some (bz 1)) None] (HArr 2 0 1 1) = Some (h', A', HArr 1 0 2 2) /\
    (forall fuel, abs fuel h' (HArr 1 0 2 2) = None) /\
    abs 5 h5s (HArr 1 0 2 2) = Some (JArr [JNum 0; JArr [JNum 1]]) /\
    abs 5 h5s (HArr 2 0 1 1) = Some (JArr [JArr [JArr [JNum 1]]]).
Proof. exact D5_cyclic. Qed.

(* D5: when the new value contains an allocated container of the state, update builds a CYCLIC value *)
Theorem C02_abs_update_refuted_alias : ~ full_any_value current.
Proof. exact abs_update_refuted_alias. Qed.
Print Assumptions C02_abs_update_refuted_alias.

(* D9: on an acyclic state in which an allocated container has two owners a write through one path
   changes what is stored under another *)
Theorem C02_abs_update_refuted_shared : ~ full_any_state current.
Proof. exact abs_update_refuted_shared. Qed.
Print Assumptions C02_abs_update_refuted_shared.

(* ---- value-level laws (Path.v) ---- *)
(* getpath q (setpath q x v) = x whenever the write is defined (paths of keys and indices) *)
Theorem C02_get_set : forall p v n u,
  no_slice p -> clean v -> n <> JEmpty -> setpath v p n = Some u -> getpath u p = Some n.
Proof. exact get_set. Qed.
Print Assumptions C02_get_set.

(* writes through paths that diverge at a key or at a non-negative index commute, errors included
   (bind = sequencing of two updates; either order fails iff the other does) *)
Theorem C02_set_commute : forall p q v x y,
  simple_path p -> simple_path q -> diverge p q -> x <> JEmpty -> y <> JEmpty -> clean v ->
  bind (Path.update v p x) (fun v1 => Path.update v1 q y) = bind (Path.update v q y) (fun v2 => Path.update v2 p x).
Proof. exact set_commute. Qed.
Print Assumptions C02_set_commute.

(* delpaths marks every path against the ORIGINAL indices and sweeps once: for the indices of one array
   (the level at which positions shift) this equals deleting one by one in descending order *)
Theorem C02_delpaths_descending : forall l is, Forall clean l -> descending is ->
  Path.delpaths (JArr l) (map idx is) =
  fold_left (fun acc i => bind acc (fun v => delpath v (idx i))) is (Some (JArr l)).
Proof. exact delpaths_descending. Qed.
Print Assumptions C02_delpaths_descending.

(* the slice case of C02_abs_update computes in place on an allocated array when the lengths agree *)
Example C02_slice_in_place :
  ok_path [PS (Some (bz 1)) (Some (bz 2))] /\
  update current [OArr [HNum 1; HNum 2; HNum 3]; OArr [HNum 9]] (Some [PArr 0 0]) (HArr 0 0 3 3)
         [PS (Some (bz 1)) (Some (bz 2))] (HArr 1 0 1 1) =
  Some ([OArr [HNum 1; HNum 9; HNum 3]; OArr [HNum 9]], Some [PArr 0 0], HArr 0 0 3 3).
Proof. split. constructor. reflexivity. Qed.

(* non-vacuity: hypotheses of C02_abs_update hold on a concrete heap where the write happens IN PLACE in an
   allocated array with spare capacity, beyond its length *)
Example C02_nonvacuous :
  let h := [OArr [HNum 1; HMap 1; HNull]; OMap [([97%N], HNum 2)]] in
  let ps := [PArr 0 0] in
  alloc_wf ps /\ orep h ps (JArr [JNum 1; JObj [([97%N], JNum 2)]]) (HArr 0 0 2 3) [0] /\ NoDup [0] /\
  frep h ps (JNum 7) (HNum 7) /\ no_slice [PI 2%Z] /\
  update current h (Some ps) (HArr 0 0 2 3) [PI 2%Z] (HNum 7) =
    Some ([OArr [HNum 1; HMap 1; HNum 7]; OMap [([97%N], HNum 2)]], Some ps, HArr 0 0 3 3) /\
  setpath (JArr [JNum 1; JObj [([97%N], JNum 2)]]) [PI 2%Z] (JNum 7) = Some (JArr [JNum 1; JObj [([97%N], JNum 2)]; JNum 7]).
Proof. exact abs_update_nonvacuous. Qed.
