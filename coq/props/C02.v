(* C02 — placeholder while the proofs are being written *)
From Coq Require Import List ZArith.
From Verif Require Import c02.Path c02.HeapPath.
Theorem C02_placeholder : True.
Proof. exact I. Qed.
Print Assumptions C02_placeholder.
