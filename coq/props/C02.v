(* C02 — Paths and update operators equal their defining reductions.
   Statements only; every theorem is closed by [exact] of a lemma proved in coq/c02.

   What is proved here is the NATIVE layer of the property: the update natives of func.go, modelled at
   heap level (coq/c02/HeapPath.v: slice headers, pointer-keyed allocator, in-place writes, in-place growth),
   against the value-level functions of coq/c02/Path.v, and laws of those functions.  The jq-level part
   ("p |= f equals its defining reduction") is checked by the implementation-only oracles of
   harness/c02 (no model needed) and needs the language semantics of another slice to be stated in Coq.

   The full-strength refinement statement is FALSE for the code as it is (findings D4, D5, D9 in
   docs/C02.md).  It is kept visible as [C02_heap_full]; its three weakenings-of-hypotheses are refuted by
   witnesses computed with the model, and the positive theorem is proved under the explicit, satisfiable
   side conditions  no_slice p  /  the new value is frozen  /  the ownership invariant [orep]. *)
From Coq Require Import List ZArith NArith.
From Verif Require Import c02.Path c02.PathProofs c02.HeapPath c02.HeapInv c02.HeapProofs c02.HeapAbs c02.HeapWitness.
Import ListNotations.

(* The statement one would like (DESIGN section 5, C02 T.1): on ANY acyclic heap, for ANY path and ANY
   acyclic new value, update returns a value that denotes Path.setpath of the denoted input. *)
Definition C02_heap_full : Prop := forall p h ps v j n jn,
  alloc_wf ps -> (exists fuel, abs fuel h v = Some j) -> (exists fuel, abs fuel h n = Some jn) ->
  refines as_is h ps v p n j jn.

(* ---- positive theorem ---- *)
(* On a heap satisfying the ownership invariant (allocated containers form a tree below the state, each
   with one owner, seen through full slice headers; everything else is never written), for a path of keys
   and indices and a new value that contains no allocated container:
   update fails exactly when Path.setpath fails; otherwise it returns (h',u) such that
   - abs h' u = setpath (abs h v) path n for every sufficient fuel (so u is ACYCLIC),
   - FRAME: every value x that does not reach an allocated container denotes the same value in h',
   - the invariant holds again for u (so the next step of the reduction may rely on it). *)
Theorem C02_abs_update : forall p h ps v j fp n jn,
  alloc_wf ps -> orep h ps j v fp -> NoDup fp -> frep h ps jn n -> no_slice p ->
  match setpath j p jn with
  | None => update as_is h (Some ps) v p n = None
  | Some j' =>
      exists h' ps' u fp',
        update as_is h (Some ps) v p n = Some (h', Some ps', u) /\
        (forall fuel, depth j' < fuel -> abs fuel h' u = Some j') /\
        (forall jx x, frep h ps jx x -> frep h' ps' jx x /\ forall fuel, depth jx < fuel -> abs fuel h' x = Some jx) /\
        orep h' ps' j' u fp' /\ NoDup fp' /\ alloc_wf ps'
  end.
Proof. exact abs_update. Qed.
Print Assumptions C02_abs_update.

(* the invariant implies that the executable abstraction reads the denoted value: no cycle *)
Theorem C02_invariant_acyclic : forall j h ps v fp, orep h ps j v fp -> forall fuel, depth j < fuel -> abs fuel h v = Some j.
Proof. exact orep_abs. Qed.
Print Assumptions C02_invariant_acyclic.

(* ---- the full statement is false; each of the three hypotheses is necessary (expected on the current tree) ---- *)
Theorem C02_heap_full_refuted : ~ C02_heap_full.
Proof. exact heap_full_refuted. Qed.
Print Assumptions C02_heap_full_refuted.

(* D4: with a slice component (all other hypotheses kept) the result is not setpath's *)
Theorem C02_abs_update_refuted_slice : ~ full_any_path as_is.
Proof. exact abs_update_refuted_slice. Qed.
Print Assumptions C02_abs_update_refuted_slice.

(* D5: when the new value contains an allocated container of the state, update builds a CYCLIC value *)
Theorem C02_abs_update_refuted_alias : ~ full_any_value as_is.
Proof. exact abs_update_refuted_alias. Qed.
Print Assumptions C02_abs_update_refuted_alias.

(* D9: on an acyclic state in which an allocated container has two owners a write through one path
   changes what is stored under another *)
Theorem C02_abs_update_refuted_shared : ~ full_any_state as_is.
Proof. exact abs_update_refuted_shared. Qed.
Print Assumptions C02_abs_update_refuted_shared.

(* ---- value-level laws (Path.v) ---- *)
(* getpath q (setpath q x v) = x whenever the write is defined (paths of keys and indices) *)
Theorem C02_get_set : forall p v n u,
  no_slice p -> clean v -> n <> JEmpty -> setpath v p n = Some u -> getpath u p = Some n.
Proof. exact get_set. Qed.
Print Assumptions C02_get_set.

(* writes through paths that diverge at a key or at a non-negative index commute, errors included
   (bind = sequencing of two updates; either order fails iff the other does) *)
Theorem C02_set_commute : forall p q v x y,
  simple_path p -> simple_path q -> diverge p q -> x <> JEmpty -> y <> JEmpty -> clean v ->
  bind (Path.update v p x) (fun v1 => Path.update v1 q y) = bind (Path.update v q y) (fun v2 => Path.update v2 p x).
Proof. exact set_commute. Qed.
Print Assumptions C02_set_commute.

(* delpaths marks every path against the ORIGINAL indices and sweeps once: for the indices of one array
   (the level at which positions shift) this equals deleting one by one in descending order *)
Theorem C02_delpaths_descending : forall l is, Forall clean l -> descending is ->
  Path.delpaths (JArr l) (map idx is) =
  fold_left (fun acc i => bind acc (fun v => delpath v (idx i))) is (Some (JArr l)).
Proof. exact delpaths_descending. Qed.
Print Assumptions C02_delpaths_descending.

(* non-vacuity: hypotheses of C02_abs_update hold on a concrete heap where the write happens IN PLACE in an
   allocated array with spare capacity, beyond its length *)
Example C02_nonvacuous :
  let h := [OArr [HNum 1; HMap 1; HNull]; OMap [([97%N], HNum 2)]] in
  let ps := [PArr 0 0] in
  alloc_wf ps /\ orep h ps (JArr [JNum 1; JObj [([97%N], JNum 2)]]) (HArr 0 0 2 3) [0] /\ NoDup [0] /\
  frep h ps (JNum 7) (HNum 7) /\ no_slice [PI 2%Z] /\
  update as_is h (Some ps) (HArr 0 0 2 3) [PI 2%Z] (HNum 7) =
    Some ([OArr [HNum 1; HMap 1; HNum 7]; OMap [([97%N], HNum 2)]], Some ps, HArr 0 0 3 3) /\
  setpath (JArr [JNum 1; JObj [([97%N], JNum 2)]]) [PI 2%Z] (JNum 7) = Some (JArr [JNum 1; JObj [([97%N], JNum 2)]; JNum 7]).
Proof. exact abs_update_nonvacuous. Qed.
