(* C02 — Paths and update operators equal their defining reductions.
   Statements only; every theorem is closed by [exact] of a lemma proved in coq/c02.

   What is proved here is the NATIVE layer of the property: the update natives of func.go, modelled at
   heap level (coq/c02/HeapPath.v: slice headers, pointer-keyed allocator, in-place writes, in-place growth),
   against the value-level functions of coq/c02/Path.v, and laws of those functions.  The jq-level part
   ("p |= f equals its defining reduction") is checked by the implementation-only oracles of
   harness/c02 (no model needed) and needs the language semantics of another slice to be stated in Coq.

   The model is of the CURRENT code ([current]: three-index reslice of fix 8b3b8e6, two-parameter deleteEmpty
   of fix 96ad5a7).  The full-strength refinement statement is still FALSE for it (known findings D5, D9 in
   docs/C02.md).  It is kept visible as [C02_heap_full]; dropping either of the two hypotheses "the new value
   is frozen" / "ownership invariant [orep]" is refuted by witnesses computed with the model, and the positive
   theorem is proved under those hypotheses for every path in which no slice is directly followed by
   another slice ([ok_path]); that last shape is modelled and corresponded but neither proved nor refuted
   ([C02_heap_inner_slices_open]).  D4 (repaired) is kept as a regression example. *)
From Coq Require Import List ZArith NArith.
From Verif Require Import c02.Path c02.PathProofs c02.HeapPath c02.HeapInv c02.HeapProofs c02.HeapSlice c02.HeapInner c02.HeapAbs c02.HeapWitness c02.HeapSweep c02.HeapDelpaths c02.HeapReduce.
Import ListNotations.

(* The statement one would like (DESIGN section 5, C02 T.1): on ANY acyclic heap, for ANY path and ANY
   acyclic new value, update returns a value that denotes Path.setpath of the denoted input. *)
Definition C02_heap_full : Prop := forall p h ps v j n jn,
  alloc_wf ps -> (exists fuel, abs fuel h v = Some j) -> (exists fuel, abs fuel h n = Some jn) ->
  refines current h ps v p n j jn.

(* Open (neither proved nor refuted; 0 deviations in the `heapsafe` stream, 460 000 cases): the positive
   theorem for EVERY path, i.e. also for a slice component DIRECTLY followed by another slice.  Every other
   shape ([ok_path]: a slice is last or is followed by an index) is proved below. *)
Definition C02_heap_inner_slices_open : Prop := forall p h ps v j fp n jn,
  alloc_wf ps -> orep h ps j v fp -> NoDup fp -> frep h ps jn n -> refines current h ps v p n j jn.

(* ---- positive theorem ---- *)
(* On a heap satisfying the ownership invariant (allocated containers form a tree below the state, each
   with one owner, seen through full slice headers; everything else is never written), for a path of keys
   indices and slices in which every slice is the last component or is followed by an index ([ok_path]:
   `.a[1][2:4] = x`, `del(.a[1:])`, `.[2:4][0].b |= f`, the shape of the repaired D4, ...) and a new value that
   contains no allocated container (through a slice, update works on the window v[start:end:end] of the
   backing array and splices the result back; an index inside a window that starts at cell 0 of an owned
   array is written in place, every other write through a window copies it):
   update fails exactly when Path.setpath fails; otherwise it returns (h',u) such that
   - abs h' u = setpath (abs h v) path n for every sufficient fuel (so u is ACYCLIC),
   - FRAME: every value x that does not reach an allocated container denotes the same value in h',
   - the invariant holds again for u (so the next step of the reduction may rely on it). *)
Theorem C02_abs_update : forall p h ps v j fp n jn,
  alloc_wf ps -> orep h ps j v fp -> NoDup fp -> frep h ps jn n -> ok_path p ->
  match setpath j p jn with
  | None => update current h (Some ps) v p n = None
  | Some j' =>
      exists h' ps' u fp',
        update current h (Some ps) v p n = Some (h', Some ps', u) /\
        (forall fuel, depth j' < fuel -> abs fuel h' u = Some j') /\
        (forall jx x, frep h ps jx x -> frep h' ps' jx x /\ forall fuel, depth jx < fuel -> abs fuel h' x = Some jx) /\
        orep h' ps' j' u fp' /\ NoDup fp' /\ alloc_wf ps'
  end.
Proof. exact abs_update. Qed.
Print Assumptions C02_abs_update.

(* the invariant implies that the executable abstraction reads the denoted value: no cycle *)
Theorem C02_invariant_acyclic : forall j h ps v fp, orep h ps j v fp -> forall fuel, depth j < fuel -> abs fuel h v = Some j.
Proof. exact orep_abs. Qed.
Print Assumptions C02_invariant_acyclic.

(* ---- delpaths at heap level ---- *)
(* [inv] = allocator well formed, no marker outside what the allocator owns, ownership invariant, one owner
   each; [framed] = every value the allocator does not reach denotes what it denoted.
   Mark-then-sweep with the owned-only deleteEmpty of the current code denotes Path.delpaths (every path
   marked against the state it is given, one sweep at the end, so that indices keep their meaning), for
   paths of keys / indices / a trailing slice; the result is acyclic and the invariant holds again. *)
Theorem C02_abs_delpaths : forall paths h ps v j fp,
  inv h ps j v fp -> Forall ok_path paths ->
  match Path.delpaths j paths with
  | None => forall fuel, HeapPath.delpaths current fuel h (Some ps) v paths = None
  | Some j' => exists fuel0, forall fuel, fuel0 <= fuel ->
      exists h' ps' u fp',
        HeapPath.delpaths current fuel h (Some ps) v paths = Some (h', Some ps', u) /\
        inv h' ps' j' u fp' /\ framed h ps h' ps' /\
        (forall fuel', depth j' < fuel' -> abs fuel' h' u = Some j')
  end.
Proof. exact abs_delpaths. Qed.
Print Assumptions C02_abs_delpaths.

(* the sweep alone *)
Theorem C02_sweep_sound : forall j ps fuel x f hc,
  alloc_wf ps -> depth j < fuel -> hclean hc ps -> orep hc ps j x f -> NoDup f ->
  exists h1 x' f', HeapPath.delete_empty fuel hc (Some ps) x = Some (h1, x') /\
    orep h1 ps (Path.delete_empty j) x' f' /\ NoDup f' /\ post hc ps f h1 ps f'.
Proof. exact sweep_sound. Qed.
Print Assumptions C02_sweep_sound.

(* getpath hands out an alias that denotes Path.getpath *)
Theorem C02_getpath_sound : forall q, ok_path q -> forall h ps j v fp,
  orep h ps j v fp ->
  match getpath j q with
  | None => h_getpath h v q = None
  | Some jx => exists x, h_getpath h v q = Some x /\ denotes h x jx
  end.
Proof. exact getpath_sound. Qed.
Print Assumptions C02_getpath_sound.

(* ---- the defining reductions: the compiled loops with ONE allocator shared by all setpath calls ---- *)
(* `p = $x`: the loop of compileAssign equals the fold of Path.update, for a new value without allocated
   container (always the case: $x exists before the allocator does) *)
Theorem C02_assign_sound : forall qs h ps v j fp n jn,
  inv h ps j v fp -> frep h ps jn n -> Forall ok_path qs ->
  match assign_v j qs jn with
  | None => assign_loop h (Some ps) v qs n = None
  | Some j' => exists h' ps' u fp',
      assign_loop h (Some ps) v qs n = Some (h', Some ps', u) /\ inv h' ps' j' u fp' /\ framed h ps h' ps' /\
      denotes h' u j'
  end.
Proof. exact assign_sound. Qed.
Print Assumptions C02_assign_sound.

(* `p |= f`: the loop of compileModify (getpath hands an alias to the body, first output of the body, empty
   => the path is collected, one delpaths with the same allocator at the end) equals the defining reduction
   [modify_v] (= _mref of the harness) WHEN the body satisfies [body_ok]: its output never contains a
   container the allocator may still write in place.  The known findings D5 and D9 are exactly the runs
   outside this side condition (`[.]`, `[.,.]` given an allocated container or a slice of one). *)
Theorem C02_modify_sound : forall fv fh, body_ok fv fh -> forall qs h ps v j fp,
  inv h ps j v fp -> Forall ok_path qs ->
  match modify_v fv j qs with
  | None => forall fuel, modify fh fuel h (Some ps) v qs = None
  | Some j' => exists fuel0, forall fuel, fuel0 <= fuel ->
      exists h' ps' u fp',
        modify fh fuel h (Some ps) v qs = Some (h', Some ps', u) /\
        inv h' ps' j' u fp' /\ framed h ps h' ps' /\ denotes h' u j'
  end.
Proof. exact modify_sound. Qed.
Print Assumptions C02_modify_sound.

(* the side condition is satisfiable, and the compiled loop computes on a concrete heap *)
Example C02_body_ok_const : forall z, body_ok (fun _ => Some (JNum z)) (fun h _ => (h, Some (HNum z))).
Proof. exact body_ok_const. Qed.
Example C02_body_ok_empty : body_ok (fun _ => None) (fun h _ => (h, None)).
Proof. exact body_ok_empty. Qed.

(* ---- the full statement is false; each of the two hypotheses is necessary (known findings D5, D9) ---- *)
Theorem C02_heap_full_refuted : ~ C02_heap_full.
Proof. exact heap_full_refuted. Qed.
Print Assumptions C02_heap_full_refuted.

(* D4 (repaired): the old two-index reslice gives [1,7,7,7] on the recorded witness, the current code the
   reference value [1,7,2,7] *)
Example C02_D4_regression :
  let run cfg := match update cfg h4 (Some [PArr 0 0]) (HArr 0 0 3 3) p4 (HNum 7%Z) with
                 | Some (h', _, u) => abs 8 h' u | None => None end in
  run two_index = Some (JArr [JNum 1; JNum 7; JNum 7; JNum 7]) /\
  run current = Some (JArr [JNum 1; JNum 7; JNum 2; JNum 7]) /\
  setpath (JArr [JNum 1; JNum 2; JNum 7]) p4 (JNum 7%Z) = Some (JArr [JNum 1; JNum 7; JNum 2; JNum 7]).
Proof. exact D4_regression. Qed.

(* D5 on the current code with its slice path: the second step of [0,1] | (.[1:],.[1:]) |= [.] returns a
   value that is cyclic for every fuel *)
Example C02_D5_cyclic :
  exists h' A',
    update current h5s (Some [PArr 1 0]) (HArr 1 0 2 2) [PS (Some (bz 1)) None] (HArr 2 0 1 1) = Some (h', A', HArr 1 0 2 2) /\
    (forall fuel, abs fuel h' (HArr 1 0 2 2) = None) /\
    abs 5 h5s (HArr 1 0 2 2) = Some (JArr [JNum 0; JArr [JNum 1]]) /\
    abs 5 h5s (HArr 2 0 1 1) = Some (JArr [JArr [JArr [JNum 1]]]).
Proof. exact D5_cyclic. Qed.

(* D5: when the new value contains an allocated container of the state, update builds a CYCLIC value *)
Theorem C02_abs_update_refuted_alias : ~ full_any_value current.
Proof. exact abs_update_refuted_alias. Qed.
Print Assumptions C02_abs_update_refuted_alias.

(* D9: on an acyclic state in which an allocated container has two owners a write through one path
   changes what is stored under another *)
Theorem C02_abs_update_refuted_shared : ~ full_any_state current.
Proof. exact abs_update_refuted_shared. Qed.
Print Assumptions C02_abs_update_refuted_shared.

(* ---- value-level laws (Path.v) ---- *)
(* getpath q (setpath q x v) = x whenever the write is defined (paths of keys and indices) *)
Theorem C02_get_set : forall p v n u,
  no_slice p -> clean v -> n <> JEmpty -> setpath v p n = Some u -> getpath u p = Some n.
Proof. exact get_set. Qed.
Print Assumptions C02_get_set.

(* writes through paths that diverge at a key or at a non-negative index commute, errors included
   (bind = sequencing of two updates; either order fails iff the other does) *)
Theorem C02_set_commute : forall p q v x y,
  simple_path p -> simple_path q -> diverge p q -> x <> JEmpty -> y <> JEmpty -> clean v ->
  bind (Path.update v p x) (fun v1 => Path.update v1 q y) = bind (Path.update v q y) (fun v2 => Path.update v2 p x).
Proof. exact set_commute. Qed.
Print Assumptions C02_set_commute.

(* delpaths marks every path against the ORIGINAL indices and sweeps once: for the indices of one array
   (the level at which positions shift) this equals deleting one by one in descending order *)
Theorem C02_delpaths_descending : forall l is, Forall clean l -> descending is ->
  Path.delpaths (JArr l) (map idx is) =
  fold_left (fun acc i => bind acc (fun v => delpath v (idx i))) is (Some (JArr l)).
Proof. exact delpaths_descending. Qed.
Print Assumptions C02_delpaths_descending.

(* the slice case of C02_abs_update computes in place on an allocated array when the lengths agree *)
Example C02_slice_in_place :
  ok_path [PS (Some (bz 1)) (Some (bz 2))] /\
  update current [OArr [HNum 1; HNum 2; HNum 3]; OArr [HNum 9]] (Some [PArr 0 0]) (HArr 0 0 3 3)
         [PS (Some (bz 1)) (Some (bz 2))] (HArr 1 0 1 1) =
  Some ([OArr [HNum 1; HNum 9; HNum 3]; OArr [HNum 9]], Some [PArr 0 0], HArr 0 0 3 3).
Proof. split. constructor. reflexivity. Qed.

(* non-vacuity: hypotheses of C02_abs_update hold on a concrete heap where the write happens IN PLACE in an
   allocated array with spare capacity, beyond its length *)
Example C02_nonvacuous :
  let h := [OArr [HNum 1; HMap 1; HNull]; OMap [([97%N], HNum 2)]] in
  let ps := [PArr 0 0] in
  alloc_wf ps /\ orep h ps (JArr [JNum 1; JObj [([97%N], JNum 2)]]) (HArr 0 0 2 3) [0] /\ NoDup [0] /\
  frep h ps (JNum 7) (HNum 7) /\ no_slice [PI 2%Z] /\
  update current h (Some ps) (HArr 0 0 2 3) [PI 2%Z] (HNum 7) =
    Some ([OArr [HNum 1; HMap 1; HNum 7]; OMap [([97%N], HNum 2)]], Some ps, HArr 0 0 3 3) /\
  setpath (JArr [JNum 1; JObj [([97%N], JNum 2)]]) [PI 2%Z] (JNum 7) = Some (JArr [JNum 1; JObj [([97%N], JNum 2)]; JNum 7]).
Proof. exact abs_update_nonvacuous. Qed.
