(* C19 — No ambient authority by default; each compile option grants exactly its own.
   Statements only; every theorem is closed by [exact] of a lemma proved in coq/c19/.
   The list of ambient references (ambient_refs, ambient_imports, loader_inrefs, time_dependent_builtins)
   is REGENERATED from the current tree by tools/go2coq/ambient (coq/gen/GenAmbient.v); OptModel is the hand
   model of option.go / compileFunc's special names / Compile's variable handling. *)
From Coq Require Import List NArith Bool.
From Coq Require Import String.
From Verif Require Import gen.GenAmbient c19.Ambient c19.AmbientProofs c19.OptModel c19.OptProofs.
Import ListNotations.
Close Scope string_scope.
Open Scope list_scope.
Open Scope N_scope.

(* ---- the code holds no ambient reference outside the reviewed places (FINITE check over the regenerated
   list, by computation): time.Now only in funcNow, time.Local only in funcLocaltime/funcStrflocaltime,
   os / path/filepath / io.ReadAll only inside module_loader.go's explicit loader, imports of non-pure
   packages only there, and no other file mentions anything module_loader.go declares except the
   interface type ModuleLoader. *)
Theorem C19_ambient_ok : ambient_okb = true.
Proof. exact ambient_ok. Qed.
Print Assumptions C19_ambient_ok.

Theorem C19_default_path_clean : forall file fn sel, In (file, fn, sel) ambient_refs ->
  file <> "module_loader.go"%string ->
  (file = "func.go"%string /\ (sel = "time.Now"%string \/ sel = "time.Local"%string))
  \/ (file = "parser.go"%string /\ sel = "fmt.Printf"%string).
Proof. exact default_path_clean_holds. Qed.
Print Assumptions C19_default_path_clean.

Theorem C19_loader_only_by_constructor : forall file fn ident,
  In (file, fn, ident) loader_inrefs -> ident = "ModuleLoader"%string.
Proof. exact loader_unreachable. Qed.
Print Assumptions C19_loader_only_by_constructor.

(* ---- no options: the special names see nothing, whatever the world is *)
Theorem C19_no_ambient : forall w,
  compile_special w no_options SpEnv = BConstObject [] /\
  compile_special w no_options SpDollarENV = BConstObject [] /\
  compile_special w no_options SpInput = BCompileErrorInputNotAllowed /\
  compile_special w no_options SpModulemeta = BModulemeta false /\
  compile_special w no_options SpImport = BCompileErrorCannotLoadModule /\
  compile_special w no_options SpInclude = BCompileErrorCannotLoadModule /\
  compile_special w no_options SpImportData = BCompileErrorCannotLoadModule.
Proof. exact no_ambient_table. Qed.
Print Assumptions C19_no_ambient.

Theorem C19_no_ambient_world : forall w w' s, compile_special w no_options s = compile_special w' no_options s.
Proof. exact no_ambient_world. Qed.
Print Assumptions C19_no_ambient_world.

Theorem C19_options_independent : forall w o,
  (o_environ_loader o = None -> compile_special w o SpEnv = BConstObject []) /\
  (o_input_iter o = false -> compile_special w o SpInput = BCompileErrorInputNotAllowed) /\
  (o_module_loader o = None -> compile_special w o SpImport = BCompileErrorCannotLoadModule
                               /\ compile_special w o SpModulemeta = BModulemeta false).
Proof. exact options_independent. Qed.
Print Assumptions C19_options_independent.

(* ---- WithEnvironLoader: `env` / `$ENV` show exactly the loader's "k=v" entries (split at the FIRST '=',
   empty keys and entries without '=' dropped, the last entry of a key wins) *)
Theorem C19_env_is_loader : forall w o l, o_environ_loader o = Some l ->
  compile_special w o SpEnv = BConstObject (env_pairs (l w)) /\
  compile_special w o SpDollarENV = BConstObject (env_pairs (l w)).
Proof. exact env_is_loader. Qed.
Print Assumptions C19_env_is_loader.

Theorem C19_env_pairs_sound : forall kvs k v, In (k, v) (env_pairs kvs) ->
  k <> [] /\ ~ In 61 k /\ In (k ++ 61 :: v) kvs.
Proof. exact env_pairs_sound. Qed.
Print Assumptions C19_env_pairs_sound.

Theorem C19_env_pairs_complete : forall kvs k v, k <> [] -> ~ In 61 k -> In (k ++ 61 :: v) kvs ->
  In (k, v) (env_pairs kvs).
Proof. exact env_pairs_complete. Qed.
Print Assumptions C19_env_pairs_complete.

Theorem C19_env_last_wins : forall kvs k v, k <> [] -> ~ In 61 k -> env_lookup (kvs ++ [k ++ 61 :: v]) k = Some v.
Proof. exact env_lookup_last. Qed.
Print Assumptions C19_env_last_wins.

(* ---- WithVariables / Run: values bind to the names in order; count mismatches are errors *)
Theorem C19_vars_bind_in_order : forall (V : Type) names (v : V) values, List.length values = List.length names ->
  (exists vs e, run_vars V names v values = Running V [v] vs e) /\
  forall name, lookup_var V (run_vars V names v values) name = bind_spec V names values name.
Proof. exact vars_bind. Qed.
Print Assumptions C19_vars_bind_in_order.

Theorem C19_vars_nodup : forall (V : Type) names (values : list V) i n, NoDup names ->
  List.length values = List.length names -> nth_error names i = Some n -> bind_spec V names values n = nth_error values i.
Proof. exact bind_spec_nodup. Qed.
Print Assumptions C19_vars_nodup.

Theorem C19_vars_too_many : forall (V : Type) names (v : V) values, (List.length names < List.length values)%nat ->
  run_vars V names v values = TooManyValues V.
Proof. exact vars_too_many. Qed.
Print Assumptions C19_vars_too_many.

Theorem C19_vars_too_few : forall (V : Type) names (v : V) values, (List.length values < List.length names)%nat ->
  run_vars V names v values = ExpectedVariable V (nth (List.length values) names 0).
Proof. exact vars_too_few. Qed.
Print Assumptions C19_vars_too_few.

(* ---- WithInputIter: one iterator item per call, in order — a value, or an error value as a (catchable)
   error of that call; an error item does not affect later calls; after the end "break" for ever *)
Theorem C19_input_in_order : forall (V : Type) n (it : list (input_item V)),
  input_calls V n it = map (result_of_item V) (firstn n it) ++ repeat (InputBreak V) (n - List.length it).
Proof. exact input_in_order. Qed.
Print Assumptions C19_input_in_order.

Theorem C19_input_after_error : forall (V : Type) (e : V) before after n,
  input_calls V (List.length before + 1 + n) (before ++ ItErr V e :: after)
  = map (result_of_item V) before ++ InputError V e :: input_calls V n after.
Proof. exact input_after_error. Qed.
Print Assumptions C19_input_after_error.

(* ---- native call: argument i of the call site is xs[i] of the Go callback (compileCallInternal pushes the
   argument values last-to-first, opcall pops them first-to-last); with generator arguments the last
   argument is the outermost loop (enum_args).  This is the argument-order part of "native as def". *)
Theorem C19_opcall_args_in_order : forall (V : Type) (x : V) args rest,
  opcall_pop V (List.length args) (x :: push_in_code_order V args rest) = Some (x, args, rest).
Proof. exact opcall_args_in_order. Qed.
Print Assumptions C19_opcall_args_in_order.

Theorem C19_enum_args_components : forall (V : Type) gens v,
  In v (enum_args V gens) -> Forall2 (fun a g => In a g) v gens.
Proof. exact enum_args_components. Qed.
Print Assumptions C19_enum_args_components.

Example C19_enum_args_order :
  enum_args N [[1; 2]; [10]; [100; 200]] = [[1; 10; 100]; [2; 10; 100]; [1; 10; 200]; [2; 10; 200]].
Proof. reflexivity. Qed.

(* ---- WithFunction / WithIterFunction arity masks, for ALL registration sequences that do not panic
   (apply_opts = Some _ entails 0 <= min <= max <= 30 for each): name/cnt is accepted iff some registration
   of the name covers cnt; the Go function run is that of the LAST covering registration. *)
Theorem C19_arity_mask : forall regs c, apply_opts regs empty_table = Some c ->
  forall name cnt, lookup_custom c name cnt = option_map result_of (find (covers name cnt) (rev regs)).
Proof. exact arity_mask. Qed.
Print Assumptions C19_arity_mask.

Theorem C19_arity_accept_iff : forall regs c, apply_opts regs empty_table = Some c ->
  forall name cnt, (exists res, lookup_custom c name cnt = Some res) <->
                   (exists r, In r regs /\ rname r = name /\ rmin r <= cnt <= rmax r).
Proof. exact arity_accept_iff. Qed.
Print Assumptions C19_arity_accept_iff.

(* the N model coincides with Go's 64-bit int: masks stay below 2^31, arities >= 31 are never accepted *)
Theorem C19_arity_no_wrap : forall regs c, apply_opts regs empty_table = Some c ->
  forall name f, c name = Some f -> argcount f < 2 ^ 31 /\ forall cnt, 31 <= cnt -> accept f cnt = false.
Proof. exact argcount_small. Qed.
Print Assumptions C19_arity_no_wrap.

(* The remaining clause of the property — a registered Go function is interchangeable with a jq `def` of the
   same input/output relation in every calling context (paths, try, backtracking, argument order) — is a
   statement about the VM (C01's logical relation extended with opcall [3]any); it is NOT proved here and is
   covered by the correspondence stream `custom` only (implementation-only oracle: native vs def outputs). *)

(* non-vacuity: overlapping registrations of one name, the later one wins on the overlap *)
Example C19_nonvacuous :
  exists c, apply_opts [ {| rname := 7; rmin := 0; rmax := 3; riter := false; rcb := 1 |};
                         {| rname := 7; rmin := 2; rmax := 30; riter := false; rcb := 2 |} ] empty_table = Some c
            /\ lookup_custom c 7 1 = Some (1, false) /\ lookup_custom c 7 2 = Some (2, false)
            /\ lookup_custom c 7 30 = Some (2, false) /\ lookup_custom c 7 31 = None /\ lookup_custom c 8 0 = None.
Proof. eexists. split; [reflexivity |]. vm_compute. repeat split. Qed.
