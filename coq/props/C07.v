(* C07 — Cancellation is prompt, prefix-consistent and terminal.
   Statements only; every theorem is closed by [exact] of a lemma of c07/CancelProofs.v.
   The machine is abstract: the theorems quantify over the state type [St] and over EVERY function
   [step] ("execute the instruction at pc, including fork popping"), so they hold however the query
   loops (tail calls compiled to jumps, native iterators, backtracking loops).  [next]/[calls]
   (c07/Cancel.v) transcribe the Next loop of execute.go: poll ctx.Done() before every instruction; on
   cancellation park the machine (pc = len codes, forks = nil) and return ctx.Err().
   [done : nat -> bool] is the context: bit k = answer of the k-th poll; [never] = uncancelled.
   The tie to the code is the correspondence run by checks/c07.py: the model, instantiated with the
   implementation's own uncancelled trace as [step], predicts every cancelled run (poll counts and results). *)
From Coq Require Import List Arith Bool.
From Verif Require Import c07.Cancel c07.CancelProofs.
From Verif Require c01vm.Syntax c01vm.Code c01vm.VM c07.VMLink.
Import ListNotations.


(* prompt: a Next call in progress when poll k (the first cancelled one) is asked returns ctx.Err() at
   that poll, has executed exactly one instruction per earlier poll and none after, and parks the
   machine; and it does return even when the uncancelled call would loop forever *)
Theorem C07_cancel_prompt : forall (St V E : Type) (step : St -> outcome St V E),
  forall done k, first_true done k -> forall c : cfg St,
  st c <> Parked -> polls c <= k ->
  (forall f r c', next step done f c = Some (r, c') -> k < polls c' ->
     r = RCtx /\ polls c' = S k /\ instrs c' = instrs c + (k - polls c) /\ st c' = Parked)
  /\ ((forall f r c', next step never f c = Some (r, c') -> k < polls c') ->
      next step done (S (k - polls c)) c = Some (RCtx, mkCfg (S k) (instrs c + (k - polls c)) Parked)).
Proof. exact cancel_prompt. Qed.
Print Assumptions C07_cancel_prompt.

(* exactly one poll per executed instruction *)
Theorem C07_one_poll_per_instruction : forall (St V E : Type) (step : St -> outcome St V E),
  forall done f (c : cfg St) r c', next step done f c = Some (r, c') ->
  polls c' - polls c = (instrs c' - instrs c) + (match r with RCtx => 1 | _ => 0 end) /\ instrs c <= instrs c'.
Proof. exact one_poll_per_instruction. Qed.
Print Assumptions C07_one_poll_per_instruction.

(* prefix + terminal, on whole Iter histories: the cancelled history is a prefix of the uncancelled
   one (same results, same states, all returned before poll k), then either nothing more was asked,
   or ctx.Err() at poll k exactly followed by (nil,false) forever *)
Theorem C07_cancel_history : forall (St V E : Type) (step : St -> outcome St V E),
  forall done k, first_true done k -> forall n fuel (c : cfg St) h,
  polls c <= k -> calls step done fuel n c = Some h ->
  exists pre post, h = pre ++ post
    /\ calls step never fuel (length pre) c = Some pre
    /\ Forall (fun rc => polls (snd rc) <= k) pre
    /\ (post = [] \/
        let c1 := end_cfg c pre in
        st c1 <> Parked
        /\ (forall f' r' c'', next step never f' c1 = Some (r', c'') -> k < polls c'')
        /\ exists m, let P := mkCfg (S k) (instrs c1 + (k - polls c1)) Parked in
             post = (RCtx, P) :: repeat (RDone, P) m).
Proof. exact cancel_history. Qed.
Print Assumptions C07_cancel_history.

Theorem C07_cancel_prefix : forall (St V E : Type) (step : St -> outcome St V E),
  forall done k, first_true done k -> forall n fuel (c : cfg St) h,
  polls c <= k -> calls step done fuel n c = Some h ->
  exists pre m, calls step never fuel (length pre) c = Some pre /\
    (map fst h = map fst pre \/ map fst h = map fst pre ++ RCtx :: repeat RDone m).
Proof. exact cancel_prefix_results. Qed.
Print Assumptions C07_cancel_prefix.

(* terminal: after the context error the machine is parked; from there every Next, under any context,
   returns (nil,false) without polling and without changing the state *)
Theorem C07_cancel_terminal : forall (St V E : Type) (step : St -> outcome St V E),
  forall done f (c : cfg St) c', next step done f c = Some (RCtx, c') ->
  st c' = Parked /\ forall done' fuel n, calls step done' (S fuel) n c' = Some (repeat (RDone, c') n).
Proof. exact cancel_terminal. Qed.
Print Assumptions C07_cancel_terminal.

(* after Next has returned false it returns false forever *)
Theorem C07_exhausted_absorbing : forall (St V E : Type) (step : St -> outcome St V E),
  forall done f (c : cfg St) c', next step done f c = Some (RDone, c') ->
  st c' = Parked /\ forall done' fuel n, calls step done' (S fuel) n c' = Some (repeat (RDone, c') n).
Proof. exact exhausted_absorbing. Qed.
Print Assumptions C07_exhausted_absorbing.

(* after an error value has been emitted the iterator is still live: the next call is the poll
   followed by [step] from the saved state (no stuck / panic state exists in between) *)
Theorem C07_error_resumes : forall (St V E : Type) (step : St -> outcome St V E),
  forall done f (c : cfg St) e c', next step done f c = Some (RErr e, c') ->
  exists s', st c' = Running s' /\
    forall done' fuel, next step done' (S fuel) c' =
      if done' (polls c') then Some (RCtx, mkCfg (S (polls c')) (instrs c') Parked)
      else match step s' with
           | Continue s'' => next step done' fuel (mkCfg (S (polls c')) (S (instrs c')) (Running s''))
           | Emit v s'' => Some (RVal v, mkCfg (S (polls c')) (S (instrs c')) (Running s''))
           | EmitErr e' s'' => Some (RErr e', mkCfg (S (polls c')) (S (instrs c')) (Running s''))
           | Exhausted => Some (RDone, mkCfg (S (polls c')) (S (instrs c')) Parked)
           end.
Proof. exact error_resumes. Qed.
Print Assumptions C07_error_resumes.


(* ---- the abstract [step] instantiated with a concrete step function: the VM of coq/c01vm ---------------- *)
(* VMLink.vm_fetch nt code = one instruction fetch of c01vm's step (execute.go's Next loop for fragment F,
   tied to the implementation by instruction lists, outputs and per-instruction traces), including the fork
   popping / return that follows a break.  It has the type of [step]; this theorem says it is that function. *)
Theorem C07_c01vm_step_is_step : forall (nt : Code.natives) (code : list Code.instr) (s : VM.state),
  match VMLink.vm_fetch nt code s with
  | Continue s' =>
      VM.step nt code s = VM.Next s' \/
      (exists e fk vs l, VM.step nt code s = VM.Next (VM.Brk e fk vs l) /\ VM.step nt code (VM.Brk e fk vs l) = VM.Next s')
  | Emit v s' => VM.step nt code s = VM.Emit v s'
  | EmitErr (Some x) _ =>
      VM.step nt code s = VM.Halt (Some x) \/
      (exists fk vs l, VM.step nt code s = VM.Next (VM.Brk (Some x) fk vs l) /\ VM.step nt code (VM.Brk (Some x) fk vs l) = VM.Halt (Some x))
  | EmitErr None _ => VM.step nt code s = VM.Stuck
  | Exhausted =>
      VM.step nt code s = VM.Halt None \/
      (exists fk vs l, VM.step nt code s = VM.Next (VM.Brk None fk vs l) /\ VM.step nt code (VM.Brk None fk vs l) = VM.Halt None)
  end.
Proof. exact VMLink.vm_fetch_spec. Qed.
Print Assumptions C07_c01vm_step_is_step.

(* the uncancelled Iter history over vm_fetch is c01vm's [run] (by C01vm_compile_correct: the denotation of
   the query): the outputs in order, then (nil,false) or the error value *)
Theorem C07_c01vm_calls_run : forall (nt : Code.natives) (code : list Code.instr) outs fuel s e,
  VM.run nt code fuel s = (outs, e) -> (e = VM.End \/ exists x, e = VM.Error x) ->
  forall c, st c = Running s ->
  exists f h, calls (VMLink.vm_fetch nt code) never f (S (length outs)) c = Some h /\
    map fst h = map (fun v => RVal v) outs ++ [match e with VM.Error x => RErr (Some x) | _ => RDone end].
Proof. exact VMLink.calls_run. Qed.
Print Assumptions C07_c01vm_calls_run.

(* the cancellation theorem specialised to the concrete VM *)
Theorem C07_c01vm_cancel_history : forall (nt : Code.natives) (code : list Code.instr),
  forall done k, first_true done k -> forall n fuel (c : cfg VM.state) h,
  polls c <= k -> calls (VMLink.vm_fetch nt code) done fuel n c = Some h ->
  exists pre post, h = pre ++ post
    /\ calls (VMLink.vm_fetch nt code) never fuel (length pre) c = Some pre
    /\ Forall (fun rc => polls (snd rc) <= k) pre
    /\ (post = [] \/
        let c1 := end_cfg c pre in
        st c1 <> Parked
        /\ (forall f' r' c'', next (VMLink.vm_fetch nt code) never f' c1 = Some (r', c'') -> k < polls c'')
        /\ exists m, let P := mkCfg (S k) (instrs c1 + (k - polls c1)) Parked in
             post = (RCtx, P) :: repeat (RDone, P) m).
Proof. intros nt code. exact (cancel_history VM.state Syntax.jv (option VM.verr) (VMLink.vm_fetch nt code)). Qed.
Print Assumptions C07_c01vm_cancel_history.

(* non-vacuity: an infinite generator (a value every third instruction, an error value at
   instruction 4, never exhausted).  Uncancelled: values for ever.  Cancelled at poll 7: the values
   and the error emitted before, ctx.Err() at poll 7 (8 polls asked, 7 instructions executed), then false. *)
Definition ex_step (n : nat) : outcome nat nat nat :=
  if n =? 4 then EmitErr 99 (S n) else if n mod 3 =? 2 then Emit n (S n) else Continue (S n).

Example C07_nonvacuous :
  first_true (cancel_at 7) 7 /\
  option_map (map fst) (calls ex_step never 50 5 (mkCfg 0 0 (Running 0))) = Some [RVal 2; RErr 99; RVal 5; RVal 8; RVal 11] /\
  option_map (map (fun rc => (fst rc, polls (snd rc), instrs (snd rc)))) (calls ex_step (cancel_at 7) 50 6 (mkCfg 0 0 (Running 0)))
    = Some [(RVal 2, 3, 3); (RErr 99, 5, 5); (RVal 5, 6, 6); (RCtx, 8, 7); (RDone, 8, 7); (RDone, 8, 7)].
Proof.
  split; [split; [reflexivity|]|split; vm_compute; reflexivity].
  intros j Hj. unfold cancel_at. apply Nat.leb_gt. exact Hj.
Qed.
