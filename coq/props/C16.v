(* C16 — Input modes and argument flags mean what their in-language equivalents mean.
   Statements only; every theorem is closed by [exact] of a lemma proved in coq/c16/*Proofs.v.
   Stream.v transcribes cli/stream.go (jsonStream.next) over the token sequence of encoding/json. *)
From Coq Require Import List NArith.
From Verif Require Import c16.Stream c16.StreamProofs c16.StreamPos c16.StreamPosProofs c16.Fromstream c16.FromstreamProofs.
Import ListNotations.

(* --stream: for every sequence of documents (objects in document key order), the events produced by
   the state machine on their token sequence are exactly the declarative tostream events in document
   order, followed by a clean end of input. *)
Theorem C16_stream_tostream : forall ds,
  stream_events (tokens_docs ds) EndEOF = trace_of (flat_map tostream_doc_order ds) End.
Proof. exact stream_tostream_lemma. Qed.
Print Assumptions C16_stream_tostream.

Theorem C16_stream_tostream_doc : forall d,
  stream_events (tokens d) EndEOF = trace_of (tostream_doc_order d) End.
Proof. exact stream_tostream_doc_lemma. Qed.
Print Assumptions C16_stream_tostream_doc.

(* fromstream: Fromstream.v transcribes builtin.jq's fromstream (and the setpath it uses); applied to
   the events that --stream emits for documents with duplicate-free keys it returns the documents *)
Theorem C16_fromstream_events : forall ds, forallb nodup_keys ds = true ->
  fromstream_model (events_of (stream_events (tokens_docs ds) EndEOF)) = Some ds.
Proof. exact fromstream_stream_lemma. Qed.
Print Assumptions C16_fromstream_events.

(* truncation at any token boundary (the tokenizer then fails): a prefix of the full events, then
   exactly one error, then end of input *)
Theorem C16_stream_truncated : forall ds ts1 ts2,
  tokens_docs ds = ts1 ++ ts2 ->
  exists evs tl, stream_events ts1 EndErr = trace_of evs Err
              /\ flat_map tostream_doc_order ds = evs ++ tl.
Proof. exact stream_truncated_lemma. Qed.
Print Assumptions C16_stream_truncated.

(* … and at full strength: the run on the first k tokens yields EXACTLY the events determined by those
   tokens (every tostream event is determined by one token: a scalar leaf by the scalar, an empty
   container leaf and a closing event by the closing bracket; StreamPos.events_before) — "all events
   before the cut" — however the token sequence ends *)
Theorem C16_stream_truncated_exact : forall ds k e, (k <= List.length (tokens_docs ds))%nat ->
  events_of (stream_events (firstn k (tokens_docs ds)) e) = events_before k ds.
Proof. exact stream_truncated_exact_lemma. Qed.
Print Assumptions C16_stream_truncated_exact.

(* a clean io.EOF from the tokenizer strictly inside a document (cut at a token boundary, e.g. after
   a comma) is still reported as an error (io.ErrUnexpectedEOF) *)
Theorem C16_stream_truncated_eof : forall ds1 d ts1 ts2,
  tokens d = ts1 ++ ts2 -> ts1 <> [] -> ts2 <> [] ->
  final_of (stream_events (tokens_docs ds1 ++ ts1) EndEOF) = Err.
Proof. exact stream_truncated_eof_lemma. Qed.
Print Assumptions C16_stream_truncated_eof.

(* [run] is the iteration of the transcribed next() *)
Theorem C16_run_is_next_iterated : forall s ts e,
  run s ts e = match next s ts e with
               | NEmit ev s1 r => Ev ev (run s1 r e)
               | NStop t => t
               end.
Proof. exact run_next_lemma. Qed.
Print Assumptions C16_run_is_next_iterated.

(* ------------------------------------------------------------------------------------------------
   Input iterators (cli/inputs.go) and input / inputs (compiler.go funcInput, builtin.jq inputs) *)
From Verif Require Import c16.Inputs c16.InputsSpec c16.InputsProofs c16.Args c16.ArgsProofs.

(* all_outs m stdin args is, by definition, the concatenation in argument order of what each input
   contributes (values, then OErr if a malformed document follows them; OErr for a file that cannot be
   opened; the lines for -R; the whole text for -Rs; the events for --stream).
   With -n, k successive calls of `input` on the iterator selected by createInputIter return exactly
   the first k of these outputs, each once, and then the error "break" for ever. *)
Theorem C16_inputs_order : forall m stdin args k,
  input_calls top top_next k (create_top m stdin args) = calls_spec k (all_outs m stdin args).
Proof. exact inputs_order_lemma. Qed.
Print Assumptions C16_inputs_order.

(* PARTIAL consumption: a program st1, st2, … whose stages pull values through limit / first / isempty /
   until / repeat(input) / reduce / foreach (Inputs.stage, transcribed from builtin.jq: limit(k) pulls exactly
   k items, first and isempty one) prints on the iterator selected by createInputIter exactly what it prints
   on the plain list all_outs: every stage continues where the previous one stopped *)
Theorem C16_partial_consumption : forall m stdin args fuel sts,
  fst (run_prog top top_next fuel sts (create_top m stdin args))
  = fst (run_prog _ list_next fuel sts (all_outs m stdin args)).
Proof. exact partial_consumption_lemma. Qed.
Print Assumptions C16_partial_consumption.

(* in particular `[limit(k; inputs)], [inputs]` with -n on an error-free input gives the first k values and
   then all the others: nothing is lost and nothing comes twice, across files and stdin *)
Theorem C16_take_then_rest : forall m stdin args vs k fuel,
  all_outs m stdin args = map OVal vs -> (List.length vs < fuel)%nat ->
  fst (run_prog top top_next fuel [StTake k; StRest] (create_top m stdin args))
  = [OVal (varr (firstn k vs)); OVal (varr (skipn k vs))].
Proof. exact take_then_rest_lemma. Qed.
Print Assumptions C16_take_then_rest.

Theorem C16_takerepeat_then_rest : forall m stdin args vs k fuel,
  all_outs m stdin args = map OVal vs -> (List.length vs < fuel)%nat -> (k <= List.length vs)%nat ->
  fst (run_prog top top_next fuel [StTakeRepeat k; StRest] (create_top m stdin args))
  = [OVal (varr (firstn k vs)); OVal (varr (skipn k vs))].
Proof. exact takerep_then_rest_lemma. Qed.
Print Assumptions C16_takerepeat_then_rest.

(* jsonInputIter: every complete value, then one error if a malformed document follows, then end *)
Theorem C16_json_iter : iter_ok jiter json_next json_abs.
Proof. exact json_ok. Qed.
Print Assumptions C16_json_iter.

(* filesInputIter over any list iterator: file by file, in argument order *)
Theorem C16_files_iter : forall (D I : Type) (mkI : D -> I) inext abs, iter_ok I inext abs ->
  iter_ok _ (files_next D I mkI inext) (files_abs D I mkI abs).
Proof. exact files_ok. Qed.
Print Assumptions C16_files_iter.

(* the main loop with the query `.` prints every output of the selected iterator in order *)
Theorem C16_plain_mode : forall m stdin args fuel,
  (List.length (all_outs m stdin args) < fuel)%nat ->
  process top top_next fuel (q_id top) (create_top m stdin args) = Some (all_outs m stdin args).
Proof. exact plain_mode_lemma. Qed.
Print Assumptions C16_plain_mode.

(* `-s .` prints what `-n [inputs]` prints *)
Theorem C16_slurp_eq_inputs : forall m stdin args fuel,
  (List.length (all_outs m stdin args) < fuel)%nat -> ~ In OPanic (all_outs m stdin args) ->
  process (top * bool) (slurp_it top top_next fuel) 2 (q_id _) (create_top m stdin args, false)
  = Some (process_null top (q_inputs top top_next fuel) (create_top m stdin args)).
Proof. exact slurp_mode_lemma. Qed.
Print Assumptions C16_slurp_eq_inputs.

(* and that is the array of all values, or the first error *)
Theorem C16_slurp_value : forall m stdin args fuel,
  (List.length (all_outs m stdin args) < fuel)%nat ->
  exists t', slurp_loop top top_next fuel (create_top m stdin args) []
             = Some (slurp_spec (all_outs m stdin args) [], t').
Proof. exact slurp_value_lemma. Qed.
Print Assumptions C16_slurp_value.

(* -R: rawInputIter delivers the lines of the text … *)
Theorem C16_raw_iter : iter_ok riter raw_next raw_abs.
Proof. exact raw_ok. Qed.
Print Assumptions C16_raw_iter.

(* … where no line contains \n (\r is kept) and terminating every line with \n gives back the text,
   plus one \n when the non-empty text does not end with one (the last line without newline counts) *)
Theorem C16_raw_lines_law : forall t,
  Forall (Forall (fun c => (c =? 10)%N = false)) (lines t)
  /\ concat (map (fun l => l ++ [10%N]) (lines t)) = terminate t.
Proof. exact raw_lines_law_lemma. Qed.
Print Assumptions C16_raw_lines_law.

(* -Rs: one string, the whole text (of all file operands, concatenated) *)
Theorem C16_raw_slurp_files : forall stdin a args fuel,
  (List.length (a :: args) < fuel)%nat ->
  exists t', slurpraw_loop top top_next fuel (create_top (mkmode true false true) stdin (a :: args)) []
             = Some (match concat_texts (a :: args) with Some t => OVal (vstr t) | None => OErr end, t').
Proof. exact raw_slurp_lemma. Qed.
Print Assumptions C16_raw_slurp_files.

Theorem C16_raw_slurp_stdin : forall stdin fuel, (1 < fuel)%nat ->
  exists t', slurpraw_loop top top_next fuel (create_top (mkmode true false true) stdin []) []
             = Some (OVal (vstr (ftext stdin)), t').
Proof. exact raw_slurp_stdin_lemma. Qed.
Print Assumptions C16_raw_slurp_stdin.

(* ------------------------------------------------------------------------------------------------
   Named and positional arguments (cli/flags.go parseFlags, cli/cli.go runInternal) *)

(* every command line that has a reading (items) is accepted by parseFlags *)
Theorem C16_args_parses : forall ws its, items false ws = Some its ->
  exists rest named pos bools, parse_args ws = AOk rest named pos bools.
Proof. exact args_parses_lemma. Qed.
Print Assumptions C16_args_parses.

(* --arg/--argjson/--slurpfile/--rawfile: no name is bound twice (so Go's map iteration order cannot
   matter) and $name / $ARGS.named.name is the FIRST binding of the name on the command line *)
Theorem C16_args_binding : forall ws its rest named pos bools,
  items false ws = Some its -> parse_args ws = AOk rest named pos bools ->
  NoDup (map fst named) /\ forall n, lookup n named = first_binding n its.
Proof. exact args_named_lemma. Qed.
Print Assumptions C16_args_binding.

(* --args/--jsonargs: $ARGS.positional lists the words after the query in order, each read in the mode
   of the nearest preceding --args/--jsonargs (switching mid-list included); the remaining plain words
   are the query and the file operands *)
Theorem C16_args_positional : forall ws its rest named pos bools,
  items false ws = Some its -> parse_args ws = AOk rest named pos bools ->
  pos = map Some (positional_spec false None its) /\ rest = rest_spec false None its.
Proof. exact args_positional_lemma. Qed.
Print Assumptions C16_args_positional.

(* non-vacuity: the hypotheses are met by concrete inputs on which the interesting paths are taken *)
From Coq Require Import String.
Open Scope string_scope.
Example C16_nonvacuous :
  let w := common.Sexp.codes in
  let a := w "a" in let b := w "b" in
  (* [[],{"a":[1,{}]}] : nested empty containers, sibling after a nested close *)
  let d := VArr (VCons (VArr VNil) (VCons (VObj (MCons (w "a") (VArr (VCons (VS (SNum (w "1"))) (VCons (VObj MNil) VNil))) MNil)) VNil)) in
  List.length (tostream_doc_order d) = 6%nat
  /\ stream_events (firstn 7 (tokens d)) EndErr = trace_of (firstn 2 (tostream_doc_order d)) Err
  /\ items false [w "--arg"; w "a"; w "1"; w "$ARGS"; w "--args"; w "x"; w "--argjson"; w "a"; w "2"; w "--jsonargs"; w "3"; w "--args"; w "y"]
     = Some [IMap MArg (w "a") (w "1"); IPlain (w "$ARGS"); IPos PArgs; IPlain (w "x"); IMap MArgJSON (w "a") (w "2");
             IPos PJSONArgs; IPlain (w "3"); IPos PArgs; IPlain (w "y")]
  /\ parse_args [w "--arg"; w "a"; w "1"; w "$ARGS"; w "--args"; w "x"; w "--argjson"; w "a"; w "2"; w "--jsonargs"; w "3"; w "--args"; w "y"]
     = AOk [w "$ARGS"] [(w "a", AStr (w "1"))] [Some (AStr (w "x")); Some (AJson (w "3")); Some (AStr (w "y"))] []
  /\ lines (a ++ [13%N; 10%N; 10%N] ++ b)%list = [(a ++ [13%N])%list; []; b].
Proof. vm_compute. repeat split. Qed.
