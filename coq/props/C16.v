(* C16 — Input modes and argument flags mean what their in-language equivalents mean.
   Statements only; every theorem is closed by [exact] of a lemma proved in coq/c16/*Proofs.v.
   Stream.v transcribes cli/stream.go (jsonStream.next) over the token sequence of encoding/json. *)
From Coq Require Import List NArith.
From Verif Require Import c16.Stream c16.StreamProofs.
Import ListNotations.

(* --stream: for every sequence of documents (objects in document key order), the events produced by
   the state machine on their token sequence are exactly the declarative tostream events in document
   order, followed by a clean end of input. *)
Theorem C16_stream_tostream : forall ds,
  stream_events (tokens_docs ds) EndEOF = trace_of (flat_map tostream_doc_order ds) End.
Proof. exact stream_tostream_lemma. Qed.
Print Assumptions C16_stream_tostream.

Theorem C16_stream_tostream_doc : forall d,
  stream_events (tokens d) EndEOF = trace_of (tostream_doc_order d) End.
Proof. exact stream_tostream_doc_lemma. Qed.
Print Assumptions C16_stream_tostream_doc.

(* truncation at any token boundary (the tokenizer then fails): a prefix of the full events, then
   exactly one error, then end of input *)
Theorem C16_stream_truncated : forall ds ts1 ts2,
  tokens_docs ds = ts1 ++ ts2 ->
  exists evs tl, stream_events ts1 EndErr = trace_of evs Err
              /\ flat_map tostream_doc_order ds = evs ++ tl.
Proof. exact stream_truncated_lemma. Qed.
Print Assumptions C16_stream_truncated.

(* [run] is the iteration of the transcribed next() *)
Theorem C16_run_is_next_iterated : forall s ts e,
  run s ts e = match next s ts e with
               | NEmit ev s1 r => Ev ev (run s1 r e)
               | NStop t => t
               end.
Proof. exact run_next_lemma. Qed.
Print Assumptions C16_run_is_next_iterated.
