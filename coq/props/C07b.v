(* C07 (b) — ONE-SHOT ITERATORS.  Statements only (model coq/c07/OneShot.v, proofs coq/c07/OneShotProofs.v).

   Code.RunWithContext with a wrong number of variable values and Query.RunWithContext on a query that does not compile do
   not start the machine: they return NewIter(err) = &unitIter{value: err} (compiler.go, query.go, iter.go).  The context is
   never looked at on these paths: the iterator yields the error VALUE once — NOT ctx.Err(), even when the context is already
   cancelled — and then (nil,false) forever, with zero polls of ctx.Done().  [iter] = unitIter | env (the machine of
   c07/Cancel.v); the terminal / absorbing statements of props/C07.v are lifted to [iter].
   Abstract, as in C07: the machine state St, its step, the value type V, the error type E, the error values
   [too_many] = &tooManyVariableValuesError{} and [expected x] = &expectedVariableError{x}, the name type. *)
From Coq Require Import List Arith Bool.
From Verif Require Import c07.Cancel c07.OneShot c07.OneShotProofs.
Import ListNotations.

(* the unit iterator under ANY context oracle: its error once, then (nil,false) forever (whole history, states included) *)
Theorem C07b_oneshot_history : forall (St V E : Type) (step : St -> outcome St V E) (e : E) done fuel n,
  iter_calls step done fuel (S n) (IUnit (mkUnit e false)) =
  Some ((RErr e, IUnit (mkUnit e true)) :: repeat (RDone, IUnit (mkUnit e true)) n).
Proof. exact oneshot_history. Qed.
Print Assumptions C07b_oneshot_history.

(* no call on a unit iterator returns ctx.Err(), and none polls *)
Theorem C07b_oneshot_never_ctx : forall (St V E : Type) (step : St -> outcome St V E) (u : unit_iter E) done fuel n h,
  iter_calls step done fuel n (IUnit u) = Some h ->
  Forall (fun rc => fst rc <> RCtx /\ iter_polls (snd rc) = 0) h.
Proof. exact oneshot_never_ctx. Qed.
Print Assumptions C07b_oneshot_never_ctx.

(* Code.RunWithContext: the three cases of the argument-count check; c.variables[len(values)] is in range *)
Theorem C07b_code_run_cases : forall (St E Name : Type) (too_many : E) (expected : Name -> E)
  (variables : list Name) (nvalues : nat) (start : St),
  (length variables < nvalues /\ code_run too_many expected variables nvalues start = Some (IUnit (mkUnit too_many false))) \/
  (nvalues < length variables /\ exists x, nth_error variables nvalues = Some x /\
     code_run too_many expected variables nvalues start = Some (IUnit (mkUnit (expected x) false))) \/
  (nvalues = length variables /\ code_run too_many expected variables nvalues start = Some (IEnv (mkCfg 0 0 (Running start)))).
Proof. exact code_run_cases. Qed.
Print Assumptions C07b_code_run_cases.

Theorem C07b_code_run_total : forall (St E Name : Type) (too_many : E) (expected : Name -> E)
  (variables : list Name) (nvalues : nat) (start : St), code_run too_many expected variables nvalues start <> None.
Proof. exact code_run_total. Qed.
Print Assumptions C07b_code_run_total.

(* a wrong variable count: exactly one error (too many values / the first unbound variable), then (nil,false) forever,
   under every context — cancelled or not *)
Theorem C07b_wrong_count_history : forall (St V E Name : Type) (step : St -> outcome St V E) (too_many : E) (expected : Name -> E)
  (variables : list Name) (nvalues : nat) (start : St), nvalues <> length variables ->
  exists e, code_run too_many expected variables nvalues start = Some (IUnit (mkUnit e false)) /\
    (e = too_many /\ length variables < nvalues \/ (exists x, nth_error variables nvalues = Some x /\ e = expected x)) /\
    forall done fuel n,
      iter_calls step done fuel (S n) (IUnit (mkUnit e false)) =
      Some ((RErr e, IUnit (mkUnit e true)) :: repeat (RDone, IUnit (mkUnit e true)) n).
Proof. exact wrong_count_history. Qed.
Print Assumptions C07b_wrong_count_history.

(* Query.RunWithContext: a compile error is yielded once, then (nil,false) forever; otherwise the machine starts *)
Theorem C07b_query_run_cases : forall (St V E Name : Type) (step : St -> outcome St V E) (too_many : E) (expected : Name -> E)
  (c : compiled St E),
  match c with
  | CErr e => query_run too_many expected c = Some (IUnit (mkUnit e false)) /\
              forall done fuel n, iter_calls step done fuel (S n) (IUnit (mkUnit e false)) =
                                  Some ((RErr e, IUnit (mkUnit e true)) :: repeat (RDone, IUnit (mkUnit e true)) n)
  | COk start => query_run too_many expected c = Some (IEnv (mkCfg 0 0 (Running start)))
  end.
Proof. exact query_run_cases. Qed.
Print Assumptions C07b_query_run_cases.

(* contrast: with the RIGHT count and an already cancelled context the first call polls once and returns ctx.Err() *)
Theorem C07b_right_count_cancelled : forall (St V E Name : Type) (step : St -> outcome St V E) (too_many : E) (expected : Name -> E)
  (variables : list Name) (start : St) done fuel, done 0 = true ->
  exists it, code_run too_many expected variables (length variables) start = Some it /\
    iter_next step done (S fuel) it = Some (RCtx, IEnv (mkCfg 1 0 Parked)).
Proof. exact right_count_cancelled. Qed.
Print Assumptions C07b_right_count_cancelled.

(* absorbing / terminal for EVERY iterator RunWithContext returns (unit or machine), lifting C07_exhausted_absorbing and
   C07_cancel_terminal: after (nil,false), (nil,false) forever in the same state under any context; ctx.Err() comes only
   from the machine, parks it, and is followed by (nil,false) forever *)
Theorem C07b_iter_done_absorbing : forall (St V E : Type) (step : St -> outcome St V E) done f (it it' : iter St E),
  iter_next step done f it = Some (RDone, it') ->
  forall done' fuel n, iter_calls step done' (S fuel) n it' = Some (repeat (RDone, it') n).
Proof. exact iter_done_absorbing. Qed.
Print Assumptions C07b_iter_done_absorbing.

Theorem C07b_iter_ctx_terminal : forall (St V E : Type) (step : St -> outcome St V E) done f (it it' : iter St E),
  iter_next step done f it = Some (RCtx, it') ->
  (exists c', it' = IEnv c' /\ st c' = Parked) /\
  forall done' fuel n, iter_calls step done' (S fuel) n it' = Some (repeat (RDone, it') n).
Proof. exact iter_ctx_terminal. Qed.
Print Assumptions C07b_iter_ctx_terminal.

(* non-vacuity: variables [$a; $b]; 3 values -> too many; 1 value -> expected $b; under a context cancelled from poll 0 the
   history is the error then (nil,false) x3; with 2 values the same context gives ctx.Err() at once *)
Example C07b_nonvacuous :
  let step : nat -> outcome nat nat nat := fun s => Emit s (S s) in
  let run n := code_run (St:=nat) 100 (fun x : nat => x) [7; 8] n 0 in
  option_map (fun it => option_map (map fst) (iter_calls step (cancel_at 0) 5 4 it)) (run 3) = Some (Some [RErr 100; RDone; RDone; RDone]) /\
  option_map (fun it => option_map (map fst) (iter_calls step (cancel_at 0) 5 4 it)) (run 1) = Some (Some [RErr 8; RDone; RDone; RDone]) /\
  option_map (fun it => option_map (map fst) (iter_calls step (cancel_at 0) 5 4 it)) (run 2) = Some (Some [RCtx; RDone; RDone; RDone]) /\
  option_map (fun it => option_map (map fst) (iter_calls step never 5 3 it)) (run 2) = Some (Some [RVal 0; RVal 1; RVal 2]).
Proof. vm_compute. repeat split; reflexivity. Qed.
