(* C02b — first clause of C02 ("path(p) emits in order exactly the paths q with v|getpath(q) equal to the
   corresponding output of v|p") and the invalid-path clause, as theorems about the reference semantics
   coq/sem/Sem.v — the evaluator the C01 check ties to gojq on ~400 000 evaluations per run.
   Statements only; proofs in coq/sem/PathSoundProofs.v (definitions: coq/sem/PathSound.v).

   [path_law bs q]: for every well-formed input v, output cap, representation flag, list of inputs and every
   two fuels on which the model gives a VERDICT for `path(q)` and for `q` (does not end in EndSkip: out of
   fuel, path identity undecidable at value level, step budget): the two runs end the same way (normally,
   at the cap, or with the same error) and emit the same number of outputs, the k-th path navigating v to
   the k-th value ([out_rel]: the output of path is an array [path] and navigating v along it component by
   component with the index function of the language, fn_index2 = _index/_slice of func.go, gives the value).
   [C02b_getpath] links that to the model of func.go's getpath: equal unless the path navigates from a
   STRING, where gojq's getpath refuses what gojq's path emits (known finding D10, example below).

   Unbounded in the program, the input, the cap and the fuel.  The fragment ([pq], side conditions [pf]):
     .   .a .["a"] .[3] .[-1] .[1:2] (constant keys and slices)   .[e] (computed key)   .[]   getpath(e)
     terms with suffix lists as the parser builds them: .a.b[0][]  .[][1:2].c ;  .a?  .[3]?  .[]?  (suffix form of ?)
     p | q   p , q   empty   error   if c then p else q end   if c then p end   select(c)   e as $x | p   try p
   where c, e are EXPRESSIONS (the regions gojq brackets with opexpbegin/opexpend): all of the above plus
   null/true/false/number/string literals, $x, + - * / % == != < <= > >= and or, and every Go-implemented
   function without arguments that the model implements (length, type, keys, ...).
   Not yet covered (C02b_full): `..`/recurse, //, first, limit (they keep a label or a cell alive while the
   consumer runs: the relation between the two runs must then relate label and cell ids), `?` inside a longer
   suffix list, computed slice bounds, elif, destructuring patterns, reduce/foreach, user-defined functions. *)
From Coq Require Import String.
From Coq Require Import List ZArith NArith.
From Verif Require Import common.Sexp sem.JV sem.Syntax sem.Natives sem.Sem sem.PathSound sem.PathSoundProofs gen.GenBuiltins.
Import ListNotations.

(* the full first clause: the law for every program of a class of path expressions (the class of the
   property text is larger than the fragment proved below) *)
Definition C02b_full (is_path_expression : list funcdef -> query -> Prop) : Prop :=
  forall bs q, builtins_ok bs -> is_path_expression bs q -> path_law bs q.

(* proved: the class { emb p | pf bs p } *)
Theorem C02b_path_sound_fragment : C02b_full (fun bs q => exists p, pf bs p /\ q = emb p).
Proof. intros bs q Hb [p [Hp ->]]. exact (path_sound_law bs Hb p Hp). Qed.
Print Assumptions C02b_path_sound_fragment.

Theorem C02b_getpath : forall path v w, nav_path v path = NOk w -> str_nav v path = false ->
  fn_getpath v (VArr path) = NOk w.
Proof. exact getpath_nav. Qed.
Print Assumptions C02b_getpath.

(* the invalid-path clause: inside path(..), a constant index/slice or .[] applied to a value the model
   classifies as computed ([intact] = No: the ids differ and the values differ) ends in an error and never
   calls its consumer (no path is emitted, nothing is updated elsewhere): the error of the index function
   when the value cannot be indexed that way, the invalid-path error otherwise *)
Theorem C02b_index_from_computed : forall bs i key n rho x pp k s,
  index_key i = Some key -> intact (repsens s) x pp = No ->
  eval_q bs (4 + n) rho (emb (PIdx i)) x (Some pp) k s =
  match fn_index2 (fst x) key with
  | NOk _ => raise_err EInvalidPath (msg_invalid_path (fst x)) s
  | NErr c val => raise_err c val s
  | NSkip why => (inr (XSkip why), s)
  end.
Proof. exact index_from_computed. Qed.
Print Assumptions C02b_index_from_computed.

Theorem C02b_iterate_from_computed : forall bs n rho x pp k s, intact (repsens s) x pp = No ->
  eval_q bs (3 + n) rho (emb PIter) x (Some pp) k s = raise_err EInvalidPathIter (msg_invalid_path_iter (fst x)) s \/
  eval_q bs (3 + n) rho (emb PIter) x (Some pp) k s = raise_err EIterator (msg_iterator (fst x)) s.
Proof. exact iterate_from_computed. Qed.
Print Assumptions C02b_iterate_from_computed.

(* the hypotheses on the builtin table hold for builtin.jq of the current tree (select is pinned to its text) *)
Example C02b_builtins_ok : builtins_ok builtin_defs.
Proof. repeat split; reflexivity. Qed.

(* ---- non-vacuity / executable cross-check: the law evaluated on the model (vm_compute), with the model of
   gojq's getpath.  [law_on bs fuel cap q v n]: both runs give a verdict, end the same way, emit n outputs
   and getpath of the k-th path is the k-th value ---- *)
(* ((.[] | (.a, (.a | .[0]))), .[1:3]) | .   on [{"a":[1,2]}, {"a":null}, 7]: four outputs, then the error of 7|.a
   in both runs *)
Example C02b_ex_outputs_then_error :
  law_on builtin_defs 40 50 (emb (PPipe (PComma (PPipe PIter (PComma (pfld "a") (PPipe (pfld "a") (pidx 0)))) (PIdx (slc 1 3))) PId))
         (VArr [obj1 "a" (VArr [VInt 1; VInt 2]); obj1 "a" VNull; VInt 7]) 4.
Proof. vm_compute. repeat split. Qed.

(* (.[1:3], .[-1], empty, (.[0] | .[])) on [[5,6],1,2]: a slice, a negative index, empty, nested iteration; ends normally *)
Example C02b_ex_normal :
  law_on builtin_defs 40 50 (emb (PComma (PIdx (slc 1 3)) (PComma (pidx (-1)) (PComma PEmpty (PPipe (pidx 0) PIter)))))
         (VArr [VArr [VInt 5; VInt 6]; VInt 1; VInt 2]) 4.
Proof. vm_compute. repeat split. Qed.

(* .[] | .[] with the output cap reached after 3 of 4 outputs: both runs stop at the cap *)
Example C02b_ex_cap :
  law_on builtin_defs 40 3 (emb (PPipe PIter PIter)) (VArr [VArr [VInt 1; VInt 2]; VArr [VInt 3; VInt 4]]) 3.
Proof. vm_compute. repeat split. Qed.

(* .[] | select(.a > 1) | .b   on [{"a":2,"b":[1]},{"a":0,"b":5},{"a":3,"b":null}] *)
Example C02b_ex_select :
  law_on builtin_defs 60 50 (emb (PPipe PIter (PPipe (PSelect (PBinop OpGt (pfld "a") (lnum 1))) (pfld "b"))))
         (VArr [obj2 "a" (VInt 2) "b" (VArr [VInt 1]); obj2 "a" (VInt 0) "b" (VInt 5); obj2 "a" (VInt 3) "b" VNull]) 2.
Proof. vm_compute. repeat split. Qed.

(* .[] | if .k == "x" then .a else .[0] end   on [{"a":2,"k":"x"},[9]]: one output, then the error of [9]|.k *)
Example C02b_ex_if_error :
  law_on builtin_defs 60 50 (emb (PPipe PIter (PIf (PBinop OpEq (pfld "k") (lstr "x")) (pfld "a") (pidx 0))))
         (VArr [obj2 "a" (VInt 2) "k" (vs "x"); VArr [VInt 9]]) 1.
Proof. vm_compute. repeat split. Qed.

(* .[.k], (.k as $x | .[$x]), getpath(.p), (if .k then .a end)   on {"a":{"b":7},"k":"a","p":["a","b"]} *)
Example C02b_ex_computed_keys :
  law_on builtin_defs 60 50
         (emb (PComma (PIdxDyn (pfld "k")) (PComma (PBind (pfld "k") (codes "$x") (PIdxDyn (PVar (codes "$x"))))
                 (PComma (PGetpath (pfld "p")) (PIfNoElse (pfld "k") (pfld "a"))))))
         (VObj [(codes "a", VObj [(codes "b", VInt 7)]); (codes "k", vs "a"); (codes "p", VArr [vs "a"; vs "b"])]) 4.
Proof. vm_compute. repeat split. Qed.

(* try (.[] | .a), (.[0] | select(length > 0 and (.a | length))), error   on [{"a":1},2,{"a":3}]:
   the error of 2|.a is caught after one output in both runs; two outputs, then the error raised by `error` *)
Example C02b_ex_try_natives_error :
  law_on builtin_defs 60 50
         (emb (PComma (PTry (PPipe PIter (pfld "a")))
                 (PComma (PPipe (pidx 0) (PSelect (PBinop OpAnd (PBinop OpGt (PNative0 (codes "length")) (lnum 0))
                                                      (PPipe (pfld "a") (PNative0 (codes "length"))))))
                         PError)))
         (VArr [obj1 "a" (VInt 1); VInt 2; obj1 "a" (VInt 3)]) 2.
Proof. vm_compute. repeat split. Qed.

(* .[] | (.a?, .[]?, .a.b[0][])   on [{"a":{"b":[[7,8]]}}, 1]: the suffix forms as the parser builds them; four outputs,
   then (on 1) both `?` swallow their error and .a.b[0][] raises in both runs *)
Example C02b_ex_suffixes :
  law_on builtin_defs 60 50
         (emb (PPipe PIter (PComma (POptIdx (fld "a")) (PComma POptIter (PChain (Some (fld "a")) [SIdx (fld "b"); SIdx (idx 0); SIter])))))
         (VArr [obj1 "a" (obj1 "b" (VArr [VArr [VInt 7; VInt 8]])); VInt 1]) 4.
Proof. vm_compute. repeat split. Qed.

(* every example program satisfies the side conditions of the theorem *)
Example C02b_ex_in_fragment :
  pf builtin_defs (PPipe PIter (PPipe (PSelect (PBinop OpGt (pfld "a") (lnum 1))) (pfld "b"))) /\
  pf builtin_defs (PComma (PIdxDyn (pfld "k")) (PComma (PBind (pfld "k") (codes "$x") (PIdxDyn (PVar (codes "$x"))))
                     (PComma (PGetpath (pfld "p")) (PIfNoElse (pfld "k") (pfld "a"))))) /\
  pf builtin_defs (PComma (PTry (PPipe PIter (pfld "a")))
                     (PComma (PPipe (pidx 0) (PSelect (PBinop OpAnd (PBinop OpGt (PNative0 (codes "length")) (lnum 0))
                                                          (PPipe (pfld "a") (PNative0 (codes "length"))))))
                             PError)) /\
  pf builtin_defs (PPipe PIter (PComma (POptIdx (fld "a")) (PComma POptIter (PChain (Some (fld "a")) [SIdx (fld "b"); SIdx (idx 0); SIter])))).
Proof. unfold pf. cbn [ok]. repeat split; repeat constructor; try discriminate; reflexivity. Qed.

(* D10 (known finding): "abcd" | path(.[1:3]) emits [{"start":1,"end":3}] and "abcd" | .[1:3] is "bc" — the law holds
   with component-wise navigation — but gojq's getpath refuses to navigate from a string *)
Example C02b_ex_D10 :
  let v := vs "abcd" in
  let o1 := observe builtin_defs 40 50 false [] (q_path (emb (PIdx (slc 1 3)))) v in
  let o2 := observe builtin_defs 40 50 false [] (emb (PIdx (slc 1 3))) v in
  fst o2 = [vs "bc"] /\ snd o1 = EndNormal /\ snd o2 = EndNormal /\
  map (fun q => match q with VArr path => nav_path v path | _ => NSkip [] end) (fst o1) = [NOk (vs "bc")] /\
  map (fn_getpath v) (fst o1) = [NErr EFunc1Type None].
Proof. vm_compute. repeat split. Qed.

(* the invalid-path clause on whole programs: path([1] | .[0]), path({"a":1} | .a), path(null | .[0]) on the input 5
   end in the invalid-path error without emitting a path; path(1 | try .[0]) emits nothing *)
Example C02b_ex_invalid_path :
  let run q := observe builtin_defs 40 50 false [] (q_path q) (VInt 5) in
  let lit1 := num_q 1 in
  let is_invalid (o : list jv * ending) := match o with ([], EndError EInvalidPath _) => True | _ => False end in
  is_invalid (run (q_bin (q_term (TArray (Some lit1))) OpPipe (emb (pidx 0)))) /\
  is_invalid (run (q_bin (q_term (TObject [ObjectKeyVal (codes "a") None None (Some lit1)])) OpPipe (emb (pfld "a")))) /\
  is_invalid (run (q_bin (q_term TNull) OpPipe (emb (pidx 0)))) /\
  run (q_bin lit1 OpPipe (emb (PTry (pidx 0)))) = ([], EndNormal).
Proof. vm_compute. repeat split. Qed.
