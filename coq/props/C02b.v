(* C02b — first clause of C02 ("path(p) emits in order exactly the paths q with v|getpath(q) equal to the
   corresponding output of v|p") and the invalid-path clause, as theorems about the reference semantics
   coq/sem/Sem.v — the evaluator the C01 check ties to gojq on ~400 000 evaluations per run.
   Statements only; proofs in coq/sem/PathSoundProofs.v (definitions: coq/sem/PathSound.v).

   [path_law bs q]: for every well-formed input v, output cap, representation flag, list of inputs and every
   two fuels on which the model gives a VERDICT for `path(q)` and for `q` (does not end in EndSkip: out of
   fuel, path identity undecidable at value level, step budget): the two runs end the same way (normally,
   at the cap, or with the same error) and emit the same number of outputs, the k-th path navigating v to
   the k-th value ([out_rel]: the output of path is an array [path] and navigating v along it component by
   component with the index function of the language, fn_index2 = _index/_slice of func.go, gives the value).
   [C02b_getpath] links that to the model of func.go's getpath: equal unless the path navigates from a
   STRING, where gojq's getpath refuses what gojq's path emits (known finding D10, example below).

   Unbounded in the program, the input, the cap and the fuel.  The fragment ([pq], side conditions [pf]):
     .   .a .["a"] .[3] .[-1] .[1:2] (constant keys and slices)   .[e] (computed key)   .[e:f] .[e:] .[:f] (computed bounds)
     .[]   getpath(e)   terms with suffix lists as the parser builds them, `?` included: .a.b[0][]  .[][1:2].c  .a?.b  .xs?[0]?.z?
     .a?  .[3]?  .[]?   p | q   p , q   p // q   empty   error   if c then p [elif c then p]* [else q] end   select(c)
     first(p)   limit(e; p)   ..   recurse   recurse(p)   values nulls numbers strings arrays objects booleans scalars iterables first
     (any parameterless builtin.jq definition whose body is in the fragment: PBuiltin0)
       e as $x | p   e as [$a, $b, ...] | p   e as {$a, k: $b, ...} | p   try p
   where c, e are EXPRESSIONS (the regions gojq brackets with opexpbegin/opexpend): all of the above plus
   null/true/false/number/string literals, $x, + - * / % == != < <= > >= and or, [e], [], reduce e as $x (e; e),
   foreach e as $x (e; e; e), `not` (PBuiltin0), every Go-implemented function without arguments that the model implements
   and builtin.jq does not define (length, type, keys, ...) and with one argument (has(e), startswith(e), contains(e), ...).
   select, first, limit, recurse go through their builtin.jq definitions ([builtins_ok] pins the text: label/break,
   foreach with its counter cell, the local recursive def r).  `//`, label and foreach keep a frame (cell) alive while
   their consumer runs and the two runs allocate different ids: the simulation is indexed by the stack of live
   frames (PathSound.v: world, SR, xrel).
   Not yet covered (C02b_full): nested patterns and computed pattern keys, ?//, reduce/foreach as PATH expressions,
   object construction and natives with two or more arguments in expressions, user-defined functions, jq-defined
   builtins WITH parameters other than select/first/limit/recurse (e.g. `map`, `recurse(f; cond)`, `paths`). *)
From Coq Require Import String.
From Coq Require Import List ZArith NArith.
From Verif Require Import common.Sexp sem.JV sem.Syntax sem.Natives sem.Sem sem.PathSound sem.PathSoundProofs gen.GenBuiltins.
Import ListNotations.

(* the full first clause: the law for every program of a class of path expressions (the class of the
   property text is larger than the fragment proved below) *)
Definition C02b_full (is_path_expression : list funcdef -> query -> Prop) : Prop :=
  forall bs q, builtins_ok bs -> is_path_expression bs q -> path_law bs q.

(* proved: the class { emb p | pf bs p } *)
Theorem C02b_path_sound_fragment : C02b_full (fun bs q => exists p, pf bs p /\ q = emb p).
Proof. intros bs q Hb [p [Hp ->]]. exact (path_sound_law bs Hb p Hp). Qed.
Print Assumptions C02b_path_sound_fragment.

(* the same statement with the model of gojq's getpath: `v | getpath(q)` IS the corresponding output of `v | p`, unless
   the path navigates from a string (known finding D10) *)
Theorem C02b_path_sound_getpath : forall bs, builtins_ok bs -> forall p, pf bs p -> path_law_getpath bs (emb p).
Proof. exact path_sound_getpath. Qed.
Print Assumptions C02b_path_sound_getpath.

Theorem C02b_getpath : forall path v w, nav_path v path = NOk w -> str_nav v path = false ->
  fn_getpath v (VArr path) = NOk w.
Proof. exact getpath_nav. Qed.
Print Assumptions C02b_getpath.

(* the invalid-path clause: inside path(..), a constant index/slice or .[] applied to a value the model
   classifies as computed ([intact] = No: the ids differ and the values differ) ends in an error and never
   calls its consumer (no path is emitted, nothing is updated elsewhere): the error of the index function
   when the value cannot be indexed that way, the invalid-path error otherwise *)
Theorem C02b_index_from_computed : forall bs i key n rho x pp k s,
  index_key i = Some key -> intact (repsens s) x pp = No ->
  eval_q bs (4 + n) rho (emb (PIdx i)) x (Some pp) k s =
  match fn_index2 (fst x) key with
  | NOk _ => raise_err EInvalidPath (msg_invalid_path (fst x)) s
  | NErr c val => raise_err c val s
  | NSkip why => (inr (XSkip why), s)
  end.
Proof. exact index_from_computed. Qed.
Print Assumptions C02b_index_from_computed.

Theorem C02b_iterate_from_computed : forall bs n rho x pp k s, intact (repsens s) x pp = No ->
  eval_q bs (3 + n) rho (emb PIter) x (Some pp) k s = raise_err EInvalidPathIter (msg_invalid_path_iter (fst x)) s \/
  eval_q bs (3 + n) rho (emb PIter) x (Some pp) k s = raise_err EIterator (msg_iterator (fst x)) s.
Proof. exact iterate_from_computed. Qed.
Print Assumptions C02b_iterate_from_computed.

(* the same for a COMPUTED key `.[e]`: the key expression runs (outside path tracking), then the run ends with the error of
   the index function or the invalid-path error; the consumer k does not occur in the result.  (Uses functional
   extensionality, already among the assumptions through Flocq.) *)
Theorem C02b_idxdyn_from_computed : forall bs e n rho x pp k s,
  query_index_key (emb e) = None -> intact (repsens s) x pp = No ->
  eval_q bs (4 + n) rho (emb (PIdxDyn e)) x (Some pp) k s =
  eval_q bs (S n) rho (emb e) x None
    (fun ix _ s' => match fn_index2 (fst x) (fst ix) with
                    | NOk _ => raise_err EInvalidPath (msg_invalid_path (fst x)) s'
                    | NErr c val => raise_err c val s'
                    | NSkip why => (inr (XSkip why), s')
                    end) s.
Proof. exact idxdyn_from_computed. Qed.
Print Assumptions C02b_idxdyn_from_computed.

(* the hypotheses on the builtin table hold for builtin.jq of the current tree (select is pinned to its text) *)
Example C02b_builtins_ok : builtins_ok builtin_defs.
Proof. repeat split; reflexivity. Qed.

(* ---- non-vacuity / executable cross-check: the law evaluated on the model (vm_compute), with the model of
   gojq's getpath.  [law_on bs fuel cap q v n]: both runs give a verdict, end the same way, emit n outputs
   and getpath of the k-th path is the k-th value ---- *)
(* ((.[] | (.a, (.a | .[0]))), .[1:3]) | .   on [{"a":[1,2]}, {"a":null}, 7]: four outputs, then the error of 7|.a
   in both runs *)
Example C02b_ex_outputs_then_error :
  law_on builtin_defs 40 50 (emb (PPipe (PComma (PPipe PIter (PComma (pfld "a") (PPipe (pfld "a") (pidx 0)))) (PIdx (slc 1 3))) PId))
         (VArr [obj1 "a" (VArr [VInt 1; VInt 2]); obj1 "a" VNull; VInt 7]) 4.
Proof. vm_compute. repeat split. Qed.

(* (.[1:3], .[-1], empty, (.[0] | .[])) on [[5,6],1,2]: a slice, a negative index, empty, nested iteration; ends normally *)
Example C02b_ex_normal :
  law_on builtin_defs 40 50 (emb (PComma (PIdx (slc 1 3)) (PComma (pidx (-1)) (PComma PEmpty (PPipe (pidx 0) PIter)))))
         (VArr [VArr [VInt 5; VInt 6]; VInt 1; VInt 2]) 4.
Proof. vm_compute. repeat split. Qed.

(* .[] | .[] with the output cap reached after 3 of 4 outputs: both runs stop at the cap *)
Example C02b_ex_cap :
  law_on builtin_defs 40 3 (emb (PPipe PIter PIter)) (VArr [VArr [VInt 1; VInt 2]; VArr [VInt 3; VInt 4]]) 3.
Proof. vm_compute. repeat split. Qed.

(* .[] | select(.a > 1) | .b   on [{"a":2,"b":[1]},{"a":0,"b":5},{"a":3,"b":null}] *)
Example C02b_ex_select :
  law_on builtin_defs 60 50 (emb (PPipe PIter (PPipe (PSelect (PBinop OpGt (pfld "a") (lnum 1))) (pfld "b"))))
         (VArr [obj2 "a" (VInt 2) "b" (VArr [VInt 1]); obj2 "a" (VInt 0) "b" (VInt 5); obj2 "a" (VInt 3) "b" VNull]) 2.
Proof. vm_compute. repeat split. Qed.

(* .[] | if .k == "x" then .a else .[0] end   on [{"a":2,"k":"x"},[9]]: one output, then the error of [9]|.k *)
Example C02b_ex_if_error :
  law_on builtin_defs 60 50 (emb (PPipe PIter (PIf (PBinop OpEq (pfld "k") (lstr "x")) (pfld "a") (pidx 0))))
         (VArr [obj2 "a" (VInt 2) "k" (vs "x"); VArr [VInt 9]]) 1.
Proof. vm_compute. repeat split. Qed.

(* .[.k], (.k as $x | .[$x]), getpath(.p), (if .k then .a end)   on {"a":{"b":7},"k":"a","p":["a","b"]} *)
Example C02b_ex_computed_keys :
  law_on builtin_defs 60 50
         (emb (PComma (PIdxDyn (pfld "k")) (PComma (PBind (pfld "k") (codes "$x") (PIdxDyn (PVar (codes "$x"))))
                 (PComma (PGetpath (pfld "p")) (PIfNoElse (pfld "k") (pfld "a"))))))
         (VObj [(codes "a", VObj [(codes "b", VInt 7)]); (codes "k", vs "a"); (codes "p", VArr [vs "a"; vs "b"])]) 4.
Proof. vm_compute. repeat split. Qed.

(* try (.[] | .a), (.[0] | select(length > 0 and (.a | length))), error   on [{"a":1},2,{"a":3}]:
   the error of 2|.a is caught after one output in both runs; two outputs, then the error raised by `error` *)
Example C02b_ex_try_natives_error :
  law_on builtin_defs 60 50
         (emb (PComma (PTry (PPipe PIter (pfld "a")))
                 (PComma (PPipe (pidx 0) (PSelect (PBinop OpAnd (PBinop OpGt (PNative0 (codes "length")) (lnum 0))
                                                      (PPipe (pfld "a") (PNative0 (codes "length"))))))
                         PError)))
         (VArr [obj1 "a" (VInt 1); VInt 2; obj1 "a" (VInt 3)]) 2.
Proof. vm_compute. repeat split. Qed.

(* .[] | (.a?, .[]?, .a.b[0][])   on [{"a":{"b":[[7,8]]}}, 1]: the suffix forms as the parser builds them; four outputs,
   then (on 1) both `?` swallow their error and .a.b[0][] raises in both runs *)
Example C02b_ex_suffixes :
  law_on builtin_defs 60 50
         (emb (PPipe PIter (PComma (POptIdx (fld "a")) (PComma POptIter (PChain (Some (fld "a")) [SIdx (fld "b"); SIdx (idx 0); SIter])))))
         (VArr [obj1 "a" (obj1 "b" (VArr [VArr [VInt 7; VInt 8]])); VInt 1]) 4.
Proof. vm_compute. repeat split. Qed.

(* .[] | (.a // .b), ((.c | .[]) // .a)   on [{"a":null,"b":1}, {"a":2,"c":[false,3]}, {"a":false,"b":false}]:
   the alternative operator with 0, 1 and several truthy outputs on the left *)
Example C02b_ex_alt :
  law_on builtin_defs 60 50
         (emb (PPipe PIter (PComma (PAlt (pfld "a") (pfld "b")) (PAlt (PPipe (pfld "c") POptIter) (pfld "a")))))
         (VArr [obj2 "a" VNull "b" (VInt 1); obj2 "a" (VInt 2) "c" (VArr [VBool false; VInt 3]); obj2 "a" (VBool false) "b" (VBool false)]) 6.
Proof. vm_compute. repeat split. Qed.

(* first(.[] | .[]), first(empty), (.[] | first(.[] , error)), first(.[0] | first(.[]))   on [[1,2],[3]] *)
Example C02b_ex_first :
  law_on builtin_defs 60 50
         (emb (PComma (PFirst (PPipe PIter PIter)) (PComma (PFirst PEmpty)
                 (PComma (PPipe PIter (PFirst (PComma PIter PError))) (PFirst (PPipe (pidx 0) (PFirst PIter)))))))
         (VArr [VArr [VInt 1; VInt 2]; VArr [VInt 3]]) 4.
Proof. vm_compute. repeat split. Qed.

(* .., (recurse | .a?), recurse(.[1:]? | select(length > 0)), first(.. | select(type == "number"))
   on [{"a":[1]}, 2]: the recursive builtin.jq definitions, unbounded depth *)
Example C02b_ex_recurse :
  law_on builtin_defs 80 80
         (emb (PComma PDotDot (PComma (PPipe PRecurse0 (POptIdx (fld "a")))
                 (PComma (PRecurse1 (PPipe (PTry (PIdx (Index [] None (Some (num_q 1)) None true))) (PSelect (PBinop OpGt (PNative0 (codes "length")) (lnum 0)))))
                         (PFirst (PPipe PDotDot (PSelect (PBinop OpEq (PNative0 (codes "type")) (lstr "number")))))))))
         (VArr [obj1 "a" (VArr [VInt 1]); VInt 2]) 9.
Proof. vm_compute. repeat split. Qed.

(* limit(2; .xs[]), limit(0; .xs[]), limit(.n; .xs[] , .n), first(limit(3; ..)), limit(.n - 5; .)
   on {"n":2,"xs":[5,6,7]}: 2 + 0 + 2 + 1 outputs, then the error of the negative count, in both runs *)
Example C02b_ex_limit :
  law_on builtin_defs 80 80
         (emb (PComma (PLimit (lnum 2) (PChain (Some (fld "xs")) [SIter]))
              (PComma (PLimit (lnum 0) (PChain (Some (fld "xs")) [SIter]))
              (PComma (PLimit (pfld "n") (PComma (PChain (Some (fld "xs")) [SIter]) (pfld "n")))
              (PComma (PFirst (PLimit (lnum 3) PDotDot))
                      (PLimit (PBinop OpSub (pfld "n") (lnum 5)) PId))))))
         (obj2 "n" (VInt 2) "xs" (VArr [VInt 5; VInt 6; VInt 7])) 5.
Proof. vm_compute. repeat split. Qed.

(* .[] | (if .k == "x" then .a elif .k == "y" then .b elif .k then .k end),
         (.lo as $l | .hi as $h | .xs | ((.[$l:$h] | .[]?), .[$l:], (try .[:$h]))), .xs?[0]?.z?
   on [{"k":"x","a":1}, {"k":"y","b":2,"xs":[[5],6,7,8],"lo":1,"hi":3}, {"k":null}]:
   elif chains, computed slice bounds, `?` inside suffix lists *)
Example C02b_ex_elif_slices_opt :
  law_on builtin_defs 80 80
         (emb (PPipe PIter
                (PComma (PElif (PBinop OpEq (pfld "k") (lstr "x")) (pfld "a")
                           (PElif (PBinop OpEq (pfld "k") (lstr "y")) (pfld "b") (PIfNoElse (pfld "k") (pfld "k"))))
                (PComma (PBind (pfld "lo") (codes "$l") (PBind (pfld "hi") (codes "$h") (PPipe (pfld "xs")
                           (PComma (PPipe (PSliceDyn true true (PVar (codes "$l")) (PVar (codes "$h"))) POptIter)
                           (PComma (PSliceDyn true false (PVar (codes "$l")) PId)
                                   (PTry (PSliceDyn false true PId (PVar (codes "$h")))))))))
                        (PChain (Some (fld "xs")) [SOpt; SIdx (idx 0); SOpt; SIdx (fld "z"); SOpt])))))
         (VArr [obj2 "a" (VInt 1) "k" (vs "x");
                VObj [(codes "b", VInt 2); (codes "hi", VInt 3); (codes "k", vs "y"); (codes "lo", VInt 1);
                      (codes "xs", VArr [VArr [VInt 5]; VInt 6; VInt 7; VInt 8])];
                obj1 "k" VNull]) 13.
Proof. vm_compute. repeat split. Qed.

(* .[] | (.ks as [$a, $b] | .[$a], .[$b], (.[$b] | .[$a]?))   on [{"ks":["x","y"],"x":1,"y":{"x":2}}, {"ks":["x"],"x":3}, {"ks":7}]:
   array destructuring (a missing element binds null: .[null] is an error caught by nothing -> same error in both runs) *)
Example C02b_ex_destructuring :
  law_on builtin_defs 80 80
         (emb (PPipe PIter (PBindArr (pfld "ks") [codes "$a"; codes "$b"]
                (PComma (PIdxDyn (PVar (codes "$a"))) (PComma (PIdxDyn (PVar (codes "$b")))
                        (PPipe (PIdxDyn (PVar (codes "$b"))) (PTry (PIdxDyn (PVar (codes "$a"))))))))))
         (VArr [VObj [(codes "ks", VArr [vs "x"; vs "y"]); (codes "x", VInt 1); (codes "y", obj1 "x" (VInt 2))];
                obj2 "ks" (VArr [vs "x"]) "x" (VInt 3); obj1 "ks" (VInt 7)]) 4.
Proof. vm_compute. repeat split. Qed.

(* .[] | (. as {$k, idx: $i} | .[$k], (.[$k] | .[$i]?))   on [{"k":"a","idx":1,"a":[5,6]}, {"k":"idx","idx":0}, {"k":null}]:
   object destructuring ({$k} and {idx: $i}); the last element ends both runs with the error of .[null] *)
Example C02b_ex_destructuring_obj :
  law_on builtin_defs 80 80
         (emb (PPipe PIter (PBindObj PId [OVar (codes "$k"); OKey (codes "idx") (codes "$i")]
                (PComma (PIdxDyn (PVar (codes "$k"))) (PPipe (PIdxDyn (PVar (codes "$k"))) (PTry (PIdxDyn (PVar (codes "$i")))))))))
         (VArr [VObj [(codes "a", VArr [VInt 5; VInt 6]); (codes "idx", VInt 1); (codes "k", vs "a")];
                obj2 "idx" (VInt 0) "k" (vs "idx"); obj1 "k" VNull]) 3.
Proof. vm_compute. repeat split. Qed.

(* getpath(["a","b"]), (.xs[] | select([.[]?] | length > 1)), .xs[reduce .xs[] as $x (0; . + 1) - 2],
   (.xs | .[[foreach .[] as $x (0; . + 1; .)] | length - 3])      on {"a":{"b":7},"xs":[[1,2],[3],[4,5,6]]}:
   constructed arrays, reduce and foreach inside the expression regions *)
Example C02b_ex_expressions :
  law_on builtin_defs 80 80
         (emb (PComma (PGetpath (PArray (PComma (lstr "a") (lstr "b"))))
              (PComma (PPipe (PChain (Some (fld "xs")) [SIter])
                             (PSelect (PBinop OpGt (PPipe (PArray POptIter) (PNative0 (codes "length"))) (lnum 1))))
              (PComma (PPipe (pfld "xs")
                        (PBind (PBinop OpSub (PReduce PIter (codes "$x") (lnum 0) (PBinop OpAdd PId (lnum 1))) (lnum 2)) (codes "$i")
                               (PIdxDyn (PVar (codes "$i")))))
                      (PPipe (pfld "xs")
                        (PBind (PBinop OpSub (PPipe (PArray (PForeach PIter (codes "$x") (lnum 0) (PBinop OpAdd PId (lnum 1)) PId))
                                                    (PNative0 (codes "length"))) (lnum 3)) (codes "$j")
                               (PIdxDyn (PVar (codes "$j")))))))))
         (obj2 "a" (obj1 "b" (VInt 7)) "xs" (VArr [VArr [VInt 1; VInt 2]; VArr [VInt 3]; VArr [VInt 4; VInt 5; VInt 6]])) 5.
Proof. vm_compute. repeat split. Qed.

(* (.. | numbers), (.[] | values | scalars), (.[] | select(has("a") | not)), (.[] | arrays | first), (.[] | iterables | objects | .a)
   on [{"a":1}, null, [2,3], "s", {"b":null}]: parameterless builtin.jq definitions (their bodies are terms of the fragment,
   compared with builtin.jq of the current tree by the side condition) and a native with an argument *)
Example C02b_ex_builtins0 :
  law_on builtin_defs 80 80
         (emb (PComma (PPipe PDotDot b_numbers)
              (PComma (PPipe PIter (PPipe b_values b_scalars))
              (PComma (PPipe PIter (PSelect (PPipe (PTry (PNative1 (codes "has") (lstr "a"))) b_not)))
              (PComma (PPipe PIter (PPipe b_arrays b_first0))
                      (PPipe PIter (PPipe b_iterables (PPipe b_objects (pfld "a")))))))))
         (VArr [obj1 "a" (VInt 1); VNull; VArr [VInt 2; VInt 3]; vs "s"; obj1 "b" VNull]) 9.
Proof. vm_compute. repeat split. Qed.

Example C02b_ex_builtins0_in_fragment :
  pf builtin_defs (PComma (PPipe PDotDot b_numbers)
              (PComma (PPipe PIter (PPipe b_values b_scalars))
              (PComma (PPipe PIter (PSelect (PPipe (PTry (PNative1 (codes "has") (lstr "a"))) b_not)))
              (PComma (PPipe PIter (PPipe b_arrays b_first0))
                      (PPipe PIter (PPipe b_iterables (PPipe b_objects (pfld "a")))))))) /\
  pf builtin_defs b_strings /\ pf builtin_defs b_booleans /\ pf builtin_defs b_nulls.
Proof. unfold pf. cbn [ok]. repeat split; repeat constructor; try discriminate; reflexivity. Qed.

(* every example program satisfies the side conditions of the theorem *)
Example C02b_ex_in_fragment :
  pf builtin_defs (PPipe PIter (PPipe (PSelect (PBinop OpGt (pfld "a") (lnum 1))) (pfld "b"))) /\
  pf builtin_defs (PComma (PIdxDyn (pfld "k")) (PComma (PBind (pfld "k") (codes "$x") (PIdxDyn (PVar (codes "$x"))))
                     (PComma (PGetpath (pfld "p")) (PIfNoElse (pfld "k") (pfld "a"))))) /\
  pf builtin_defs (PComma (PTry (PPipe PIter (pfld "a")))
                     (PComma (PPipe (pidx 0) (PSelect (PBinop OpAnd (PBinop OpGt (PNative0 (codes "length")) (lnum 0))
                                                          (PPipe (pfld "a") (PNative0 (codes "length"))))))
                             PError)) /\
  pf builtin_defs (PPipe PIter (PComma (POptIdx (fld "a")) (PComma POptIter (PChain (Some (fld "a")) [SIdx (fld "b"); SIdx (idx 0); SIter])))).
Proof. unfold pf. cbn [ok]. repeat split; repeat constructor; try discriminate; reflexivity. Qed.

(* ... and so do the programs of the examples with frames, recursion, limit, elif, computed slices, `?` in suffix lists, destructuring *)
Example C02b_ex_in_fragment2 :
  pf builtin_defs (PPipe PIter (PComma (PAlt (pfld "a") (pfld "b")) (PAlt (PPipe (pfld "c") POptIter) (pfld "a")))) /\
  pf builtin_defs (PComma (PFirst (PPipe PIter PIter)) (PComma (PFirst PEmpty)
                 (PComma (PPipe PIter (PFirst (PComma PIter PError))) (PFirst (PPipe (pidx 0) (PFirst PIter)))))) /\
  pf builtin_defs (PComma PDotDot (PComma (PPipe PRecurse0 (POptIdx (fld "a")))
                 (PComma (PRecurse1 (PPipe (PTry (PIdx (Index [] None (Some (num_q 1)) None true))) (PSelect (PBinop OpGt (PNative0 (codes "length")) (lnum 0)))))
                         (PFirst (PPipe PDotDot (PSelect (PBinop OpEq (PNative0 (codes "type")) (lstr "number")))))))) /\
  pf builtin_defs (PComma (PLimit (lnum 2) (PChain (Some (fld "xs")) [SIter]))
              (PComma (PLimit (lnum 0) (PChain (Some (fld "xs")) [SIter]))
              (PComma (PLimit (pfld "n") (PComma (PChain (Some (fld "xs")) [SIter]) (pfld "n")))
              (PComma (PFirst (PLimit (lnum 3) PDotDot))
                      (PLimit (PBinop OpSub (pfld "n") (lnum 5)) PId))))) /\
  pf builtin_defs (PPipe PIter
                (PComma (PElif (PBinop OpEq (pfld "k") (lstr "x")) (pfld "a")
                           (PElif (PBinop OpEq (pfld "k") (lstr "y")) (pfld "b") (PIfNoElse (pfld "k") (pfld "k"))))
                (PComma (PBind (pfld "lo") (codes "$l") (PBind (pfld "hi") (codes "$h") (PPipe (pfld "xs")
                           (PComma (PPipe (PSliceDyn true true (PVar (codes "$l")) (PVar (codes "$h"))) POptIter)
                           (PComma (PSliceDyn true false (PVar (codes "$l")) PId)
                                   (PTry (PSliceDyn false true PId (PVar (codes "$h")))))))))
                        (PChain (Some (fld "xs")) [SOpt; SIdx (idx 0); SOpt; SIdx (fld "z"); SOpt])))) /\
  pf builtin_defs (PPipe PIter (PBindArr (pfld "ks") [codes "$a"; codes "$b"]
                (PComma (PIdxDyn (PVar (codes "$a"))) (PComma (PIdxDyn (PVar (codes "$b")))
                        (PPipe (PIdxDyn (PVar (codes "$b"))) (PTry (PIdxDyn (PVar (codes "$a"))))))))).
Proof. unfold pf. cbn [ok]. repeat split; repeat constructor; try discriminate; reflexivity. Qed.

Example C02b_ex_in_fragment3 :
  pf builtin_defs (PComma (PGetpath (PArray (PComma (lstr "a") (lstr "b"))))
              (PComma (PPipe (PChain (Some (fld "xs")) [SIter])
                             (PSelect (PBinop OpGt (PPipe (PArray POptIter) (PNative0 (codes "length"))) (lnum 1))))
              (PComma (PPipe (pfld "xs")
                        (PBind (PBinop OpSub (PReduce PIter (codes "$x") (lnum 0) (PBinop OpAdd PId (lnum 1))) (lnum 2)) (codes "$i")
                               (PIdxDyn (PVar (codes "$i")))))
                      (PPipe (pfld "xs")
                        (PBind (PBinop OpSub (PPipe (PArray (PForeach PIter (codes "$x") (lnum 0) (PBinop OpAdd PId (lnum 1)) PId))
                                                    (PNative0 (codes "length"))) (lnum 3)) (codes "$j")
                               (PIdxDyn (PVar (codes "$j")))))))) /\
  pf builtin_defs (PPipe PIter (PBindObj PId [OVar (codes "$k"); OKey (codes "idx") (codes "$i")]
                (PComma (PIdxDyn (PVar (codes "$k"))) (PPipe (PIdxDyn (PVar (codes "$k"))) (PTry (PIdxDyn (PVar (codes "$i")))))))).
Proof. unfold pf. cbn [ok]. repeat split; repeat constructor; try discriminate; reflexivity. Qed.

(* D10 (known finding): "abcd" | path(.[1:3]) emits [{"start":1,"end":3}] and "abcd" | .[1:3] is "bc" — the law holds
   with component-wise navigation — but gojq's getpath refuses to navigate from a string *)
Example C02b_ex_D10 :
  let v := vs "abcd" in
  let o1 := observe builtin_defs 40 50 false [] (q_path (emb (PIdx (slc 1 3)))) v in
  let o2 := observe builtin_defs 40 50 false [] (emb (PIdx (slc 1 3))) v in
  fst o2 = [vs "bc"] /\ snd o1 = EndNormal /\ snd o2 = EndNormal /\
  map (fun q => match q with VArr path => nav_path v path | _ => NSkip [] end) (fst o1) = [NOk (vs "bc")] /\
  map (fn_getpath v) (fst o1) = [NErr EFunc1Type None].
Proof. vm_compute. repeat split. Qed.

(* the invalid-path clause on whole programs: path([1] | .[0]), path({"a":1} | .a), path(null | .[0]) on the input 5
   end in the invalid-path error without emitting a path; path(1 | try .[0]) emits nothing *)
Example C02b_ex_invalid_path :
  let run q := observe builtin_defs 40 50 false [] (q_path q) (VInt 5) in
  let lit1 := num_q 1 in
  let is_invalid (o : list jv * ending) := match o with ([], EndError EInvalidPath _) => True | _ => False end in
  is_invalid (run (q_bin (q_term (TArray (Some lit1))) OpPipe (emb (pidx 0)))) /\
  is_invalid (run (q_bin (q_term (TObject [ObjectKeyVal (codes "a") None None (Some lit1)])) OpPipe (emb (pfld "a")))) /\
  is_invalid (run (q_bin (q_term TNull) OpPipe (emb (pidx 0)))) /\
  run (q_bin lit1 OpPipe (emb (PTry (pidx 0)))) = ([], EndNormal).
Proof. vm_compute. repeat split. Qed.
