(* C13c — the jq-defined inverse pairs of C13 as theorems about the reference semantics coq/sem/Sem.v (the
   evaluator the C01 check ties to gojq on ~400 000 evaluations per run) applied to the definitions of
   builtin.jq of the CURRENT tree (coq/gen/GenBuiltins.v, regenerated from /repo/builtin.jq through the
   implementation's own parser before this file is compiled).
   Statements only; proofs in coq/sem/BuiltinLawsProofs.v (definitions: coq/sem/BuiltinLaws.v).

   [fn_law bs q v N w F]: for every fuel m >= F, every well-behaved consumer k ([Kat]: the top-level consumer,
   the collector of [..], and what the language builds from them) and every state s,
       eval_q bs m [] q (plain v) None k s = (ticks N ;; k (plain w) None) s
   — the run of q on v hands w to its consumer exactly once, costs exactly N units of the model's step budget
   (applications of jq-defined functions and filter arguments) and leaves id counter and cells as they were.
   [C13c_observe] reads that for observations: with fuel >= F and N within the budget the observation is
   ([w], EndNormal); and on EVERY fuel an observation that is a verdict (not EndSkip) is that one.

   What the theorems need of builtin.jq is [entries_pins]: the definitions of map, to_entries, from_entries,
   with_entries as ASTs, and that keys/0, has/1, add/0 are not jq-defined.  [C13c_pins] closes it by
   computation on the regenerated table: an edit of one of these definitions breaks that obligation. *)
From Coq Require Import String.
From Coq Require Import List ZArith NArith Bool.
From Verif Require Import common.Sexp sem.JV sem.Syntax sem.Natives sem.Sem sem.BuiltinLaws sem.BuiltinLawsProofs
  sem.BuiltinCalls sem.BuiltinCallsProofs gen.GenBuiltins.
Import ListNotations.

(* to_entries on a well-formed object (strictly sorted keys = duplicate free, gojq's enumeration order):
   exactly one output, the array of {"key":k,"value":v} in key order *)
Theorem C13c_to_entries : forall bs, entries_pins bs -> forall kvs, obj_sorted kvs = true ->
  fn_law bs q_to_entries (VObj kvs) 1 (entries kvs) 16.
Proof. exact to_entries_sem. Qed.
Print Assumptions C13c_to_entries.

(* from_entries on the entries of a well-formed object gives the object back *)
Theorem C13c_from_entries : forall bs, entries_pins bs -> forall kvs, obj_sorted kvs = true ->
  fn_law bs q_from_entries (entries kvs) (2 + N.of_nat (List.length kvs)) (VObj kvs) 32.
Proof. exact from_entries_sem. Qed.
Print Assumptions C13c_from_entries.

(* to_entries | from_entries is the identity on well-formed objects, and so is with_entries(.) (through map and
   the filter argument) *)
Theorem C13c_entries_roundtrips : forall bs, entries_pins bs -> forall kvs, obj_sorted kvs = true ->
  fn_law bs q_to_from (VObj kvs) (3 + N.of_nat (List.length kvs)) (VObj kvs) 33 /\
  fn_law bs q_with_entries_id (VObj kvs) (5 + 3 * N.of_nat (List.length kvs)) (VObj kvs) 40.
Proof. exact entries_roundtrips_sem. Qed.
Print Assumptions C13c_entries_roundtrips.

Theorem C13c_observe : forall bs q v N w F, fn_law bs q v N w F ->
  forall m capn rs ins, (2 <= capn)%nat ->
  ((F <= m)%nat -> (N <= step_budget)%N -> observe bs m capn rs ins q v = ([w], EndNormal)) /\
  (is_verdict (snd (observe bs m capn rs ins q v)) -> observe bs m capn rs ins q v = ([w], EndNormal)).
Proof. exact fn_law_observe. Qed.
Print Assumptions C13c_observe.

(* ---- for C03's clause "builtins that are defined in jq behave exactly as their published definitions in
   builtin.jq evaluated under C01" ----
   The general law: a call name(args) of a name the program does not define ([lookup_fun rho .. = None]) and
   builtin.jq does ([lookup_builtin bs .. = Some (FuncDef nm params body)]) is one unit of the step budget
   followed by THE BODY OF THAT DEFINITION run by the same evaluator, with the parameters bound as for any
   function (closures over the caller's environment; $parameters evaluated first, left to right) — for every
   input, path state, continuation and state.  [bs] is any table; the check instantiates it with builtin.jq. *)
Theorem C13c_builtin_call_unfold : forall bs m rho name args nm params body v ps k,
  is_var_name name && Nat.eqb (List.length args) 0 = false ->
  lookup_fun rho name (List.length args) = None ->
  lookup_builtin bs name (List.length args) = Some (FuncDef nm params body) ->
  eval_q bs (3 + m) rho (q_call name args) v ps k =
  (tick ;; bind_params bs m rho params args v (fun benv => eval_q bs m benv body v ps k)).
Proof. exact builtin_call_unfold. Qed.
Print Assumptions C13c_builtin_call_unfold.

(* not, select(f), map(f), add(f), first(g), isempty(g), in(xs) of builtin.jq (pinned: [calls_pins]) as directly
   written computations in continuation-passing style: every filter argument, input, path state, consumer *)
Theorem C13c_calls : forall bs, calls_pins bs -> forall m rho v ps k,
  (undefined_in rho "not" 0 ->
   eval_q bs (7 + m) rho (q_call (codes "not") []) v ps k = (tick ;; k (plain (VBool (negb (truthy (fst v))))) ps)) /\
  (forall f, undefined_in rho "select" 1 ->
   eval_q bs (9 + m) rho (q_call (codes "select") [f]) v ps k =
   (tick ;; (tick ;; eval_q bs (1 + m) rho f v None (fun x _ => if truthy (fst x) then k v ps else ret tt)))) /\
  (forall f, undefined_in rho "map" 1 ->
   eval_q bs (9 + m) rho (q_call (codes "map") [f]) v ps k =
   (tick ;; with_cell (scoped_ids ps) (plain (VArr []))
              (fun c => iterate v ps (fun x ps' => tick ;; eval_q bs m rho f x ps' (coll c)))
              (fun a => match fst a with VArr l => k (plain (VArr (rev' l))) ps | _ => skipM "cell" end))) /\
  (forall f, undefined_in rho "add" 1 ->
   eval_q bs (9 + m) rho (q_call (codes "add") [f]) v ps k =
   (tick ;; with_cell (scoped_ids ps) (plain (VArr []))
              (fun c => tick ;; eval_q bs m rho f v ps (coll c))
              (fun a => match fst a with
                        | VArr l => lift (fn_add (VArr (rev' l))) (fun w => k (plain w) ps)
                        | _ => skipM "cell"
                        end))) /\
  (forall g, undefined_in rho "first" 1 ->
   eval_q bs (12 + m) rho (q_call (codes "first") [g]) v ps k =
   (tick ;; with_label (scoped_ids ps)
              (fun l => tick ;; eval_q bs (3 + m) rho g v ps (fun x ps' => k x ps' ;; raise (XBreak l))))) /\
  (forall g, undefined_in rho "isempty" 1 ->
   eval_q bs (14 + m) rho (q_call (codes "isempty") [g]) v ps k =
   (tick ;; with_label (scoped_ids ps)
              (fun l => (tick ;; eval_q bs (2 + m) rho g v ps (fun x ps' => k (plain VFalse) ps' ;; raise (XBreak l))) ;;
                        k (plain VTrue) ps))) /\
  (forall xs, undefined_in rho "in" 1 ->
   eval_q bs (12 + m) rho (q_call (codes "in") [xs]) v ps k =
   (tick ;; (tick ;; eval_q bs (4 + m) rho xs v ps (fun x ps' => lift (fn_has (fst x) (fst v)) (fun w => k (plain w) ps'))))).
Proof. exact calls_sem. Qed.
Print Assumptions C13c_calls.

Example C13c_calls_pins : calls_pins builtin_defs.
Proof. repeat split; reflexivity. Qed.

(* the pins hold for builtin.jq of the current tree *)
Example C13c_pins : entries_pins builtin_defs.
Proof. repeat split; reflexivity. Qed.


(* ---- non-vacuity: the model run on concrete objects with the regenerated definitions (vm_compute) ---- *)
Definition o_empty : jv := VObj [].
Definition o_one : jv := VObj [(codes "a", VInt 1)].
(* multi-byte keys: "é" = c3 a9, "日" = e6 97 a5; nested values *)
Definition o_multi : jv :=
  VObj [(codes "a", VArr [VInt 1; VObj [(codes "k", VNull)]]); (codes "b", VObj [(codes "key", VStr (codes "x")); (codes "value", VTrue)]);
        ([195; 169]%N, VStr [230; 151; 165]%N); ([230; 151; 165]%N, VObj [])].

Example C13c_ex_to_entries :
  observe builtin_defs 40 50 false [] q_to_entries o_empty = ([VArr []], EndNormal) /\
  observe builtin_defs 40 50 false [] q_to_entries o_one = ([VArr [entry (codes "a", VInt 1)]], EndNormal) /\
  (match o_multi with VObj kvs => obj_sorted kvs = true /\ observe builtin_defs 40 50 false [] q_to_entries o_multi = ([entries kvs], EndNormal) | _ => False end).
Proof. vm_compute. repeat split. Qed.

Example C13c_ex_roundtrips :
  let id_on (q : query) (v : jv) := observe builtin_defs 60 50 false [] q v = ([v], EndNormal) in
  id_on q_to_from o_empty /\ id_on q_to_from o_one /\ id_on q_to_from o_multi /\
  id_on q_with_entries_id o_empty /\ id_on q_with_entries_id o_one /\ id_on q_with_entries_id o_multi /\
  (match o_multi with VObj kvs => observe builtin_defs 60 50 false [] q_from_entries (entries kvs) = ([o_multi], EndNormal) | _ => False end).
Proof. vm_compute. repeat split. Qed.

(* outside the domain: an association list that is not sorted is not a value gojq can hold; the model's object
   operations then do not round-trip (the hypothesis obj_sorted is needed) *)
Example C13c_ex_unsorted :
  observe builtin_defs 60 50 false [] q_to_from (VObj [(codes "b", VInt 1); (codes "a", VInt 2)]) <>
  ([VObj [(codes "b", VInt 1); (codes "a", VInt 2)]], EndNormal).
Proof. vm_compute. discriminate. Qed.

(* the calls of C13c_calls run on the model: [.[] | not], select(.), map(not), add(.[]), first(.[]), isempty(empty),
   isempty(.[]) on [null, 3] *)
Example C13c_ex_calls :
  let run q v := observe builtin_defs 60 50 false [] q v in
  let v := VArr [VNull; VInt 3] in
  let qnot := q_call (codes "not") [] in
  run (q_call (codes "map") [qnot]) v = ([VArr [VTrue; VFalse]], EndNormal) /\
  run (q_bin q_iter OpPipe (q_call (codes "select") [q_identity])) v = ([VInt 3], EndNormal) /\
  run (q_call (codes "add") [q_iter]) v = ([VInt 3], EndNormal) /\
  run (q_call (codes "first") [q_iter]) v = ([VNull], EndNormal) /\
  run (q_call (codes "isempty") [q_empty]) v = ([VTrue], EndNormal) /\
  run (q_call (codes "isempty") [q_iter]) v = ([VFalse], EndNormal).
Proof. vm_compute. repeat split. Qed.
