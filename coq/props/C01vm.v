(* C01vm — the VM-level theorem of C01 for fragment F of jq (contributes to C01; see docs/C01vm.md).

   Fragment F (coq/c01vm/Syntax.v): identity, literals (incl. constant arrays/objects), pipe, comma,
   empty, .[] , constant index, if/elif/else, //, try/catch and ?, array construction, reduce, foreach,
   label/break, `as $x` bindings and variables, nullary natives (error, length), binary operators whose
   operands are the forms compileCallInternal inlines (identity, simple constants, .[k], .[], empty,
   nullary natives).  The natives (index, iteration, operators) are arbitrary total functions: the
   theorem holds for every instance.

   Compile.v transcribes compiler.go for F (code layout, back-patched targets, the emission-time
   rewrites of compileIf / compileBind / compileArray / compileCallInternal); VM.v transcribes
   execute.go's Next loop for the opcodes used; Den.v is the denotational generator semantics.
   The correspondence check ties Compile.v to compiler.go by comparing instruction lists on every
   sampled program, and VM.v/Den.v to the implementation by comparing outputs. *)
From Coq Require Import List NArith ZArith.
From Verif Require Import c01vm.Syntax c01vm.Code c01vm.VM c01vm.Den c01vm.Compile c01vm.Natives c01vm.Lemmas c01vm.Correct c01vm.Peep.
Import ListNotations.
From Verif Require c01vm2.Syntax c01vm2.Code c01vm2.VM c01vm2.Den c01vm2.Compile c01vm2.Natives c01vm2.Mach c01vm2.Gen c01vm2.Lemmas c01vm2.Correct c01vm2.Peep.

(* For EVERY program q of F that compiles (all variables and labels bound), EVERY input v and EVERY
   instance of the natives there is a fuel with which the VM, started by env.execute on the code finally
   emitted for q (opscope, the code of q, opret, after the peephole pass optimizeCodeOps), produces exactly
   the outputs of the denotation, in order, followed by the same ending (end of outputs / the same first
   uncaught error) -- in particular it is never Stuck (no Go panic) and a closed program never ends with an
   uncaught break.  [run_is r o]: o = (outputs of r, End | Error e) according to the ending of r. *)
Theorem C01vm_compile_correct : forall (nt : natives) (q : query) (code : list instr),
  compile q = Some code ->
  forall v : jv, exists fuel : nat, run_is (den nt q [] v) (run nt code fuel (init v)).
Proof. exact compile_correct. Qed.
Print Assumptions C01vm_compile_correct.

(* peephole_sound (also C04): for ANY code c whose last instruction is opret and in which no opjumpifnot
   targets the next instruction (the two facts hold for every code emitted by comp: Peep.comp_jin), running
   the rewritten code gives the same observation as running c, whenever the latter neither gets stuck nor runs
   out of fuel.  The side condition the optimiser checks itself (the second instruction of a fused pair is not
   a jump/fork target) is part of the pass. *)
Theorem C01vm_peephole_sound : forall (nt : natives) (c : list instr),
  (forall p j, nth_error c p = Some (Ijumpifnot j) -> j <> S p) ->
  nth_error c (length c - 1) = Some Iret ->
  forall v f o, run nt c f (init v) = o -> snd o <> OutOfFuel -> snd o <> IsStuck ->
  exists f', run nt (peephole c) f' (init v) = o.
Proof. exact peephole_fold_sound. Qed.
Print Assumptions C01vm_peephole_sound.

(* the same for the code before the peephole pass, and the per-construct statement behind both: for every
   query in every context (any code position, any stack below the input, any pending forks, any variable
   store satisfying the environment) the code segment implements the denotation (Lemmas.Impl) *)
Corollary C01vm_compile_raw_correct : forall (nt : natives) (q : query) (code : list instr),
  compile_raw q = Some code ->
  forall v : jv, exists fuel : nat, run_is (den nt q [] v) (run nt code fuel (init v)).
Proof. exact compile_raw_correct. Qed.
Corollary C01vm_segment_correct : forall nt code rpc q, Impl nt code rpc q.
Proof. exact impl_all. Qed.

(* non-vacuity: a program of F with generators, a variable, a caught and an uncaught error:
   [.[] as $x | try ($x | error) catch (., 1)] , error   on [3,4]  gives  [3,1,4,1] then error([3,4]) *)
Example C01vm_nonvacuous :
  let q := QComma (QArray (QBind (QIter QId) 0%N
                     (QTry (QPipe (QVar 0%N) (QCall0 F0Error)) (Some (QComma QId (QConst (VNum 1)))))))
                  (QCall0 F0Error) in
  let v := VArr [VNum 3; VNum 4] in
  option_map (fun c => run cnat c 300 (init v)) (compile q)
    = Some ([VArr [VNum 3; VNum 1; VNum 4; VNum 1]], Error (VE (EV v))) /\
  den cnat q [] v = ([VArr [VNum 3; VNum 1; VNum 4; VNum 1]], Some (XErr (EVal v))).
Proof. vm_compute. split; reflexivity. Qed.

(* ---- the extension (coq/c01vm2): closures, user-defined functions, recursion ----
   Fragment F2 = F with
     - arbitrary queries of F2 as operands of the binary operators ($x + 1, nested expressions, generators in
       operands: (1,2) + (10,20)).  compileCallInternal compiles an operand inline (empty body: load v; a single
       instruction that owns no variable: push c / load v; X, X possibly a call of a user function) or as a
       function definition (jump over it; opscope id nvars 0; body; opret) called through load v; pushpc; callpc;
     - definitions and calls of functions, `def f: body; rest` and `def f(g; $x; h): body; rest` with filter and value
       parameters, recursion included.  A `$x` parameter is a filter parameter whose closure the prelude of the
       function evaluates on the input of the call, in the environment of the call (load v; load closure; callpc;
       store $x), the first `$` parameter in the outermost loop; a function body sees the variables and functions visible at its definition (lexical scoping: later
       rebinding of a name does not affect it), an argument `a` of `f(a)` is a closure over the environment of the
       call (pushpc captures the scope index; calling the parameter enters it with that index); in this model
       neither a function body nor an argument of a user-defined function sees a label around it.
   The VM (c01vm2/VM.v) has scope frames {id, offset, pc, saveindex, outerindex}, env.index walking the outer
   chain, opscope/opret with popscope's `free` test (stated at list level with a ghost push counter, see the
   header of VM.v; coq/vm/StackProofs.v Stack_refines is the array-level refinement), env.offset and the growth
   of env.values, oppushpc / opcallpc / opcall pc / opcallrec with Next's locals (callpc, index).
   The denotation (c01vm2/Den.v) is a total function of a fuel: every call of a user-defined function costs one
   unit, running out of fuel is the uncatchable ending XFuel; the right operand of an operator is enumerated in the
   outer loop, as the real code does.
   Statement: for every fuel on which the denotation terminates (does not end with XFuel) the machine, run on the
   code before optimizeTailRec and optimizeCodeOps, terminates with the same observation: [run_is r o] is
   o = (outputs of r, End | Error e) according to the ending of r, and True when r ended with XFuel (the converse
   theorems below say what the machine does in that case). *)
Theorem C01vm_functions_compile_raw_correct :
  forall (nt : c01vm2.Code.natives) (q : c01vm2.Syntax.query) (code : list c01vm2.Code.instr),
  c01vm2.Compile.compile_raw q = Some code ->
  forall (fu : nat) (v : c01vm2.Syntax.jv), exists fuel : nat,
    c01vm2.Correct.run_is (c01vm2.Den.den nt fu q [] v) (c01vm2.VM.run nt code fuel (c01vm2.VM.init code v)).
Proof. exact c01vm2.Correct.compile_raw_correct. Qed.
Print Assumptions C01vm_functions_compile_raw_correct.

(* the converse direction.  (1) When the denotation runs out of its fuel fu, the machine is still running after
   fu + 1 steps (every call costs one unit of fuel and pushes one frame; the ghost push counter grows by at most one
   per step).  (2) Hence: whenever the machine, run with f steps, ends in any way other than exhausting f, the
   denotation terminates on fuel f, and the observation is the machine's.  Together with the theorem above:
   the VM terminates on (code, v) iff the denotation does for some fuel, with equal observations.
   (3) In particular the machine never gets stuck (no Go panic) on any compiled program and input, terminating or not. *)
Theorem C01vm_functions_out_of_fuel :
  forall nt q code, c01vm2.Compile.compile_raw q = Some code ->
  forall fu v, snd (c01vm2.Den.den nt fu q [] v) = Some c01vm2.Den.XFuel ->
  forall f, f <= S fu -> snd (c01vm2.VM.run nt code f (c01vm2.VM.init code v)) = c01vm2.VM.OutOfFuel.
Proof. exact c01vm2.Correct.compile_raw_fuel. Qed.
Print Assumptions C01vm_functions_out_of_fuel.
Theorem C01vm_functions_converse :
  forall nt q code, c01vm2.Compile.compile_raw q = Some code ->
  forall v f outs e, c01vm2.VM.run nt code f (c01vm2.VM.init code v) = (outs, e) -> e <> c01vm2.VM.OutOfFuel ->
  snd (c01vm2.Den.den nt f q [] v) <> Some c01vm2.Den.XFuel /\
  c01vm2.Correct.run_is (c01vm2.Den.den nt f q [] v) (outs, e).
Proof. exact c01vm2.Correct.compile_raw_converse. Qed.
Print Assumptions C01vm_functions_converse.
Corollary C01vm_functions_never_stuck :
  forall nt q code, c01vm2.Compile.compile_raw q = Some code ->
  forall v f, snd (c01vm2.VM.run nt code f (c01vm2.VM.init code v)) <> c01vm2.VM.IsStuck.
Proof. exact c01vm2.Correct.compile_raw_never_stuck. Qed.

(* the reading for a terminating denotation *)
Corollary C01vm_functions_terminating :
  forall nt q code, c01vm2.Compile.compile_raw q = Some code ->
  forall fu v outs, c01vm2.Den.den nt fu q [] v = (outs, None) ->
  exists fuel, c01vm2.VM.run nt code fuel (c01vm2.VM.init code v) = (outs, c01vm2.VM.End).
Proof.
  intros nt q code Hc fu v outs Hd. destruct (c01vm2.Correct.compile_raw_correct nt q code Hc fu v) as (f & Hf).
  exists f. unfold c01vm2.Correct.run_is in Hf. rewrite Hd in Hf. exact Hf.
Qed.

(* the per-construct statement in the frame model: for every fuel, every scope chain whose top frame is an
   activation of the scope the query is compiled in, every code position, stack, pending forks, offset and store *)
Corollary C01vm_functions_segment_correct : forall nt code tco fu q, c01vm2.Lemmas.Impl nt code tco fu q /\ c01vm2.Lemmas.ImplT nt code tco fu q.
Proof. exact c01vm2.Correct.impl_all_fu. Qed.

(* non-vacuity: generators in both operands, a nested operand that needs a frame with a variable, a recursive
   function capturing a variable that is rebound before the call:
   ((1,2) + (10,20)) , ((. + 1) + 100) , (3 as $x | def f: if . < $x then (. + 1 | f) else . end; 9 as $x | f)
   on 1  gives 11 12 21 22 102 3 *)
Example C01vm_functions_nonvacuous :
  let num z := c01vm2.Syntax.QConst (c01vm2.Syntax.VNum z) in
  let add := c01vm2.Syntax.QBinop c01vm2.Syntax.OAdd in
  let q := c01vm2.Syntax.QComma
             (add (c01vm2.Syntax.QComma (num 1%Z) (num 2%Z)) (c01vm2.Syntax.QComma (num 10%Z) (num 20%Z)))
             (c01vm2.Syntax.QComma
                (add (add c01vm2.Syntax.QId (num 1%Z)) (num 100%Z))
                (c01vm2.Syntax.QBind (num 3%Z) 0%N
                   (c01vm2.Syntax.QDef 7%N []
                      (c01vm2.Syntax.QIf (c01vm2.Syntax.QBinop c01vm2.Syntax.OLt c01vm2.Syntax.QId (c01vm2.Syntax.QVar 0%N))
                         (c01vm2.Syntax.QPipe (add c01vm2.Syntax.QId (num 1%Z)) (c01vm2.Syntax.QCallF 7%N []))
                         c01vm2.Syntax.QId)
                      (c01vm2.Syntax.QBind (num 9%Z) 0%N (c01vm2.Syntax.QCallF 7%N []))))) in
  let v := c01vm2.Syntax.VNum 1 in
  option_map (fun c => fst (c01vm2.VM.run c01vm2.Natives.cnat c 2000 (c01vm2.VM.init c v))) (c01vm2.Compile.compile_raw q)
    = Some (map c01vm2.Syntax.VNum [11; 12; 21; 22; 102; 3])%Z /\
  c01vm2.Den.den c01vm2.Natives.cnat 10 q [] v = (map c01vm2.Syntax.VNum [11; 12; 21; 22; 102; 3]%Z, None).
Proof. vm_compute. split; reflexivity. Qed.

(* filter parameters are closures over the environment of the call:
   5 as $x | def f(g): (9 as $x | g) , (g | g); f($x + .)   on 1  gives 6 (not 10) and (6 | 5 + .) = 11 *)
Example C01vm_params_nonvacuous :
  let num z := c01vm2.Syntax.QConst (c01vm2.Syntax.VNum z) in
  let add := c01vm2.Syntax.QBinop c01vm2.Syntax.OAdd in
  let g := c01vm2.Syntax.QCallF 20%N [] in
  let q := c01vm2.Syntax.QBind (num 5%Z) 0%N
             (c01vm2.Syntax.QDef 7%N [c01vm2.Syntax.PF 20%N]
                (c01vm2.Syntax.QComma (c01vm2.Syntax.QBind (num 9%Z) 0%N g) (c01vm2.Syntax.QPipe g g))
                (c01vm2.Syntax.QCallF 7%N [add (c01vm2.Syntax.QVar 0%N) c01vm2.Syntax.QId])) in
  let v := c01vm2.Syntax.VNum 1 in
  option_map (fun c => fst (c01vm2.VM.run c01vm2.Natives.cnat c 2000 (c01vm2.VM.init c v))) (c01vm2.Compile.compile_raw q)
    = Some (map c01vm2.Syntax.VNum [6; 11])%Z /\
  c01vm2.Den.den c01vm2.Natives.cnat 10 q [] v = (map c01vm2.Syntax.VNum [6; 11]%Z, None).
Proof. vm_compute. split; reflexivity. Qed.

(* value parameters: the closures of the `$` parameters are evaluated by the prelude, the first one in the outermost loop,
   in the environment of the call ($x is 5 there, 9 in the body):
   5 as $x | def f($a; g; $b): 9 as $x | [$a, $b, g]; f(1,2; $x + .; 10,$x)   on 1  gives
   [1,10,6] [1,5,6] [2,10,6] [2,5,6] *)
Example C01vm_value_params_nonvacuous :
  let num z := c01vm2.Syntax.QConst (c01vm2.Syntax.VNum z) in
  let var x := c01vm2.Syntax.QVar x in
  let q := c01vm2.Syntax.QBind (num 5%Z) 0%N
             (c01vm2.Syntax.QDef 7%N [c01vm2.Syntax.PV 1%N; c01vm2.Syntax.PF 20%N; c01vm2.Syntax.PV 2%N]
                (c01vm2.Syntax.QBind (num 9%Z) 0%N
                   (c01vm2.Syntax.QArray (c01vm2.Syntax.QComma (c01vm2.Syntax.QComma (var 1%N) (var 2%N)) (c01vm2.Syntax.QCallF 20%N []))))
                (c01vm2.Syntax.QCallF 7%N [c01vm2.Syntax.QComma (num 1%Z) (num 2%Z);
                                           c01vm2.Syntax.QBinop c01vm2.Syntax.OAdd (var 0%N) c01vm2.Syntax.QId;
                                           c01vm2.Syntax.QComma (num 10%Z) (var 0%N)])) in
  let v := c01vm2.Syntax.VNum 1 in
  let out := map (fun l => c01vm2.Syntax.VArr (map c01vm2.Syntax.VNum l)) [[1; 10; 6]; [1; 5; 6]; [2; 10; 6]; [2; 5; 6]]%Z in
  option_map (fun c => fst (c01vm2.VM.run c01vm2.Natives.cnat c 2000 (c01vm2.VM.init c v))) (c01vm2.Compile.compile_raw q)
    = Some out /\
  c01vm2.Den.den c01vm2.Natives.cnat 10 q [] v = (out, None).
Proof. vm_compute. split; reflexivity. Qed.

(* ---- optimizeTailRec (opcall pc ; opret  ==>  opcallrec pc | jump) ----
   Proved: the frame-level soundness of the rewrite at one call site.  F1 = Frame idf oF rpc stampF scR outerF is an
   activation of the function whose opscope is at pe (body q, code cb, nvc variables, no parameter); cx describes
   F1's caller (scope chain scR, exit after the call that created F1, may write everything from F1's offset on).
   At a call of that function inside F1 whose continuation is, through silent steps, F1's opret, the original
   `opcall pe` and the rewritten `opcallrec pe` both deliver to F1's caller the generator of the body's denotation:
   same outputs in order, same ending, same promises about the store (Gen.G2).  With opcallrec the frame F1 is popped
   before the new one is pushed and, when no fork created since F1's push is pending, the new frame reuses F1's slots
   (Correct.G_enter_rec): the frame stack does not grow along tail calls. *)
Theorem C01vm_tailcall_local_sound :
  forall (nt : c01vm2.Code.natives) (code : list c01vm2.Code.instr) (tco : bool) (m : nat) (q : c01vm2.Syntax.query),
  c01vm2.Lemmas.Impl nt code tco m q ->
  forall scR : list c01vm2.VM.frame, scR <> nil ->
  forall (ce : c01vm2.Compile.cenv) (pe idf : nat) (cb : list c01vm2.Code.instr) (nvc s0 s1 : nat),
  c01vm2.Compile.ce_lt ce idf = true ->
  c01vm2.Mach.at_ code pe (c01vm2.Code.Iscope idf nvc 0) ->
  c01vm2.Compile.compg tco q ce None idf (S pe) 0 s0 = Some (cb, nvc, s1) ->
  c01vm2.Lemmas.code_at code (S pe) (cb ++ c01vm2.Code.Iret :: nil) ->
  forall (cx : c01vm2.Gen.gctx) (rho : c01vm2.Den.venv) (v : c01vm2.Syntax.jv)
         (P : list c01vm2.VM.sv -> nat -> c01vm2.VM.gx -> Prop)
         (vs : list c01vm2.VM.sv) (n o : nat) (g : c01vm2.VM.gx) (rpc oF stampF : nat) (outerF : list c01vm2.VM.frame) (pc : nat),
  let sc1 := (c01vm2.VM.Frame idf oF rpc stampF scR outerF :: scR)%list in
  c01vm2.Gen.g_sc cx = scR -> c01vm2.Gen.g_pc cx = S rpc -> c01vm2.Gen.g_off cx <= oF -> oF + nvc <= o ->
  (forall vs' fin e, c01vm2.Gen.encR sc1 ce vs' fin e -> c01vm2.Gen.encR scR (c01vm2.Gen.g_ce cx) vs' fin e) ->
  (forall i : nat, oF <= i -> c01vm2.Gen.g_own cx i) ->
  (forall i : nat, c01vm2.Gen.kept sc1 ce i -> c01vm2.Gen.g_keep cx i) ->
  (forall i : nat, c01vm2.Gen.g_keep0 cx i -> c01vm2.Gen.g_keep cx i) ->
  c01vm2.Gen.g_koff cx <= oF ->
  c01vm2.Lemmas.envOK code tco sc1 ce rho vs (c01vm2.Gen.g_n0 cx) oF ->
  c01vm2.Gen.g_n0 cx <= n -> o <= length vs -> c01vm2.Gen.g_ctr cx <= stampF -> stampF < c01vm2.VM.ctr g ->
  (forall a b m0 x m' x', P a m0 x -> c01vm2.Gen.chg (fun i : nat => oF <= i) a b -> c01vm2.Gen.cle m0 x m' x' -> P b m' x') ->
  (forall a b m0 x m' x', P a m0 x -> c01vm2.Gen.keepK0 cx a b -> c01vm2.Gen.cle m0 x m' x' -> P b m' x') ->
  P vs n g ->
  forall lb' : nat, lb' <= S (c01vm2.Lemmas.lbf tco m) ->
  let r := c01vm2.Den.den1 nt (c01vm2.Den.call_of nt m) q rho v in
  let s := c01vm2.Mach.N sc1 pc (c01vm2.VM.SV v :: c01vm2.Gen.g_st cx) (c01vm2.Gen.g_base cx) vs n o g in
  let T := c01vm2.Gen.Tend nt code lb' cx (snd r) P in
  (c01vm2.Mach.at_ code pc (c01vm2.Code.Icallrec pe) -> c01vm2.Gen.G2 nt code cx (fst r) T T s) /\
  (c01vm2.Mach.at_ code pc (c01vm2.Code.Icallf pe) ->
   (forall w f vs0 n0 o0 g0,
      c01vm2.Mach.steps nt code (c01vm2.Mach.N sc1 (S pc) (c01vm2.VM.SV w :: c01vm2.Gen.g_st cx) f vs0 n0 o0 g0)
        (c01vm2.Mach.N sc1 (S pe + length cb) (c01vm2.VM.SV w :: c01vm2.Gen.g_st cx) f vs0 n0 o0 g0)) ->
   c01vm2.Gen.G2 nt code cx (fst r) T T s).
Proof. exact c01vm2.Correct.tailcall_local_sound. Qed.
Print Assumptions C01vm_tailcall_local_sound.

(* ---- optimizeTailRec, whole programs ----
   Compile.compg tco is the compiler with the pass built in (tco = true) or left out (tco = false): a call of the
   enclosing parameterless function in tail position (through pipe, comma, if, `as` bodies and `def ...; rest`) is
   emitted as opcallrec, or as a jump when the function's scope has no variable.  The tail positions that
   optimizeTailRec also recognises but the theorem does not cover (right side of //, a catch handler, the extract part of
   foreach, a label body) make compg fail (outside the fragment).  Run.v checks on every sampled program that
   compile_raw_g true q = tailrec (compile_raw_g false q), Compile.tailrec being the pass as the Go code does it (a scan
   over the emitted code with the stack of open opscope's), and the instruction-list comparison ties it to compiler.go.
   (1) the code compiled with the pass implements the denotation; (2) hence the pass is sound: with and without it the
   observations coincide whenever the denotation terminates.  The converse direction and never-stuck above are for
   tco = false (a tail call turned into a jump pushes no frame, so the push counter gives no lower bound on the steps). *)
Theorem C01vm_tailrec_compile_correct :
  forall (nt : c01vm2.Code.natives) (tco : bool) (q : c01vm2.Syntax.query) (code : list c01vm2.Code.instr),
  c01vm2.Compile.compile_raw_g tco q = Some code ->
  forall (fu : nat) (v : c01vm2.Syntax.jv), exists fuel : nat,
    c01vm2.Correct.run_is (c01vm2.Den.den nt fu q [] v) (c01vm2.VM.run nt code fuel (c01vm2.VM.init code v)).
Proof. exact c01vm2.Correct.compile_raw_g_correct. Qed.
Print Assumptions C01vm_tailrec_compile_correct.

Theorem C01vm_tailrec_sound :
  forall (nt : c01vm2.Code.natives) (q : c01vm2.Syntax.query) (c c' : list c01vm2.Code.instr),
  c01vm2.Compile.compile_raw_g false q = Some c -> c01vm2.Compile.compile_raw_g true q = Some c' ->
  forall (fu : nat) (v : c01vm2.Syntax.jv), snd (c01vm2.Den.den nt fu q [] v) <> Some c01vm2.Den.XFuel ->
  exists f f' o, c01vm2.VM.run nt c f (c01vm2.VM.init c v) = o /\ c01vm2.VM.run nt c' f' (c01vm2.VM.init c' v) = o /\
                 c01vm2.Correct.run_is (c01vm2.Den.den nt fu q [] v) o.
Proof. exact c01vm2.Correct.tailrec_sound. Qed.
Print Assumptions C01vm_tailrec_sound.

(* non-vacuity: a counting loop whose recursive call is in tail position; the function has a variable (the operand
   slot of `.< 3`), so the call becomes opcallrec: def f: if . < 3 then (. + 1 | f) else . end; f   on 0 gives 3;
   the code contains opcallrec and the machine runs it to the same result *)
Example C01vm_tailrec_nonvacuous :
  let num z := c01vm2.Syntax.QConst (c01vm2.Syntax.VNum z) in
  let q := c01vm2.Syntax.QDef 7%N []
             (c01vm2.Syntax.QIf (c01vm2.Syntax.QBinop c01vm2.Syntax.OLt c01vm2.Syntax.QId (num 3%Z))
                (c01vm2.Syntax.QPipe (c01vm2.Syntax.QBinop c01vm2.Syntax.OAdd c01vm2.Syntax.QId (num 1%Z)) (c01vm2.Syntax.QCallF 7%N []))
                c01vm2.Syntax.QId)
             (c01vm2.Syntax.QCallF 7%N []) in
  let v := c01vm2.Syntax.VNum 0 in
  option_map (fun c => (existsb (fun i => match i with c01vm2.Code.Icallrec _ => true | _ => false end) c,
                        fst (c01vm2.VM.run c01vm2.Natives.cnat c 2000 (c01vm2.VM.init c v))))
             (c01vm2.Compile.compile_raw_g true q)
    = Some (true, [c01vm2.Syntax.VNum 3]) /\
  c01vm2.Compile.compile_raw_g true q = option_map c01vm2.Compile.tailrec (c01vm2.Compile.compile_raw_g false q).
Proof. vm_compute. split; reflexivity. Qed.

(* ---- optimizeCodeOps on the frame machine (also C04's peephole_sound, now for the full instruction set of the
   development: closures, calls, opcallrec) ----
   For ANY code c (1) in which no opjumpifnot targets the next instruction, (2) whose last instruction is opret and
   (3) in which the targets of oppushpc / opcall pc / opcallrec are opscope instructions -- the Go pass does not put
   those into its `targets`, the compiler only ever emits them for opscope, and an opscope is never the second half of
   a fused pair -- the rewritten code has the same observation whenever c neither gets stuck nor runs out of fuel. *)
Theorem C01vm_functions_peephole_sound : forall (nt : c01vm2.Code.natives) (c : list c01vm2.Code.instr),
  (forall p j, nth_error c p = Some (c01vm2.Code.Ijumpifnot j) -> j <> S p) ->
  nth_error c (length c - 1) = Some c01vm2.Code.Iret ->
  (forall pc p, nth_error c pc = Some (c01vm2.Code.Ipushpc p) \/ nth_error c pc = Some (c01vm2.Code.Icallf p) \/
                nth_error c pc = Some (c01vm2.Code.Icallrec p) ->
                exists id nv na, nth_error c p = Some (c01vm2.Code.Iscope id nv na)) ->
  forall v f o, c01vm2.VM.run nt c f (c01vm2.VM.init c v) = o -> snd o <> c01vm2.VM.OutOfFuel -> snd o <> c01vm2.VM.IsStuck ->
  exists f', c01vm2.VM.run nt (c01vm2.Compile.peephole c) f' (c01vm2.VM.init (c01vm2.Compile.peephole c) v) = o.
Proof. exact c01vm2.Peep.peephole_fold_sound. Qed.
Print Assumptions C01vm_functions_peephole_sound.

(* the FINAL code: after optimizeTailRec (tco = true) and optimizeCodeOps.  The side conditions of the peephole
   theorem are proved for everything the compiler emits (Peep.comp_jin, Peep.comp_scr, Peep.side_okb_raw). *)
Theorem C01vm_final_compile_correct :
  forall (nt : c01vm2.Code.natives) (tco : bool) (q : c01vm2.Syntax.query) (code : list c01vm2.Code.instr),
  option_map c01vm2.Compile.peephole (c01vm2.Compile.compile_raw_g tco q) = Some code ->
  forall (fu : nat) (v : c01vm2.Syntax.jv), exists fuel : nat,
    c01vm2.Correct.run_is (c01vm2.Den.den nt fu q [] v) (c01vm2.VM.run nt code fuel (c01vm2.VM.init code v)).
Proof. exact c01vm2.Peep.compile_g_correct. Qed.
Print Assumptions C01vm_final_compile_correct.

(* the pipeline as compiler.go runs it: compile q = peephole (tailrec (compile_raw q)), tailrec being the transcription
   of the Go scan.  Run.v checks on every sampled program that it coincides with compile_tco q (= the theorem's code
   for tco = true), and the instruction-list comparison that it is the implementation's code. *)
Corollary C01vm_final_pipeline :
  forall (nt : c01vm2.Code.natives) (q : c01vm2.Syntax.query) (code : list c01vm2.Code.instr),
  c01vm2.Compile.compile q = Some code -> c01vm2.Compile.compile q = c01vm2.Compile.compile_tco q ->
  forall (fu : nat) (v : c01vm2.Syntax.jv), exists fuel : nat,
    c01vm2.Correct.run_is (c01vm2.Den.den nt fu q [] v) (c01vm2.VM.run nt code fuel (c01vm2.VM.init code v)).
Proof.
  intros nt q code Hc He. rewrite He in Hc. exact (c01vm2.Peep.compile_g_correct nt true q code Hc).
Qed.

(* the compiler's output satisfies the side conditions of the peephole theorem *)
Theorem C01vm_side_conditions : forall tco q raw, c01vm2.Compile.compile_raw_g tco q = Some raw -> c01vm2.Compile.side_okb raw = true.
Proof. exact c01vm2.Peep.side_okb_raw. Qed.
Print Assumptions C01vm_side_conditions.

(* ---- non-vacuity for the constructs added to F2: object construction (generators in a key and in a value, the
   shorthand forms, a key that is not a string caught by try), destructuring `as` (nested array / object pattern, `$x: p`;
   a failing pattern), computed index and slice.  Each on the FINAL code (Compile.compile) and on the denotation. ----
     5 as $x | {("a","b"): (1,2), c: ., $x}       on 7       -> {"a":1,"c":7,"x":5} {"a":2,..} {"b":1,..} {"b":2,..}
     try {("a",1): .} catch 0                     on 7       -> {"a":7}, 0
     . as [$a, {b: $c, $d: [$e]}] | [$a,$c,$d,$e] on [1,{"b":2,"d":[3]}] -> [1,2,[3],3];   on 5: an error
     [.[(0,1)], .[1:length]]                      on [10,20,30] -> [10,20,[20,30]] *)
Example C01vm_constructs_nonvacuous :
  let num z := c01vm2.Syntax.QConst (c01vm2.Syntax.VNum z) in
  let str c := c01vm2.Syntax.QConst (c01vm2.Syntax.VStr [c]) in
  let obs q v := (option_map (fun c => c01vm2.VM.run c01vm2.Natives.cnat c 5000 (c01vm2.VM.init c v)) (c01vm2.Compile.compile q),
                  c01vm2.Den.den c01vm2.Natives.cnat 10 q [] v) in
  let q1 := c01vm2.Syntax.QBind (num 5%Z) 0%N
              (c01vm2.Syntax.QObject [(inr (c01vm2.Syntax.QComma (str 97%N) (str 98%N)), c01vm2.Syntax.QComma (num 1%Z) (num 2%Z));
                                      (inl [99%N], c01vm2.Syntax.QId); (inl [120%N], c01vm2.Syntax.QVar 0%N)]) in
  let o1 k z := c01vm2.Syntax.VObj [([k], c01vm2.Syntax.VNum z); ([99%N], c01vm2.Syntax.VNum 7); ([120%N], c01vm2.Syntax.VNum 5)] in
  let q1e := c01vm2.Syntax.QTry (c01vm2.Syntax.QObject [(inr (c01vm2.Syntax.QComma (str 97%N) (num 1%Z)), c01vm2.Syntax.QId)]) (Some (num 0%Z)) in
  let pat := c01vm2.Syntax.PArr (c01vm2.Syntax.ACons (c01vm2.Syntax.PVar 1%N) (c01vm2.Syntax.ACons
               (c01vm2.Syntax.PObj (c01vm2.Syntax.OKey [98%N] (c01vm2.Syntax.PVar 2%N)
                  (c01vm2.Syntax.OKeyVar [100%N] 3%N (c01vm2.Syntax.PArr (c01vm2.Syntax.ACons (c01vm2.Syntax.PVar 4%N) c01vm2.Syntax.ANil)) c01vm2.Syntax.ONil)))
               c01vm2.Syntax.ANil)) in
  let var x := c01vm2.Syntax.QVar x in
  let q2 := c01vm2.Syntax.QBindP c01vm2.Syntax.QId pat
              (c01vm2.Syntax.QArray (c01vm2.Syntax.QComma (c01vm2.Syntax.QComma (c01vm2.Syntax.QComma (var 1%N) (var 2%N)) (var 3%N)) (var 4%N))) in
  let v2 := c01vm2.Syntax.VArr [c01vm2.Syntax.VNum 1; c01vm2.Syntax.VObj [([98%N], c01vm2.Syntax.VNum 2); ([100%N], c01vm2.Syntax.VArr [c01vm2.Syntax.VNum 3])]] in
  let q3 := c01vm2.Syntax.QArray (c01vm2.Syntax.QComma (c01vm2.Syntax.QIndexQ c01vm2.Syntax.QId (c01vm2.Syntax.QComma (num 0%Z) (num 1%Z)))
                                    (c01vm2.Syntax.QSlice c01vm2.Syntax.QId (num 1%Z) (c01vm2.Syntax.QCall0 c01vm2.Syntax.F0Length))) in
  let v3 := c01vm2.Syntax.VArr [c01vm2.Syntax.VNum 10; c01vm2.Syntax.VNum 20; c01vm2.Syntax.VNum 30] in
  let r1 := [o1 97%N 1%Z; o1 97%N 2%Z; o1 98%N 1%Z; o1 98%N 2%Z] in
  let r1e := [c01vm2.Syntax.VObj [([97%N], c01vm2.Syntax.VNum 7)]; c01vm2.Syntax.VNum 0] in
  let r2 := [c01vm2.Syntax.VArr [c01vm2.Syntax.VNum 1; c01vm2.Syntax.VNum 2; c01vm2.Syntax.VArr [c01vm2.Syntax.VNum 3]; c01vm2.Syntax.VNum 3]] in
  let r3 := [c01vm2.Syntax.VArr [c01vm2.Syntax.VNum 10; c01vm2.Syntax.VNum 20; c01vm2.Syntax.VArr [c01vm2.Syntax.VNum 20; c01vm2.Syntax.VNum 30]]] in
  obs q1 (c01vm2.Syntax.VNum 7) = (Some (r1, c01vm2.VM.End), (r1, None)) /\
  obs q1e (c01vm2.Syntax.VNum 7) = (Some (r1e, c01vm2.VM.End), (r1e, None)) /\
  obs q2 v2 = (Some (r2, c01vm2.VM.End), (r2, None)) /\
  obs q2 (c01vm2.Syntax.VNum 5) = (Some ([], c01vm2.VM.Error (c01vm2.VM.VE (c01vm2.VM.EM []))),
                                   ([], Some (c01vm2.Den.XErr (c01vm2.Syntax.EMsg [])))) /\
  obs q3 v3 = (Some (r3, c01vm2.VM.End), (r3, None)).
Proof. vm_compute. repeat split; reflexivity. Qed.

(* destructuring patterns in reduce / foreach (QReduce / QForeach carry a pattern; `$x` is PVar x), on the FINAL code
   and on den:
     reduce .[] as [$a,$b] (0; . + $a + $b)           on [[1,2],[3,4]] -> 10;   on [[1,2],5]: the pattern's error, no output
     foreach .[] as {a:$v} (0; . + $v; [$v, .])       on [{"a":1},{"a":2}] -> [1,1], [2,3]
     try (the same foreach) catch 9                   on [{"a":1},2,{"a":2}] -> [1,1], 9   (the error is raised inside the fold) *)
Example C01vm_fold_patterns_nonvacuous :
  let num z := c01vm2.Syntax.QConst (c01vm2.Syntax.VNum z) in
  let var x := c01vm2.Syntax.QVar x in
  let obs q v := (option_map (fun c => c01vm2.VM.run c01vm2.Natives.cnat c 5000 (c01vm2.VM.init c v)) (c01vm2.Compile.compile q),
                  c01vm2.Den.den c01vm2.Natives.cnat 10 q [] v) in
  let add a b := c01vm2.Syntax.QBinop c01vm2.Syntax.OAdd a b in
  let it := c01vm2.Syntax.QIter c01vm2.Syntax.QId in
  let pab := c01vm2.Syntax.PArr (c01vm2.Syntax.ACons (c01vm2.Syntax.PVar 1%N) (c01vm2.Syntax.ACons (c01vm2.Syntax.PVar 2%N) c01vm2.Syntax.ANil)) in
  let pv := c01vm2.Syntax.PObj (c01vm2.Syntax.OKey [97%N] (c01vm2.Syntax.PVar 1%N) c01vm2.Syntax.ONil) in
  let q1 := c01vm2.Syntax.QReduce it pab (num 0%Z) (add (add c01vm2.Syntax.QId (var 1%N)) (var 2%N)) in
  let q2 := c01vm2.Syntax.QForeach it pv (num 0%Z) (add c01vm2.Syntax.QId (var 1%N))
              (Some (c01vm2.Syntax.QArray (c01vm2.Syntax.QComma (var 1%N) c01vm2.Syntax.QId))) in
  let n z := c01vm2.Syntax.VNum z in
  let arr l := c01vm2.Syntax.VArr l in
  let oa z := c01vm2.Syntax.VObj [([97%N], n z)] in
  let emsg := (c01vm2.VM.Error (c01vm2.VM.VE (c01vm2.VM.EM [])), Some (c01vm2.Den.XErr (c01vm2.Syntax.EMsg []))) in
  obs q1 (arr [arr [n 1; n 2]; arr [n 3; n 4]])%Z = (Some ([n 10%Z], c01vm2.VM.End), ([n 10%Z], None)) /\
  obs q1 (arr [arr [n 1; n 2]; n 5])%Z = (Some ([], fst emsg), ([], snd emsg)) /\
  obs q2 (arr [oa 1; oa 2])%Z = (Some ([arr [n 1; n 1]; arr [n 2; n 3]]%Z, c01vm2.VM.End), ([arr [n 1; n 1]; arr [n 2; n 3]]%Z, None)) /\
  obs (c01vm2.Syntax.QTry q2 (Some (num 9%Z))) (arr [oa 1; n 2; oa 2])%Z =
    (Some ([arr [n 1; n 1]; n 9]%Z, c01vm2.VM.End), ([arr [n 1; n 1]; n 9]%Z, None)).
Proof. vm_compute. repeat split; reflexivity. Qed.

(* a native with one argument (QCall1: error(a)), on the FINAL code and on den:
     try error(. + 1) catch .     on 5 -> 6          (the payload is the output of the argument)
     error("x")                   on 5: the uncaught ValueError "x", no output
     [error((1,2))?]              on 5 -> []         (the first output of the argument raises) *)
Example C01vm_call1_nonvacuous :
  let num z := c01vm2.Syntax.QConst (c01vm2.Syntax.VNum z) in
  let obs q v := (option_map (fun c => c01vm2.VM.run c01vm2.Natives.cnat c 5000 (c01vm2.VM.init c v)) (c01vm2.Compile.compile q),
                  c01vm2.Den.den c01vm2.Natives.cnat 10 q [] v) in
  let err a := c01vm2.Syntax.QCall1 c01vm2.Syntax.F1Error a in
  let q1 := c01vm2.Syntax.QTry (err (c01vm2.Syntax.QBinop c01vm2.Syntax.OAdd c01vm2.Syntax.QId (num 1%Z))) (Some c01vm2.Syntax.QId) in
  let q2 := err (c01vm2.Syntax.QConst (c01vm2.Syntax.VStr [120%N])) in
  let q3 := c01vm2.Syntax.QArray (c01vm2.Syntax.QTry (err (c01vm2.Syntax.QComma (num 1%Z) (num 2%Z))) None) in
  let n z := c01vm2.Syntax.VNum z in
  obs q1 (n 5%Z) = (Some ([n 6%Z], c01vm2.VM.End), ([n 6%Z], None)) /\
  obs q2 (n 5%Z) = (Some ([], c01vm2.VM.Error (c01vm2.VM.VE (c01vm2.VM.EV (c01vm2.Syntax.VStr [120%N])))),
                    ([], Some (c01vm2.Den.XErr (c01vm2.Syntax.EVal (c01vm2.Syntax.VStr [120%N]))))) /\
  obs q3 (n 5%Z) = (Some ([c01vm2.Syntax.VArr []], c01vm2.VM.End), ([c01vm2.Syntax.VArr []], None)).
Proof. vm_compute. repeat split; reflexivity. Qed.
