(* C01vm — the VM-level theorem of C01 for fragment F of jq (contributes to C01; see docs/C01vm.md).

   Fragment F (coq/c01vm/Syntax.v): identity, literals (incl. constant arrays/objects), pipe, comma,
   empty, .[] , constant index, if/elif/else, //, try/catch and ?, array construction, reduce, foreach,
   label/break, `as $x` bindings and variables, nullary natives (error, length), binary operators whose
   operands are the forms compileCallInternal inlines (identity, simple constants, .[k], .[], empty,
   nullary natives).  The natives (index, iteration, operators) are arbitrary total functions: the
   theorem holds for every instance.

   Compile.v transcribes compiler.go for F (code layout, back-patched targets, the emission-time
   rewrites of compileIf / compileBind / compileArray / compileCallInternal); VM.v transcribes
   execute.go's Next loop for the opcodes used; Den.v is the denotational generator semantics.
   The correspondence check ties Compile.v to compiler.go by comparing instruction lists on every
   sampled program, and VM.v/Den.v to the implementation by comparing outputs. *)
From Coq Require Import List NArith ZArith.
From Verif Require Import c01vm.Syntax c01vm.Code c01vm.VM c01vm.Den c01vm.Compile c01vm.Natives c01vm.Lemmas c01vm.Correct c01vm.Peep.
Import ListNotations.

(* For EVERY program q of F that compiles (all variables and labels bound), EVERY input v and EVERY
   instance of the natives there is a fuel with which the VM, started by env.execute on the code finally
   emitted for q (opscope, the code of q, opret, after the peephole pass optimizeCodeOps), produces exactly
   the outputs of the denotation, in order, followed by the same ending (end of outputs / the same first
   uncaught error) -- in particular it is never Stuck (no Go panic) and a closed program never ends with an
   uncaught break.  [run_is r o]: o = (outputs of r, End | Error e) according to the ending of r. *)
Theorem C01vm_compile_correct : forall (nt : natives) (q : query) (code : list instr),
  compile q = Some code ->
  forall v : jv, exists fuel : nat, run_is (den nt q [] v) (run nt code fuel (init v)).
Proof. exact compile_correct. Qed.
Print Assumptions C01vm_compile_correct.

(* peephole_sound (also C04): for ANY code c whose last instruction is opret and in which no opjumpifnot
   targets the next instruction (the two facts hold for every code emitted by comp: Peep.comp_jin), running
   the rewritten code gives the same observation as running c, whenever the latter neither gets stuck nor runs
   out of fuel.  The side condition the optimiser checks itself (the second instruction of a fused pair is not
   a jump/fork target) is part of the pass. *)
Theorem C01vm_peephole_sound : forall (nt : natives) (c : list instr),
  (forall p j, nth_error c p = Some (Ijumpifnot j) -> j <> S p) ->
  nth_error c (length c - 1) = Some Iret ->
  forall v f o, run nt c f (init v) = o -> snd o <> OutOfFuel -> snd o <> IsStuck ->
  exists f', run nt (peephole c) f' (init v) = o.
Proof. exact peephole_fold_sound. Qed.
Print Assumptions C01vm_peephole_sound.

(* the same for the code before the peephole pass, and the per-construct statement behind both: for every
   query in every context (any code position, any stack below the input, any pending forks, any variable
   store satisfying the environment) the code segment implements the denotation (Lemmas.Impl) *)
Corollary C01vm_compile_raw_correct : forall (nt : natives) (q : query) (code : list instr),
  compile_raw q = Some code ->
  forall v : jv, exists fuel : nat, run_is (den nt q [] v) (run nt code fuel (init v)).
Proof. exact compile_raw_correct. Qed.
Corollary C01vm_segment_correct : forall nt code rpc q, Impl nt code rpc q.
Proof. exact impl_all. Qed.

(* non-vacuity: a program of F with generators, a variable, a caught and an uncaught error:
   [.[] as $x | try ($x | error) catch (., 1)] , error   on [3,4]  gives  [3,1,4,1] then error([3,4]) *)
Example C01vm_nonvacuous :
  let q := QComma (QArray (QBind (QIter QId) 0%N
                     (QTry (QPipe (QVar 0%N) (QCall0 F0Error)) (Some (QComma QId (QConst (VNum 1)))))))
                  (QCall0 F0Error) in
  let v := VArr [VNum 3; VNum 4] in
  option_map (fun c => run cnat c 300 (init v)) (compile q)
    = Some ([VArr [VNum 3; VNum 1; VNum 4; VNum 1]], Error (VE (EV v))) /\
  den cnat q [] v = ([VArr [VNum 3; VNum 1; VNum 4; VNum 1]], Some (XErr (EVal v))).
Proof. vm_compute. split; reflexivity. Qed.
