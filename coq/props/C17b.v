(* C17b — integration of C17 (cli/error.go) with the lexer model of C09 (lexer.go), query parse errors.
   Statements only.  The lexer facts are C09's theorem lex_offset (coq/c09/LexProofs.v, stated in props/C09.v as
   C17_lex_offset), used read-only; getLineByOffset's theorem is C17_line_by_offset_correct / _past_end. *)
From Coq Require Import ZArith List NArith String Lia.
From Verif Require Import common.Sexp c09.GrammarTypes c09.Lexer c09.LexProofs c17.ErrPos c17.Spec integ.QueryErrPos.
Import ListNotations.
Open Scope Z_scope.

(* For every source and every Lex call from a consistent lexer state — in particular the call that delivers the
   token the parser rejects, whichever kind it is — the ParseError (Offset, Token) that lexer.Error builds
   identifies the bytes src[Offset-len(Token) : Offset], and the command's report
   getLineByOffset(src, Offset - len(Token) + 1) is correct (pos_ok: line number, excerpt of that line, caret
   column = display width of the excerpt before it) for the FIRST BYTE of that token; with an empty token it is
   correct for the byte at Offset, or for the end of the source (pos_ok_eof: unexpected EOF, unterminated
   string).  Multi-line queries, -f files and <arg> alike: src is the text handed to gojq.Parse. *)
Theorem C17b_query_error_position : forall swidth (src : list N) (l : lexer), vp src (lp l) ->
  exists k l', Lex l = Some (k, l') /\
    let offset := fst (lex_error l') in
    let token := snd (lex_error l') in
    let start := (offset - List.length token)%nat in
    (offset <= List.length src)%nat /\ (List.length token <= offset)%nat /\
    firstn (List.length token) (skipn start src) = token /\
    (token <> [] -> pos_ok swidth src start (query_report swidth src offset token)) /\
    (token = [] -> (offset < List.length src)%nat -> pos_ok swidth src offset (query_report swidth src offset token)) /\
    (token = [] -> offset = List.length src -> pos_ok_eof swidth src (query_report swidth src offset token)).
Proof. exact query_error_position. Qed.
Print Assumptions C17b_query_error_position.

(* queryParseError.Error() is exactly that report put through the renderer ... *)
Theorem C17b_query_header : forall swidth fname src offset token,
  query_error_header swidth fname src (Some (Z.of_nat offset, zlen token)) =
  let '(linestr, line, column) := query_report swidth src offset token in
  render (codes "invalid query: ") fname src
         (negb (list_N_eqb fname (codes "<arg>")) || containsNewline src) src linestr line column.
Proof. exact query_header_is_report. Qed.
Print Assumptions C17b_query_header.

(* ... and in the rendering with a line number the caret stands [column] cells right of where the quoted line
   starts (formatLineInfo; the rendering without line number pads 4 + column by definition) *)
Theorem C17b_caret_under_column : forall (linestr : list N) (line column : Z), 0 <= column ->
  let prefix := codes "    " ++ print_Z line ++ codes " | " in
  formatLineInfo linestr line column =
  prefix ++ linestr ++ [10%N] ++ spaces (zlen prefix + column) ++ [94%N].
Proof. exact caret_under_column. Qed.
Print Assumptions C17b_caret_under_column.

(* non-vacuity: the initial lexer state of any source is consistent, e.g. for `1 //= ` the rejected `//=` *)
Example C17b_nonvacuous :
  vp (codes ". += 1 //= 2") (lp (newLexer (codes ". += 1 //= 2"))) /\
  query_report (fun s => zlen s) (codes ". += 1 //= 2") 10 (codes "//=") = (codes ". += 1 //= 2", 1, 7).
Proof. split; [split; [cbn; lia|reflexivity]|vm_compute; reflexivity]. Qed.
