(* C05 — Runs are isolated: inputs and emitted values are never modified.
   Statements only; every theorem is closed by [exact] of a lemma proved in coq/c05/.

   Model (coq/c05/Heap.v, Natives.v): a heap of backing arrays and maps; values are slices (address,
   offset, length, capacity) / map references; natives are programs over allocate / read / overwrite
   whose interpreter logs every overwritten address ([wr]) and every allocated address ([al]) — each
   native returns result, new heap, write set, allocation set.  The natives are hand models of the Go
   functions named in Natives.v; they are tied to /repo on every run by (a) the native stream of
   checks/c05.py (result value, sharing signature and argument heap after the call, through the public
   API, judged by the extracted model) and (b) the enumeration of every container write site / map
   iteration site of package gojq (C05_sites_reviewed).

   What is proved: the ownership discipline native by native, the frame consequences, the capacity-
   aliasing lemmas for append, the value-level statement for deleteEmpty.  What is not: C05_full
   (the discipline for whole VM runs, i.e. the composition over all opcodes and the update natives
   modelled by C02); determinism of the Go code beyond the reviewed site list (observed by histories). *)
From Coq Require Import List ZArith NArith String Lia.
From Verif Require Import c05.Heap c05.HeapProofs c05.Natives c05.NativeProofs c05.DelProofs c05.AppendProofs
  c05.Sites c05.Theorems gen.GenMapSites.
Import ListNotations.
Local Notation length := List.length.

(* ---- the logs are faithful, for EVERY program of the model ---- *)
(* an old address that is not in the write log still holds the same cell; the allocation log is exactly
   the set of new addresses; both logs only grow *)
Theorem C05_logs_faithful : forall A (p : prog A) s r s', run p s = Some (r, s') -> frame s s'.
Proof. exact run_frame. Qed.
Print Assumptions C05_logs_faithful.

(* value_frame: a call whose writes are fresh cannot change the JSON value of anything that lives in a
   closed region it does not own — input, variable values, code constants, already emitted values *)
Theorem C05_value_frame : forall A (p : prog A), writes_fresh p ->
  forall h owned r s' (R : addr -> Prop), run p (start h owned) = Some (r, s') ->
  closed R h -> (forall a, R a -> a < length h /\ ~ In a owned) ->
  forall n v, vin R v -> abs n (hp s') v = abs n h v.
Proof. exact writes_fresh_value_frame. Qed.
Print Assumptions C05_value_frame.

(* and not even a hidden capacity slot of an old backing array changes *)
Theorem C05_cells_unchanged : forall A (p : prog A), writes_fresh p ->
  forall h owned r s', run p (start h owned) = Some (r, s') ->
  forall x, x < length h -> ~ In x owned -> nth_error (hp s') x = nth_error h x.
Proof. exact writes_fresh_unchanged. Qed.
Print Assumptions C05_cells_unchanged.

(* ---- writes_fresh, native by native (for every growth policy of Go's append) ---- *)
Theorem C05_writes_fresh_array_construction : forall grow xs, writes_fresh (arr_construct grow xs).
Proof. exact wf_array_construct. Qed.
Print Assumptions C05_writes_fresh_array_construction.

Theorem C05_writes_fresh_object_construction : forall kvs, writes_fresh (op_object kvs).
Proof. exact wf_object. Qed.
Print Assumptions C05_writes_fresh_object_construction.

Theorem C05_writes_fresh_op_add : forall l r, writes_fresh (op_add l r).
Proof. exact wf_op_add. Qed.
Print Assumptions C05_writes_fresh_op_add.

Theorem C05_writes_fresh_deep_merge : forall fuel a b, writes_fresh (deep_merge fuel a b).
Proof. exact wf_deep_merge. Qed.
Print Assumptions C05_writes_fresh_deep_merge.

Theorem C05_writes_fresh_add : forall grow v, writes_fresh (func_add grow v).
Proof. exact wf_add. Qed.
Print Assumptions C05_writes_fresh_add.

Theorem C05_writes_fresh_sort : forall v, writes_fresh (func_sort v).
Proof. exact wf_sort. Qed.
Print Assumptions C05_writes_fresh_sort.

Theorem C05_writes_fresh_sort_by : forall v x, writes_fresh (sort_by v x).
Proof. exact wf_sort_by. Qed.
Print Assumptions C05_writes_fresh_sort_by.

Theorem C05_writes_fresh_unique_by : forall grow v x, writes_fresh (unique_by grow v x).
Proof. exact wf_unique_by. Qed.
Print Assumptions C05_writes_fresh_unique_by.

Theorem C05_writes_fresh_group_by : forall grow v x, writes_fresh (group_by grow v x).
Proof. exact wf_group_by. Qed.
Print Assumptions C05_writes_fresh_group_by.

Theorem C05_writes_fresh_min_max_by : forall b v x, writes_fresh (min_max_by b v x).
Proof. exact wf_min_max_by. Qed.
Print Assumptions C05_writes_fresh_min_max_by.

Theorem C05_writes_fresh_reverse : forall v, writes_fresh (func_reverse v).
Proof. exact wf_reverse. Qed.
Print Assumptions C05_writes_fresh_reverse.

Theorem C05_writes_fresh_flatten : forall grow v d, writes_fresh (func_flatten grow v d).
Proof. exact wf_flatten. Qed.
Print Assumptions C05_writes_fresh_flatten.

Theorem C05_writes_fresh_transpose : forall v, writes_fresh (func_transpose v).
Proof. exact wf_transpose. Qed.
Print Assumptions C05_writes_fresh_transpose.

(* slicing neither writes nor allocates; the result is a window of the argument's own backing array *)
Theorem C05_slice_shares : forall v e s st0 r st1, run (func_slice v e s) st0 = Some (r, st1) ->
  st1 = st0 /\ match v, r with
               | VArr a _ _ _, VArr a' _ _ _ => a' = a
               | VNull, VNull => True
               | _, _ => False
               end.
Proof. exact slice_shares. Qed.
Print Assumptions C05_slice_shares.

(* ---- delpaths / deleteEmpty ---- *)
(* The function in the tree (repaired by the fix "delpaths only sweeps containers it has copied": it returns at
   once on a container the allocator does not own) keeps the discipline.  [delete_empty_owned] is regenerated
   from /repo on every run; the proof is [wf_delpaths_tree eq_refl], which only type-checks while the flag
   computes to true — a regression to the sweeping function breaks this obligation. *)
Theorem C05_writes_fresh_delpaths : forall v ps, writes_fresh (delpaths1 delete_empty_owned v ps).
Proof. exact wf_delpaths_current. Qed.
Print Assumptions C05_writes_fresh_delpaths.

(* REGRESSION EXAMPLES — about the function as it was BEFORE the fix (D6), not about the current code.
   (1) it wrote into containers the call did not own: `{"a":1,"b":[1]} | delpaths([["a"]])` wrote the untouched
       sibling array (witness by vm_compute);
   (2) but every such write stored the value that was already there: every pre-existing cell stayed exactly
       as it was (which is why no output ever differed and only the race detector saw it). *)
Example C05_regression_old_deleteEmpty_writes_refuted : ~ (forall v ps, writes_fresh (delpaths1 false v ps)).
Proof. exact wf_delpaths_refuted. Qed.
Example C05_regression_old_deleteEmpty_cells_unchanged : forall v ps h r s',
  clean (below (length h)) h ->
  run (delpaths1 false v ps) (start h []) = Some (r, s') ->
  forall a, a < length h -> nth_error (hp s') a = nth_error h a.
Proof. exact delpaths1_cells_unchanged. Qed.

(* ---- append_no_alias ---- *)
(* an in-place append changes exactly one slot of the backing array, the one just past the accumulator's
   length: every slice window ending at or before that slot is unchanged *)
Theorem C05_append_in_place_window : forall grow a off len cap x s r s',
  len < cap -> run (go_append grow (VArr a off len cap) [x]) s = Some (r, s') ->
  r = VArr a off (len + 1) cap /\
  exists cells, nth_error (hp s) a = Some (CArr cells) /\
    nth_error (hp s') a = Some (CArr (set_nth (off + len) x cells)) /\
    (forall b, b <> a -> nth_error (hp s') b = nth_error (hp s) b) /\
    (forall o l, o + l <= off + len -> window o l (set_nth (off + len) x cells) = window o l cells).
Proof. exact append_in_place_window. Qed.
Print Assumptions C05_append_in_place_window.

(* the accumulator of `[q]` lives at an address that did not exist when the construction started (so no
   input, variable, constant or earlier output can reach it), nothing older is changed, and the empty
   construction returns the zero-capacity constant; every construction starts from that constant again *)
Theorem C05_append_no_alias : forall grow xs h owned r s',
  run (arr_construct grow xs) (start h owned) = Some (r, s') ->
  safe s'
  /\ (forall x, x < length h -> ~ In x owned -> nth_error (hp s') x = nth_error h x)
  /\ (xs <> [] -> exists a off len cap, r = VArr a off len cap /\ length h <= a)
  /\ (xs = [] -> r = empty_arr).
Proof. exact arr_construct_fresh. Qed.
Print Assumptions C05_append_no_alias.

(* and the value pushed on completion holds exactly the outputs of q, in order *)
Theorem C05_array_construct_value : forall grow xs s r s',
  run (arr_construct grow xs) s = Some (r, s') -> run (elems r) s' = Some (xs, s').
Proof. exact arr_construct_value. Qed.
Print Assumptions C05_array_construct_value.

(* ---- determinism: the tie to the code ---- *)
(* every `range` over a map, every maps.* / sort.* / reflect call on a JSON container, every write into a
   JSON container in package gojq and cli is on the reviewed list (finite computation over the list
   regenerated from /repo: 105 sites at the time of writing) *)
Theorem C05_sites_reviewed : sites_ok gen_sites = true.
Proof. exact sites_reviewed. Qed.
Print Assumptions C05_sites_reviewed.

(* ---- the full property, not proved ---- *)
(* for a VM semantics [exec] (all opcodes, forks, every native incl. the allocator-based updates of C02):
   every run keeps the discipline.  Missing: a VM model in this heap monad and the update natives. *)
Definition C05_full (Code : Type) (exec : Code -> val -> list val -> prog (list val)) : Prop :=
  forall c input vars, writes_fresh (exec c input vars).

(* non-vacuity: the model exhibits sharing and the capacity hazard the theorems are about *)
Example C05_nonvacuous :
  (* `[] + x` is x itself *)
  (forall st0, run (op_add (VArr 0 0 0 0) (VArr 3 1 2 4)) st0 = Some (VArr 3 1 2 4, st0))
  (* an in-place append into a slice that is NOT an exclusive accumulator changes another value *)
  /\ (exists r s', run (go_append (fun c n => n) (VArr 0 0 1 3) [VNum 9]) (start hz_heap []) = Some (r, s')
        /\ abs 3 hz_heap (VArr 0 0 2 3) = JArr [JNum 1; JNum 2]
        /\ abs 3 (hp s') (VArr 0 0 2 3) = JArr [JNum 1; JNum 9])
  (* clean is satisfiable: the witness heap of the refutation is clean, and the refuted call returns *)
  /\ clean (below 2) wit_heap2.
Proof.
  split; [reflexivity|]. split.
  - vm_compute. do 2 eexists. repeat split; reflexivity.
  - intros a c Ha E. unfold below in Ha. destruct a as [|[|a]]; [| |lia];
      cbn in E; inversion E; subst; cbn; repeat constructor; try discriminate; unfold vin, below; cbn; auto.
Qed.
