(* C14 — String positions are code points and regex builtins agree with match.
   Statements only; every theorem is closed by [exact] of a lemma proved in c14/PosProofs.v.

   Byte strings are [list N]; [explode] is Go's rune decoding (c13/Utf8.v): EVERY byte string has a code
   point sequence, an ill-formed byte counting as one position (U+FFFD), which is what len([]rune(s)),
   `for range s` and therefore gojq's length/slice/index/indices use.  The regexp engine is a parameter
   [re] returning the byte index pairs of FindAllStringSubmatchIndex, constrained only by [re_aligned].

   Proved here: positions (length, .[i:j], .[i], indices/index/rindex) and the (offset,length,string)
   triples of match.  The compositions test/capture/scan/split/2/splits/sub/gsub are jq-defined reductions
   over match; for splits and sub/gsub the telescoping argument is proved over a hand transcription of the
   builtin.jq reduce/foreach bodies (C14_splits_rebuild, C14_gsub_identity) under [re_ordered]; test,
   capture, scan and split/2 likewise over transcriptions of their (one-line) builtin.jq bodies.
   Termination: the only loop is regexp's global matching loop (allMatches), modelled in c14/Pos.v over a
   single-search engine [exec] with the progress hypothesis [exec_progress]; it never runs out of fuel, its
   output is ordered and its match ends strictly increase, so every jq-level iteration over match is over
   at most len+1 elements.  All engine hypotheses are checked on every sampled regexp output by the
   extracted model (verdict hyp-violated). *)
From Coq Require Import List ZArith NArith Bool.
From Verif Require Import c13.Utf8 c13.Utf8Proofs c13.Jv c14.Pos c14.PosProofs c14.RegexProofs c14.BuiltinProofs.
Import ListNotations.

(* length = explode | length, for every byte string *)
Theorem C14_length : forall s, str_length s = len (explode s).
Proof. exact length_is_explode_length. Qed.
Print Assumptions C14_length.

(* .[i:j] on a string is .[i:j] (func.go slice: same clamping) on its code points *)
Theorem C14_slice : forall s i j, explode (slice_string s i j) = slice_list (explode s) i j.
Proof. exact slice_string_explode. Qed.
Print Assumptions C14_slice.

(* .[i] is the i-th code point (null exactly when the array index would be null) *)
Theorem C14_index_string : forall s i,
  option_map explode (index_string s i) = option_map (fun c => [c]) (index_list (explode s) i).
Proof. exact index_string_explode. Qed.
Print Assumptions C14_index_string.

(* indices reports exactly the code point positions where the (non-empty) needle occurs *)
Theorem C14_indices : forall vs xs i,
  In i (indices_list vs xs) <->
  xs <> [] /\ (i + length xs <= length vs)%nat /\ firstn (length xs) (skipn i vs) = xs.
Proof. exact indices_list_spec. Qed.
Print Assumptions C14_indices.

Theorem C14_index_first : forall vs xs, index_first vs xs = hd_error (indices_list vs xs).
Proof. exact index_first_spec. Qed.
Print Assumptions C14_index_first.

Theorem C14_rindex_last : forall vs xs, index_last vs xs = hd_error (rev (indices_list vs xs)).
Proof. exact index_last_spec. Qed.
Print Assumptions C14_rindex_last.

(* positions are consistent across builtins: slicing at a reported index finds the needle (valid UTF-8) *)
Theorem C14_indices_slice : forall s x i, valid_utf8 s -> valid_utf8 x -> In i (indices_str s x) ->
  slice_string s (Some (Z.of_nat i)) (Some (Z.of_nat i + str_length x)%Z) = x.
Proof. exact indices_slice. Qed.
Print Assumptions C14_indices_slice.

(* slices of well-formed strings are well-formed *)
Theorem C14_valid_slice : forall s i j, valid_utf8 s -> valid_utf8 (slice_string s i j).
Proof. exact valid_slice. Qed.
Print Assumptions C14_valid_slice.

(* the byte -> code point conversion of funcMatch: for byte indices on rune boundaries, slicing the subject
   by the reported code point range returns the reported string *)
Theorem C14_conv_pair : forall s b0 b1, boundary s b0 -> boundary s b1 -> (b0 <= b1)%Z ->
  mrec_ok s (conv_pair s b0 b1).
Proof. exact conv_pair_ok. Qed.
Print Assumptions C14_conv_pair.

(* match: for ANY engine whose results are aligned, every reported (offset, length, string) — of the whole
   match and of every capture — satisfies the slicing law; non-participating groups report (-1, 0, null) *)
Theorem C14_match_slice :
  forall re : list N -> list N -> list N -> bool -> list (list Z),
  (forall r f s g x, In x (re r f s g) -> alignedb s x = true) ->
  forall r f s g o, In o (jq_match re r f s g) ->
  exists m caps, o = Some (m, caps) /\ mrec_ok s m /\ Forall (mrec_ok s) caps.
Proof. exact match_slice. Qed.
Print Assumptions C14_match_slice.

(* splits: the pieces interleaved with the global matches rebuild the subject, for any engine whose results
   are aligned and ordered (successive matches do not overlap and lie inside the subject).
   [splits], [weave] transcribe the foreach of builtin.jq; [reported] is what match reports. *)
Theorem C14_splits_rebuild :
  forall re : list N -> list N -> list N -> bool -> list (list Z),
  (forall r f s g x, In x (re r f s g) -> alignedb s x = true) ->
  (forall r f s g, orderedb s (re r f s g) = true) ->
  forall r f s,
    let rep := reported s (re r f s true) in
    weave (splits s (map (fun t => (fst (fst t), snd (fst t))) rep)) (map snd rep) = s.
Proof. exact splits_rebuild. Qed.
Print Assumptions C14_splits_rebuild.

(* sub / gsub: substituting every match (or the first one) by its own text returns the subject.
   [sub_with] transcribes the reduce of builtin.jq for a replacement that yields one string per match. *)
Theorem C14_gsub_identity :
  forall re : list N -> list N -> list N -> bool -> list (list Z),
  (forall r f s g x, In x (re r f s g) -> alignedb s x = true) ->
  (forall r f s g, orderedb s (re r f s g) = true) ->
  forall r f s g, sub_with s (reported s (re r f s g)) = s.
Proof. exact gsub_identity. Qed.
Print Assumptions C14_gsub_identity.

(* test holds iff a match exists (with or without g), given that MatchString says whether a first match
   exists and that FindAll(s, 1) is the first element of FindAll(s, -1) *)
Theorem C14_test_iff_match :
  forall (re : list N -> list N -> list N -> bool -> list (list Z)) (re_test : list N -> list N -> list N -> bool),
  (forall r f s, re_test r f s = negb (match re r f s false with [] => true | _ => false end)) ->
  (forall r f s, re r f s false = firstn 1 (re r f s true)) ->
  forall r f s g, jq_test (re_test r f s) = JBool true <-> jq_match re r f s g <> [].
Proof. exact test_iff_match. Qed.
Print Assumptions C14_test_iff_match.

(* capture: every named group surfaces under its name with the group's string, null when the group did not
   participate (m_string = None); names are unique (regexp rejects duplicates: checked as names_nodupb) *)
Theorem C14_capture_named : forall ns1 n ns2 cs1 c cs2,
  length ns1 = length cs1 -> n <> [] -> ~ In n ns2 ->
  lookup n (captures_obj (ns1 ++ n :: ns2) (cs1 ++ c :: cs2)) = Some (jstr (m_string c)).
Proof. exact capture_named. Qed.
Print Assumptions C14_capture_named.

Theorem C14_capture_keys : forall names caps k v, In (k, v) (captures_obj names caps) -> In k names.
Proof. exact captures_obj_keys. Qed.
Print Assumptions C14_capture_keys.

(* scan: without groups, the strings of the (global) matches *)
Theorem C14_scan_strings : forall mcs, Forall (fun mc => snd mc = []) mcs ->
  map jq_scan mcs = map (fun mc => jstr (m_string (fst mc))) mcs.
Proof. exact scan_strings. Qed.
Print Assumptions C14_scan_strings.

Theorem C14_scan_groups : forall m c caps, jq_scan (m, c :: caps) = JArr (map (fun c => jstr (m_string c)) (c :: caps)).
Proof. exact scan_groups. Qed.
Print Assumptions C14_scan_groups.

(* split/2 == [splits] *)
Theorem C14_split2 : forall s ms, jq_split2 s ms = JArr (map JStr (splits s ms)).
Proof. exact split2_is_splits. Qed.
Print Assumptions C14_split2.

(* TERMINATION of the global match loop, empty matches included: under exec_progress (a match found when
   searching from pos lies between pos and the end) the fuel len+2 is never exhausted *)
Theorem C14_loop_terminates :
  forall exec : list N -> nat -> option (list Z),
  (forall s pos m, (pos <= length s)%nat -> exec s pos = Some m ->
     (Z.of_nat pos <= fst (whole m) /\ fst (whole m) <= snd (whole m) /\ snd (whole m) <= Z.of_nat (length s))%Z) ->
  forall s limit, snd (all_matches exec s (length s + 2) limit 0 (-1)%Z) = false.
Proof. exact all_matches_terminates. Qed.
Print Assumptions C14_loop_terminates.

(* ... and what it delivers satisfies re_ordered and has strictly increasing ends *)
Theorem C14_loop_ordered :
  forall exec : list N -> nat -> option (list Z),
  (forall s pos m, (pos <= length s)%nat -> exec s pos = Some m ->
     (Z.of_nat pos <= fst (whole m) /\ fst (whole m) <= snd (whole m) /\ snd (whole m) <= Z.of_nat (length s))%Z) ->
  forall s g, orderedb s (find_all exec s g) = true.
Proof. exact find_all_ordered. Qed.
Print Assumptions C14_loop_ordered.

Theorem C14_loop_progress :
  forall exec : list N -> nat -> option (list Z),
  (forall s pos m, (pos <= length s)%nat -> exec s pos = Some m ->
     (Z.of_nat pos <= fst (whole m) /\ fst (whole m) <= snd (whole m) /\ snd (whole m) <= Z.of_nat (length s))%Z) ->
  forall s g, progressb (find_all exec s g) = true.
Proof. exact find_all_progress. Qed.
Print Assumptions C14_loop_progress.

(* strictly increasing ends bound the number of matches every jq-level reduction iterates over *)
Theorem C14_match_count : forall ps prev stop, ends_increasing prev ps = true ->
  Forall (fun p => (snd p <= stop)%Z) ps -> (Z.of_nat (length ps) <= Z.max 0 (stop - prev))%Z.
Proof. exact ends_increasing_count. Qed.
Print Assumptions C14_match_count.

(* non-vacuity: an aligned result on a subject with 2-, 3- and 4-byte characters and an ill-formed byte,
   including an empty match and a non-participating group; the conversion yields code point offsets *)
Example C14_nonvacuous :
  let s := [97; 195; 169; 226; 130; 172; 240; 159; 152; 128; 255; 98]%N in   (* "aé€😀\xffb" *)
  alignedb s [3; 10; 3; 6; -1; -1]%Z = true /\ alignedb s [11; 11]%Z = true /\ alignedb s [2; 3]%Z = false /\
  conv_match s [3; 10; 3; 6; -1; -1]%Z =
    Some ({| m_offset := 2; m_length := 2; m_string := Some [226; 130; 172; 240; 159; 152; 128]%N |},
          [{| m_offset := 2; m_length := 1; m_string := Some [226; 130; 172]%N |};
           {| m_offset := -1; m_length := 0; m_string := None |}]) /\
  str_length s = 6%Z /\ slice_string s (Some 1%Z) (Some (-1)%Z) = [195; 169; 226; 130; 172; 240; 159; 152; 128; 255]%N /\
  (* an ordered global result with empty matches: "é*" on the subject, flag g *)
  orderedb s [[0; 0]; [1; 3]; [3; 3]; [6; 6]; [10; 10]; [11; 11]; [12; 12]]%Z = true /\
  forallb (alignedb s) [[0; 0]; [1; 3]; [3; 3]; [6; 6]; [10; 10]; [11; 11]; [12; 12]]%Z = true /\
  orderedb s [[1; 3]; [2; 3]]%Z = false /\
  progressb [[0; 0]; [1; 3]; [3; 3]; [6; 6]; [10; 10]; [11; 11]; [12; 12]]%Z = false /\   (* "[3;3]" right after [1;3] is not delivered *)
  progressb [[0; 0]; [1; 3]; [6; 6]; [10; 10]; [11; 11]; [12; 12]]%Z = true /\
  (* the loop on an engine that always reports the empty match at the search position: terminates, one
     match per rune boundary *)
  all_matches (fun _ pos => Some [Z.of_nat pos; Z.of_nat pos]) s (length s + 2) (length s + 1) 0 (-1)%Z =
    ([[0; 0]; [1; 1]; [3; 3]; [6; 6]; [10; 10]; [11; 11]; [12; 12]]%Z, false).
Proof. vm_compute. repeat split; reflexivity. Qed.
