(* C08 — No query text or input can crash the library or the command.
   Statements only; every theorem is closed by [exact] of a lemma proved in coq/c08.

   The property is a safety property of the whole pipeline  Lexer -> LR driver -> Compile -> VM -> Natives
   -> Encode  and of the command.  This slice proves, at full strength for its component, that the
   following pieces never reach a Go panic (index / slice out of range, stack underflow) and terminate:
     B  the goyacc LR driver over the tables of the CURRENT parser.go        (LR.v, tables translated)
     C  the command's flag parser over the option table of the CURRENT cli.go (Flags.v)
     D  Preview / typeErrorPreview truncation, limitedWriter, encodeString slicing, exponent clean-up
   Each model makes every Go index/slice expression an explicit partial operation whose failure is the
   outcome Panic; the theorems say that outcome is unreachable FOR EVERY input.
   The remaining components (lexer: C09 builder; natives: C03; VM/compiler: C01/C04/C07) are not restated
   here; for them — and for the composition — C08 relies on the crash-search stream (implementation-only
   oracle) of checks/c08.py.  See [C08_full] below for what the full statement needs. *)
From Coq Require Import ZArith NArith List Bool.
From Verif Require Import gen.GenTables gen.GenFlagTable c08.LR c08.LRCheck c08.LRProofs c08.LRTerm c08.LRInstance c08.LRTheorems
  c08.Flags c08.FlagsProofs c08.Utf8Dec c08.Preview c08.PreviewProofs.
Import ListNotations.
Open Scope Z_scope.

(* ---- B: the LR driver -------------------------------------------------------------------------------
   For EVERY sequence of lexer results (any integers: token codes, bytes, 0, negative eof, garbage) and any
   number of driver rounds, the driver over the translated tables never indexes a table out of range, never
   pops more states than the stack holds, never slices yyDollar out of range, and its table-scanning loops
   never run out of their fuel. *)
Theorem C08_parse_driver_total : forall (input : list Z) (fuel : nat) (site : nat),
  LR.run the_tables fuel (LR.init input) <> OPanic site.
Proof. exact parse_driver_total. Qed.
Print Assumptions C08_parse_driver_total.

(* TOTAL CORRECTNESS of the driver: for every list of lexer results, with any fuel of at least
   parse_fuel (len input) = fuel_A * len input + fuel_B rounds (the numbers are computed from the tables; today
   fuel_A = 2 * (2*C + 2*R + 2), C = 283 states + 1, R = 853), the driver RETURNS — accept or syntax error — and
   so never panics and never runs on.  Termination rests on a ranking RHO of the states, computed by relaxation
   inside Coq and checked over every reduction edge: C * depth + RHO(top) drops at every reduction (no cyclic
   unit / epsilon reduction chains), error recovery is paid by Errflag, shifts and discards by the input. *)
Theorem C08_parse_driver_total_correct : forall (input : list Z) (fuel : nat),
  (parse_fuel (length input) <= fuel)%nat ->
  exists c', LR.run the_tables fuel (LR.init input) = OAccept c' \/ LR.run the_tables fuel (LR.init input) = OReject c'.
Proof. exact parse_driver_total_correct. Qed.
Print Assumptions C08_parse_driver_total_correct.

(* the Panic sites include the dynamic type assertions yyDollar[k].value.(T) of the semantic actions
   (site 70): the model carries, next to the state stack, the dynamic type of every yyS[i].value
   (0 = nil interface for token slots — the lexer never writes lval.value —, the static Go type of what an
   action stores, the type of yyDollar[k] for `$$ = $k` and goyacc's default `$$ = $1`).  AL_real is the
   symbol type map computed from the tables and the translated actions: every one of the 282 states allows
   exactly ONE dynamic type for its slot. *)
Theorem C08_symbol_type_map_is_a_function : n_single_typed = length AL_real /\ length AL_real = length (tPact the_tables).
Proof. exact (conj (eq_refl 282%nat) (eq_refl 282%nat)). Qed.
Print Assumptions C08_symbol_type_map_is_a_function.

(* the same for ANY tables passing the finite checks [closed] (safety, with some relation E, depth bounds MD and
   type map AL) and [term_ok] (termination, with some ranking RHO): what has to be re-established by
   computation when parser.go is regenerated *)
Theorem C08_parse_driver_total_generic : forall T E MD AL, closed T E MD AL = true ->
  forall (input : list Z) (fuel : nat) (site : nat), LR.run T fuel (LR.init input) <> OPanic site.
Proof. exact driver_never_panics. Qed.
Print Assumptions C08_parse_driver_total_generic.

Theorem C08_parse_driver_terminates_generic : forall T E MD AL RHO, closed T E MD AL = true -> term_ok T E RHO = true ->
  forall input : list Z,
  exists c', LR.run T (fuel_bound T RHO (length input)) (LR.init input) = OAccept c' \/
             LR.run T (fuel_bound T RHO (length input)) (LR.init input) = OReject c'.
Proof. exact driver_total. Qed.
Print Assumptions C08_parse_driver_terminates_generic.

(* finite statement (i), bounds explicit: for every state number 0 <= s < len(yyPact) (= 282 today) and
   every token number yylex1 can produce, and for every rule 0 <= n < len(yyR2) (= 158) and every state
   exposed by its pops, all table indices the driver computes are in range — reachable or not. *)
Theorem C08_parse_tables_index_safe :
  (forall s t, 0 <= s < zlen (tPact the_tables) -> In t (all_tokens the_tables) ->
     is_ok (simple_state the_tables s) = true /\ is_ok (idx 13 (tDef the_tables) s) = true /\
     is_ok (errshift_of the_tables s) = true /\ is_ok (shift_of the_tables s t) = true /\
     (idx 13 (tDef the_tables) s = Ok (-2) -> is_ok (exca_lookup the_tables s t) = true)) /\
  (forall n base, 0 <= n < zlen (tR2 the_tables) -> 0 <= base < zlen (tPact the_tables) ->
     exists nt r2, idx 32 (tR1 the_tables) n = Ok nt /\ idx 30 (tR2 the_tables) n = Ok r2 /\ 0 <= r2 /\
                   is_ok (idx 33 (tPgo the_tables) nt) = true /\ is_ok (goto_of the_tables base nt) = true).
Proof. exact parse_tables_index_safe. Qed.
Print Assumptions C08_parse_tables_index_safe.

(* ---- C: the flag parser --------------------------------------------------------------------------------
   For every argument vector, parseFlags (with its `i--`/`goto` control flow and its in-place rewriting of
   args[i]) returns the remaining arguments or a usage error: no index/slice panic, no reflect.Append /
   SetMapIndex on a value of the wrong kind, and the fuel (a linear function of the total argument length)
   is never exhausted, i.e. it terminates. *)
Theorem C08_flags_total : forall args : list bytes,
  match parse_flags flag_table args with FOk _ _ | FErr _ => True | FPanic _ | FFuel => False end.
Proof. exact flags_total. Qed.
Print Assumptions C08_flags_total.

Theorem C08_flags_total_generic : forall (tbl : list flagdef) (args : list bytes), good (parse_flags tbl args).
Proof. exact parse_flags_total. Qed.
Print Assumptions C08_flags_total_generic.

(* ---- D: Preview and the encoder's slicing ----------------------------------------------------------------
   utf8.DecodeLastRune / DecodeRuneInString are external: any functions returning a size between 1 and the
   length of a non-empty input. *)
Theorem C08_limited_writer : forall n : nat, (0 < n)%nat -> forall ops : list wop,
  limited n ops = Ok (firstn n (flat ops)).
Proof. exact limited_spec. Qed.
Print Assumptions C08_limited_writer.

Theorem C08_preview_total : forall (dlr : bytes -> nat) (dr : bytes -> bool * nat),
  (forall p, p <> [] -> (1 <= dlr p <= length p)%nat) ->
  (forall p, p <> [] -> (1 <= snd (dr p) <= length p)%nat) ->
  forall (t : vty) (ops : list wop),
  exists out, preview dlr t ops = Ok out /\ blen out <= 30 /\
    (blen (flat ops) <= 30 -> out = flat ops) /\
    (30 < blen (flat ops) -> exists k, out = (firstn k (flat ops) ++ trailing t)%list).
Proof. exact preview_total. Qed.
Print Assumptions C08_preview_total.

Theorem C08_type_error_preview_total : forall (dlr : bytes -> nat) (dr : bytes -> bool * nat),
  (forall p, p <> [] -> (1 <= dlr p <= length p)%nat) ->
  (forall p, p <> [] -> (1 <= snd (dr p) <= length p)%nat) ->
  forall isnil tyname t ops, exists out, type_error_preview dlr isnil tyname t ops = Ok out.
Proof. exact type_error_preview_total. Qed.
Print Assumptions C08_type_error_preview_total.

Theorem C08_encode_string_total : forall (dlr : bytes -> nat) (dr : bytes -> bool * nat),
  (forall p, p <> [] -> (1 <= dlr p <= length p)%nat) ->
  (forall p, p <> [] -> (1 <= snd (dr p) <= length p)%nat) ->
  forall s : bytes, exists out, enc_string dr s = Ok out.
Proof. exact enc_string_total. Qed.
Print Assumptions C08_encode_string_total.

Theorem C08_float_exponent_cleanup_total : forall buf : bytes, exists out, clean_exp buf = Ok out.
Proof. exact clean_exp_total. Qed.
Print Assumptions C08_float_exponent_cleanup_total.

(* the decoders the extracted model runs with satisfy the hypotheses *)
Theorem C08_decoders_bounded :
  (forall p, p <> [] -> (1 <= decode_last_rune p <= length p)%nat) /\
  (forall p, p <> [] -> (1 <= snd (decode_rune p) <= length p)%nat).
Proof. exact (conj decode_last_rune_bound decode_rune_bound). Qed.
Print Assumptions C08_decoders_bounded.

(* ---- what the full property needs beyond this slice ----------------------------------------------------
   lexer totality with 0 <= Offset <= len(src) (C09), natives totality (C03), compiler well-scopedness and VM
   stack discipline (C01/C04/C07), the command's status mapping (C15), and their composition.  They are
   parameters here, not theorems of this file. *)
Section Full.
  Variables lex_total natives_total vm_total compile_total cli_status_total : Prop.
  Definition C08_full : Prop :=
    lex_total /\ (forall input fuel site, LR.run the_tables fuel (LR.init input) <> OPanic site) /\
    compile_total /\ vm_total /\ natives_total /\
    (forall (dlr : bytes -> nat) (dr : bytes -> bool * nat), (forall p, p <> [] -> (1 <= dlr p <= length p)%nat) -> (forall p, p <> [] -> (1 <= snd (dr p) <= length p)%nat) ->
       forall isnil tyname t ops, exists out, type_error_preview dlr isnil tyname t ops = Ok out) /\
    (forall args, good (parse_flags flag_table args)) /\ cli_status_total.
End Full.

(* non-vacuity: the models run and do distinguish inputs.
   `.`  is accepted, `. .`-like garbage (token '.' twice) is rejected with the error raised at the 2nd/3rd Lex call;
   -n -r --arg a b  sets three options and leaves the query; --indent without value is a usage error;
   a 40-byte string encoding is cut to 30 bytes ending in the string trailer. *)
Example C08_nonvacuous :
  (exists c, LR.run the_tables 100 (LR.init [46]) = OAccept c) /\
  (exists c, LR.run the_tables 100 (LR.init [46; 46]) = OReject c /\ errat c = 3) /\
  (exists o, parse_flags flag_table [[45; 110]%N; [45; 114]%N; [45; 45; 97; 114; 103]%N; [97]%N; [98]%N; [46]%N] = FOk [[46]%N] o
             /\ nth 0 o VOther = VBool true /\ nth 9 o VOther = VBool true /\ nth 16 o VOther = VMap [([97]%N, [98]%N)]) /\
  (exists m, parse_flags flag_table [[45; 45; 105; 110; 100; 101; 110; 116]%N] = FErr m) /\
  (exists out, preview decode_last_rune TString [OpWrite (34%N :: repeat 97%N 38 ++ [34%N])] = Ok out /\ blen out = 30).
Proof. vm_compute. repeat split; eexists; repeat split; reflexivity. Qed.
