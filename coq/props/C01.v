(* C01 — Query evaluation follows jq's backtracking-generator semantics.

   The specification is the executable reference semantics coq/sem/Sem.v (docs/SEM.md); the
   implementation is tied to it by the correspondence stream of checks/c01.py (every generated
   (program, input) pair is judged by the extracted Sem).  This file states what is PROVED about Sem:
     (1) fuel monotonicity for the whole evaluator (the well-formedness of a fuelled semantics);
     (2) the generator laws that are jq's semantics, as equations between computations that hold for
         every continuation (hence for every observation);
     (3) determinism is by construction: Sem.eval_q / Sem.observe are functions.
   Every theorem is closed by [exact] of a lemma of coq/sem/SemProofs.v.  [bs] is the list of
   jq-defined builtins (coq/gen/GenBuiltins.v is the instance regenerated from builtin.jq). *)
From Coq Require Import String.
From Coq Require Import List ZArith NArith.
From Verif Require Import common.Sexp sem.JV sem.Syntax sem.Natives sem.Sem sem.SemProofs sem.DenLink gen.GenBuiltins.
Import ListNotations.

(* The full statement of C01 (NOT proved here): every observation of the real compiler + VM on a
   core-grammar program is the observation the reference semantics gives with enough fuel.
   [run_impl q v n obs] stands for "Parse/Compile/Run/Next on q and v yields, within the first n
   outputs, the observation obs"; another builder (coq/c01vm/) proves the VM-level theorem for a
   fragment against this semantics; checks/c01.py tests it on generated programs. *)
Definition C01_full (run_impl : query -> jv -> nat -> list jv * ending -> Prop) : Prop :=
  forall q v n obs, run_impl q v n obs ->
    exists fuel, observe builtin_defs fuel n false [] q v = obs /\
                 forall why, snd obs <> EndSkip why.

(* (1) more fuel never changes an answer *)
Theorem C01_fuel_monotone : forall bs (n m : nat) rho q v ps k s, (n <= m)%nat ->
  fuel_free (eval_q bs n rho q v ps k s) -> eval_q bs m rho q v ps k s = eval_q bs n rho q v ps k s.
Proof. exact eval_fuel_mono. Qed.
Print Assumptions C01_fuel_monotone.

Theorem C01_observe_fuel_monotone : forall bs (n m : nat) capn rs ins q v, (n <= m)%nat ->
  fuel_free (raw_run bs n capn rs ins q v) -> observe bs m capn rs ins q v = observe bs n capn rs ins q v.
Proof. exact observe_fuel_mono. Qed.
Print Assumptions C01_observe_fuel_monotone.

(* (2) comma = the outputs of the left operand, then those of the right operand *)
Theorem C01_comma : forall bs n rho l r v ps k,
  eval_q bs (S n) rho (q_bin l OpComma r) v ps k = (eval_q bs n rho l v ps k ;; eval_q bs n rho r v ps k).
Proof. exact comma_law. Qed.
Print Assumptions C01_comma.

(* pipe = nesting: every output of the left operand is the input of the right one *)
Theorem C01_pipe : forall bs n rho l r v ps k,
  eval_q bs (S n) rho (q_bin l OpPipe r) v ps k = eval_q bs n rho l v ps (fun x ps' => eval_q bs n rho r x ps' k).
Proof. exact pipe_law. Qed.
Print Assumptions C01_pipe.

(* `empty` is the unit of comma *)
Theorem C01_empty_unit_left : forall bs n rho r v ps k, not_redefined bs rho "empty" 0 ->
  meq (eval_q bs (S (S (S (S n)))) rho (q_bin q_empty OpComma r) v ps k) (eval_q bs (S (S (S n))) rho r v ps k).
Proof. exact empty_unit_left. Qed.
Print Assumptions C01_empty_unit_left.

Theorem C01_empty_unit_right : forall bs n rho l v ps k, not_redefined bs rho "empty" 0 ->
  meq (eval_q bs (S (S (S (S n)))) rho (q_bin l OpComma q_empty) v ps k) (eval_q bs (S (S (S n))) rho l v ps k).
Proof. exact empty_unit_right. Qed.
Print Assumptions C01_empty_unit_right.

(* first((c, g)) yields c and does not evaluate further: no error or divergence of g can show *)
Theorem C01_first_stops : forall bs n rho t c g v ps k,
  lookup_fun rho (codes "first") 1 = None -> lookup_builtin bs (codes "first") 1 = Some first_def ->
  meq (eval_q bs (12 + n) rho (q_call (codes "first") [q_bin (q_lit t c) OpComma g]) v ps k)
      (tick ;; with_label (scoped_ids ps) (fun l => tick ;; (k (plain (VNum c)) ps ;; raise (XBreak l)))).
Proof. exact first_law. Qed.
Print Assumptions C01_first_stops.

(* try intercepts the errors of its body ... *)
Theorem C01_try_catches_body : forall bs n rho body h v ps k c e,
  (forall k', meq (eval_q bs n rho body v ps k') (raise (XErr O c (Some e)))) ->
  meq (eval_t bs (S n) rho (Term (TTry body (Some h)) []) v ps k) (eval_q bs n rho h (plain e) ps k).
Proof. exact try_catches_body. Qed.
Print Assumptions C01_try_catches_body.

(* ... and nothing its consumer raises *)
Theorem C01_try_not_downstream : forall bs n rho body h v ps k x px,
  (forall k', eval_q bs n rho body v ps k' = k' x px) ->
  meq (eval_t bs (S n) rho (Term (TTry body h) []) v ps k) (k x px).
Proof. exact try_transparent. Qed.
Print Assumptions C01_try_not_downstream.

(* label $x | (c, break $x, B) = c *)
Theorem C01_label_break : forall bs n rho x t c B v ps k,
  meq (eval_q bs (S (S (S (S (S (S n)))))) rho
         (q_term (TLabel x (q_bin (q_lit t c) OpComma (q_bin (q_break x) OpComma B)))) v ps k)
      (with_label (scoped_ids ps) (fun l => k (plain (VNum c)) ps ;; raise (XBreak l))).
Proof. exact label_break_law. Qed.
Print Assumptions C01_label_break.

(* reduce / foreach: the state lives in a cell that backtracking does not restore: the last output of
   the update wins and an empty update keeps the state *)
Theorem C01_reduce_unfold : forall bs n rho src pat start upd v ps k,
  eval_t bs (S n) rho (Term (TReduce src pat start upd) []) v ps k =
  eval_q bs n rho start v ps (fun s0 ps0 =>
    with_cell (scoped_ids ps0) s0
      (fun c => eval_q bs n rho src v ps0 (fun item ps1 =>
         ev_bindpat (evals_n bs n) rho pat item ps1 (fun rho' ps2 =>
           cur <- get_cell c ;; eval_q bs n rho' upd cur ps2 (fun u _ => set_cell c u))))
      (fun res => k res ps0)).
Proof. exact reduce_unfold. Qed.
Print Assumptions C01_reduce_unfold.

Theorem C01_foreach_unfold : forall bs n rho src pat start upd ext v ps k,
  eval_t bs (S n) rho (Term (TForeach src pat start upd ext) []) v ps k =
  eval_q bs n rho start v ps (fun s0 ps0 =>
    with_cell (scoped_ids ps0) s0
      (fun c => eval_q bs n rho src v ps0 (fun item ps1 =>
         ev_bindpat (evals_n bs n) rho pat item ps1 (fun rho' ps2 =>
           cur <- get_cell c ;;
           eval_q bs n rho' upd cur ps2 (fun u ps3 =>
             set_cell c u ;;
             match ext with
             | None => k u ps3
             | Some e => eval_q bs n rho' e u ps3 k
             end))))
      (fun _ => ret tt)).
Proof. exact foreach_unfold. Qed.
Print Assumptions C01_foreach_unfold.

(* path(.a | .b) = the path of .a followed by the path of .b *)
Theorem C01_path_concat : forall bs n rho c a d b v w1 w2 kp,
  fn_index2 v (VStr (c :: a)) = NOk w1 -> fn_index2 w1 (VStr (d :: b)) = NOk w2 ->
  meq (eval_path bs (6 + n) rho (q_bin (q_field (c :: a)) OpPipe (q_field (d :: b))) (plain v) kp)
      (_ <- fresh ;; _ <- fresh ;; _ <- fresh ;; kp [VStr (c :: a); VStr (d :: b)]).
Proof. exact path_pipe_fields_law. Qed.
Print Assumptions C01_path_concat.

(* (4) towards C01_full: on the state-free fragment F0 (identity, scalar literals, pipe, comma, empty, t[], t.k,
   if/else, try/catch, error, length, `src as $x | body`, $x, [q], reduce, foreach, //, label/break, arithmetic and comparison operators) the demand-driven CPS semantics IS the eager
   list semantics den0, written clause by clause like coq/c01vm/Den.v (which coq/c01vm proves equal to the
   compiled code running on the VM): for every continuation, hence for every observation *)
Theorem C01_sem_is_list_semantics_F0 : forall bs rs,
  lookup_builtin bs (codes "empty") 0 = None -> lookup_builtin bs (codes "error") 0 = None ->
  lookup_builtin bs (codes "length") 0 = None ->
  forall q, ok0 q -> forall (n : nat) rho v k s (Inv : sst -> Prop), (need q <= n)%nat -> vars_only rho ->
    inv_ok rs Inv -> K_ok Inv k -> (forall s', Inv s' -> (lab_bound rho <= nextid s')%N) -> Inv s ->
    eval_q bs n rho (emb q) (plain v) None k s = run_res k (den0 rs q rho v) s.
Proof. exact sem_den0. Qed.
Print Assumptions C01_sem_is_list_semantics_F0.

Theorem C01_observe_is_list_semantics_F0 : forall bs rs,
  lookup_builtin bs (codes "empty") 0 = None -> lookup_builtin bs (codes "error") 0 = None ->
  lookup_builtin bs (codes "length") 0 = None ->
  forall q, ok0 q -> forall n capn ins v,
  (need q <= n)%nat -> (List.length (fst (den0 rs q [] v)) < capn)%nat ->
  observe bs n capn rs ins (emb q) v = (fst (den0 rs q [] v), ending_of (snd (den0 rs q [] v))).
Proof. exact observe_den0. Qed.
Print Assumptions C01_observe_is_list_semantics_F0.

Example builtins_do_not_redefine_F0_natives :
  lookup_builtin builtin_defs (codes "empty") 0 = None /\ lookup_builtin builtin_defs (codes "error") 0 = None /\
  lookup_builtin builtin_defs (codes "length") 0 = None.
Proof. repeat split; vm_compute; reflexivity. Qed.

(* non-vacuity: the builtin.jq of the current tree defines first/1 as the law assumes and does not
   redefine `empty`; a fuel-free run exists with two outputs followed by an error
   (`1, 2, error` on null, the first three observations), and limit stops an infinite generator *)
Example builtin_first_is_the_law's : lookup_builtin builtin_defs (codes "first") 1 = Some first_def.
Proof. vm_compute. reflexivity. Qed.

Example builtin_empty_not_redefined : not_redefined builtin_defs [] "empty" 0.
Proof. split; vm_compute; reflexivity. Qed.

Definition q_int (z : Z) : query := q_lit (print_Z z) (NInt z).

Example run_two_outputs_then_error :
  observe builtin_defs 20 50 false [] (q_bin (q_int 1) OpComma (q_bin (q_int 2) OpComma (q_call (codes "error") []))) VNull
  = ([VInt 1; VInt 2], EndError EUser (Some VNull)).
Proof. vm_compute. reflexivity. Qed.

Example limit_stops_repeat :
  observe builtin_defs 200 50 false []
    (q_term (TArray (Some (q_call (codes "limit") [q_int 3; q_call (codes "repeat") [q_identity]])))) (VInt 7)
  = ([VArr [VInt 7; VInt 7; VInt 7]], EndNormal).
Proof. vm_compute. reflexivity. Qed.
