(* C10 (integration with C12) — the output clause of C10:
     "computed floats print in shortest round-trip form, and every emitted number is valid JSON (NaN as null,
      infinities saturated to the largest finite double)"; "a number that reaches the output untouched is printed
      with the digits it had" is C10_literal_verbatim / C10_int_print_exact in props/C10.v.
   Statements only; closed by [exact] of lemmas of c12/NumProofs.v and coq/integ/NumberJson.v.

   Model: c12/Encode.v ([encode], [encode_float] = encodeFloat64 of /repo/encoder.go, textually the same code in
   cli/encoder.go; both Go copies are tied to it byte for byte by the C12 streams `floats`).  Floats are IEEE-754
   bit patterns (N).  strconv.AppendFloat(f, 'f'|'e', -1, 64) is NOT gojq's code: it is the variable [fmt_float]
   returning structured digits, with the hypotheses, spelled out in each theorem that uses them,
     fmt_shape : forall f e, finite f -> fnum_shape e (fmt_float f e) = true
                 ('f': [-]d+[.d+]; 'e': [-]d[.d+]e(+|-)dd+ with at least two exponent digits; canonical integer part)
     fmt_round : forall f e, finite f -> parse_float (fnum_den (fmt_float f e)) = f
                 (the printed digits, read as the exact decimal m * 10^e and rounded by ParseFloat, give f back).
   Both are checked on every sampled float by the C12 harness (and `strconv.ParseFloat(printed) == clamp(f)` bitwise).
   NOT proved: that strconv's digits are the SHORTEST ones (Go's property, DESIGN.md section 3); proved instead:
   gojq emits strconv's digits unchanged (C10_float_digits_are_strconv). *)
From Coq Require Import List NArith ZArith Bool.
From Verif Require Import common.Sexp c12.JsonRef c12.Encode c12.NumProofs c12.ValueProofs integ.NumberJson.
Import ListNotations.
Open Scope N_scope.

(* every emitted number — int, *big.Int, float64, json.Number — is an RFC 8259 number literal accepted as a whole by
   the reference scanner, or the text null, and null only for NaN *)
Theorem C10_number_json_valid : forall (fmt_float : N -> bool -> fnum),
  (forall f e, finite f -> fnum_shape e (fmt_float f e) = true) ->
  forall v, wfv v -> is_num v ->
  (number_literal (encode fmt_float v) /\ json_number (encode fmt_float v) = true) \/
  (encode fmt_float v = txt_null /\ exists f, v = VFloat f /\ is_nan f = true).
Proof. exact number_json_valid. Qed.
Print Assumptions C10_number_json_valid.

(* NaN (any payload, either sign) is printed as null; no hypothesis on strconv *)
Theorem C10_nan_null : forall (fmt_float : N -> bool -> fnum) b, is_nan b = true -> encode_float fmt_float b = txt_null.
Proof. exact nan_null. Qed.
Print Assumptions C10_nan_null.

(* infinities are saturated to the largest finite double of the same sign and print exactly as it does *)
Theorem C10_inf_saturated : forall (fmt_float : N -> bool -> fnum),
  (forall f e, finite f -> fnum_shape e (fmt_float f e) = true) ->
  clamp inf_bits = max_bits /\ clamp (two63 + inf_bits) = two63 + max_bits /\
  encode_float fmt_float inf_bits = encode_float fmt_float max_bits /\
  encode_float fmt_float (two63 + inf_bits) = encode_float fmt_float (two63 + max_bits) /\
  number_literal (encode_float fmt_float inf_bits) /\ number_literal (encode_float fmt_float (two63 + inf_bits)).
Proof. exact inf_saturated. Qed.
Print Assumptions C10_inf_saturated.

(* a non-NaN float is printed as a JSON number literal denoting exactly what strconv printed for the clamped
   float in the format gojq chose ('e' iff 0 < |f| < 1e-6 or |f| >= 1e21) ... *)
Theorem C10_float_literal : forall (fmt_float : N -> bool -> fnum),
  (forall f e, finite f -> fnum_shape e (fmt_float f e) = true) ->
  forall b, is_nan b = false ->
  number_literal (encode_float fmt_float b) /\
  num_denote (encode_float fmt_float b) = Some (fnum_den (fmt_float (clamp b) (fmt_is_e (clamp b)))).
Proof. exact (fun fmt H b Hb => conj (encode_float_literal fmt H b Hb) (encode_float_denote fmt H b Hb)). Qed.
Print Assumptions C10_float_literal.

(* ... with strconv's digits: sign, integer and fraction digits unchanged (only the leading zero of a two-digit
   negative exponent is dropped), so the text is as short as strconv's ... *)
Theorem C10_float_digits_are_strconv : forall (fmt_float : N -> bool -> fnum),
  (forall f e, finite f -> fnum_shape e (fmt_float f e) = true) ->
  forall b, is_nan b = false ->
  let s := fmt_float (clamp b) (fmt_is_e (clamp b)) in
  exists x, encode_float fmt_float b = fnum_text x /\
            fneg x = fneg s /\ fint x = fint s /\ ffrac x = ffrac s /\ fnum_den x = fnum_den s.
Proof. exact float_digits_are_strconv. Qed.
Print Assumptions C10_float_digits_are_strconv.

(* ... and it round-trips: if strconv's digits parse back to the float they were printed from, gojq's text parses
   back to the (clamped) float *)
Theorem C10_float_round_trip : forall (fmt_float : N -> bool -> fnum),
  (forall f e, finite f -> fnum_shape e (fmt_float f e) = true) ->
  forall parse_float : Z * Z -> N,
  (forall f e, finite f -> parse_float (fnum_den (fmt_float f e)) = f) ->
  forall b, is_nan b = false ->
  option_map parse_float (num_denote (encode_float fmt_float b)) = Some (clamp b).
Proof. exact encode_float_round. Qed.
Print Assumptions C10_float_round_trip.

(* integers in both representations: the emitted text (tojson and tostring alike) reads back to exactly z with the
   integer reader of C10 — no digit lost at any magnitude *)
Theorem C10_int_text_reads_back : forall (fmt_float : N -> bool -> fnum) z,
  parse_Z (encode fmt_float (VInt z)) = Some z /\ parse_Z (encode fmt_float (VBig z)) = Some z /\
  parse_Z (tostring fmt_float (VInt z)) = Some z /\ parse_Z (tostring fmt_float (VBig z)) = Some z.
Proof. exact int_text_reads_back. Qed.
Print Assumptions C10_int_text_reads_back.

(* non-vacuity: with a printer of the assumed shape on the floats used, 1e-9 printed by strconv as 1e-09 is emitted
   as 1e-9, NaN as null, and +Inf / -Inf as the text of +-MaxFloat64 (here a stand-in text) *)
Example C10b_nonvacuous :
  let fmt := fun (b : N) (e : bool) =>
    if e then {| fneg := false; fint := [49]; ffrac := []; fexp := Some (true, [48; 57]) |}
    else {| fneg := two63 <=? b; fint := [49; 55; 57]; ffrac := []; fexp := None |} in
  fnum_shape true (fmt 0x3E112E0BE826D695 true) = true /\
  encode_float fmt 0x3E112E0BE826D695 = [49; 101; 45; 57] /\
  encode_float fmt 0x7FF8000000000000 = txt_null /\
  encode_float fmt inf_bits = encode_float fmt max_bits /\
  json_number (encode_float fmt (two63 + inf_bits)) = true /\
  is_nan inf_bits = false /\ is_nan 0xFFF0000000000001 = true.
Proof. vm_compute. repeat split; reflexivity. Qed.
