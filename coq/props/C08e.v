(* C08 (e) — the last two parameters of [C08_full] (props/C08.v), [compile_total] and [vm_total], instantiated with the
   theorems of the compiler/VM development coq/c01vm2 for its fragment (F3: the core forms listed in docs/C01vm.md incl.
   closures, user-defined functions with filter and $value parameters, recursion, objects, destructuring, computed index /
   slices, string interpolation):
     vm_total_F      the VM model has explicit [IsStuck] outcomes wherever execute.go would panic (empty-stack pop, failed
                     operand type assertion, env.index outside a frame, jump outside the code ...); for EVERY program of the
                     fragment, EVERY input, EVERY instance of the natives and EVERY fuel the run of the compiled code is never
                     stuck — whether it terminates or not (C01vm_functions_never_stuck);
     compile_total_F everything the compiler model emits (with and without tail-call elimination) satisfies the well-formedness
                     side conditions under which the peephole pass is sound: no jumpifnot to the next instruction, the code
                     ends in opret, every call / pushpc / callrec target is an opscope (C01vm_side_conditions).
   With props/C08d.v (the command's status) [C08_full] then holds with NO remaining parameter — for programs of the
   fragment; outside it (paths, `?//`, builtins written in jq ...) the VM and the compiler are covered by the crash
   search of the C08 check and by the correspondence of C01.  What stays assumed are the seams listed in integ/NoCrash.v
   (token numbering, lexer/driver interleaving, natives called with accepted arities on hole-free values).
   Statements only. *)
From Coq Require Import List ZArith NArith Bool String.
From Verif Require gen.GenTables c09.Lexer c08.LR c08.LRCheck.
From Verif Require c01vm2.Syntax c01vm2.Code c01vm2.Compile c01vm2.VM c01vm2.Correct c01vm2.Peep.
From Verif Require props.C08 props.C08d props.C01vm integ.CliStatus.
Import ListNotations.

Definition vm_total_F : Prop :=
  forall nt q code, c01vm2.Compile.compile_raw q = Some code ->
  forall v f, snd (c01vm2.VM.run nt code f (c01vm2.VM.init code v)) <> c01vm2.VM.IsStuck.

Definition compile_total_F : Prop :=
  forall tco q raw, c01vm2.Compile.compile_raw_g tco q = Some raw -> c01vm2.Compile.side_okb raw = true.

Theorem C08_vm_total_F : vm_total_F.
Proof. exact C01vm.C01vm_functions_never_stuck. Qed.
Print Assumptions C08_vm_total_F.

Theorem C08_compile_total_F : compile_total_F.
Proof. exact C01vm.C01vm_side_conditions. Qed.
Print Assumptions C08_compile_total_F.

Theorem C08_full_on_fragment :
  C08.C08_full
    (forall (S0 : Type) (F : Lexer.tk -> S0 -> Lexer.lexer -> S0 * Lexer.lexer) (st : S0),
       (forall k s l, Lexer.lp (snd (F k s l)) = Lexer.lp l) ->
       forall src : list N, exists ts : list Lexer.ltok,
         Lexer.lex_with S0 F (S (List.length src)) (Lexer.newLexer src) st = Some ts /\
         Forall (fun t => (Lexer.tend t <= List.length src)%nat /\ (fst (Lexer.terr t) <= List.length src)%nat /\
                          exists pre, firstn (fst (Lexer.terr t)) src = pre ++ snd (Lexer.terr t)) ts /\
         exists ts' t, ts = ts' ++ [t] /\ Lexer.is_end (Lexer.tkind t) = true /\
                       Forall (fun x => Lexer.is_end (Lexer.tkind x) = false) ts')
    (forall pf ff l1 l2 l3 jd lp fuel name v args o,
       Wf.hole_free v = true -> NoPanic3.arity_ok name (List.length args) = true ->
       Dispatch.call_native pf ff l1 l2 l3 jd lp fuel name v args = Some o -> Wf.np o)
    vm_total_F compile_total_F CliStatus.cli_status_statement.
Proof. exact (C08d.C08_full_modulo_compiler_vm compile_total_F vm_total_F C08_compile_total_F C08_vm_total_F). Qed.
Print Assumptions C08_full_on_fragment.
