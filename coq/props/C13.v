(* C13 — Documented inverse pairs are exact inverses.
   Statements only; every theorem is closed by [exact] of a lemma proved under coq/c13/.

   Byte strings are [list N] with every element < 256 ([bytes]); values are [jv] (c13/Jv.v).
   Native codecs (explode/implode, split/join, @base64/@base64d, @uri/@urid, getpath/setpath,
   gmtime/mktime) are hand models of func.go and of the Go library functions it calls; the jq-defined
   converters (to_entries, from_entries, with_entries, tostream, fromstream, paths) are hand
   transcriptions of their builtin.jq definitions over the jv model.  Both kinds are tied to the
   implementation by the c13 correspondence stream (one line per function application, judged by
   the extracted model), and every law is also evaluated on the implementation alone (laws stream).

   Left at correspondence level (no theorem): tojson|fromjson, tostring|tonumber on finite numbers
   (number printing/parsing is strconv's and C12's business), todate|fromdate (strftime/strptime live
   in timefmt-go, outside /repo; see C13_todate_fromdate for the modelled version). *)
From Coq Require Import List ZArith NArith Bool.
From Verif Require Import c13.Utf8 c13.Utf8Proofs c13.Utf8Valid c13.Codec c13.CodecProofs c13.Jv c13.JvProofs c13.Time c13.TimeProofs c13.Date c13.DateProofs.
Import ListNotations.

(* explode | implode on every well-formed UTF-8 string (the strings of the JSON data model) *)
Theorem C13_explode_implode : forall s, valid_utf8 s -> implode (map Z.of_N (explode s)) = s.
Proof. exact explode_implode. Qed.
Print Assumptions C13_explode_implode.

(* [valid_utf8] is decidable by the executable test [validb] (utf8.ValidString: no decoding step errs) *)
Theorem C13_validb_spec : forall s, validb s = true <-> valid_utf8 s.
Proof. exact validb_spec. Qed.
Print Assumptions C13_validb_spec.

(* and the other way round on every list of Unicode scalar values *)
Theorem C13_implode_explode : forall cs, Forall scalar cs -> explode (implode (map Z.of_N cs)) = cs.
Proof. exact implode_explode. Qed.
Print Assumptions C13_implode_explode.

(* on ANY byte string explode only ever yields scalar values (ill-formed bytes become U+FFFD) *)
Theorem C13_explode_scalar : forall s, Forall scalar (explode s).
Proof. exact explode_scalar. Qed.
Print Assumptions C13_explode_scalar.

(* outside the domain: ill-formed bytes are not restored *)
Example C13_explode_invalid :
  explode [255; 65; 226; 130]%N = [65533; 65; 65533; 65533]%N /\
  implode (map Z.of_N (explode [255; 65]%N)) = [239; 191; 189; 65]%N.
Proof. vm_compute. split; reflexivity. Qed.

(* split(s) | join(s): stated for every separator; the property asks for the non-empty ones *)
Theorem C13_split_join : forall sep s, join sep (split sep s) = s.
Proof. exact split_join. Qed.
Print Assumptions C13_split_join.

Theorem C13_base64_roundtrip : forall s, bytes s -> b64d (b64enc s) = Some s.
Proof. exact base64_roundtrip. Qed.
Print Assumptions C13_base64_roundtrip.

Theorem C13_uri_roundtrip : forall s, bytes s -> urid (uri s) = Some s.
Proof. exact uri_roundtrip. Qed.
Print Assumptions C13_uri_roundtrip.

(* setpath(p; x) | getpath(p) is x whenever setpath succeeds *)
Theorem C13_setpath_getpath : forall p v x w, setpath p x v = ROk w -> getpath p w = ROk x.
Proof. exact getpath_update. Qed.
Print Assumptions C13_setpath_getpath.

(* setpath(p; getpath(p)) is the identity for every p in paths *)
Theorem C13_getpath_setpath_id : forall v p, wf v -> In p (paths v) ->
  exists x, getpath p v = ROk x /\ setpath p x v = ROk v.
Proof. exact update_getpath_id. Qed.
Print Assumptions C13_getpath_setpath_id.

(* [paths] equals [path(..)] without the root, for every value: [path_dotdot] transcribes the recurse
   enumeration (current path, then each child's recursion; object keys in sorted order, as gojq
   iterates), [paths_jq] is literally `path(..) | select(. != [])` *)
Theorem C13_path_dotdot : forall v, path_dotdot v = [] :: paths v.
Proof. exact path_dotdot_paths. Qed.
Print Assumptions C13_path_dotdot.

Theorem C13_paths_jq : forall v, paths_jq v = tl (path_dotdot v).
Proof. exact paths_jq_tl. Qed.
Print Assumptions C13_paths_jq.

Theorem C13_to_from_entries : forall m, wf (JObj m) -> bind (to_entries (JObj m)) from_entries = ROk (JObj m).
Proof. exact to_from_entries. Qed.
Print Assumptions C13_to_from_entries.

Theorem C13_with_entries_id : forall m, wf (JObj m) -> with_entries_id (JObj m) = ROk (JObj m).
Proof. exact with_entries_identity. Qed.
Print Assumptions C13_with_entries_id.

(* every tostream event [p, leaf] satisfies getpath(p) == leaf *)
Theorem C13_tostream_leaves : forall v, wf v ->
  Forall (fun pv => getpath (fst pv) v = ROk (snd pv)) (leaves (tostream v)).
Proof. exact tostream_leaves_getpath. Qed.
Print Assumptions C13_tostream_leaves.

(* replaying the two-element events with setpath on null rebuilds the value
   ([small]: no array reaches setpath's index limit 0x20000000) *)
Theorem C13_replay_tostream : forall v, wf v -> small v -> replay JNull (leaves (tostream v)) = ROk v.
Proof. exact replay_tostream. Qed.
Print Assumptions C13_replay_tostream.

Theorem C13_fromstream_tostream : forall v, wf v -> small v -> fromstream (tostream v) = ROk [v].
Proof. exact fromstream_tostream. Qed.
Print Assumptions C13_fromstream_tostream.

(* gmtime | mktime on whole seconds within years 1..9999 (the result is the float64 of t) *)
Theorem C13_gmtime_mktime : forall t, (year_1 <= t <= year_9999_end)%Z ->
  bind (gmtime t) mktime = ROk (JFlt (f64_of_Z t)).
Proof. exact gmtime_mktime. Qed.
Print Assumptions C13_gmtime_mktime.

(* todate | fromdate on whole seconds within years 1..9999, EXCLUDING the zero time 0001-01-01T00:00:00Z
   (t = -62135596800), on which funcStrptime reports a parse failure: the known finding of this property.
   timefmt-go's Format/Parse for "%Y-%m-%dT%H:%M:%S%z" are modelled (c13/Date.v), not verified. *)
Theorem C13_todate_fromdate : forall t, (year_1 <= t <= year_9999_end)%Z -> t <> year_1 ->
  todate_fromdate t = ROk (JFlt (f64_of_Z t)).
Proof. exact todate_fromdate_roundtrip. Qed.
Print Assumptions C13_todate_fromdate.

(* the arithmetic core holds from the absolute epoch of package time onwards *)
Theorem C13_unix_of_civil : forall t, (0 <= t + unix_to_absolute)%Z ->
  let c := civil_of_unix t in
  unix_of_fields (c_year c) (c_month c - 1) (c_day c) (c_hour c) (c_min c) (c_sec c) = t.
Proof. exact unix_of_civil. Qed.
Print Assumptions C13_unix_of_civil.

(* non-vacuity: the hypotheses are met by multi-byte strings, nested values with empty containers and
   escape-needing keys, and the end points of the year range *)
Example C13_nonvacuous :
  valid_utf8 [226; 130; 172; 65; 240; 159; 152; 128]%N /\
  bytes [0; 255; 43; 37; 61]%N /\
  (let v := JObj [([]%list, JArr []); ([34]%N, JObj [([92]%N, JArr [JNull; JObj []])])] in
   wf v /\ small v /\ In [JStr [34]%N; JStr [92]%N; JInt 1] (paths v)) /\
  c_year (civil_of_unix year_1) = 1%Z /\ c_year (civil_of_unix year_9999_end) = 9999%Z.
Proof.
  split.
  { exists [8364; 65; 128512]%N. split; [repeat constructor | vm_compute; reflexivity]. }
  split. { repeat constructor. }
  split. { vm_compute. repeat split; auto 10. }
  vm_compute. split; reflexivity.
Qed.
