(* C20 — Iteration and tail recursion run in bounded interpreter space.   PARTIAL (see C20_full).
   Statements only; every theorem is closed by [exact] of a lemma proved in vm/StackProofs.v or
   c20/FramesProofs.v.  vm/Stack.v transcribes stack.go / scope_stack.go (one model, generic in the
   cell type); c20/Frames.v transcribes the frame logic of execute.go (opcall/opcallrec/opscope/opret,
   popscope).  Both models are validated against the implementation by checks/c20.py (stream stk: the
   real stack types driven through the verif hook; stream fp: peak VM footprint at n and 8n). *)
From Coq Require Import List ZArith Bool.
From Verif Require Import vm.Stack vm.StackProofs c20.Frames c20.FramesProofs.
From Verif Require c20.EVM c20.EVMProofs gen.GenEvmForms c20.EVMFormsProofs.
From Verif Require c01vm.Syntax c01vm.Code c01vm.VM c01vm.Compile c20.AbsVM c20.AbsVMProofs c20.VMForms c20.VMFormsProofs.
Import ListNotations.
Open Scope Z_scope.

(* The full property, as a statement about a complete VM model (not available in this slice): for
   every program p of the iteration forms / tail-recursive definitions there is a constant C such
   that for every loop count n and every reachable machine state of p run with $n = n the footprint
   is at most C.  [reach] stands for the reachability relation of such a VM model and [fp] for the
   footprint (len forks, len stack.data, len scopes.data, len paths.data, len values). *)
Definition C20_full (Prog State : Type) (in_scope : Prog -> Prop) (reach : Prog -> Z -> State -> Prop) (fp : State -> Z) : Prop :=
  forall p, in_scope p -> exists C, forall n s, reach p n s -> fp s <= C.
(* Missing for C20_full: the instruction-level VM model and the instantiation of C20_loop_bound_partial
   on the compiled code of each form.  What is proved: the three mechanisms the bound rests on
   (slot reuse in the array stacks, frame replacement by tail calls, the loop-bound principle), for all
   states; the per-form constant-footprint claim is checked by measurement (stream fp). *)

(* --- 1. the array stacks: refinement of a persistent list stack under the fork discipline ------ *)
(* [exec]/[spec_exec]: run a sequence of push/pop/save/restore, restore taking the most recent pending
   saved pair (env.forks is a LIFO).  The array-with-limit stack computes the same views as the
   persistent list stack, INCLUDING the views of all pending saved pairs (blocks at positions <= limit
   are never overwritten after save), a pop of the empty stack fails on both sides, and the invariant
   is preserved. *)
Theorem C20_Stack_refines_partial : forall (A : Type) (ops : list (op A)) (c : cfg A), Inv A c ->
  option_map abs (exec ops c) = spec_exec ops (abs c) /\ (forall c', exec ops c = Some c' -> Inv A c').
Proof. exact Stack_refines. Qed.
Print Assumptions C20_Stack_refines_partial.

Theorem C20_pending_view_frame_partial : forall (A : Type) (o : op A) (c c' : cfg A), Inv A c -> exec1 o c = Some c' ->
  forall p, In p (snd c) -> view_at (data (fst c')) (fst p) = view_at (data (fst c)) (fst p).
Proof. exact pending_view_frame. Qed.
Print Assumptions C20_pending_view_frame_partial.

(* len(data) after any execution = max(initial len, highest slot a push wrote to + 1): the array grows
   only at a new high-water mark *)
Theorem C20_stack_len_bound_partial : forall (A : Type) (ops : list (op A)) (c c' : cfg A), Inv A c -> exec ops c = Some c' ->
  len (data (fst c')) = Z.max (len (data (fst c))) (peak ops c).
Proof. exact stack_len_bound. Qed.
Print Assumptions C20_stack_len_bound_partial.

(* a push after a pop of a block above the limit reuses that slot or a lower one: data does not grow *)
Theorem C20_push_after_pop_reuses_partial : forall (A : Type) (s : stack A) v s1 w, WF A s -> limit s < index s -> pop s = Some (v, s1) ->
  len (data (push w s1)) = len (data s) /\ index (push w s1) <= index s /\ limit (push w s1) = limit s.
Proof. exact push_after_pop_reuses. Qed.
Print Assumptions C20_push_after_pop_reuses_partial.

(* --- 2. tail calls replace the frame ---------------------------------------------------------- *)
Theorem C20_tailcall_frame_reuse_partial : forall id cnt s b,
  WF scope (scopes s) ->
  limit (scopes s) < index (scopes s) ->                       (* no pending fork above the frame *)
  get (data (scopes s)) (index (scopes s)) = Some b ->         (* the top frame ... *)
  sid (bvalue b) = id ->                                       (* ... is an activation of the called function *)
  offset s = soffset (bvalue b) + cnt -> offset s <= nvalues s ->
  exists s', tail_call id cnt s = Some s'
    /\ view (scopes s') = view (scopes s)
    /\ index (scopes s') <= index (scopes s)
    /\ limit (scopes s') = limit (scopes s)
    /\ len (data (scopes s')) = len (data (scopes s))
    /\ offset s' = offset s /\ nvalues s' = nvalues s.
Proof. exact tailcall_frame_reuse. Qed.
Print Assumptions C20_tailcall_frame_reuse_partial.

(* contrast 1: an ordinary call stacks a frame *)
Theorem C20_call_stacks_frame_partial : forall id cnt pc s,
  WF scope (scopes s) -> 0 <= pc -> 0 <= cnt ->
  exists s' fr, call id cnt pc s = Some s'
    /\ view (scopes s') = fr :: view (scopes s)
    /\ sid fr = id /\ soffset fr = offset s /\ spc fr = pc /\ ssaveindex fr = index (scopes s)
    /\ offset s' = offset s + cnt.
Proof. exact call_stacks_frame. Qed.
Print Assumptions C20_call_stacks_frame_partial.

(* contrast 2 (the boundary of "tail position"): with a fork pending above the frame the tail call
   cannot free it; the register-file offset advances and a new slot above the limit is taken *)
Theorem C20_tailcall_under_fork_grows_partial : forall id cnt s b,
  WF scope (scopes s) ->
  0 <= index (scopes s) <= limit (scopes s) ->
  get (data (scopes s)) (index (scopes s)) = Some b ->
  exists s', tail_call id cnt s = Some s'
    /\ index (scopes s') = limit (scopes s) + 1
    /\ offset s' = offset s + cnt
    /\ length (view (scopes s')) = length (view (scopes s)).
Proof. exact tailcall_under_fork_grows. Qed.
Print Assumptions C20_tailcall_under_fork_grows_partial.

(* --- 3. the loop bound ------------------------------------------------------------------------ *)
Theorem C20_loop_bound_partial : forall (T : Type) (step : T -> option T) (fp : T -> Z) (H : T -> Prop) (K : nat) (C : Z),
  (forall s, H s -> returns_within T step fp H K C s) ->
  forall n s s', H s -> iter T step n s = Some s' -> fp s' <= C.
Proof. exact loop_bound. Qed.
Print Assumptions C20_loop_bound_partial.

(* instance on the stack model: a loop body that pushes and pops, with or without pending forks *)
Theorem C20_push_pop_loop_bounded_partial : forall (A : Type) (v : A) C c n c', pp_head A C c ->
  iter (bool * stack A) (pp_step A v) n c = Some c' -> len (data (snd c')) <= C.
Proof. exact push_pop_loop_bounded. Qed.
Print Assumptions C20_push_pop_loop_bounded_partial.

(* --- 4. bounds for ACTUAL compiled code, over the concrete VM model coq/c01vm ------------------- *)
(* c01vm/Compile.v transcribes compiler.go and c01vm/VM.v the Next loop for fragment F (both tied to
   the implementation by instruction-list and per-instruction footprint correspondence).  c20/AbsVM.v
   is an abstract interpreter of that VM (depths and counts only, all data-dependent branches taken).
   Soundness: every concrete successor (Next or Emit) is among the abstract successors, for every
   instance of the natives and every code. *)
Theorem C20_vm_abs_sound_partial : forall nt code s s',
  AbsVMProofs.succ nt code s s' -> In (AbsVM.abs s') (AbsVM.astep code (AbsVM.abs s)).
Proof. exact AbsVMProofs.abs_sound. Qed.
Print Assumptions C20_vm_abs_sound_partial.

(* a closed abstract set is an invariant that returns after one step: instance K = 1 of loop_bound *)
Theorem C20_vm_closed_bound_partial : forall nt code R, AbsVM.closed code R = true ->
  forall n s s', In (AbsVM.abs s) R -> iter VM.state (AbsVMProofs.vstep nt code) n s = Some s' ->
  Z.of_nat (AbsVM.fp s') <= Z.of_nat (AbsVM.max_afp R).
Proof. exact AbsVMProofs.closed_bound. Qed.
Print Assumptions C20_vm_closed_bound_partial.

(* a computed certificate bounds the footprint (len forks + live stack cells incl. those a fork can
   restore + scope frames + variable slots) of every reachable state: any natives, any input, any
   number of steps, Next calls included *)
Theorem C20_vm_certify_sound_partial : forall code fuel C, AbsVM.certify code fuel = Some C ->
  forall nt v n s, iter VM.state (AbsVMProofs.vstep nt code) n (VM.init v) = Some s -> (AbsVM.fp s <= C)%nat.
Proof. exact AbsVMProofs.certify_sound. Qed.
Print Assumptions C20_vm_certify_sound_partial.

(* the loop forms inside the model today, each with its constant (independent of the input):
   reduce/foreach over .[], [.[] | f], .[] with comma / if / elif bodies, label/break loops, the
   label+foreach shape of limit, the shapes of first and isempty, nested iteration and nested reduce,
   bindings, try/catch, //, ? inside the loop body.  [bounded_by q C]: compile q = Some code and every
   state reachable from init v (any v, any natives) has footprint <= C. *)
Theorem C20_vm_forms_bounded_partial :
  Forall (fun qc => VMFormsProofs.bounded_by (fst qc) (snd qc)) VMFormsProofs.forms_table.
Proof. exact VMFormsProofs.vm_forms_bounded. Qed.
Print Assumptions C20_vm_forms_bounded_partial.

(* reduce .[] as $x (0; . + 1) *)
Theorem C20_vm_reduce_bounded_partial : VMFormsProofs.bounded_by VMForms.f_reduce 16.
Proof. exact VMFormsProofs.vm_reduce_bounded. Qed.
Print Assumptions C20_vm_reduce_bounded_partial.

(* label $out | foreach .[] as $x (0; . + 1; if . > 3 then ., break $out else . end) *)
Theorem C20_vm_limit_shape_bounded_partial : VMFormsProofs.bounded_by VMForms.f_limit_shape 22.
Proof. exact VMFormsProofs.vm_limit_shape_bounded. Qed.
Print Assumptions C20_vm_limit_shape_bounded_partial.

(* --- 5. the forms that need calls: the ERASED VM on the code the current compiler emits --------- *)
(* c20/EVM.v: execute.go's Next loop with all JSON values forgotten (array stacks of vm/Stack.v, frames of
   c20/Frames.v, closures, forks with save/restore, env.values, offset; data-dependent choices are
   nondeterministic).  gen/GenEvmForms.v is regenerated from /repo at every run: the instruction lists of
   range, while, until, repeat, recurse, limit, first, last, isempty, reduce, foreach, inputs and the
   tail-recursive definitions (opjump and opcallrec shapes of optimizeTailRec).  The implementation's runs
   are checked to be paths of this machine instruction by instruction (stream evmtrace). *)
Theorem C20_evm_certify_sound_partial : forall code nvars fuel C, EVM.certify code nvars fuel = Some C ->
  forall s, EVMProofs.ereach code (EVM.einit code nvars) s -> EVM.efp s <= C.
Proof. exact EVMProofs.certify_sound. Qed.
Print Assumptions C20_evm_certify_sound_partial.

(* instance K = 1 of loop_bound for any deterministic resolution of the choices *)
Theorem C20_evm_certify_loop_bound_partial : forall code nvars fuel C, EVM.certify code nvars fuel = Some C ->
  forall (pick : EVM.est -> option EVM.est),
  (forall s s', pick s = Some s' -> exists l, In (l, s') (EVM.estep code s)) ->
  forall n s, iter EVM.est pick n (EVM.einit code nvars) = Some s -> EVM.efp s <= C.
Proof. exact EVMProofs.certify_loop_bound. Qed.
Print Assumptions C20_evm_certify_loop_bound_partial.

(* every generated form: exists C, every reachable state (any input, any $n, any native results, any
   number of Next calls) has len forks + len stack.data + len scopes.data + len values <= C *)
Theorem C20_evm_forms_bounded_partial :
  Forall (fun nc => EVMFormsProofs.evm_bounded (snd nc)) GenEvmForms.evm_forms.
Proof. exact EVMFormsProofs.evm_forms_bounded. Qed.
Print Assumptions C20_evm_forms_bounded_partial.

(* the opcallrec + opscope step of this machine replaces the frame (Frames.tailcall_frame_reuse) *)
Theorem C20_evm_tailcall_reuse_partial : forall code s t id cnt b s1 s2,
  EVM.zget code (EVM.pc s) = Some (EVM.Ecallrec t) -> EVM.zget code t = Some (EVM.Escope id cnt) ->
  EVM.pc s < EVM.zlen code -> t < EVM.zlen code ->
  WF scope (EVM.sstk s) -> limit (EVM.sstk s) < index (EVM.sstk s) ->
  get (data (EVM.sstk s)) (index (EVM.sstk s)) = Some b -> sid (bvalue b) = id ->
  EVM.offset s = soffset (bvalue b) + cnt -> EVM.offset s <= EVM.zlen (EVM.values s) ->
  EVM.estep code s = [(EVM.LNext, s1)] -> EVM.estep code s1 = [(EVM.LNext, s2)] ->
  view (EVM.sstk s2) = view (EVM.sstk s) /\ len (data (EVM.sstk s2)) = len (data (EVM.sstk s))
  /\ EVM.offset s2 = EVM.offset s /\ EVM.values s2 = EVM.values s /\ EVM.pc s2 = t + 1.
Proof. exact EVMProofs.evm_tailcall_reuse. Qed.
Print Assumptions C20_evm_tailcall_reuse_partial.

(* non-vacuity: concrete states meeting the hypotheses.
   Stack: push 1; push 2; save; pop; push 3; restore  -- the saved view [2;1] survives the push of 3,
   which goes to slot 2 (above limit 1), and restore brings back [2;1].
   Frames: main frame + one activation of function 7 with 2 variables; its self tail call leaves
   everything in place; an ordinary call stacks. *)
Example C20_nonvacuous :
  Inv Z (new_stack, []) /\
  option_map abs (exec [OPush 1; OPush 2; OSave; OPop; OPush 3] (new_stack, [])) = Some ([3; 1], [[2; 1]]) /\
  option_map abs (exec [OPush 1; OPush 2; OSave; OPop; OPush 3; ORestore] (new_stack, [])) = Some ([2; 1], []) /\
  option_map (fun c => len (data (fst c))) (exec [OPush 1; OPush 2; OPop; OPush 3; OPop; OPush 4] (new_stack, [])) = Some 2 /\
  (let s0 := mkFrames (push (mkScope 7 1 30 0 0) (push (mkScope 0 0 99 (-1) (-1)) new_stack)) 3 4 in
   limit (scopes s0) < index (scopes s0) /\
   option_map (fun s => (view (scopes s), index (scopes s), offset s, nvalues s)) (tail_call 7 2 s0)
     = Some (view (scopes s0), 1, 3, 4) /\
   option_map (fun s => (length (view (scopes s)), index (scopes s), offset s, nvalues s)) (call 7 2 12 s0)
     = Some (3%nat, 2, 5, 10)).
Proof.
  split; [apply new_stack_Inv|]. vm_compute. repeat split; reflexivity.
Qed.
