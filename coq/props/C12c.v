(* C12 (c) — the raw output modes -r / -j / --raw-output0, exactly.  Statements only (proofs: coq/c12/RawExact.v over the
   model coq/c12/CliEncode.v [cli_print] = createMarshaler + rawMarshaler.marshal + the terminator of printValues).
   Read off cli/marshaler.go: the string is written with w.Write([]byte(s)) — NO invalid-UTF-8 handling, no quoting, no
   colour; the NUL test is strings.ContainsRune(s, '\x00') and applies only under --raw-output0. *)
From Coq Require Import List NArith ZArith Bool.
From Verif Require Import common.Sexp c12.JsonRef c12.Encode c12.CliEncode c12.CliPure c12.NumProofs c12.ValueProofs
  c12.DecodeProofs c12.RawProofs c12.RawExact.
Import ListNotations.
Open Scope N_scope.

(* the command refuses a value  iff  it is a string containing a NUL byte and --raw-output0 is on *)
Theorem C12c_raw0_rejects_exactly : forall fmt f v tbl, table_of f = Some tbl ->
  (cli_print fmt f v = Err <-> exists s, v = VStr s /\ f_raw0 f = true /\ contains_nul s = true).
Proof. exact raw0_rejects_exactly. Qed.
Print Assumptions C12c_raw0_rejects_exactly.

Theorem C12c_contains_nul : forall s, contains_nul s = true <-> In 0 s.
Proof. exact contains_nul_spec. Qed.
Print Assumptions C12c_contains_nul.

(* a string under -r / -j / --raw-output0: exactly its bytes, for EVERY byte list (valid UTF-8 or not), then NUL
   (--raw-output0), nothing (-j) or newline; -c / --tab / --indent / colour take no part *)
Theorem C12c_raw_string_verbatim : forall fmt f s tbl, table_of f = Some tbl -> rawmode f = true ->
  (f_raw0 f = true -> ~ In 0 s) ->
  cli_print fmt f (VStr s) = Out (s ++ (if f_raw0 f then [0] else if f_join f then [] else [10])).
Proof. exact raw_string_verbatim. Qed.
Print Assumptions C12c_raw_string_verbatim.

(* any two raw flag sets print the same body *)
Theorem C12c_raw_flags_same_body : forall fmt f g s tf tg, table_of f = Some tf -> table_of g = Some tg ->
  rawmode f = true -> rawmode g = true -> ~ In 0 s ->
  exists tail_f tail_g, cli_print fmt f (VStr s) = Out (s ++ tail_f) /\ cli_print fmt g (VStr s) = Out (s ++ tail_g).
Proof. exact raw_flags_same_body. Qed.
Print Assumptions C12c_raw_flags_same_body.

(* a non-string under the raw flags = the JSON encoding in the selected layout, then the selected terminator; the raw
   flags change nothing but the terminator *)
Theorem C12c_raw_nonstring : forall fmt f v tbl, table_of f = Some tbl -> (forall s, v <> VStr s) ->
  cli_print fmt f v = Out (cli_marshal fmt (opts_of f tbl) v ++ terminator f) /\
  forall f', table_of f' = Some tbl -> f_tab f' = f_tab f -> resolve_indent f' = resolve_indent f -> f_color f' = f_color f ->
             exists b, cli_print fmt f v = Out (b ++ terminator f) /\ cli_print fmt f' v = Out (b ++ terminator f').
Proof. exact raw_nonstring. Qed.
Print Assumptions C12c_raw_nonstring.

(* ... and it is valid JSON that reads back as the value *)
Theorem C12c_raw_nonstring_is_json : forall fmt_float, (forall f e, finite f -> fnum_shape e (fmt_float f e) = true) ->
  forall f v b, wfv v -> (forall s, v <> VStr s) -> cli_print fmt_float f v = Out b ->
  exists body, b = body ++ terminator f /\
    strip_ws (strip_sgr body) = encode fmt_float v /\ json_decode (strip_sgr body) = Some (norm fmt_float v).
Proof. exact raw_nonstring_is_json. Qed.
Print Assumptions C12c_raw_nonstring_is_json.

(* non-vacuity: 0xC3 alone under -r is written as it is (without -r: the escape \ufffd in quotes); "a\0b" is refused by --raw-output0, printed
   by -r and -j; -r -j --raw-output0 together end with NUL; [ "\0" ] under --raw-output0 is JSON followed by NUL *)
Example C12c_nonvacuous : forall fmt,
  cli_print fmt (fl true false false) (VStr [0xC3]) = Out [0xC3; 10] /\
  cli_print fmt (fl false false false) (VStr [0xC3]) = Out [34; 92; 117; 102; 102; 102; 100; 34; 10] /\
  cli_print fmt (fl false true false) (VStr [97; 0; 98]) = Err /\
  cli_print fmt (fl true false false) (VStr [97; 0; 98]) = Out [97; 0; 98; 10] /\
  cli_print fmt (fl false false true) (VStr [97; 0; 98]) = Out [97; 0; 98] /\
  cli_print fmt (fl true true true) (VStr [97]) = Out [97; 0] /\
  cli_print fmt (fl false true false) (VArr [VStr [0]]) = Out [91; 10; 32; 32; 34; 92; 117; 48; 48; 48; 48; 34; 10; 93; 0].
Proof. exact raw_examples. Qed.
