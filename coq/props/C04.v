(* C04 — Compiler optimisations never change what a query outputs (GROUNDWORK).

   The check (checks/c04.py) needs no hook in compiler.go: every generated program is compared with
   variants in which a semantics-preserving source rewrite defeats the precondition of one optimisation
   (harness/sem/c04.go R1..R7).  This file proves, in the reference semantics coq/sem, that
     - the rewrite "q  ->  (q | .)" in the positions the stream uses is semantics preserving
       (same computation, 3 units of fuel apart: by C01_fuel_monotone the observations coincide);
     - the model of the constant folder of query.go (toNumber / toIndexKey: Sem.term_index_key) is
       sound: a term folded to c emits exactly c, once, for every input, and indexing by a folded
       key (opindex) is the general _index call on that key.
   NOT proved (visible below as C04_full): the unobservability of the optimisations of the real
   compiler (peephole, tail calls, folding of nested literals at bytecode level); the rewrites R3 on
   arguments of jq-DEFINED functions and R4 on function bodies (they change closure bodies stored in
   environments; R3 on arguments of native functions is proved). *)
From Coq Require Import String.
From Coq Require Import List ZArith NArith.
From Verif Require Import common.Sexp sem.JV sem.Syntax sem.Natives sem.Sem sem.SemProofs sem.OptProofs gen.GenBuiltins.
Import ListNotations.

(* [run_with opts q v n obs]: the real compiler with the set of optimisations [opts] enabled yields the
   observation obs.  Not proved here. *)
Definition C04_full (opt : Type) (run_with : (opt -> bool) -> query -> jv -> nat -> list jv * ending -> Prop) : Prop :=
  forall opts opts' q v n obs obs', run_with opts q v n obs -> run_with opts' q v n obs' -> obs = obs'.

Theorem C04_pipe_identity : forall bs n rho q v ps k,
  eval_q bs (3 + n) rho (q_bin q OpPipe q_identity) v ps k = eval_q bs (2 + n) rho q v ps k.
Proof. exact pipe_identity. Qed.
Print Assumptions C04_pipe_identity.

Theorem C04_wrap_identity : forall bs n rho q v ps k,
  eval_q bs (5 + n) rho (wrap q) v ps k = eval_q bs (2 + n) rho q v ps k.
Proof. exact wrap_id. Qed.
Print Assumptions C04_wrap_identity.

(* R5 on an `if` without else (and on the last elif of a chain without else): the implicit branch is `.` *)
Theorem C04_if_explicit_else : forall bs n rho c a v ps k,
  eval_t bs (3 + n) rho (Term (TIf c a [] (Some q_identity)) []) v ps k =
  eval_t bs (3 + n) rho (Term (TIf c a [] None) []) v ps k.
Proof. exact if_explicit_else. Qed.
Print Assumptions C04_if_explicit_else.

(* R9: a key argument q of an index / slice / getpath is rewritten to (q, empty), which forks and therefore
   defeats the elision of the path markers around one-instruction arguments *)
Theorem C04_comma_empty : forall bs n rho q v ps k, not_redefined bs rho "empty" 0 ->
  meq (eval_q bs (S (S (S (S n)))) rho (q_bin q OpComma q_empty) v ps k) (eval_q bs (S (S (S n))) rho q v ps k).
Proof. exact empty_unit_right. Qed.
Print Assumptions C04_comma_empty.

(* R3 on operators *)
Theorem C04_wrap_operands : forall bs n rho o a b v ps k, arith_op o = true ->
  eval_q bs (6 + n) rho (q_bin (wrap a) o (wrap b)) v ps k = eval_q bs (3 + n) rho (q_bin a o b) v ps k.
Proof. exact wrap_operands. Qed.
Print Assumptions C04_wrap_operands.

(* R5 *)
Theorem C04_wrap_if : forall bs n rho c a b v ps k,
  eval_t bs (6 + n) rho (Term (TIf (wrap c) (wrap a) [] (Some (wrap b))) []) v ps k =
  eval_t bs (3 + n) rho (Term (TIf c a [] (Some b)) []) v ps k.
Proof. exact wrap_if. Qed.
Print Assumptions C04_wrap_if.

(* R1 *)
Theorem C04_wrap_array : forall bs n rho a b v ps k,
  eval_t bs (7 + n) rho (Term (TArray (Some (q_bin (wrap a) OpComma (wrap b)))) []) v ps k =
  eval_t bs (4 + n) rho (Term (TArray (Some (q_bin a OpComma b))) []) v ps k.
Proof. exact wrap_array2. Qed.
Print Assumptions C04_wrap_array.

Theorem C04_wrap_object : forall bs n rho key a v ps k, is_var_name key = false ->
  eval_t bs (6 + n) rho (Term (TObject [ObjectKeyVal key None None (Some (wrap a))]) []) v ps k =
  eval_t bs (3 + n) rho (Term (TObject [ObjectKeyVal key None None (Some a)]) []) v ps k.
Proof. exact wrap_object1. Qed.
Print Assumptions C04_wrap_object.

(* R3 on the arguments of native functions (incl. path, getpath, _modify): one and two arguments *)
Theorem C04_wrap_native_arg1 : forall bs n rho name a v ps k,
  is_var_name name = false -> lookup_fun rho name 1 = None -> lookup_builtin bs name 1 = None ->
  call bs (7 + n) rho name [wrap a] v ps k = call bs (4 + n) rho name [a] v ps k.
Proof. exact wrap_native_arg1. Qed.
Print Assumptions C04_wrap_native_arg1.

Theorem C04_wrap_native_arg2 : forall bs n rho name a b v ps k,
  is_var_name name = false -> lookup_fun rho name 2 = None -> lookup_builtin bs name 2 = None ->
  call bs (8 + n) rho name [wrap a; wrap b] v ps k = call bs (5 + n) rho name [a; b] v ps k.
Proof. exact wrap_native_arg2. Qed.
Print Assumptions C04_wrap_native_arg2.

(* the folder model is sound: folded terms are constant generators of exactly one value *)
Theorem C04_fold_sound : forall bs t c, term_index_key t = Some c ->
  forall n rho v ps k, eval_t bs (3 + n) rho t v ps k = k (plain c) ps.
Proof. exact index_key_const_sound. Qed.
Print Assumptions C04_fold_sound.

(* R2: opindex on a folded key = _index on the same key *)
Theorem C04_const_index : forall bs n rho e iq fds t l o r pats c v ps k,
  iq = Query [] fds (Some t) l o r pats -> term_index_key t = Some c ->
  ev_index (evals_n bs (8 + n)) rho e (Index [] None (Some (wrap iq)) None false) v ps k =
  ev_index (evals_n bs (8 + n)) rho e (Index [] None (Some iq) None false) v ps k.
Proof. exact const_index_static_eq_dynamic. Qed.
Print Assumptions C04_const_index.

(* non-vacuity: -1 folds to the number -1 *)
Example fold_minus_one :
  term_index_key (Term (TUnary OpSub (Term (TNumber (codes "1") (NInt 1)) [])) []) = Some (VNum (NInt (-1))).
Proof. reflexivity. Qed.
