(* C11 — One total order governs comparison, sorting, grouping and key order.
   Statements only: each named Definition C11_xxx : Prop is one statement; the Theorems at the end prove
   conjunctions of them, each closed by [exact] of lemmas proved in coq/c11/*.v.
   [compare] is the model of gojq.Compare (Value.v), [good] the property's domain: NaN-free values whose
   floats are finite with magnitude < 2^53, integers of any size as int or *big.Int (json.Number is
   normalised by parseNumber before Compare looks at it).  [denote] forgets number representations
   (numbers become exact reals).  Standard-library real-number axioms enter through Flocq's B2R. *)
From Coq Require Import List ZArith NArith Bool Reals.
From Flocq Require Import Core IEEE754.BinarySingleNaN.
From Coq Require Import Sorting.Sorted Sorting.Permutation.
From Verif Require Import c11.Value c11.Natives c11.Spec c11.OrderGeneric c11.NumProofs c11.OrderProofs c11.SortProofs c11.NativesProofs c11.SpecProofs c11.SpecEquiv.
Import ListNotations.
Open Scope nat_scope.

(* ---------- 1. Compare is a total preorder on the domain ---------- *)

(* the number rows compute the order of the exact values, through float64(int)/bigToFloat rounding *)
Definition C11_numbers_exact : Prop := forall a b, good_num a -> good_num b -> cmp_num a b = Rcompare (num_R a) (num_R b).

(* null < false < true < numbers < strings < arrays < objects, whatever the contents *)
Definition C11_type_ranking : Prop :=
  (type_index VNull = 0%Z /\ type_index (VBool false) = 1%Z /\ type_index (VBool true) = 2%Z /\
   (forall n, type_index (VNum n) = 3%Z) /\ (forall s, type_index (VStr s) = 4%Z) /\
   (forall l, type_index (VArr l) = 5%Z) /\ (forall m, type_index (VObj m) = 6%Z)) /\
  forall a b, (type_index a < type_index b)%Z -> compare a b = Lt.

Definition C11_reflexive : Prop := forall a, good a -> compare a a = Eq.

Definition C11_opposite : Prop := forall a b, good a -> good b -> compare b a = CompOpp (compare a b).

(* antisymmetric up to value equality: Compare-equal = same denotation *)
Definition C11_antisymmetric : Prop := forall a b, good a -> good b -> (compare a b = Eq <-> denote a = denote b).

Definition C11_antisymmetric_le : Prop := forall a b, good a -> good b -> le a b -> le b a -> compare a b = Eq.

Definition C11_transitive : Prop := forall a b c, good a -> good b -> good c -> le a b -> le b c -> le a c.

(* the strong forms: < and > chains, and Compare-equal values are interchangeable on either side *)
Definition C11_transitive_strict : Prop := forall a b c o, good a -> good b -> good c ->
  compare a b = o -> compare b c = o -> compare a c = o.

Definition C11_equal_left : Prop := forall a b c, good a -> good b -> good c -> compare a b = Eq -> compare a c = compare b c.

Definition C11_equal_right : Prop := forall a b c, good a -> good b -> good c -> compare b c = Eq -> compare a c = compare a b.

Definition C11_total : Prop := forall a b, good a -> good b -> le a b \/ le b a.

(* ==, !=, <, <=, >, >= are the projections of Compare (for ALL values), coherent on the domain *)
Definition C11_operators : Prop := forall a b,
  (op_eq a b = true <-> compare a b = Eq) /\ (op_ne a b = true <-> compare a b <> Eq) /\
  (op_lt a b = true <-> compare a b = Lt) /\ (op_le a b = true <-> compare a b <> Gt) /\
  (op_gt a b = true <-> compare a b = Gt) /\ (op_ge a b = true <-> compare a b <> Lt).

Definition C11_operators_coherent : Prop := forall a b, good a -> good b ->
  op_gt a b = op_lt b a /\ op_ge a b = op_le b a /\ op_le a b = negb (op_lt b a) /\
  op_eq a b = op_le a b && op_le b a /\ op_ne a b = negb (op_eq a b) /\ op_eq a b = op_eq b a.

(* the executable domain test used by the check decides the domain *)
Definition C11_domain_decidable : Prop := forall v, goodb v = true <-> good v.

(* ---------- 2. the consumers of the order (Natives.v copies func.go / operator.go) ----------
   Items are (value, key) pairs as in func.go sortItem; `sort`, `unique`, `min`, `max` use the value as
   its own key, the *_by forms use the key [f] computed by the query.  good_keys: every key in the domain.
   sort.SliceStable is modelled by a stable insertion sort; C11_stable_sort_unique shows that ANY
   ordered arrangement that keeps every class of Compare-equal keys in input order is that list, so the
   only assumption on sort.SliceStable is that it is what its name says. *)

Definition C11_sort_permutation : Prop := forall l : list vitem, Permutation (sort_items compare l) l.

Definition C11_sort_ordered : Prop := forall l : list vitem, good_keys l -> StronglySorted key_le (sort_items compare l).

(* stable: the items whose key is Compare-equal to k appear in their input order, for every k *)
Definition C11_sort_stable : Prop := forall (l : list vitem) k, good k -> good_keys l ->
  filter (same_class k) (sort_items compare l) = filter (same_class k) l.

Definition C11_stable_sort_unique : Prop := forall l out : list vitem,
  good_keys l -> good_keys out -> StronglySorted key_le out ->
  (forall k, good k -> filter (same_class k) out = filter (same_class k) l) ->
  out = sort_items compare l.

(* plain `sort` on values *)
Definition C11_sort_values : Prop := forall l, Forall good l ->
  Permutation (sort_values l) l /\ StronglySorted le (sort_values l).

(* group_by: the groups partition the sorted input (concatenation gives it back), each group is a
   first item followed by items with Compare-equal keys, and every item of an earlier group is
   strictly smaller than every item of a later group (so the runs are maximal). *)
Definition C11_group_by_partition : Prop := forall l : list vitem,
  concat (groups compare (sort_items compare l)) = sort_items compare l.

Definition C11_group_by_runs : Prop := forall l : list vitem, Forall (is_run compare) (groups compare (sort_items compare l)).

Definition C11_group_by_maximal : Prop := forall l : list vitem, good_keys l ->
  StronglySorted (grp_lt compare) (groups compare (sort_items compare l)).

(* unique: sort, then the first item of every group; no two results are Compare-equal *)
Definition C11_unique_first_of_groups : Prop := forall l : list vitem,
  Forall2 (fun u grp => exists t, grp = u :: t) (uniq compare (sort_items compare l)) (groups compare (sort_items compare l)).

Definition C11_unique_strictly_increasing : Prop := forall l : list vitem, good_keys l ->
  StronglySorted key_lt (uniq compare (sort_items compare l)).

(* min_by picks the FIRST minimum, max_by the LAST maximum (what minMaxBy's loop does) *)
Definition C11_min_by_first_minimum : Prop := forall (l : list vitem) j b, good_keys l ->
  min_max_by compare true l = Some (j, b) -> first_min compare l j b.

Definition C11_max_by_last_maximum : Prop := forall (l : list vitem) j b, good_keys l ->
  min_max_by compare false l = Some (j, b) -> last_max compare l j b.

(* bsearch on every sorted in-domain array and every in-domain target *)
Definition C11_bsearch : Prop := forall vs t, Forall good vs -> good t -> StronglySorted le vs ->
  let r := bsearch compare vs t in
  ((0 <= r)%Z ->
     exists x, nth_error vs (Z.to_nat r) = Some x /\ compare x t = Eq /\
               forall k y, k < Z.to_nat r -> nth_error vs k = Some y -> compare y t = Lt) /\
  ((r < 0)%Z ->
     let p := Z.to_nat (- r - 1) in
     p <= length vs /\
     forall k y, nth_error vs k = Some y -> (k < p -> compare y t = Lt) /\ (p <= k -> compare y t = Gt)).

(* array subtraction removes exactly the Compare-equal elements and keeps the order of the rest *)
Definition C11_array_sub_membership : Prop := forall l r x,
  In x (arr_sub compare l r) <-> In x l /\ forall y, In y r -> compare x y <> Eq.

Definition C11_array_sub_is_filter : Prop := forall l r,
  arr_sub compare l r = filter (fun x => forallb (fun y => negb (is_eq (compare x y))) r) l.

(* keys (= object iteration order = output key order in the model): strictly ascending in the value order *)
Definition C11_object_keys_sorted : Prop := forall m, wfb (VObj m) = true ->
  StronglySorted (fun a b => compare a b = Lt) (obj_keys m).

(* indices / index / rindex on arrays: exactly the positions whose window is Compare-equal to the needle *)
Definition C11_indices : Prop := forall vs xs j,
  In j (indices compare vs xs) <-> xs <> [] /\ window_matches compare vs xs j.

(* ---------- 3. the order as the property text words it ----------
   Spec.v: numbers compared as exact rationals (integer arithmetic on m * 2^e), strings compared by
   Unicode code point after strict UTF-8 decoding.  It is the order Compare computes. *)
Definition C11_utf8_order_preserving : Prop := forall a b x y,
  utf8_decode a = Some x -> utf8_decode b = Some y -> lex N.compare a b = lex N.compare x y.
Definition C11_spec_numbers_exact : Prop := forall a b x y,
  num_dyadic a = Some x -> num_dyadic b = Some y -> spec_num a b = Rcompare (num_R a) (num_R b).
Definition C11_stated_order_is_compare : Prop := forall a b, good a -> good b -> spec_compare a b = compare a b.

(* ---------- the theorems: every statement above, proved (one Print Assumptions per group, they are slow) ---------- *)

(* Compare is a total preorder on the domain, and Compare-equality is equality of denotations *)
Theorem C11_total_preorder_thm :
  C11_type_ranking /\
  C11_numbers_exact /\
  C11_reflexive /\
  C11_opposite /\
  C11_antisymmetric /\
  C11_antisymmetric_le /\
  C11_transitive /\
  C11_transitive_strict /\
  C11_equal_left /\
  C11_equal_right /\
  C11_total.
Proof. exact (conj (conj type_index_table type_order) (conj cmp_num_exact (conj compare_refl (conj compare_opp (conj compare_eq_denote (conj le_antisym (conj le_trans (conj compare_trans (conj compare_eq_l (conj compare_eq_r le_total)))))))))). Qed.
Print Assumptions C11_total_preorder_thm.

(* the six operators are the projections of Compare *)
Theorem C11_operators_thm :
  C11_operators /\
  C11_operators_coherent /\
  C11_domain_decidable.
Proof. exact (conj ops_projections (conj ops_coherent goodb_spec)). Qed.
Print Assumptions C11_operators_thm.

(* sort / sort_by return an ordered stable permutation *)
Theorem C11_sort_thm :
  C11_sort_permutation /\
  C11_sort_ordered /\
  C11_sort_stable /\
  C11_sort_values.
Proof. exact (conj sort_permutation (conj sort_ordered (conj sort_stable sort_values_spec))). Qed.
Print Assumptions C11_sort_thm.

(* the stable ordered arrangement is unique (the only assumption on sort.SliceStable) *)
Theorem C11_stable_sort_unique_thm :
  C11_stable_sort_unique.
Proof. exact stable_sort_is_unique. Qed.
Print Assumptions C11_stable_sort_unique_thm.

(* group_by partitions the sorted input into maximal runs of Compare-equal keys *)
Theorem C11_group_by_thm :
  C11_group_by_partition /\
  C11_group_by_runs /\
  C11_group_by_maximal.
Proof. exact (conj group_by_partition (conj group_by_runs group_by_maximal)). Qed.
Print Assumptions C11_group_by_thm.

(* unique = sort, then the first of every run; results pairwise Compare-different *)
Theorem C11_unique_thm :
  C11_unique_first_of_groups /\
  C11_unique_strictly_increasing.
Proof. exact (conj unique_first_of_groups unique_strictly_increasing). Qed.
Print Assumptions C11_unique_thm.

(* min_by = first minimum, max_by = last maximum *)
Theorem C11_min_max_by_thm :
  C11_min_by_first_minimum /\
  C11_max_by_last_maximum.
Proof. exact (conj min_by_is_first_minimum max_by_is_last_maximum). Qed.
Print Assumptions C11_min_max_by_thm.

(* bsearch on sorted arrays *)
Theorem C11_bsearch_thm :
  C11_bsearch.
Proof. exact bsearch_sorted. Qed.
Print Assumptions C11_bsearch_thm.

(* array subtraction *)
Theorem C11_array_sub_thm :
  C11_array_sub_membership /\
  C11_array_sub_is_filter.
Proof. exact (conj array_sub_membership array_sub_is_filter). Qed.
Print Assumptions C11_array_sub_thm.

(* object keys are strictly ascending *)
Theorem C11_object_keys_thm :
  C11_object_keys_sorted.
Proof. exact object_keys_sorted. Qed.
Print Assumptions C11_object_keys_thm.

(* indices on arrays *)
Theorem C11_indices_thm :
  C11_indices.
Proof. exact indices_compare. Qed.
Print Assumptions C11_indices_thm.

(* the stated order (exact rationals, code points) is the order Compare computes *)
Theorem C11_stated_order_thm :
  C11_utf8_order_preserving /\
  C11_spec_numbers_exact /\
  C11_stated_order_is_compare.
Proof. exact (conj (fun a b x y => utf8_order_preserving (length a) a b x y (le_n _)) (conj spec_num_exact spec_compare_is_compare)). Qed.
Print Assumptions C11_stated_order_thm.

(* ---------- non-vacuity, and why the domain excludes NaN and floats >= 2^53 ---------- *)
Definition ex_vals : list value :=
  [VNull; VBool false; VNum (NInt 1); VNum (NFlt (Z_to_f64 1)); VNum (NBig (2 ^ 70));
   VNum (NFlt (Z_to_f64 (2 ^ 53 - 1))); VStr [97%N]; VArr [VNum (NInt 1); VArr []];
   VObj [([97%N], VNum (NFlt (Z_to_f64 (-3))))]].
Example C11_nonvacuous :
  Forall good ex_vals /\
  compare (VNum (NInt 1)) (VNum (NFlt (Z_to_f64 1))) = Eq /\
  compare (VNum (NBig (2 ^ 70))) (VNum (NFlt (Z_to_f64 (2 ^ 53 - 1)))) = Gt /\
  compare (VArr [VNum (NInt 1); VArr []]) (VArr [VNum (NFlt (Z_to_f64 1))]) = Gt.
Proof.
  split; [|vm_compute; auto].
  assert (H : forallb goodb ex_vals = true) by (vm_compute; reflexivity).
  rewrite forallb_forall in H. apply Forall_forall. intros v Hv. apply goodb_spec. now apply H.
Qed.

(* at 2^53 the float conversion merges neighbours: 2^53 (int) = 2^53 (float) = 2^53+1 (int) but
   2^53 (int) < 2^53+1 (int): equality is not transitive once a float of magnitude 2^53 takes part *)
Example C11_bound_needed :
  let a := VNum (NInt (2 ^ 53)) in let b := VNum (NFlt (Z_to_f64 (2 ^ 53))) in let c := VNum (NInt (2 ^ 53 + 1)) in
  compare a b = Eq /\ compare b c = Eq /\ compare a c = Lt /\ goodb b = false.
Proof. vm_compute. auto. Qed.

(* NaN is smaller than itself: not even reflexive *)
Example C11_nan_excluded :
  compare (VNum (NFlt B754_nan)) (VNum (NFlt B754_nan)) = Lt /\ goodb (VNum (NFlt B754_nan)) = false.
Proof. vm_compute. auto. Qed.
