(* C11 — One total order governs comparison, sorting, grouping and key order.
   Statements only; every theorem is closed by [exact] of a lemma proved in coq/c11/*.v.
   [compare] is the model of gojq.Compare (Value.v), [good] the property's domain: NaN-free values whose
   floats are finite with magnitude < 2^53, integers of any size as int or *big.Int (json.Number is
   normalised by parseNumber before Compare looks at it).  [denote] forgets number representations
   (numbers become exact reals).  Standard-library real-number axioms enter through Flocq's B2R. *)
From Coq Require Import List ZArith NArith Bool Reals.
From Flocq Require Import Core IEEE754.BinarySingleNaN.
From Verif Require Import c11.Value c11.Natives c11.OrderGeneric c11.NumProofs c11.OrderProofs.
Import ListNotations.

(* ---------- 1. Compare is a total preorder on the domain ---------- *)

(* the number rows compute the order of the exact values, through float64(int)/bigToFloat rounding *)
Theorem C11_numbers_exact : forall a b, good_num a -> good_num b -> cmp_num a b = Rcompare (num_R a) (num_R b).
Proof. exact cmp_num_exact. Qed.
Print Assumptions C11_numbers_exact.

Theorem C11_reflexive : forall a, good a -> compare a a = Eq.
Proof. exact compare_refl. Qed.
Print Assumptions C11_reflexive.

Theorem C11_opposite : forall a b, good a -> good b -> compare b a = CompOpp (compare a b).
Proof. exact compare_opp. Qed.
Print Assumptions C11_opposite.

(* antisymmetric up to value equality: Compare-equal = same denotation *)
Theorem C11_antisymmetric : forall a b, good a -> good b -> (compare a b = Eq <-> denote a = denote b).
Proof. exact compare_eq_denote. Qed.
Print Assumptions C11_antisymmetric.

Theorem C11_antisymmetric_le : forall a b, good a -> good b -> le a b -> le b a -> compare a b = Eq.
Proof. exact le_antisym. Qed.
Print Assumptions C11_antisymmetric_le.

Theorem C11_transitive : forall a b c, good a -> good b -> good c -> le a b -> le b c -> le a c.
Proof. exact le_trans. Qed.
Print Assumptions C11_transitive.

(* the strong forms: < and > chains, and Compare-equal values are interchangeable on either side *)
Theorem C11_transitive_strict : forall a b c o, good a -> good b -> good c ->
  compare a b = o -> compare b c = o -> compare a c = o.
Proof. exact compare_trans. Qed.
Print Assumptions C11_transitive_strict.

Theorem C11_equal_left : forall a b c, good a -> good b -> good c -> compare a b = Eq -> compare a c = compare b c.
Proof. exact compare_eq_l. Qed.
Print Assumptions C11_equal_left.

Theorem C11_equal_right : forall a b c, good a -> good b -> good c -> compare b c = Eq -> compare a c = compare a b.
Proof. exact compare_eq_r. Qed.
Print Assumptions C11_equal_right.

Theorem C11_total : forall a b, good a -> good b -> le a b \/ le b a.
Proof. exact le_total. Qed.
Print Assumptions C11_total.

(* ==, !=, <, <=, >, >= are the projections of Compare (for ALL values), coherent on the domain *)
Theorem C11_operators : forall a b,
  (op_eq a b = true <-> compare a b = Eq) /\ (op_ne a b = true <-> compare a b <> Eq) /\
  (op_lt a b = true <-> compare a b = Lt) /\ (op_le a b = true <-> compare a b <> Gt) /\
  (op_gt a b = true <-> compare a b = Gt) /\ (op_ge a b = true <-> compare a b <> Lt).
Proof. exact ops_projections. Qed.
Print Assumptions C11_operators.

Theorem C11_operators_coherent : forall a b, good a -> good b ->
  op_gt a b = op_lt b a /\ op_ge a b = op_le b a /\ op_le a b = negb (op_lt b a) /\
  op_eq a b = op_le a b && op_le b a /\ op_ne a b = negb (op_eq a b) /\ op_eq a b = op_eq b a.
Proof. exact ops_coherent. Qed.
Print Assumptions C11_operators_coherent.

(* the executable domain test used by the check decides the domain *)
Theorem C11_domain_decidable : forall v, goodb v = true <-> good v.
Proof. exact goodb_spec. Qed.
Print Assumptions C11_domain_decidable.

(* ---------- non-vacuity, and why the domain excludes NaN and floats >= 2^53 ---------- *)
Definition ex_vals : list value :=
  [VNull; VBool false; VNum (NInt 1); VNum (NFlt (Z_to_f64 1)); VNum (NBig (2 ^ 70));
   VNum (NFlt (Z_to_f64 (2 ^ 53 - 1))); VStr [97%N]; VArr [VNum (NInt 1); VArr []];
   VObj [([97%N], VNum (NFlt (Z_to_f64 (-3))))]].
Example C11_nonvacuous :
  Forall good ex_vals /\
  compare (VNum (NInt 1)) (VNum (NFlt (Z_to_f64 1))) = Eq /\
  compare (VNum (NBig (2 ^ 70))) (VNum (NFlt (Z_to_f64 (2 ^ 53 - 1)))) = Gt /\
  compare (VArr [VNum (NInt 1); VArr []]) (VArr [VNum (NFlt (Z_to_f64 1))]) = Gt.
Proof.
  split; [|vm_compute; auto].
  assert (H : forallb goodb ex_vals = true) by (vm_compute; reflexivity).
  rewrite forallb_forall in H. apply Forall_forall. intros v Hv. apply goodb_spec. now apply H.
Qed.

(* at 2^53 the float conversion merges neighbours: 2^53 (int) = 2^53 (float) = 2^53+1 (int) but
   2^53 (int) < 2^53+1 (int): equality is not transitive once a float of magnitude 2^53 takes part *)
Example C11_bound_needed :
  let a := VNum (NInt (2 ^ 53)) in let b := VNum (NFlt (Z_to_f64 (2 ^ 53))) in let c := VNum (NInt (2 ^ 53 + 1)) in
  compare a b = Eq /\ compare b c = Eq /\ compare a c = Lt /\ goodb b = false.
Proof. vm_compute. auto. Qed.

(* NaN is smaller than itself: not even reflexive *)
Example C11_nan_excluded :
  compare (VNum (NFlt B754_nan)) (VNum (NFlt B754_nan)) = Lt /\ goodb (VNum (NFlt B754_nan)) = false.
Proof. vm_compute. auto. Qed.
