(* C11 — One total order governs comparison, sorting, grouping and key order.
   Statements only; every theorem is closed by [exact] of a lemma proved in coq/c11/*.v.
   [compare] is the model of gojq.Compare (Value.v), [good] the property's domain: NaN-free values whose
   floats are finite with magnitude < 2^53, integers of any size as int or *big.Int (json.Number is
   normalised by parseNumber before Compare looks at it).  [denote] forgets number representations
   (numbers become exact reals).  Standard-library real-number axioms enter through Flocq's B2R. *)
From Coq Require Import List ZArith NArith Bool Reals.
From Flocq Require Import Core IEEE754.BinarySingleNaN.
From Coq Require Import Sorting.Sorted Sorting.Permutation.
From Verif Require Import c11.Value c11.Natives c11.OrderGeneric c11.NumProofs c11.OrderProofs c11.SortProofs c11.NativesProofs.
Import ListNotations.
Open Scope nat_scope.

(* ---------- 1. Compare is a total preorder on the domain ---------- *)

(* the number rows compute the order of the exact values, through float64(int)/bigToFloat rounding *)
Theorem C11_numbers_exact : forall a b, good_num a -> good_num b -> cmp_num a b = Rcompare (num_R a) (num_R b).
Proof. exact cmp_num_exact. Qed.
Print Assumptions C11_numbers_exact.

Theorem C11_reflexive : forall a, good a -> compare a a = Eq.
Proof. exact compare_refl. Qed.
Print Assumptions C11_reflexive.

Theorem C11_opposite : forall a b, good a -> good b -> compare b a = CompOpp (compare a b).
Proof. exact compare_opp. Qed.
Print Assumptions C11_opposite.

(* antisymmetric up to value equality: Compare-equal = same denotation *)
Theorem C11_antisymmetric : forall a b, good a -> good b -> (compare a b = Eq <-> denote a = denote b).
Proof. exact compare_eq_denote. Qed.
Print Assumptions C11_antisymmetric.

Theorem C11_antisymmetric_le : forall a b, good a -> good b -> le a b -> le b a -> compare a b = Eq.
Proof. exact le_antisym. Qed.
Print Assumptions C11_antisymmetric_le.

Theorem C11_transitive : forall a b c, good a -> good b -> good c -> le a b -> le b c -> le a c.
Proof. exact le_trans. Qed.
Print Assumptions C11_transitive.

(* the strong forms: < and > chains, and Compare-equal values are interchangeable on either side *)
Theorem C11_transitive_strict : forall a b c o, good a -> good b -> good c ->
  compare a b = o -> compare b c = o -> compare a c = o.
Proof. exact compare_trans. Qed.
Print Assumptions C11_transitive_strict.

Theorem C11_equal_left : forall a b c, good a -> good b -> good c -> compare a b = Eq -> compare a c = compare b c.
Proof. exact compare_eq_l. Qed.
Print Assumptions C11_equal_left.

Theorem C11_equal_right : forall a b c, good a -> good b -> good c -> compare b c = Eq -> compare a c = compare a b.
Proof. exact compare_eq_r. Qed.
Print Assumptions C11_equal_right.

Theorem C11_total : forall a b, good a -> good b -> le a b \/ le b a.
Proof. exact le_total. Qed.
Print Assumptions C11_total.

(* ==, !=, <, <=, >, >= are the projections of Compare (for ALL values), coherent on the domain *)
Theorem C11_operators : forall a b,
  (op_eq a b = true <-> compare a b = Eq) /\ (op_ne a b = true <-> compare a b <> Eq) /\
  (op_lt a b = true <-> compare a b = Lt) /\ (op_le a b = true <-> compare a b <> Gt) /\
  (op_gt a b = true <-> compare a b = Gt) /\ (op_ge a b = true <-> compare a b <> Lt).
Proof. exact ops_projections. Qed.
Print Assumptions C11_operators.

Theorem C11_operators_coherent : forall a b, good a -> good b ->
  op_gt a b = op_lt b a /\ op_ge a b = op_le b a /\ op_le a b = negb (op_lt b a) /\
  op_eq a b = op_le a b && op_le b a /\ op_ne a b = negb (op_eq a b) /\ op_eq a b = op_eq b a.
Proof. exact ops_coherent. Qed.
Print Assumptions C11_operators_coherent.

(* the executable domain test used by the check decides the domain *)
Theorem C11_domain_decidable : forall v, goodb v = true <-> good v.
Proof. exact goodb_spec. Qed.
Print Assumptions C11_domain_decidable.

(* ---------- 2. the consumers of the order (Natives.v copies func.go / operator.go) ----------
   Items are (value, key) pairs as in func.go sortItem; `sort`, `unique`, `min`, `max` use the value as
   its own key, the *_by forms use the key [f] computed by the query.  good_keys: every key in the domain.
   sort.SliceStable is modelled by a stable insertion sort; C11_stable_sort_unique shows that ANY
   ordered arrangement that keeps every class of Compare-equal keys in input order is that list, so the
   only assumption on sort.SliceStable is that it is what its name says. *)

Theorem C11_sort_permutation : forall l : list vitem, Permutation (sort_items compare l) l.
Proof. exact sort_permutation. Qed.
Print Assumptions C11_sort_permutation.

Theorem C11_sort_ordered : forall l : list vitem, good_keys l -> StronglySorted key_le (sort_items compare l).
Proof. exact sort_ordered. Qed.
Print Assumptions C11_sort_ordered.

(* stable: the items whose key is Compare-equal to k appear in their input order, for every k *)
Theorem C11_sort_stable : forall (l : list vitem) k, good k -> good_keys l ->
  filter (same_class k) (sort_items compare l) = filter (same_class k) l.
Proof. exact sort_stable. Qed.
Print Assumptions C11_sort_stable.

Theorem C11_stable_sort_unique : forall l out : list vitem,
  good_keys l -> good_keys out -> StronglySorted key_le out ->
  (forall k, good k -> filter (same_class k) out = filter (same_class k) l) ->
  out = sort_items compare l.
Proof. exact stable_sort_is_unique. Qed.
Print Assumptions C11_stable_sort_unique.

(* plain `sort` on values *)
Theorem C11_sort_values : forall l, Forall good l ->
  Permutation (sort_values l) l /\ StronglySorted le (sort_values l).
Proof. exact sort_values_spec. Qed.
Print Assumptions C11_sort_values.

(* group_by: the groups partition the sorted input (concatenation gives it back), each group is a
   first item followed by items with Compare-equal keys, and every item of an earlier group is
   strictly smaller than every item of a later group (so the runs are maximal). *)
Theorem C11_group_by_partition : forall l : list vitem,
  concat (groups compare (sort_items compare l)) = sort_items compare l.
Proof. exact group_by_partition. Qed.
Print Assumptions C11_group_by_partition.

Theorem C11_group_by_runs : forall l : list vitem, Forall (is_run compare) (groups compare (sort_items compare l)).
Proof. exact group_by_runs. Qed.
Print Assumptions C11_group_by_runs.

Theorem C11_group_by_maximal : forall l : list vitem, good_keys l ->
  StronglySorted (grp_lt compare) (groups compare (sort_items compare l)).
Proof. exact group_by_maximal. Qed.
Print Assumptions C11_group_by_maximal.

(* unique: sort, then the first item of every group; no two results are Compare-equal *)
Theorem C11_unique_first_of_groups : forall l : list vitem,
  Forall2 (fun u grp => exists t, grp = u :: t) (uniq compare (sort_items compare l)) (groups compare (sort_items compare l)).
Proof. exact unique_first_of_groups. Qed.
Print Assumptions C11_unique_first_of_groups.

Theorem C11_unique_strictly_increasing : forall l : list vitem, good_keys l ->
  StronglySorted key_lt (uniq compare (sort_items compare l)).
Proof. exact unique_strictly_increasing. Qed.
Print Assumptions C11_unique_strictly_increasing.

(* min_by picks the FIRST minimum, max_by the LAST maximum (what minMaxBy's loop does) *)
Theorem C11_min_by_first_minimum : forall (l : list vitem) j b, good_keys l ->
  min_max_by compare true l = Some (j, b) -> first_min compare l j b.
Proof. exact min_by_is_first_minimum. Qed.
Print Assumptions C11_min_by_first_minimum.

Theorem C11_max_by_last_maximum : forall (l : list vitem) j b, good_keys l ->
  min_max_by compare false l = Some (j, b) -> last_max compare l j b.
Proof. exact max_by_is_last_maximum. Qed.
Print Assumptions C11_max_by_last_maximum.

(* bsearch on every sorted in-domain array and every in-domain target *)
Theorem C11_bsearch : forall vs t, Forall good vs -> good t -> StronglySorted le vs ->
  let r := bsearch compare vs t in
  ((0 <= r)%Z ->
     exists x, nth_error vs (Z.to_nat r) = Some x /\ compare x t = Eq /\
               forall k y, k < Z.to_nat r -> nth_error vs k = Some y -> compare y t = Lt) /\
  ((r < 0)%Z ->
     let p := Z.to_nat (- r - 1) in
     p <= length vs /\
     forall k y, nth_error vs k = Some y -> (k < p -> compare y t = Lt) /\ (p <= k -> compare y t = Gt)).
Proof. exact bsearch_sorted. Qed.
Print Assumptions C11_bsearch.

(* array subtraction removes exactly the Compare-equal elements and keeps the order of the rest *)
Theorem C11_array_sub_membership : forall l r x,
  In x (arr_sub compare l r) <-> In x l /\ forall y, In y r -> compare x y <> Eq.
Proof. exact array_sub_membership. Qed.
Print Assumptions C11_array_sub_membership.

Theorem C11_array_sub_is_filter : forall l r,
  arr_sub compare l r = filter (fun x => forallb (fun y => negb (is_eq (compare x y))) r) l.
Proof. exact array_sub_is_filter. Qed.
Print Assumptions C11_array_sub_is_filter.

(* keys (= object iteration order = output key order in the model): strictly ascending in the value order *)
Theorem C11_object_keys_sorted : forall m, wfb (VObj m) = true ->
  StronglySorted (fun a b => compare a b = Lt) (obj_keys m).
Proof. exact object_keys_sorted. Qed.
Print Assumptions C11_object_keys_sorted.

(* ---------- non-vacuity, and why the domain excludes NaN and floats >= 2^53 ---------- *)
Definition ex_vals : list value :=
  [VNull; VBool false; VNum (NInt 1); VNum (NFlt (Z_to_f64 1)); VNum (NBig (2 ^ 70));
   VNum (NFlt (Z_to_f64 (2 ^ 53 - 1))); VStr [97%N]; VArr [VNum (NInt 1); VArr []];
   VObj [([97%N], VNum (NFlt (Z_to_f64 (-3))))]].
Example C11_nonvacuous :
  Forall good ex_vals /\
  compare (VNum (NInt 1)) (VNum (NFlt (Z_to_f64 1))) = Eq /\
  compare (VNum (NBig (2 ^ 70))) (VNum (NFlt (Z_to_f64 (2 ^ 53 - 1)))) = Gt /\
  compare (VArr [VNum (NInt 1); VArr []]) (VArr [VNum (NFlt (Z_to_f64 1))]) = Gt.
Proof.
  split; [|vm_compute; auto].
  assert (H : forallb goodb ex_vals = true) by (vm_compute; reflexivity).
  rewrite forallb_forall in H. apply Forall_forall. intros v Hv. apply goodb_spec. now apply H.
Qed.

(* at 2^53 the float conversion merges neighbours: 2^53 (int) = 2^53 (float) = 2^53+1 (int) but
   2^53 (int) < 2^53+1 (int): equality is not transitive once a float of magnitude 2^53 takes part *)
Example C11_bound_needed :
  let a := VNum (NInt (2 ^ 53)) in let b := VNum (NFlt (Z_to_f64 (2 ^ 53))) in let c := VNum (NInt (2 ^ 53 + 1)) in
  compare a b = Eq /\ compare b c = Eq /\ compare a c = Lt /\ goodb b = false.
Proof. vm_compute. auto. Qed.

(* NaN is smaller than itself: not even reflexive *)
Example C11_nan_excluded :
  compare (VNum (NFlt B754_nan)) (VNum (NFlt B754_nan)) = Lt /\ goodb (VNum (NFlt B754_nan)) = false.
Proof. vm_compute. auto. Qed.
