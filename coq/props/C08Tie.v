(* C08 — tie of the hand-transcribed models to the source text (kept apart from props/C08.v so that a
   changed source function breaks only these obligations; the theorems of C08.v are then about a stale model,
   and the correspondence streams say where the behaviours differ). *)
From Verif Require Import gen.GenTables gen.GenFlagTable.

(* ---- tie of the two hand transcriptions to the source text ------------------------------------------------
   LR.v transcribes yylex1 and the Parse skeleton, Flags.v transcribes parseFlags; the translators fingerprint
   those function bodies in the current tree (go/printer text, comments and positions dropped) and generate
   [true] only when they are the text that was transcribed.  (Behavioural tie: the lr and flags
   correspondence streams.) *)
Theorem C08_driver_model_current : driver_text_is_the_transcribed_one = true.
Proof. exact (eq_refl true). Qed.
Print Assumptions C08_driver_model_current.

Theorem C08_flags_model_current : parseFlags_text_is_the_transcribed_one = true.
Proof. exact (eq_refl true). Qed.
Print Assumptions C08_flags_model_current.

