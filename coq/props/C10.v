(* C10 — Integer arithmetic is exact and number literals are not degraded.
   Statements only; every theorem is closed by [exact] of a lemma proved elsewhere.
   The int kernels (add_int … length_int, negate) are TRANSLATED from operator.go / func.go of the
   current tree (coq/gen/GenArith.v); NumModel is the hand model of representation dispatch. *)
From Coq Require Import ZArith List NArith.
From Verif Require Import common.Int64 common.Sexp gen.GenArith c10.Arith64 c10.NumModel c10.NumProofs c10.Decimal.
Open Scope Z_scope.

(* The int kernels return the mathematically exact result: an int when it fits in 64 bits, the
   exact big integer otherwise (no wrap, no loss of low digits, no needless promotion). *)
Theorem C10_add_exact : forall l r, in_int l -> in_int r -> add_int l r = exact (l + r).
Proof. exact add_exact. Qed.
Print Assumptions C10_add_exact.

Theorem C10_sub_exact : forall l r, in_int l -> in_int r -> sub_int l r = exact (l - r).
Proof. exact sub_exact. Qed.
Print Assumptions C10_sub_exact.

Theorem C10_mul_exact : forall l r, in_int l -> in_int r -> mul_int l r = exact (l * r).
Proof. exact mul_exact. Qed.
Print Assumptions C10_mul_exact.

Theorem C10_negate_exact : forall v, in_int v -> negate v = exact (- v).
Proof. exact negate_exact. Qed.
Print Assumptions C10_negate_exact.

Theorem C10_abs_exact : forall v, in_int v -> abs_int v = exact (Z.abs v).
Proof. exact abs_exact. Qed.
Print Assumptions C10_abs_exact.

Theorem C10_length_exact : forall v, in_int v -> length_int v = exact (Z.abs v).
Proof. exact length_exact. Qed.
Print Assumptions C10_length_exact.

(* Division: by zero an error; exact quotient whenever integral; never a truncated integer. *)
Theorem C10_div_zero : forall l, div_int l 0 = RZeroDiv.
Proof. exact div_zero. Qed.
Print Assumptions C10_div_zero.

Theorem C10_div_exact : forall l r, in_int l -> in_int r -> r <> 0 -> Z.rem l r = 0 ->
  div_int l r = exact (Z.quot l r).
Proof. exact div_exact. Qed.
Print Assumptions C10_div_exact.

Theorem C10_div_inexact : forall l r, in_int l -> in_int r -> r <> 0 -> Z.rem l r <> 0 ->
  div_int l r = RFltDiv l r.
Proof. exact div_inexact. Qed.
Print Assumptions C10_div_inexact.

(* Modulo: error by zero, otherwise the truncated remainder, which has the sign of the dividend. *)
Theorem C10_mod_zero : forall l, mod_int l 0 = RZeroMod.
Proof. exact mod_zero. Qed.
Print Assumptions C10_mod_zero.

Theorem C10_mod_exact : forall l r, in_int l -> in_int r -> r <> 0 -> mod_int l r = RInt (Z.rem l r).
Proof. exact mod_exact. Qed.
Print Assumptions C10_mod_exact.

Theorem C10_mod_sign : forall l r, r <> 0 -> 0 <= Z.rem l r * l /\ Z.abs (Z.rem l r) < Z.abs r.
Proof. exact rem_sign. Qed.
Print Assumptions C10_mod_sign.

(* Lifted to integers of ANY magnitude in EVERY exact Go representation (int, *big.Int,
   integer-literal json.Number): 9 representation pairs per operator. *)
Theorem C10_binop_exact : forall o a b l r, wfnum a -> wfnum b -> value a = Some l -> value b = Some r ->
  binop_spec o l r (binop o a b).
Proof. exact binop_exact. Qed.
Print Assumptions C10_binop_exact.

Theorem C10_cmp_exact : forall a b l r, wfnum a -> wfnum b -> value a = Some l -> value b = Some r ->
  cmp a b = Some (Z.compare l r).
Proof. exact cmp_exact. Qed.
Print Assumptions C10_cmp_exact.

Theorem C10_neg_lit : forall t z, lit_value t = Some z -> is_minus (tl t) = false ->
  bvalue (neg (NLit t)) = Some (- z).
Proof. exact neg_exact_lit. Qed.
Print Assumptions C10_neg_lit.

Theorem C10_abs_lit : forall t z, lit_value t = Some z -> is_minus (tl t) = false ->
  bvalue (absn (NLit t)) = Some (Z.abs z).
Proof. exact abs_exact_lit. Qed.
Print Assumptions C10_abs_lit.

Theorem C10_literal_verbatim : forall t, encode_num (NLit t) = t.
Proof. exact literal_verbatim. Qed.
Print Assumptions C10_literal_verbatim.

(* ints and big ints are printed as decimals that read back to exactly the same integer: every digit
   is kept, whatever the magnitude (print_Z models strconv.AppendInt / big.Int.Append; the enc stream of
   the correspondence compares it byte for byte with gojq.Marshal) *)
Theorem C10_int_print_exact : forall z, parse_Z (print_Z z) = Some z.
Proof. exact parse_print_Z. Qed.
Print Assumptions C10_int_print_exact.

Theorem C10_encode_reads_back : forall n, wfnum n -> lit_value (encode_num n) = value n.
Proof. exact encode_reads_back. Qed.
Print Assumptions C10_encode_reads_back.

(* non-vacuity: the hypotheses are met by concrete boundary operands, where the kernels do promote *)
Example C10_nonvacuous :
  in_int max_int /\ add_int max_int 1 = RBig (2 ^ 63) /\ mul_int 3037000500 3037000500 = RBig 9223372037000250000
  /\ sub_int min_int 1 = RBig (- 2 ^ 63 - 1) /\ div_int min_int (-1) = RBig (2 ^ 63) /\ mod_int (-7) 2 = RInt (-1).
Proof. vm_compute. repeat split; discriminate. Qed.
