(* C13d — `paths` and `tostream` of builtin.jq over the reference semantics coq/sem/Sem.v (continuation of C13c; same
   conventions: the table of jq-defined builtins is any [bs] with the pins [stream_pins], closed by computation on
   coq/gen/GenBuiltins.v regenerated from builtin.jq of the current tree).
   Statements only; proofs in coq/sem/StreamLawsProofs.v (definitions: coq/sem/StreamLaws.v).

   C13d_paths: `paths` is one unit of the step budget followed by THE SAME generator as `path(..)` ([eval_path] of `..`,
   compare C13d_path) whose consumer drops the empty paths and hands the others to k unchanged, in order: [paths] is
   [path(..)] without its empty paths.  (That the only empty path of path(..) is the first one, the root, is the
   hand-transcription theorem C13_path_dotdot of props/C13.v; that every path of path(..) navigates by getpath to the
   corresponding output of `..` is C02b_path_sound_getpath for p = `..`.)
   C13d_tostream_event: the tail of tostream's definition, `getpath($p) | reduce path(.[]?) as $q ([$p, .]; [$p + $q])`,
   with $p bound to ANY path p: when getpath(p) is x, exactly one output, [ts_event p x] — the leaf event [p, x] when x
   has no children (so every two-element event [p, leaf] of tostream satisfies getpath(p) = leaf, by construction of
   the text), the closing event [p + [last key of x]] otherwise; when getpath(p) fails, that error and no event.  No
   step budget is used, id counter and cells are restored.  tostream is `path(def r: (.[]?|r), .; r) as $p | <that tail>`. *)
From Coq Require Import String.
From Coq Require Import List ZArith NArith Bool.
From Verif Require Import common.Sexp sem.JV sem.Syntax sem.Natives sem.Sem sem.BuiltinLaws sem.BuiltinCalls
  sem.PathSound sem.StreamWfProofs sem.StreamObs sem.StreamObsProofs sem.PathsObsProofs sem.StreamLaws sem.StreamLawsProofs sem.StreamGen sem.StreamGenProofs sem.PathsRoot sem.PathsRootProofs
  sem.FromstreamLaws sem.FromstreamProofs sem.FromstreamFold sem.FromstreamFoldProofs gen.GenBuiltins.
Import ListNotations.

Theorem C13d_paths : forall bs, stream_pins bs -> forall m rho v ps k, undefined_in rho "paths" 0 ->
  eval_q bs (20 + m) rho (q_call (codes "paths") []) v ps k =
  (tick ;; eval_path bs (13 + m) [] q_dotdot v
             (fun path => tick ;; (tick ;; if is_empty_path (VArr path) then ret tt else k (plain (VArr path)) ps))).
Proof. exact paths_sem. Qed.
Print Assumptions C13d_paths.

Theorem C13d_path : forall bs, stream_pins bs -> forall m rho q v ps k, undefined_in rho "path" 1 ->
  eval_q bs (4 + m) rho (q_path q) v ps k = eval_path bs (1 + m) rho q v (fun path => k (plain (VArr path)) ps).
Proof. exact path_sem. Qed.
Print Assumptions C13d_path.

Theorem C13d_tostream_event : forall bs, stream_pins bs -> forall m p v k s,
  eval_q bs (11 + m) (ts_env p) ts_tail (plain v) None k s =
  lift (fn_getpath v (VArr p)) (fun x => k (plain (ts_event p x)) None) s.
Proof. exact ts_tail_sem. Qed.
Print Assumptions C13d_tostream_event.

(* THE GENERATOR of tostream, path(def r: (.[]?|r), .; r), on ANY value v (no well-formedness needed), with fuel
   14 + n for any n >= 7 * vsize v (vsize = number of nodes), any consumer k and state s: a fresh id for the root, then
   [gen_run]: the structural walk of v, children first (arrays by index, objects in the order of the association list =
   gojq's sorted keys), one unit of the step budget per node (the call of r), one fresh navigation id per child, the
   path of a node handed to k AFTER the paths of its descendants.  (coq/sem/StreamGen.v: gen_run; the order of the paths
   is post_paths.) *)
Theorem C13d_tostream_generator : forall bs, lookup_builtin bs (codes "path") 1 = None ->
  forall n v (k : K) s, (7 * vsize v <= n)%nat ->
  eval_q bs (14 + n) [] ts_gen (plain v) None k s =
  (_ <- fresh ;; gen_run (fun p => k (plain (VArr p)) None) v []) s.
Proof. exact gen_eval. Qed.
Print Assumptions C13d_tostream_generator.

(* TOSTREAM as a whole, on ANY value v, fuel 20 + n for n >= 7 * vsize v, any top-level consumer k and state s: one unit
   of budget for the call, then the walk of v, children first, and at every node (path p) exactly the event of
   C13d_tostream_event for the value getpath finds at p: the leaf event [p, getpath(p)] at nodes without children, the
   closing event [p + [last key]] after the last child of a non-empty container (the top-level closing event is [[last
   key]], as jq emits it).  So tostream emits exactly one event per node of the value, in document order of the leaves,
   and every two-element event [p, leaf] satisfies getpath(p) = leaf. *)
Theorem C13d_tostream : forall bs, stream_pins bs -> forall n v (k : K) s, (7 * vsize v <= n)%nat ->
  eval_q bs (20 + n) [] (q_call (codes "tostream") []) (plain v) None k s =
  (tick ;; (_ <- fresh ;;
            gen_run (fun p => lift (fn_getpath v (VArr p)) (fun x => k (plain (ts_event p x)) None)) v [])) s.
Proof. exact tostream_sem. Qed.
Print Assumptions C13d_tostream.

(* TOSTREAM ON A WELL-FORMED VALUE (PathSound.jv_wf: objects strictly sorted = what gojq holds, array lengths within
   Go's int): getpath finds at every visited path the node itself, so tostream is the value-level walk [vrun]: children
   first, one event per node computed from the node's path and VALUE — the leaf event [p, leaf] (with getpath(p) = leaf,
   by C13d_tostream) at scalars and empty containers, in document order, the closing event [p + [last key]] after the
   last child of a non-empty container. *)
Theorem C13d_tostream_wf : forall bs, stream_pins bs -> forall n v (k : K) s, jv_wf v -> (7 * vsize v <= n)%nat ->
  eval_q bs (20 + n) [] (q_call (codes "tostream") []) (plain v) None k s =
  (tick ;; (_ <- fresh ;; vrun (fun p x => k (plain (ts_event p x)) None) v [])) s.
Proof. exact tostream_wf_sem. Qed.
Print Assumptions C13d_tostream_wf.

(* [paths] = [path(..)] WITHOUT THE ROOT, on ANY value, fuel from the size: both are the same walk (PathsRoot.v:
   node first, then its children in .[] order, two units of budget per node, one fresh id per child).  path(..) hands
   the root path [] to its consumer and then every other path (pre_kids); paths spends its two units of budget on the
   root, drops it, and hands every other path to its consumer, in the same order.  (recurse/0 and recurse/1 are pinned
   to their builtin.jq text: recurse_pins.) *)
Theorem C13d_paths_root : forall bs, stream_pins bs -> recurse_pins bs -> forall n v (k : K) s, (7 * vsize v <= n)%nat ->
  eval_q bs (27 + n) [] (q_call (codes "paths") []) (plain v) None k s =
  (tick ;; (_ <- fresh ;; (tick ;; (tick ;;
     (tick ;; ((tick ;; (tick ;; ret tt)) ;;
               (tick ;; pre_kids (fun p => tick ;; (tick ;; k (plain (VArr p)) None)) v []))))))) s /\
  eval_q bs (24 + n) [] (StreamLaws.q_path q_dotdot) (plain v) None k s =
  (_ <- fresh ;; (tick ;; (tick ;;
     (tick ;; (k (plain (VArr [])) None ;;
               (tick ;; pre_kids (fun p => k (plain (VArr p)) None) v [])))))) s.
Proof. exact paths_root_sem. Qed.
Print Assumptions C13d_paths_root.

(* TOSTREAM OBSERVED: on a well-formed value, with fuel 20 + n (n >= 7 * vsize v), a step budget of at least 1 + vsize v
   (the model's is 200000) and an output cap above vsize v, the observation is EXACTLY the list [events v] — the events
   of the value (StreamObs.v: children first, the leaf event [p, leaf] at scalars and empty containers, the closing
   event [p + [last key]] after the last child of a non-empty container; one event per node) — and a normal end. *)
Theorem C13d_tostream_observe : forall bs, stream_pins bs -> forall n v capn rs ins, jv_wf v -> (7 * vsize v <= n)%nat ->
  (N.of_nat (S (vsize v)) <= step_budget)%N -> (vsize v < capn)%nat ->
  observe bs (20 + n) capn rs ins (q_call (codes "tostream") []) v = (events v, EndNormal).
Proof. exact tostream_observe. Qed.
Print Assumptions C13d_tostream_observe.

(* PATHS AND PATH(..) OBSERVED, on ANY value (fuel from the size, budget >= 4 * vsize v + 3, cap above vsize v): the
   observation of path(..) is the root path [] followed by [kids_paths v] (the paths of the proper descendants, node
   first, children in .[] order), the observation of paths is [kids_paths v]: [paths] = [path(..)] without the root. *)
Theorem C13d_paths_observe : forall bs, stream_pins bs -> recurse_pins bs -> forall n v capn rs ins, (7 * vsize v <= n)%nat ->
  (N.of_nat (4 * vsize v + 3) <= step_budget)%N -> (vsize v < capn)%nat ->
  observe bs (27 + n) capn rs ins (q_call (codes "paths") []) v = (map VArr (kids_paths v), EndNormal) /\
  observe bs (24 + n) capn rs ins (StreamLaws.q_path q_dotdot) v = (VArr [] :: map VArr (kids_paths v), EndNormal).
Proof. exact paths_observe. Qed.
Print Assumptions C13d_paths_observe.

(* FROMSTREAM (pinned text: fromstream_pins).  The call law, for ANY filter argument f, input, path state and consumer:
   one unit of budget, a cell holding null (scoped as every foreach cell), then f run on the input (one more unit: f is a
   filter argument) with the consumer [fs_cont]: read the cell, run the update on its content with $pv bound to the
   output of f, store the result, run the extraction on it for the consumer. *)
Theorem C13d_fromstream_call : forall bs, fromstream_pins bs -> forall n farg v ps (k : K),
  eval_q bs (21 + n) [] (q_call (codes "fromstream") [farg]) v ps k =
  (tick ;; with_cell (scoped_ids ps) (plain VNull)
             (fun c => tick ;; eval_q bs (13 + n) [] farg v ps (fs_cont bs n farg c k))
             (fun _ => ret tt)).
Proof. exact fromstream_call_sem. Qed.
Print Assumptions C13d_fromstream_call.

(* ONE STEP of fromstream as a transformer of the accumulator: from a state whose cell c holds the (plain) accumulator
   acc, on a two-element event [p, x] the new accumulator is [fs_step2 acc p x] — `if .e then null end`, then
   setpath(["v"] + p; x), then setpath(["e"]; length of p == 0) — and on a one-element (closing) event [p] it is
   [fs_step1 acc p] — `if .e then null end`, then setpath(["e"]; length of p == 1); an error of the index / setpath
   functions is the error of the run; the new accumulator u is stored in the cell and [fs_emit k u] hands u.v to the
   consumer when u.e is truthy, nothing otherwise.  No step budget, no ids.  (FromstreamLaws.v.) *)
Theorem C13d_fromstream_step : forall bs, fromstream_pins bs -> forall n farg c (k : K) p acc s,
  cell_lookup (cells s) c = Some (plain acc) ->
  (forall x, fs_cont bs n farg c k (plain (VArr [VArr p; x])) None s =
             lift (fs_step2 acc p x) (fun u => set_cell c (plain u) ;; fs_emit k u) s) /\
  fs_cont bs n farg c k (plain (VArr [VArr p])) None s =
  lift (fs_step1 acc p) (fun u => set_cell c (plain u) ;; fs_emit k u) s.
Proof. exact fromstream_step_sem. Qed.
Print Assumptions C13d_fromstream_step.

(* FROMSTREAM(TOSTREAM) OBSERVED = THE PURE FOLD: on a well-formed value v (fuel 28 + n, n >= 7 * vsize v; budget >=
   vsize v + 3; cap above vsize v), whenever the fold [fs_fold] of fromstream's steps (FromstreamFold.v: fs_step2 /
   fs_step1 on the accumulator, [fs_out] = what `if .e then .v else empty end` hands over) over the list [events v]
   starting from null succeeds with outputs os, the observation of fromstream(tostream) on v is (os, EndNormal).  The
   evaluator is gone from the statement: what remains for "fromstream(tostream) = ." is the value-level equation
   fs_fold null (events v) = Some (_, [v]) (C13d_fromstream_tostream_full below; computed for examples). *)
Theorem C13d_fromstream_tostream_fold : forall bs, stream_pins bs -> fromstream_pins bs ->
  forall n v capn rs ins a' os, jv_wf v -> (7 * vsize v <= n)%nat ->
  fs_fold VNull (events v) = Some (a', os) ->
  (N.of_nat (vsize v + 3) <= step_budget)%N -> (vsize v < capn)%nat ->
  observe bs (28 + n) capn rs ins q_fs_ts v = (os, EndNormal).
Proof. exact fromstream_tostream_fold. Qed.
Print Assumptions C13d_fromstream_tostream_fold.

(* the full statement (NOT proved): with the value-level equation for every well-formed value without an array at
   setpath's index limit, the theorem above gives fromstream(tostream) = . *)
Definition C13d_fromstream_tostream_full : Prop :=
  forall v, jv_wf v -> exists a', fs_fold VNull (events v) = Some (a', [v]).

Example C13d_fromstream_pins : fromstream_pins builtin_defs.
Proof. repeat split; reflexivity. Qed.

Example C13d_recurse_pins : recurse_pins builtin_defs.
Proof. split; reflexivity. Qed.

(* the pins hold for builtin.jq of the current tree (paths and tostream pinned to their text) *)
Example C13d_pins : stream_pins builtin_defs.
Proof. repeat split; reflexivity. Qed.

(* ---- the model run on a concrete value (vm_compute): {"a":[1,{"b":null}],"c":{}} ---- *)
Definition d_val : jv :=
  VObj [(codes "a", VArr [VInt 1; VObj [(codes "b", VNull)]]); (codes "c", VObj [])].
Definition q_arr (q : query) : query := q_term (TArray (Some q)).

(* [paths] = [path(..)] without its first element (the root), same order *)
Example C13d_ex_paths :
  match observe builtin_defs 80 50 false [] (q_arr (q_call (codes "paths") [])) d_val,
        observe builtin_defs 80 50 false [] (q_arr (StreamLaws.q_path q_dotdot)) d_val with
  | ([VArr ps], EndNormal), ([VArr (root :: rest)], EndNormal) => root = VArr [] /\ ps = rest /\ List.length ps = 5%nat
  | _, _ => False
  end.
Proof. vm_compute. repeat split. Qed.

(* every two-element event [p, leaf] of tostream satisfies getpath(p) = leaf; the events are those of ts_event *)
Example C13d_ex_tostream :
  match observe builtin_defs 80 50 false [] (q_call (codes "tostream") []) d_val with
  | (evs, EndNormal) =>
      List.length evs = 6%nat /\
      forallb (fun ev => match ev with
                         | VArr [p; leaf] => match fn_getpath d_val p with NOk w => obs_eqb w leaf | _ => false end
                         | VArr [VArr _] => true
                         | _ => false
                         end) evs = true
  | _ => False
  end.
Proof. vm_compute. repeat split. Qed.

(* C13d_tostream instantiated (fuel 20 + 7 * vsize = 62, top-level consumer emit): both sides computed *)
Example C13d_ex_tostream_walk :
  let n := (7 * vsize d_val)%nat in
  let s := init_state 50 [] false in
  vsize d_val = 6%nat /\
  eval_q builtin_defs (20 + n) [] (q_call (codes "tostream") []) (plain d_val) None emit s =
  (tick ;; (_ <- fresh ;;
            gen_run (fun p => lift (fn_getpath d_val (VArr p)) (fun x => emit (plain (ts_event p x)) None)) d_val [])) s /\
  post_paths d_val [] = [[vstr "a"; VInt 0]; [vstr "a"; VInt 1; vstr "b"]; [vstr "a"; VInt 1]; [vstr "a"]; [vstr "c"]; []].
Proof. vm_compute. repeat split. Qed.

(* d_val is well formed; C13d_paths_root instantiated, both sides computed *)
Example C13d_ex_wf_and_root :
  let n := (7 * vsize d_val)%nat in
  let s := init_state 50 [] false in
  jv_wf d_val /\
  eval_q builtin_defs (20 + n) [] (q_call (codes "tostream") []) (plain d_val) None emit s =
  (tick ;; (_ <- fresh ;; vrun (fun p x => emit (plain (ts_event p x)) None) d_val [])) s /\
  eval_q builtin_defs (27 + n) [] (q_call (codes "paths") []) (plain d_val) None emit s =
  (tick ;; (_ <- fresh ;; (tick ;; (tick ;;
     (tick ;; ((tick ;; (tick ;; ret tt)) ;;
               (tick ;; pre_kids (fun p => tick ;; (tick ;; emit (plain (VArr p)) None)) d_val []))))))) s.
Proof. vm_compute. repeat split; try discriminate. Qed.

(* the events of {"a":[1,{"b":null}],"c":{}} and the observation of tostream on it *)
Example C13d_ex_events :
  events d_val =
  [VArr [VArr [vstr "a"; VInt 0]; VInt 1]; VArr [VArr [vstr "a"; VInt 1; vstr "b"]; VNull];
   VArr [VArr [vstr "a"; VInt 1; vstr "b"]]; VArr [VArr [vstr "a"; VInt 1]]; VArr [VArr [vstr "c"]; VObj []];
   VArr [VArr [vstr "c"]]] /\
  observe builtin_defs (20 + 7 * vsize d_val) 50 false [] (q_call (codes "tostream") []) d_val = (events d_val, EndNormal).
Proof. vm_compute. repeat split. Qed.

Example C13d_ex_kids_paths :
  kids_paths d_val = [[vstr "a"]; [vstr "a"; VInt 0]; [vstr "a"; VInt 1]; [vstr "a"; VInt 1; vstr "b"]; [vstr "c"]] /\
  observe builtin_defs (27 + 7 * vsize d_val) 50 false [] (q_call (codes "paths") []) d_val = (map VArr (kids_paths d_val), EndNormal).
Proof. vm_compute. repeat split. Qed.

(* TESTS on the model (not theorems): the steps of fromstream on the events of {"a":[1]}: after the leaf event
   [["a",0],1] the accumulator is {"e":false,"v":{"a":[1]}}, after the closing events [["a",0]] and [["a"]] e is true;
   and fromstream(tostream) observed on d_val, on a scalar and on the empty containers gives back the value *)
Example C13d_ex_fromstream :
  let a1 := fs_step2 VNull [vstr "a"; VInt 0] (VInt 1) in
  let fsts := q_call (codes "fromstream") [q_call (codes "tostream") []] in
  a1 = NOk (VObj [(codes "e", VFalse); (codes "v", VObj [(codes "a", VArr [VInt 1])])]) /\
  nbind a1 (fun a => fs_step1 a [vstr "a"]) = NOk (VObj [(codes "e", VTrue); (codes "v", VObj [(codes "a", VArr [VInt 1])])]) /\
  observe builtin_defs 120 50 false [] fsts d_val = ([d_val], EndNormal) /\
  observe builtin_defs 120 50 false [] fsts (VInt 7) = ([VInt 7], EndNormal) /\
  observe builtin_defs 120 50 false [] fsts (VArr []) = ([VArr []], EndNormal) /\
  observe builtin_defs 120 50 false [] fsts (VObj []) = ([VObj []], EndNormal).
Proof. vm_compute. repeat split. Qed.

(* the value-level equation on examples: the fold over the events of d_val, of a scalar, of [] and {} emits the value *)
Example C13d_ex_fs_fold :
  (exists a', fs_fold VNull (events d_val) = Some (a', [d_val])) /\
  (exists a', fs_fold VNull (events (VInt 7)) = Some (a', [VInt 7])) /\
  (exists a', fs_fold VNull (events (VArr [])) = Some (a', [VArr []])) /\
  (exists a', fs_fold VNull (events (VObj [])) = Some (a', [VObj []])).
Proof. repeat split; eexists; vm_compute; reflexivity. Qed.
