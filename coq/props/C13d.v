(* C13d — `paths` and `tostream` of builtin.jq over the reference semantics coq/sem/Sem.v (continuation of C13c; same
   conventions: the table of jq-defined builtins is any [bs] with the pins [stream_pins], closed by computation on
   coq/gen/GenBuiltins.v regenerated from builtin.jq of the current tree).
   Statements only; proofs in coq/sem/StreamLawsProofs.v (definitions: coq/sem/StreamLaws.v).

   C13d_paths: `paths` is one unit of the step budget followed by THE SAME generator as `path(..)` ([eval_path] of `..`,
   compare C13d_path) whose consumer drops the empty paths and hands the others to k unchanged, in order: [paths] is
   [path(..)] without its empty paths.  (That the only empty path of path(..) is the first one, the root, is the
   hand-transcription theorem C13_path_dotdot of props/C13.v; that every path of path(..) navigates by getpath to the
   corresponding output of `..` is C02b_path_sound_getpath for p = `..`.)
   C13d_tostream_event: the tail of tostream's definition, `getpath($p) | reduce path(.[]?) as $q ([$p, .]; [$p + $q])`,
   with $p bound to ANY path p: when getpath(p) is x, exactly one output, [ts_event p x] — the leaf event [p, x] when x
   has no children (so every two-element event [p, leaf] of tostream satisfies getpath(p) = leaf, by construction of
   the text), the closing event [p + [last key of x]] otherwise; when getpath(p) fails, that error and no event.  No
   step budget is used, id counter and cells are restored.  tostream is `path(def r: (.[]?|r), .; r) as $p | <that tail>`. *)
From Coq Require Import String.
From Coq Require Import List ZArith NArith Bool.
From Verif Require Import common.Sexp sem.JV sem.Syntax sem.Natives sem.Sem sem.BuiltinLaws sem.BuiltinCalls
  sem.StreamLaws sem.StreamLawsProofs gen.GenBuiltins.
Import ListNotations.

Theorem C13d_paths : forall bs, stream_pins bs -> forall m rho v ps k, undefined_in rho "paths" 0 ->
  eval_q bs (20 + m) rho (q_call (codes "paths") []) v ps k =
  (tick ;; eval_path bs (13 + m) [] q_dotdot v
             (fun path => tick ;; (tick ;; if is_empty_path (VArr path) then ret tt else k (plain (VArr path)) ps))).
Proof. exact paths_sem. Qed.
Print Assumptions C13d_paths.

Theorem C13d_path : forall bs, stream_pins bs -> forall m rho q v ps k, undefined_in rho "path" 1 ->
  eval_q bs (4 + m) rho (q_path q) v ps k = eval_path bs (1 + m) rho q v (fun path => k (plain (VArr path)) ps).
Proof. exact path_sem. Qed.
Print Assumptions C13d_path.

Theorem C13d_tostream_event : forall bs, stream_pins bs -> forall m p v k s,
  eval_q bs (11 + m) (ts_env p) ts_tail (plain v) None k s =
  lift (fn_getpath v (VArr p)) (fun x => k (plain (ts_event p x)) None) s.
Proof. exact ts_tail_sem. Qed.
Print Assumptions C13d_tostream_event.

(* the pins hold for builtin.jq of the current tree (paths and tostream pinned to their text) *)
Example C13d_pins : stream_pins builtin_defs.
Proof. repeat split; reflexivity. Qed.

(* ---- the model run on a concrete value (vm_compute): {"a":[1,{"b":null}],"c":{}} ---- *)
Definition d_val : jv :=
  VObj [(codes "a", VArr [VInt 1; VObj [(codes "b", VNull)]]); (codes "c", VObj [])].
Definition q_arr (q : query) : query := q_term (TArray (Some q)).

(* [paths] = [path(..)] without its first element (the root), same order *)
Example C13d_ex_paths :
  match observe builtin_defs 80 50 false [] (q_arr (q_call (codes "paths") [])) d_val,
        observe builtin_defs 80 50 false [] (q_arr (q_path q_dotdot)) d_val with
  | ([VArr ps], EndNormal), ([VArr (root :: rest)], EndNormal) => root = VArr [] /\ ps = rest /\ List.length ps = 5%nat
  | _, _ => False
  end.
Proof. vm_compute. repeat split. Qed.

(* every two-element event [p, leaf] of tostream satisfies getpath(p) = leaf; the events are those of ts_event *)
Example C13d_ex_tostream :
  match observe builtin_defs 80 50 false [] (q_call (codes "tostream") []) d_val with
  | (evs, EndNormal) =>
      List.length evs = 6%nat /\
      forallb (fun ev => match ev with
                         | VArr [p; leaf] => match fn_getpath d_val p with NOk w => obs_eqb w leaf | _ => false end
                         | VArr [VArr _] => true
                         | _ => false
                         end) evs = true
  | _ => False
  end.
Proof. vm_compute. repeat split. Qed.
