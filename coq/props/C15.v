(* C15 — The command prints exactly what the library yields, with documented statuses.
   Statements only; every theorem is closed by [exact] of a lemma proved in c15/Proofs.v.

   [run o p ins] is the model of cli.run after flag parsing (c15/Cli.v); the library is abstracted:
   [ins] is, input by input, the list of outcomes the library's iterator yields (OVal | OErr | OHalt)
   or InErr for an input the decoder rejects; [p] says how far the command got before the loop.
   The status constants and ExitCode() tables used by the model are TRANSLATED from cli/cli.go,
   cli/error.go, error.go, func.go of the current tree (gen/GenCliTables.v); the specification side
   (c15/Spec.v) is written with the documented numbers as literals and with list combinators only
   (take_while, find, flat_map, last).  The tie between the hand model and cli.go is the
   correspondence check (harness/c15). *)
From Coq Require Import List ZArith NArith Bool.
From Verif Require Import gen.GenCliTables c15.Cli c15.Spec c15.Proofs.
Import ListNotations.

(* 1. stdout is the concatenation, input by input and in order (up to and including the first input
      that halts), over each input's outcomes up to the first error / halt / rejected string, of
      rendering-or-raw-string ++ terminator.  Nothing else is ever written to stdout. *)
Theorem C15_stdout_is_concat : forall o ins,
  r_out (run o PReady ins) =
  flat_map (fun i => match i with
                     | InErr => []
                     | InRun outs => flat_map (out_bytes o) (take_while (fun x => negb (stopper o x)) outs)
                     end)
           (upto_incl (halts o) ins).
Proof. exact stdout_is_concat. Qed.
Print Assumptions C15_stdout_is_concat.

(* what one output contributes, spelled out: strings raw under -r/-j/--raw-output0, everything else
   (and strings otherwise) rendered in the selected format; then newline, NUL for --raw-output0,
   nothing for -j; --raw-output0 rejects a string containing NUL *)
Theorem C15_out_bytes : forall o v,
  out_bytes o (OVal v) =
  match v_kind v with
  | KStr s =>
      if o_raw o || o_raw0 o || o_join o
      then (if o_raw0 o && has_nul s then [] else s ++ terminator o)
      else render o v ++ terminator o
  | _ => render o v ++ terminator o
  end
  /\ terminator o = (if o_raw0 o then [0%N] else if o_join o then [] else [10%N])
  /\ (stopper o (OVal v) = true <->
      exists s, v_kind v = KStr s /\ o_raw0 o = true /\ has_nul s = true).
Proof. exact out_bytes_spelled. Qed.
Print Assumptions C15_out_bytes.

(* usage, option, parse and compile errors write nothing to stdout *)
Theorem C15_stdout_empty_before_loop : forall o p ins, p <> PReady -> r_out (run o p ins) = [].
Proof. exact stdout_empty_before_loop. Qed.
Print Assumptions C15_stdout_empty_before_loop.

(* diagnostics go to stderr: one line per failing input, and the halt message *)
Theorem C15_stderr_is_concat : forall o ins,
  r_err (run o PReady ins) = flat_map (input_diag o) (upto_incl (halts o) ins).
Proof. exact stderr_is_concat. Qed.
Print Assumptions C15_stderr_is_concat.

(* 2. an error ends that input's outputs only: later inputs are processed as if run on their own *)
Theorem C15_error_continues : forall o pre post,
  forallb (fun i => negb (halts o i)) pre = true ->
  r_out (run o PReady (pre ++ post)) = flat_map (input_stdout o) pre ++ r_out (run o PReady post).
Proof. exact error_continues. Qed.
Print Assumptions C15_error_continues.

(* halt / halt_error stop at once: nothing after the halting input is looked at *)
Theorem C15_halt_stops : forall o pre i post,
  halts o i = true -> run o PReady (pre ++ i :: post) = run o PReady (pre ++ [i]).
Proof. exact halt_stops. Qed.
Print Assumptions C15_halt_stops.

(* with the requested status (reduced modulo 256 by the operating system) and message; the outputs
   before the halt are still printed *)
Theorem C15_halt_status : forall o pre outs post v c,
  forallb (fun i => negb (halts o i)) pre = true ->
  first_stop o outs = Some (OHalt v c) ->
  let r := run o PReady (pre ++ InRun outs :: post) in
  r_status r = c /\ os_status (r_status r) = (c mod 256)%Z /\
  r_err r = flat_map (input_diag o) pre ++ halt_chunks v /\
  r_out r = flat_map (input_stdout o) pre ++ flat_map (out_bytes o) (before_stop o outs).
Proof. exact halt_status. Qed.
Print Assumptions C15_halt_status.

(* message of a halt: nothing for null, strings raw, anything else JSON + newline *)
Theorem C15_halt_message : forall v,
  halt_chunks v = match v_kind v with
                  | KNull => []
                  | KStr s => [CExact s]
                  | _ => [CExact (v_json v ++ [10%N])]
                  end.
Proof. exact (fun v => eq_refl). Qed.
Print Assumptions C15_halt_message.

(* 3. the exit status as a total function of the outcome history *)
Theorem C15_exit_status_table : forall o p ins, r_status (run o p ins) = spec_status o p ins.
Proof. exact exit_status_table. Qed.
Print Assumptions C15_exit_status_table.

(* ... in the documented form: when every error outcome carries no exit code or 5 (true of every
   error the library produces except halts; checked on every generated case by the harness) *)
Theorem C15_exit_status_documented : forall o ins,
  (forall i outs c m, In i ins -> i = InRun outs -> In (OErr c m) outs -> err_code_ok c = true) ->
  r_status (run o PReady ins) =
  match spec_halt o ins with
  | Some (_, c) => c
  | None =>
      match spec_errors o ins with
      | _ :: _ => 5%Z
      | [] =>
          if o_exit o then
            match last_opt (spec_values o ins) with None => 4 | Some v => if falsy v then 1 else 0 end%Z
          else 0%Z
      end
  end.
Proof. exact exit_status_documented. Qed.
Print Assumptions C15_exit_status_documented.

(* the translated tables of the current tree are the documented ones *)
Theorem C15_tables_documented :
  exitCodeOK = 0%Z /\ exitCodeFalsyErr = 1%Z /\ exitCodeFlagParseErr = 2%Z /\ exitCodeCompileErr = 3%Z /\
  exitCodeNoValueErr = 4%Z /\ exitCodeDefaultErr = 5%Z /\
  flagParseError_ExitCode = 2%Z /\ queryParseError_ExitCode = 3%Z /\ compileError_ExitCode = 3%Z /\
  (forall c, emptyError_ExitCode (Some c) = c) /\ emptyError_ExitCode None = 5%Z /\
  (forall c, exitCodeError_ExitCode c = c) /\
  exitStatus_initial = 4%Z /\ exitStatus_after true = 1%Z /\ exitStatus_after false = 0%Z /\
  lib_error_code = 5%Z /\ lib_halt_code = 0%Z /\ lib_halt_error_default_code = 5%Z /\
  (forall c, lib_HaltError_ExitCode c = c).
Proof. exact tables_documented. Qed.
Print Assumptions C15_tables_documented.

(* everything at once: the command IS the specified function of what the library yields *)
Theorem C15_run_is_spec : forall o p ins, run o p ins = spec_result o p ins.
Proof. exact run_is_spec. Qed.
Print Assumptions C15_run_is_spec.

(* non-vacuity: "error on input 1, false on input 2, -e" gives 5 (not 1); without the error 1; a halt
   after an error gives the halt's status; the hypotheses of the theorems above are satisfiable *)
Example C15_nonvacuous :
  let o := mkO false false false true false None true false false in
  let vfalse := mkV KFalse [102; 97; 108; 115; 101]%N in
  let vone := mkV KOther [49]%N in
  let e := OErr (Some 5%Z) [120%N] in
  r_status (run o PReady [InRun [OVal vone; e; OVal vone]; InRun [OVal vfalse]]) = 5%Z
  /\ r_out (run o PReady [InRun [OVal vone; e; OVal vone]; InRun [OVal vfalse]]) = [49; 10; 102; 97; 108; 115; 101; 10]%N
  /\ r_status (run o PReady [InRun [OVal vone]; InRun [OVal vfalse]]) = 1%Z
  /\ r_status (run o PReady [InRun []]) = 4%Z
  /\ r_status (run o PReady [InRun [e]; InRun [OHalt (mkV KNull []) 0%Z; OVal vone]; InRun [OVal vone]]) = 0%Z
  /\ halts o (InRun [OVal vone; OHalt vone 300%Z]) = true
  /\ os_status (r_status (run o PReady [InRun [OVal vone; OHalt vone 300%Z]])) = 44%Z
  /\ err_code_ok (Some 5%Z) = true.
Proof. vm_compute. repeat split; reflexivity. Qed.
