(* C06 — A compiled query can be run from many goroutines at once.

   The property quantifies over schedules of the Go runtime and speaks about data races, runtime fatal
   errors and deadlock.  No Gallina model exhibits a Go data race, so what is stated and proved here is
   the LOGIC that makes the property true — who may write where — and its consequence for interleavings
   of atomic steps:
     code_readonly   a run that keeps the ownership discipline of C05 (writes ⊆ memory allocated by the
                     run) leaves the whole pre-existing heap — code constants, input, variable values —
                     as a bit-for-bit prefix of its final heap; the interpreted program is not part of
                     the interpreter state at all;
     runs_commute    generic disjoint-footprint commutation: if every thread writes only inside its own
                     region and never looks at the others' regions, then under EVERY schedule every
                     thread ends in the private state it reaches alone and the store agrees with its solo
                     store outside the others' regions.
   The discipline itself is C05's subject; on the current tree it is REFUTED for deleteEmpty
   (C05_delete_empty_writes_refuted) — precisely the writes the race observer of checks/c06.py reports.
   C06_full (below) is outside the model: scheduler, Go memory model, sync.Map, deadlock. *)
From Coq Require Import List Arith.
From Verif Require Import c05.Heap c05.HeapProofs c05.Theorems c06.Commute c06.Readonly.
Import ListNotations.

Theorem C06_code_readonly : forall A (p : prog A), writes_fresh p ->
  forall h r s', run p (start h []) = Some (r, s') -> firstn (length h) (hp s') = h.
Proof. exact code_readonly. Qed.
Print Assumptions C06_code_readonly.

Theorem C06_runs_commute :
  forall (addr cell : Type) (addr_eq_dec : forall a b : addr, {a = b} + {a <> b})
         (tid : Type) (tid_eq_dec : forall a b : tid, {a = b} + {a <> b}) (local : Type)
         (step : tid -> local -> store addr cell -> option (local * list (addr * cell)))
         (W : tid -> addr -> Prop) (Inv : tid -> local -> Prop),
    (* ownership: a step of t writes only inside W t (and keeps t's invariant) *)
    (forall t l s l' ws, Inv t l -> step t l s = Some (l', ws) ->
       Inv t l' /\ Forall (fun w => W t (fst w)) ws) ->
    (* a step of t does not depend on the write regions of the other threads *)
    (forall t l (s s' : addr -> cell), Inv t l ->
       (forall a, outside_others addr tid W t a -> s a = s' a) -> step t l s = step t l s') ->
    forall (sched : list tid) (ls : locals tid local) (s : store addr cell),
    (forall t, Inv t (ls t)) ->
    forall t,
      let final := exec addr cell addr_eq_dec tid tid_eq_dec local step sched (ls, s) in
      let alone := solo addr cell addr_eq_dec tid local step t (count tid tid_eq_dec t sched) (ls t, s) in
      fst final t = fst alone /\
      (forall a, outside_others addr tid W t a -> snd final a = snd alone a).
Proof. exact runs_commute. Qed.
Print Assumptions C06_runs_commute.

(* The full property.  [Schedule], [go_run] and [observation] would have to be the Go runtime's: the
   outcome of running G goroutines under a scheduler with the Go memory model, where an observation is
   either per-goroutine output sequences or one of data race / fatal error / deadlock. *)
Definition C06_full (Program Input Schedule Output : Type)
  (alone : Program -> Input -> Output)
  (go_run : Schedule -> Program -> list Input -> option (list Output)) : Prop :=
  forall sch p inputs, go_run sch p inputs = Some (map (alone p) inputs).

(* non-vacuity of runs_commute: two threads incrementing their own counters satisfy the hypotheses, and
   the theorem then determines the interleaved result *)
Example C06_nonvacuous :
  let final := exec nat nat Nat.eq_dec bool Bool.bool_dec nat ex_step [true; false; true; true; false]
                    ((fun t : bool => if t then 2 else 5), (fun _ : nat => 0)) in
  fst final true = 0 /\ fst final false = 3 /\ snd final 0 = 2 /\ snd final 1 = 2.
Proof.
  pose proof (runs_commute nat nat Nat.eq_dec bool Bool.bool_dec nat ex_step ex_W (fun _ _ => True) ex_owns ex_frame
                [true; false; true; true; false] (fun t : bool => if t then 2 else 5) (fun _ : nat => 0) (fun _ => I)) as H.
  vm_compute. repeat split.
Qed.
