(* C13 (integration with C12) — the inverse pairs that go through the JSON encoder:
     tojson | fromjson  is the identity (up to NaN -> null, infinity saturation, U+FFFD replacement)
     tostring | tonumber on finite numbers.
   Statements only; every theorem is closed by [exact] of a lemma of coq/integ/TojsonFromjson.v, which derives
   them from the C12 development (c12/DecodeProofs.v [decode_encode], c12/NumProofs.v).

   Model vocabulary (definitions in coq/integ/TojsonFromjson.v, c12/Encode.v, c12/JsonRef.v):
     tojson / tostring : c12/Encode.v, the model of /repo/encoder.go (tied byte for byte by the C12 streams);
     fromjson          : the REFERENCE RFC 8259 reader [json_decode] of c12/JsonRef.v, numbers kept as literals
                         (funcFromJSON uses UseNumber: json.Number = VLit).  The real fromjson is encoding/json,
                         outside /repo: NOT modelled; compared with the reference reader by the C12 `dec` lines and
                         exercised on the implementation by the C13 laws stream;
     tonumber          : strconv.ParseFloat is the variable [parse_float] applied to the exact decimal value
                         [num_denote] of the text (mantissa, exponent);
     strconv.AppendFloat : the variable [fmt_float] under
         fmt_shape  its text is [-]d+[.d+] ('f') / [-]d[.d+]e(+|-)dd+ ('e') for finite floats,
         fmt_round  its digits parse back (by parse_float) to the float they were printed from;
     [rel parse_float lossy v w] : w is the jq value v — numbers by value, object members as a set, given in key
         order; lossy = true additionally allows NaN -> null, +-Inf -> +-MaxFloat64 ([clamp]), ill-formed UTF-8 ->
         U+FFFD ([sanitize]); [clean v] : v has no NaN/Inf and all strings and keys are well-formed UTF-8.
   Caveat stated in docs/C12.md: two distinct keys that become equal after U+FFFD replacement give a text with a
   duplicate member name; the reference reader keeps both, encoding/json the last. *)
From Coq Require Import List NArith ZArith Bool.
From Verif Require Import common.Sexp c12.JsonRef c12.Encode c12.NumProofs c12.ValueProofs integ.TojsonFromjson.
Import ListNotations.
Open Scope N_scope.

(* tojson | fromjson on EVERY well-formed value: the identity up to the three documented degradations *)
Theorem C13_tojson_fromjson : forall (fmt_float : N -> bool -> fnum),
  (forall f e, finite f -> fnum_shape e (fmt_float f e) = true) ->
  forall parse_float : Z * Z -> N,
  (forall f e, finite f -> parse_float (fnum_den (fmt_float f e)) = f) ->
  forall v, wfv v -> exists w, fromjson (tojson fmt_float v) = Some w /\ rel parse_float true v w.
Proof. exact tojson_fromjson_upto. Qed.
Print Assumptions C13_tojson_fromjson.

(* ... and exactly the identity on values without NaN, infinities and ill-formed strings *)
Theorem C13_tojson_fromjson_identity : forall (fmt_float : N -> bool -> fnum),
  (forall f e, finite f -> fnum_shape e (fmt_float f e) = true) ->
  forall parse_float : Z * Z -> N,
  (forall f e, finite f -> parse_float (fnum_den (fmt_float f e)) = f) ->
  forall v, wfv v -> clean v -> exists w, fromjson (tojson fmt_float v) = Some w /\ rel parse_float false v w.
Proof. exact tojson_fromjson_id. Qed.
Print Assumptions C13_tojson_fromjson_identity.

(* tostring | tonumber, integers of any magnitude in both Go representations: the canonical decimal, which as a
   JSON number denotes exactly z (C10b adds: the integer reader of C10 returns z on it) *)
Theorem C13_tostring_tonumber_int : forall (fmt_float : N -> bool -> fnum) z,
  tostring fmt_float (VInt z) = print_Z z /\ tostring fmt_float (VBig z) = print_Z z /\
  number_literal (print_Z z) /\ num_denote (print_Z z) = Some (z, 0%Z).
Proof. exact tostring_tonumber_int. Qed.
Print Assumptions C13_tostring_tonumber_int.

(* tostring | tonumber, finite floats: a JSON number literal whose exact decimal value ParseFloat maps to f *)
Theorem C13_tostring_tonumber_float : forall (fmt_float : N -> bool -> fnum),
  (forall f e, finite f -> fnum_shape e (fmt_float f e) = true) ->
  forall parse_float : Z * Z -> N,
  (forall f e, finite f -> parse_float (fnum_den (fmt_float f e)) = f) ->
  forall f, finite f ->
  number_literal (tostring fmt_float (VFloat f)) /\
  option_map parse_float (num_denote (tostring fmt_float (VFloat f))) = Some f.
Proof. exact tostring_tonumber_float. Qed.
Print Assumptions C13_tostring_tonumber_float.

(* json.Number is printed verbatim: tonumber sees the literal itself *)
Theorem C13_tostring_literal : forall (fmt_float : N -> bool -> fnum) t, tostring fmt_float (VLit t) = t.
Proof. exact tostring_literal. Qed.
Print Assumptions C13_tostring_literal.

(* Not connected: the real fromjson (encoding/json) and the real strconv; gojq's own validNumber (lexer.go) is
   modelled in c03/JV.v [valid_number_text], not tied here to [number_literal]; todate|fromdate (timefmt-go). *)

(* non-vacuity 1: the two strconv hypotheses are jointly satisfiable (a printer that writes the bit pattern in
   decimal has the assumed shape and is inverted by its reader), so the theorems above are not vacuous *)
Example C13b_hypotheses_satisfiable :
  (forall f e, finite f -> fnum_shape e (toy_fmt f e) = true) /\
  (forall f e, finite f -> toy_parse (fnum_den (toy_fmt f e)) = f).
Proof. exact (conj (fun f e _ => toy_shape f e) (fun f e _ => toy_round f e)). Qed.

(* non-vacuity 2: the model runs and shows each degradation: NaN -> null, an ill-formed byte -> U+FFFD, members
   in key order, numbers as literals *)
Example C13b_nonvacuous :
  fromjson (tojson toy_fmt (VObj [([98], VArr [VFloat 0x7FF8000000000001; VStr [0xFF]; VInt (-5)]); ([97], VBool true)]))
  = Some (VObj [([97], VBool true); ([98], VArr [VNull; VStr [0xEF; 0xBF; 0xBD]; VLit [45; 53]])]).
Proof. vm_compute. reflexivity. Qed.
