(* C09 — Parsing follows jq's grammar and String() round-trips.
   Statements only; every theorem is closed by [exact] of a lemma proved elsewhere.
   PART 1 (this block): the binary-operator expression sublanguage.  The tables gen_lvl / gen_asc / gen_op_text
   are computed from coq/gen/GenGrammar.v, which is regenerated from parser.go.y, lexer.go and operator.go of the
   current tree on every run. *)
From Coq Require Import List NArith Bool String.
From Verif Require Import common.Sexp c09.GrammarTypes gen.GenGrammar c09.Ops c09.OpsProofs c09.OpsInst.
Import ListNotations.

(* The precedence declarations of the current parser.go.y decide every ordered pair of the 24 binary operators
   (shift = the right one binds tighter or the level is right-associative, reduce = the left one binds
   tighter or the level is left-associative, error = same non-associative level) exactly as jq's table does:
   `|` weakest and right-associative, then `,` left, `//` right, the non-associative update operators, `or`, `and`,
   non-associative comparisons, `+ -` left, `* / %` left.  (Finite domain: 24 x 24 pairs.) *)
Theorem C09_binding_as_jq : forall o1 o2 : binop, cmp gen_lvl gen_asc o1 o2 = cmp jq_lvl jq_asc o1 o2.
Proof. exact binding_as_jq. Qed.
Print Assumptions C09_binding_as_jq.

(* Operator.String() prints every operator as jq writes it *)
Theorem C09_printed_as_jq : forall o : binop, gen_op_text o = Some (jq_op_text o).
Proof. exact printed_as_jq. Qed.
Print Assumptions C09_printed_as_jq.

(* two operators around three atoms group according to jq's table, for all operator pairs and atoms *)
Theorem C09_prec : forall (atom : Type) (a b c : atom) (o1 o2 : binop),
  parse atom gen_lvl gen_asc [TAtom a; TOp o1; TAtom b; TOp o2; TAtom c] =
  match cmp jq_lvl jq_asc o1 o2 with
  | Reduce => Some (Bin o2 (Bin o1 (Atom a) (Atom b)) (Atom c))
  | Shift => Some (Bin o1 (Atom a) (Bin o2 (Atom b) (Atom c)))
  | Err => None
  end.
Proof. exact gen_prec_triple. Qed.
Print Assumptions C09_prec.

(* The parser accepts exactly the precedence-respecting bracketings: it returns e iff e is well-formed
   (every operand that is a binary node is one the table groups that way without parentheses) and e prints
   to the input tokens.  Unbounded: all token lists, all ASTs. *)
Theorem C09_parse_iff : forall (atom : Type) (ts : list (tok atom)) (e : expr atom),
  parse atom gen_lvl gen_asc ts = Some e <-> (wf atom gen_lvl gen_asc e /\ toks atom e = ts).
Proof. exact gen_parse_iff. Qed.
Print Assumptions C09_parse_iff.

(* The round trip on tokens: whatever the parser accepts, printing it (Query.writeTo emits exactly [toks e]:
   no parentheses around operands, parenthesised operands are AST nodes) and parsing again gives the same AST. *)
Theorem C09_print_parse : forall (atom : Type) (ts : list (tok atom)) (e : expr atom),
  parse atom gen_lvl gen_asc ts = Some e -> parse atom gen_lvl gen_asc (toks atom e) = Some e.
Proof. exact gen_roundtrip. Qed.
Print Assumptions C09_print_parse.

(* ... and for every well-formed AST, not only those reached from some input *)
Theorem C09_print_parse_wf : forall (atom : Type) (e : expr atom),
  wf atom gen_lvl gen_asc e -> parse atom gen_lvl gen_asc (toks atom e) = Some e.
Proof. exact gen_print_parse. Qed.
Print Assumptions C09_print_parse_wf.

(* a token list has at most one well-formed reading *)
Theorem C09_unambiguous : forall (atom : Type) (e1 e2 : expr atom),
  wf atom gen_lvl gen_asc e1 -> wf atom gen_lvl gen_asc e2 -> toks atom e1 = toks atom e2 -> e1 = e2.
Proof. exact gen_wf_unique. Qed.
Print Assumptions C09_unambiguous.

(* non-vacuity: the parser accepts, rejects non-associative chains, and an ill-formed AST does NOT round-trip *)
Example C09_nonvacuous :
  parse N gen_lvl gen_asc [TAtom 1; TOp OpAdd; TAtom 2; TOp OpMul; TAtom 3] = Some (Bin OpAdd (Atom 1) (Bin OpMul (Atom 2) (Atom 3)))
  /\ parse N gen_lvl gen_asc [TAtom 1; TOp OpEq; TAtom 2; TOp OpEq; TAtom 3] = None
  /\ parse N gen_lvl gen_asc (toks N (Bin OpMul (Bin OpAdd (Atom 1) (Atom 2)) (Atom 3))) <> Some (Bin OpMul (Bin OpAdd (Atom 1) (Atom 2)) (Atom 3)).
Proof. vm_compute. repeat split; discriminate. Qed.

(* PART 2: the lexer (model Lexer.v of lexer.go, function by function; tied to the code by the lex stream of
   checks/c09.py on every run).  These two serve C08 and C17. *)
From Verif Require Import c09.Lexer c09.LexProofs.

(* C08 (lexer part).  For EVERY byte string src, and WHATEVER the parser does to the lexer between two Lex
   calls as long as it leaves the position alone (the grammar's only feedback is inString := true), lexing
   - terminates within len(src)+1 Lex calls (fuel S (length src) suffices: the offset strictly increases on
     every token that is not the end of input),
   - never reaches a model-error branch: no  l.source[i]  or  l.source[i:j]  out of range (the model returns
     None there; the result is Some),
   - delivers a stream that ends with an end-of-input token (eof, or a NUL byte, which goyacc treats alike),
   - and for every token the offset is within [0, len src] and the (Offset, Token) that lexer.Error would
     report satisfy  Offset <= len src  and  Token = the bytes of src ending at Offset. *)
Theorem C08_lex_total : forall (S0 : Type) (F : tk -> S0 -> lexer -> S0 * lexer) (st : S0),
  (forall k s l, lp (snd (F k s l)) = lp l) ->
  forall src : list N, exists ts : list ltok,
    lex_with S0 F (S (List.length src)) (newLexer src) st = Some ts /\
    Forall (fun t => (tend t <= List.length src)%nat /\ (fst (terr t) <= List.length src)%nat /\
                     exists pre, firstn (fst (terr t)) src = pre ++ snd (terr t)) ts /\
    exists ts' t, ts = ts' ++ [t] /\ is_end (tkind t) = true /\ Forall (fun x => is_end (tkind x) = false) ts'.
Proof. exact lex_total. Qed.
Print Assumptions C08_lex_total.

(* C17 (lexer part).  One Lex call from any lexer state whose position is consistent with the source
   (offset <= len src and the remaining bytes are src[offset:]; true initially and preserved by Lex and by the
   parser's feedback) and with ANY value of inString / token / tokenType: it returns, the new position is
   consistent, the offset does not decrease and strictly increases unless eof is returned, and the ParseError
   that lexer.Error would build now has Offset = the new l.offset <= len src and Token = the bytes of src ending
   at Offset (possibly empty) — for every token kind, including the quotes and the `\(` of an interpolated
   string and invalid UTF-8 bytes. *)
Theorem C17_lex_offset : forall (src : list N) (l : lexer), vp src (lp l) ->
  exists k l', Lex l = Some (k, l') /\ vp src (lp l') /\
    (po (lp l) <= po (lp l'))%nat /\ (k <> KEOF -> (po (lp l) < po (lp l'))%nat) /\
    fst (lex_error l') = po (lp l') /\ (fst (lex_error l') <= List.length src)%nat /\
    exists pre, firstn (fst (lex_error l')) src = pre ++ snd (lex_error l').
Proof. exact lex_offset. Qed.
Print Assumptions C17_lex_offset.

(* non-vacuity: the stream of `1 "a\(1)" x` rejected at the opening quote reports Offset 3 and Token = the quote *)
Example C17_nonvacuous :
  option_map (map (fun t => (tend t, terr t))) (tokenize (codes "1 ""a\(1)"""))
  = Some [(1, (1, [49%N])); (3, (3, [34%N])); (4, (4, [97%N])); (6, (6, [92%N; 40%N])); (7, (7, [49%N])); (8, (8, [41%N]));
          (9, (9, [34%N])); (9, (9, []))]%nat.
Proof. vm_compute. reflexivity. Qed.

(* PART 3: bytes.  The lexer model and the operator-precedence parser together, on the token alphabet of the
   operator sublanguage: atoms (identifiers that are not keywords), the 24 binary operators, '(' and ')'. *)
From Verif Require Import c09.Run c09.RespaceProofs.

(* Whitespace and comments are irrelevant.  A source is a list of (separator, token) items followed by a final
   separator; a separator is any sequence of whitespace bytes and comments (# ... LF; the comment body is any
   bytes except LF, CR and backslash, NUL included); the separator before a token may be empty only next to
   '(' ')' ',' or in front of the first token ([items_ok]).  For every such source the lexer model delivers
   exactly the token kinds and texts of the items, then eof ... *)
Theorem C09_respace_tokens : forall (items : list item) (final : sep),
  items_ok items = true -> sep_ok final = true ->
  option_map (map proj) (tokenize (render items final)) = Some (map expected items ++ [(KEOF, [])]).
Proof. exact respace_tokens. Qed.
Print Assumptions C09_respace_tokens.

(* ... hence two spacings of the same token sequence give the same AST (or are both rejected). *)
Theorem C09_respace : forall (items1 items2 : list item) (final1 final2 : sep),
  map snd items1 = map snd items2 ->
  items_ok items1 = true -> items_ok items2 = true -> sep_ok final1 = true -> sep_ok final2 = true ->
  model_parse true (render items1 final1) = model_parse true (render items2 final2).
Proof. exact respace_invariant. Qed.
Print Assumptions C09_respace.

(* The round trip on bytes.  [print_bytes gen_op_bytes] is Query.writeTo / Term.writeTo / Operator.String()
   for this sublanguage (compared with String() on every case of the ops stream).  For every AST e of the parser's
   image (wf) whose atoms are identifiers, the printed bytes lex and parse back to e.  Unbounded: all e. *)
Theorem C09_bytes_roundtrip : forall e : expr (list N),
  atoms_ok e = true -> wf (list N) gen_lvl gen_asc e ->
  model_parse true (print_bytes gen_op_bytes e) = Some (Some e).
Proof. exact bytes_roundtrip. Qed.
Print Assumptions C09_bytes_roundtrip.

(* non-vacuity: `a # c<NUL><LF> //=(b ,c)<TAB>` is such a source *)
Example C09_respace_nonvacuous :
  let items := [([], OAtom [97%N]); ([Ws 32%N; Cm [32%N; 99%N; 0%N]], OOp OpUpdateAlt); ([], OLP); ([], OAtom [98%N]);
                ([Ws 32%N], OOp OpComma); ([], OAtom [99%N]); ([], ORP)] in
  items_ok items = true /\ sep_ok [Ws 9%N] = true /\
  render items [Ws 9%N] = [97; 32; 35; 32; 99; 0; 10; 47; 47; 61; 40; 98; 32; 44; 99; 41; 9]%N /\
  model_parse true (render items [Ws 9%N]) =
    Some (Some (Bin OpUpdateAlt (Atom [97%N]) (Paren (Bin OpComma (Atom [98%N]) (Atom [99%N]))))).
Proof. vm_compute. repeat split; reflexivity. Qed.

(* PARTIAL.  The full property, for the whole surface grammar, in terms of the implementation's own functions
   (Parse : bytes -> AST or error, String : AST -> bytes, tokens : the token sequence of a source): *)
Section Full.
  Variables (Query Token : Type) (Parse : list N -> option Query) (String : Query -> list N)
            (tokens : list N -> option (list Token)).
  Definition C09_full : Prop :=
    (forall s1 s2, tokens s1 <> None -> tokens s1 = tokens s2 -> Parse s1 = Parse s2) /\
    (forall src q, Parse src = Some q -> Parse (String q) = Some q).
End Full.
(* Proved above: both conjuncts for the operator sublanguage over identifier atoms with the lexer model and the
   precedence tables regenerated from the current sources (C09_respace, C09_bytes_roundtrip, C09_print_parse,
   C09_parse_iff), the binding order of all operator pairs (C09_binding_as_jq, C09_prec), and totality and
   offsets of the lexer on all byte strings (C08_lex_total, C17_lex_offset).
   Missing for C09_full: a model of the goyacc automaton of parser.go with its ~150 actions and of every
   writeTo method for terms, suffixes, strings with interpolation, patterns, def/reduce/foreach/if/try/label,
   modules and imports; there the property is checked by the implementation-only oracles of checks/c09.py
   (round trip with reflect.DeepEqual, re-spacing invariance) on generated programs, and unary sign/suffix
   binding is not stated as a theorem. *)
