(* C09 — Parsing follows jq's grammar and String() round-trips.
   Statements only; every theorem is closed by [exact] of a lemma proved elsewhere.
   PART 1 (this block): the binary-operator expression sublanguage.  The tables gen_lvl / gen_asc / gen_op_text
   are computed from coq/gen/GenGrammar.v, which is regenerated from parser.go.y, lexer.go and operator.go of the
   current tree on every run. *)
From Coq Require Import List NArith Bool String.
From Verif Require Import common.Sexp c09.GrammarTypes gen.GenGrammar c09.Ops c09.OpsProofs c09.OpsInst.
Import ListNotations.

(* The precedence declarations of the current parser.go.y decide every ordered pair of the 24 binary operators
   (shift = the right one binds tighter or the level is right-associative, reduce = the left one binds
   tighter or the level is left-associative, error = same non-associative level) exactly as jq's table does:
   `|` weakest and right-associative, then `,` left, `//` right, the non-associative update operators, `or`, `and`,
   non-associative comparisons, `+ -` left, `* / %` left.  (Finite domain: 24 x 24 pairs.) *)
Theorem C09_binding_as_jq : forall o1 o2 : binop, cmp gen_lvl gen_asc o1 o2 = cmp jq_lvl jq_asc o1 o2.
Proof. exact binding_as_jq. Qed.
Print Assumptions C09_binding_as_jq.

(* Operator.String() prints every operator as jq writes it *)
Theorem C09_printed_as_jq : forall o : binop, gen_op_text o = Some (jq_op_text o).
Proof. exact printed_as_jq. Qed.
Print Assumptions C09_printed_as_jq.

(* two operators around three atoms group according to jq's table, for all operator pairs and atoms *)
Theorem C09_prec : forall (atom : Type) (a b c : atom) (o1 o2 : binop),
  parse atom gen_lvl gen_asc [TAtom a; TOp o1; TAtom b; TOp o2; TAtom c] =
  match cmp jq_lvl jq_asc o1 o2 with
  | Reduce => Some (Bin o2 (Bin o1 (Atom a) (Atom b)) (Atom c))
  | Shift => Some (Bin o1 (Atom a) (Bin o2 (Atom b) (Atom c)))
  | Err => None
  end.
Proof. exact gen_prec_triple. Qed.
Print Assumptions C09_prec.

(* The parser accepts exactly the precedence-respecting bracketings: it returns e iff e is well-formed
   (every operand that is a binary node is one the table groups that way without parentheses) and e prints
   to the input tokens.  Unbounded: all token lists, all ASTs. *)
Theorem C09_parse_iff : forall (atom : Type) (ts : list (tok atom)) (e : expr atom),
  parse atom gen_lvl gen_asc ts = Some e <-> (wf atom gen_lvl gen_asc e /\ toks atom e = ts).
Proof. exact gen_parse_iff. Qed.
Print Assumptions C09_parse_iff.

(* The round trip on tokens: whatever the parser accepts, printing it (Query.writeTo emits exactly [toks e]:
   no parentheses around operands, parenthesised operands are AST nodes) and parsing again gives the same AST. *)
Theorem C09_print_parse : forall (atom : Type) (ts : list (tok atom)) (e : expr atom),
  parse atom gen_lvl gen_asc ts = Some e -> parse atom gen_lvl gen_asc (toks atom e) = Some e.
Proof. exact gen_roundtrip. Qed.
Print Assumptions C09_print_parse.

(* ... and for every well-formed AST, not only those reached from some input *)
Theorem C09_print_parse_wf : forall (atom : Type) (e : expr atom),
  wf atom gen_lvl gen_asc e -> parse atom gen_lvl gen_asc (toks atom e) = Some e.
Proof. exact gen_print_parse. Qed.
Print Assumptions C09_print_parse_wf.

(* a token list has at most one well-formed reading *)
Theorem C09_unambiguous : forall (atom : Type) (e1 e2 : expr atom),
  wf atom gen_lvl gen_asc e1 -> wf atom gen_lvl gen_asc e2 -> toks atom e1 = toks atom e2 -> e1 = e2.
Proof. exact gen_wf_unique. Qed.
Print Assumptions C09_unambiguous.

(* non-vacuity: the parser accepts, rejects non-associative chains, and an ill-formed AST does NOT round-trip *)
Example C09_nonvacuous :
  parse N gen_lvl gen_asc [TAtom 1; TOp OpAdd; TAtom 2; TOp OpMul; TAtom 3] = Some (Bin OpAdd (Atom 1) (Bin OpMul (Atom 2) (Atom 3)))
  /\ parse N gen_lvl gen_asc [TAtom 1; TOp OpEq; TAtom 2; TOp OpEq; TAtom 3] = None
  /\ parse N gen_lvl gen_asc (toks N (Bin OpMul (Bin OpAdd (Atom 1) (Atom 2)) (Atom 3))) <> Some (Bin OpMul (Bin OpAdd (Atom 1) (Atom 2)) (Atom 3)).
Proof. vm_compute. repeat split; discriminate. Qed.
