(* C08 (d) — the [cli_status_total] parameter of [C08_full] (props/C08.v) instantiated and proved: the command model from
   argv with its output, [cli_main] of coq/c15/Main.v = parse_flags (c08/Flags.v) -> cli.go runInternal before the loop ->
   the run loop of c15/Cli.v.  Statements only (proofs: coq/integ/CliStatus.v, coq/c15/MainProofs.v).
   After this file what [C08_full] still ASSUMES is compile_total and vm_total (and the seams of integ/NoCrash.v). *)
From Coq Require Import List ZArith NArith Bool String.
From Verif Require gen.GenTables c09.Lexer c08.LR c08.LRCheck.
From Verif Require Import gen.GenFlagTable c08.Flags c15.Cli c15.Spec c15.Main c15.MainProofs integ.CliStatus.
From Verif Require props.C08 integ.CliTotal.
Import ListNotations.
Open Scope Z_scope.

(* for EVERY argument vector and EVERY world (terminal, environment, files, library behaviour; no hypothesis): the flag
   parser never panics or runs on; the status is 2 exactly when parseFlags fails, 0 for --help / --version, 5 for a rejected
   option value, 3 for a query parse / compile error, and after the loop the status a halt requested, else the ExitCode of
   the last error value (5 when it carries none), else under --exit-status 4 / 1 / 0, else 0; so it is 0..5 or a halt code
   or an error's own code; errors before the loop print nothing on stdout *)
Theorem C08_cli_main_status_total :
  forall (args : list bytes) (w : world),
    phase_of args w <> PhPanic /\
    status_origin args w (r_status (cli_main args w)) /\
    (let st := r_status (cli_main args w) in
     0 <= st <= 5 \/ exists lins, lib_runs args w lins /\ (halts_of lins st \/ errs_of lins (Some st))) /\
    match phase_of args w with
    | PhUsage | PhPre _ _ => r_out (cli_main args w) = [] /\ r_err (cli_main args w) = [CDiag]
    | _ => True
    end.
Proof. exact cli_status_holds. Qed.
Print Assumptions C08_cli_main_status_total.

Theorem C08_full_modulo_compiler_vm : forall compile_total vm_total : Prop,
  compile_total -> vm_total ->
  C08.C08_full
    (forall (S0 : Type) (F : Lexer.tk -> S0 -> Lexer.lexer -> S0 * Lexer.lexer) (st : S0),
       (forall k s l, Lexer.lp (snd (F k s l)) = Lexer.lp l) ->
       forall src : list N, exists ts : list Lexer.ltok,
         Lexer.lex_with S0 F (S (List.length src)) (Lexer.newLexer src) st = Some ts /\
         Forall (fun t => (Lexer.tend t <= List.length src)%nat /\ (fst (Lexer.terr t) <= List.length src)%nat /\
                          exists pre, firstn (fst (Lexer.terr t)) src = pre ++ snd (Lexer.terr t)) ts /\
         exists ts' t, ts = ts' ++ [t] /\ Lexer.is_end (Lexer.tkind t) = true /\
                       Forall (fun x => Lexer.is_end (Lexer.tkind x) = false) ts')
    (forall pf ff l1 l2 l3 jd lp fuel name v args o,
       Wf.hole_free v = true -> NoPanic3.arity_ok name (List.length args) = true ->
       Dispatch.call_native pf ff l1 l2 l3 jd lp fuel name v args = Some o -> Wf.np o)
    vm_total compile_total cli_status_statement.
Proof. exact full_modulo_compiler_vm. Qed.
Print Assumptions C08_full_modulo_compiler_vm.

(* the earlier status-only composition of props/C08c.v, [CliTotal.command], IS the status of [cli_main] for the world
   [total_world args w] that corresponds to the argument vector and the world of c15/Main.v — for plain output (CliTotal has
   no colour / YAML modes; under --yaml-output the NUL rejection of --raw-output0 does not apply, which changes the status) *)
Theorem C08_command_is_cli_main_status : forall args w,
  (forall rest fo, parse_flags flag_table args = FOk rest fo -> outmode_of fo w = MPlain) ->
  CliTotal.command args (total_world args w) = r_status (cli_main args w).
Proof. exact command_is_main_status. Qed.
Print Assumptions C08_command_is_cli_main_status.
