(* C08 — the command's top level is a total function into the documented statuses: parse_flags (c08/Flags.v)
   composed with run (c15/Cli.v).  Statements only (proofs in coq/integ/CliTotal.v). *)
From Coq Require Import List ZArith NArith Bool.
From Verif Require Import gen.GenFlagTable c08.Flags c15.Cli c15.Spec integ.CliTotal.
Import ListNotations.
Open Scope Z_scope.

(* for every argument vector and every behaviour of the outside world (environment, files, Parse/Compile, the
   outcomes of the runs), the exit status is 0..5 or the code of a halt / halt_error one of the runs produced;
   the only hypothesis: library errors carry no exit code or error/1's 5 (C15) *)
Theorem C08_cli_status_total : forall (args : list bytes) (w : world), lib_errors_ok (w_inputs w) ->
  documented (w_inputs w) (command args w).
Proof. exact cli_status_total. Qed.
Print Assumptions C08_cli_status_total.

Theorem C08_cli_usage_error_is_2 : forall args w m, parse_flags flag_table args = FErr m -> command args w = 2.
Proof. exact cli_usage_error_is_2. Qed.
Print Assumptions C08_cli_usage_error_is_2.

Theorem C08_cli_option_value_error_is_5 : forall args w rest fo, parse_flags flag_table args = FOk rest fo ->
  classify fo rest w = Some POptErr -> command args w = 5.
Proof. exact cli_option_value_error_is_5. Qed.
Print Assumptions C08_cli_option_value_error_is_5.

Theorem C08_cli_query_error_is_3 : forall args w rest fo p, parse_flags flag_table args = FOk rest fo ->
  classify fo rest w = Some p -> p = PParseErr \/ p = PCompileErr -> command args w = 3.
Proof. exact cli_query_error_is_3. Qed.
Print Assumptions C08_cli_query_error_is_3.
