(* C09c — the FULL grammar: gojq.Parse and Query.String() as Gallina functions, and what is proved about them.

   [parse_prog : list N -> presult] (coq/c09/ParseFull.v) = the lexer model (Lexer.v) driven by goyacc's driver
   (c08/LR.v's transcription of yyParserImpl.Parse, used unchanged) over the tables translated from the CURRENT
   parser.go (gen/GenTables.v), with a value stack on which the transcribed actions of parser.go.y run (every action
   pinned to its Go text: ParseActions.v); [print_prog : prog -> list N] (coq/c09/Printer.v) = every writeTo of
   query.go.  Both are tied to the implementation on every run (AST / ParseError / String() bytes, stream `full`).

   All statements below are FINITE: the bound is the explicit case family named in the statement (definitions in
   coq/c09/FullCases.v and RoundTripCases.v, which contain no call of the parser or printer); they are checked by
   vm_compute over the real tables (coq/c09/FullCasesProofs.v, RoundTripProofs.v; about one minute, cached).
   [agree cases] = for every (source, expected) of the family, parse_model source = expected, where expected is
   Some of an explicitly written AST, or None for a source that must be rejected. *)
From Coq Require Import List NArith ZArith Bool String.
From Verif Require Import common.Sexp sem.JV sem.Syntax c09.FullAst c09.Printer c09.ParseActions c09.ParseFull
  c09.Lexer c09.Run c09.FullCases c09.RoundTripCases c09.FullCasesProofs c09.RoundTripProofs
  c09.RespaceProofs c09.StrLex c09.WfAst c09.PrintTokens c09.PrintTokensAst.
Import ListNotations.

(* every action text of the current parser.go.y has a transcription in the model (an edited action has none) *)
Theorem C09c_actions_transcribed : all_actions_transcribed = true.
Proof. exact actions_transcribed. Qed.
Print Assumptions C09c_actions_transcribed.

(* unary sign applies to the following term together with its suffixes, and to nothing after an operator:
   both signs x 7 term forms x 8 suffix chains x 24 operators:  SIGN TERM SUFFIXES OP c = (SIGN (TERM SUFFIXES)) OP c *)
Theorem C09c_unary_takes_term_with_suffixes : agree unary_cases_terms.
Proof. exact unary_terms_ok. Qed.
Print Assumptions C09c_unary_takes_term_with_suffixes.

(* ... on either side of each of the 24 operators *)
Theorem C09c_unary_under_every_operator : agree unary_cases_ops.
Proof. exact unary_ops_ok. Qed.
Print Assumptions C09c_unary_under_every_operator.

(* `as`: the source extends back to the nearest `|` or `,`; the body is everything to the right *)
Theorem C09c_as_delimits : agree as_cases.
Proof. exact as_ok. Qed.
Print Assumptions C09c_as_delimits.

(* `def`: the body runs to the `;`, the definition scopes over the whole rest; only `|` and `,` may be followed by one *)
Theorem C09c_def_delimits : agree def_cases.
Proof. exact def_ok. Qed.
Print Assumptions C09c_def_delimits.

(* reduce / foreach: the source is an operator expression without `|` and `,`; the parts in parentheses are full
   queries; the closing parenthesis ends the term *)
Theorem C09c_reduce_foreach_delimit : agree reduce_cases.
Proof. exact reduce_ok. Qed.
Print Assumptions C09c_reduce_foreach_delimit.

(* if: every part is a full query, `end` closes the term (which then takes suffixes and is an operand) *)
Theorem C09c_if_delimits : agree if_cases.
Proof. exact if_ok. Qed.
Print Assumptions C09c_if_delimits.

(* try / catch take one term with its suffixes (or a signed term); any binary operator ends them *)
Theorem C09c_try_delimits : agree try_cases.
Proof. exact try_ok. Qed.
Print Assumptions C09c_try_delimits.

(* label: the body is everything to the right; a label may only follow `|` and `,` *)
Theorem C09c_label_delimits : agree label_cases.
Proof. exact label_ok. Qed.
Print Assumptions C09c_label_delimits.

(* round trip through the printer, the lexer and the real automaton for the bounded AST family of
   RoundTripCases.v (7516 programs: every term form x every suffix form / pairs, signs, try, 73 contexts, modules) *)
Theorem C09c_roundtrip_family : forall p, In p rt_family -> parse_prog (print_prog p) = PAccept p.
Proof. exact rt_family_roundtrip. Qed.
Print Assumptions C09c_roundtrip_family.

(* ... and every program of that family satisfies the syntactic description of the parser's image (WfAst.v: names
   lexically valid, Index/Suffix/Query/key/pattern shapes, no suffixes on unary/try/label terms, interpolated-string
   shape); the same predicate is evaluated on every AST gojq.Parse returns in the correspondence (stream full, item 4) *)
Theorem C09c_family_in_wfq : forallb wf_prog rt_family = true.
Proof. exact rt_family_wf. Qed.
Print Assumptions C09c_family_in_wfq.

(* ... and so do the explicitly written expected ASTs of the binding / delimiting families above *)
Theorem C09c_expected_in_wfq :
  expected_wf (unary_cases_terms ++ unary_cases_ops ++ as_cases ++ def_cases ++ reduce_cases ++ if_cases ++ try_cases
               ++ label_cases) = true.
Proof. exact families_wf. Qed.
Print Assumptions C09c_expected_in_wfq.

(* UNBOUNDED.  encoder.encodeString (the printer's string quoting) writes, for EVERY byte string, only bytes that the
   lexer's scanString walks over without leaving the string: no bare quote, every backslash a complete valid escape *)
Theorem C09c_encode_string_safe : forall s, safeb (enc_body s) = true.
Proof. exact enc_body_safe. Qed.
Print Assumptions C09c_encode_string_safe.

(* UNBOUNDED.  Lexing what the printer prints: for every AST q of the sub-grammar of PrintTokensAst.v —
     base ::= . | .. | NAME | $NAME | NUMBER (any literal Lex accepts: 1 1.5 .5 1e3 1.E-2 ...) | @NAME | @NAME STRING
            | STRING | .NAME | .STRING | .[q] | .[q:q] | .[q:] | .[:q] | (q) | [q] | [] | {} | { kv, ..., kv }
            | break $NAME | if q then q {elif q then q} [else q] end
            | reduce q as PATTERN (q; q) | foreach q as PATTERN (q; q[; q])
     STRING ::= "bytes" (every byte string, as encodeString quotes it) | "lit\(q)lit\(q)...lit" (interpolation, nested)
     kv ::= NAME: q | NAME | $NAME | (q): q | "bytes": q | "bytes"
     pt ::= base | pt .NAME | pt ."bytes" | pt [q] | pt [q:q] | pt [q:] | pt [:q] | pt [] | pt ?
     ut ::= pt | + ut | - ut | try q [catch q]
     q  ::= ut | q OP q (24 operators) | label $NAME | q | q as PATTERN {?// PATTERN} | q
          | def NAME: q; q | def NAME(NAME; $NAME; ...): q; q                                        (any nesting)
     PATTERN ::= $NAME | [PATTERN, ...] | {NAME: PATTERN, $NAME, "bytes": PATTERN, ...}
   names being identifiers (not keywords where they are calls, keys or defined names) — the lexer model run on the
   bytes print_query writes for the embedded AST e_sq q (Index.writeTo spacing rule included: `. .[q]`, `a1 .b`,
   `12 .a`, `1 ."a"`, `end.b`, `{ k: v }`; the inString mode with the parser's feedback emulated by parenthesis
   matching, as in Lexer.tokenize) yields exactly tokens_of q, then eof. *)
Theorem C09c_print_tokens : forall q, wf_sq q = true ->
  option_map (map Run.proj) (Lexer.tokenize (print_query (e_sq q))) = Some (tokens_of q ++ [(KEOF, [])]).
Proof. exact print_tokens. Qed.
Print Assumptions C09c_print_tokens.

(* UNBOUNDED.  Any list of tokens of the alphabet identifier / keyword / $name / .name / @name / digits / . / .. /
   ( ) [ ] { } ? ; : / the 24 operators, each preceded by at most one space, whose gaps satisfy [nb_ok] (the bytes
   after a token do not extend it) and whose string tokens come in the order the lexer's inString mode requires
   ([modes]: opening quote, literal pieces, \( ... ), closing quote, with balanced parentheses) lexes to exactly those
   tokens.  The alphabet now also has whole string literals and the five token kinds of interpolated strings. *)
Theorem C09c_tokenize_items : forall items, chain items = true -> modes false [] items = true ->
  option_map (map Run.proj) (Lexer.tokenize (frender items)) = Some (map fexpected items ++ [(KEOF, [])]).
Proof. exact tokenize_items. Qed.
Print Assumptions C09c_tokenize_items.

(* UNBOUNDED.  The same with ARBITRARY separators (sequences of whitespace bytes and comments, as in C09_respace_tokens)
   for the extended alphabet: the token stream does not depend on the spacing *)
Theorem C09c_tokenize_spaced : forall items final, schain items final = true -> RespaceProofs.sep_ok final = true ->
  option_map (map Run.proj) (Lexer.tokenize (srender items final)) =
  Some (map (fun it => (ftok_kind (snd it), ftok_bytes (snd it))) items ++ [(KEOF, [])]).
Proof. exact tokenize_sitems. Qed.
Print Assumptions C09c_tokenize_spaced.

Theorem C09c_respace_tokens_ext : forall items1 items2 final1 final2,
  map snd items1 = map snd items2 ->
  schain items1 final1 = true -> schain items2 final2 = true ->
  RespaceProofs.sep_ok final1 = true -> RespaceProofs.sep_ok final2 = true ->
  option_map (map Run.proj) (Lexer.tokenize (srender items1 final1)) =
  option_map (map Run.proj) (Lexer.tokenize (srender items2 final2)).
Proof. exact respace_tokens_ext. Qed.
Print Assumptions C09c_respace_tokens_ext.

(* non-vacuity: `if a then .b end` glued as far as allowed, and with comments and odd spacing *)
Example C09c_respace_example :
  let toks := [FKw KIf; FName (codes "a"); FKw KThen; FField (codes "b"); FKw KEnd] in
  let tight := combine [[]; [RespaceProofs.Ws 32]; [RespaceProofs.Ws 32]; []; [RespaceProofs.Ws 10]] toks in
  let loose := combine [[RespaceProofs.Cm (codes " c")]; [RespaceProofs.Ws 9; RespaceProofs.Ws 13];
                        [RespaceProofs.Cm []; RespaceProofs.Ws 32]; [RespaceProofs.Ws 32]; [RespaceProofs.Ws 32]] toks in
  schain tight [] = true /\ schain loose [RespaceProofs.Ws 10] = true /\
  srender tight [] = codes "if a then.b
end".
Proof. repeat split; vm_compute; reflexivity. Qed.

(* non-vacuity of print_tokens *)
Example C09c_print_tokens_example :
  let a := QU (UT (PBase (BName (codes "a")))) in
  let q := QDef (codes "f") (QU (USign true (UT (PSfx (PBase (BNum (codes "12"))) (XName (codes "a"))))))
    (QLabel (codes "l") (QAs
      (QU (UTryCatch a (QU (UT (PSfx (PBase (BIfElse a a (ECons a a ENil) (QU (USign true (UT (PBase BId)))))) (XName (codes "b")))))))
      (PV (codes "x")) []
      (QBin (QU (UT (PSfx (PSfx (PBase BId) (XIdx (QU (UT (PBase (BName (codes "a1"))))))) (XName (codes "b")))))
            OpAlt (QU (UT (PSfx (PBase (BObj (KMore (KVVal (codes "k") a) (KOne (KVVar (codes "x")))))) XIter)))))) in
  wf_sq q = true /\
  print_query (e_sq q) =
  codes "def f: -12 .a; label $l | try a catch if a then a elif a then a else -. end.b as $x | . .[a1].b // { k: a, $x }[]".
Proof. split; vm_compute; reflexivity. Qed.

(* non-vacuity of print_tokens for strings: 1 ."a" + "x\("\(a)")y" | @json "\(.)" *)
Example C09c_print_tokens_strings :
  let a := QU (UT (PBase (BName (codes "a")))) in
  let q := QBin (QBin (QU (UT (PSfx (PBase (BNum (codes "1"))) (XStr (codes "a")))))
                      OpAdd (QU (UT (PBase (BIStr (codes "x") (QU (UT (PBase (BIStr [] a (TEnd [])))))
                                                  (TEnd (codes "y")))))))
                OpPipe (QU (UT (PBase (BFormatIStr (codes "json") [] (QU (UT (PBase BId))) (TEnd []))))) in
  wf_sq q = true /\
  print_query (e_sq q) = codes "1 .""a"" + ""x\(""\(a)"")y"" | @json ""\(.)""".
Proof. split; vm_compute; reflexivity. Qed.

(* non-vacuity: the families are not empty *)
Example C09c_family_sizes :
  (List.length unary_cases_terms, List.length unary_cases_ops, List.length as_cases, List.length def_cases,
   List.length reduce_cases, List.length if_cases, List.length try_cases, List.length label_cases)
  = (2688, 96, 49, 73, 97, 48, 72, 48)%nat /\ N.of_nat (List.length rt_family) = 7516%N.
Proof. split; [exact family_sizes | exact rt_family_size]. Qed.

(* The full statement over the models; C09.v's C09_full is its abstract form.  NOT proved: *)
Definition C09c_full : Prop :=
  (* the AST depends only on the token sequence *)
  (forall s1 s2, Lexer.tokenize s1 <> None ->
     option_map (map Run.proj) (Lexer.tokenize s1) = option_map (map Run.proj) (Lexer.tokenize s2) ->
     parse_prog s1 = parse_prog s2) /\
  (* String() round-trips *)
  (forall src p, parse_prog src = PAccept p -> parse_prog (print_prog p) = PAccept p).
(* What remains unproved for C09c_full: an UNBOUNDED argument about the LR automaton — that for arbitrary token
   lists the tables accept exactly the derivations of the grammar with the documented precedence resolution (LR
   soundness/completeness), hence that print_prog of any accepted AST is re-accepted with the same AST.  Proved
   here: the round trip on the bounded family above; the binding/delimiting statements on their families; the
   operator sublanguage unboundedly (C09.v); and, on every run, the round trip evaluated in the extracted models
   on every program of the correspondence (stream `full`, item 3 of its verdict). *)
