(* C01link — the first instance of C01_full with no gap: for every program q of the fragment F0 /\ F
   (identity, scalar literals, pipe, comma, empty, t[], t.k, if/else, try/catch and ?, error, length,
   `src as $x | body`, $x, array construction [q], reduce, foreach (2- and 3-argument), the alternative operator //, label / break, the operators + - == != < <= > >= on inlined operands) that compiles, every input v (integers, strings, arrays, objects), the final
   code emitted for q (coq/c01vm/Compile.v: tied to compiler.go by instruction-list comparison on every
   sampled program) run on the VM (coq/c01vm/VM.v, natives = Sem's) produces exactly the outputs and the ending
   that the reference semantics Sem.observe gives for the translated program (tied to gojq by the C01
   differential stream) — whenever Sem does not decline.  Proofs: coq/sem/VmLink.v (uses coq/c01vm read-only). *)
From Coq Require Import String.
From Coq Require Import List ZArith NArith.
From Verif Require Import common.Sexp sem.JV sem.Syntax sem.Natives sem.Sem sem.DenLink sem.VmLink gen.GenBuiltins.
From Verif Require c01vm.Syntax c01vm.VM c01vm.Compile c01vm.Den.
Import ListNotations.

Theorem C01link_vm_is_sem : forall bs,
  lookup_builtin bs (codes "empty") 0 = None -> lookup_builtin bs (codes "error") 0 = None ->
  lookup_builtin bs (codes "length") 0 = None ->
  forall q q' code, tr q = Some q' -> c01vm.Compile.compile q = Some code ->
  forall v (n capn : nat) ins,
  (need q' <= n)%nat -> (List.length (fst (den0 false q' [] (emb_v v))) < capn)%nat ->
  (forall why, snd (observe bs n capn false ins (emb q') (emb_v v)) <> EndSkip why) ->
  exists fuel outs m,
    c01vm.VM.run sem_natives code fuel (c01vm.VM.init v) = (outs, m) /\
    fst (observe bs n capn false ins (emb q') (emb_v v)) = map emb_v outs /\
    end_rel (snd (observe bs n capn false ins (emb q') (emb_v v))) m.
Proof. exact vm_run_is_sem_observe. Qed.
Print Assumptions C01link_vm_is_sem.

(* the middle link on its own: Den (for Sem's natives) and den0 agree up to Sem's skips *)
Theorem C01link_den_is_den0 : forall q q', tr q = Some q' ->
  forall v, R [] (den0 false q' [] (emb_v v)) (c01vm.Den.den sem_natives q [] v).
Proof. exact den_link_sem. Qed.
Print Assumptions C01link_den_is_den0.

(* non-vacuity: (.[] | try .a catch .), error  on [{"a":1}, 2]: 1, the message of the failing index, then the
   uncaught error carrying the input; computed on both sides *)
Example C01link_nonvacuous :
  let q := c01vm.Syntax.QComma
             (c01vm.Syntax.QPipe (c01vm.Syntax.QIter c01vm.Syntax.QId)
                (c01vm.Syntax.QTry (c01vm.Syntax.QIndex c01vm.Syntax.QId (c01vm.Syntax.VStr (codes "a"))) (Some c01vm.Syntax.QId)))
             (c01vm.Syntax.QCall0 c01vm.Syntax.F0Error) in
  let v := c01vm.Syntax.VArr [c01vm.Syntax.VObj [(codes "a", c01vm.Syntax.VNum 1)]; c01vm.Syntax.VNum 2] in
  match tr q, c01vm.Compile.compile q with
  | Some q', Some code =>
      let o := observe builtin_defs 60 50 false [] (emb q') (emb_v v) in
      let r := c01vm.VM.run sem_natives code 400 (c01vm.VM.init v) in
      fst o = map emb_v (fst r) /\ List.length (fst o) = 2%nat /\ end_rel (snd o) (snd r)
  | _, _ => False
  end.
Proof. vm_compute. repeat split; reflexivity. Qed.

(* ... and with array construction and reduce:  [.[] | try .a catch 0] | reduce .[] as $x (.; [$x])  -- on [{"a":1},2] *)
Example C01link_nonvacuous_cells :
  let q := c01vm.Syntax.QPipe
             (c01vm.Syntax.QArray (c01vm.Syntax.QPipe (c01vm.Syntax.QIter c01vm.Syntax.QId)
                (c01vm.Syntax.QTry (c01vm.Syntax.QIndex c01vm.Syntax.QId (c01vm.Syntax.VStr (codes "a")))
                                   (Some (c01vm.Syntax.QConst (c01vm.Syntax.VNum 0))))))
             (c01vm.Syntax.QReduce (c01vm.Syntax.QIter c01vm.Syntax.QId) 0%N c01vm.Syntax.QId
                (c01vm.Syntax.QArray (c01vm.Syntax.QVar 0%N))) in
  let v := c01vm.Syntax.VArr [c01vm.Syntax.VObj [(codes "a", c01vm.Syntax.VNum 1)]; c01vm.Syntax.VNum 2] in
  match tr q, c01vm.Compile.compile q with
  | Some q', Some code =>
      let o := observe builtin_defs 60 50 false [] (emb q') (emb_v v) in
      let r := c01vm.VM.run sem_natives code 600 (c01vm.VM.init v) in
      o = ([VArr [VInt 0]], EndNormal) /\ fst o = map emb_v (fst r) /\ end_rel (snd o) (snd r)
  | _, _ => False
  end.
Proof. vm_compute. repeat split; reflexivity. Qed.

(* ... and with //:  [.[] | (.a? // "none")] on [{"a":1},{"a":null},2] *)
Example C01link_nonvacuous_alt :
  let q := c01vm.Syntax.QArray (c01vm.Syntax.QPipe (c01vm.Syntax.QIter c01vm.Syntax.QId)
             (c01vm.Syntax.QAlt (c01vm.Syntax.QTry (c01vm.Syntax.QIndex c01vm.Syntax.QId (c01vm.Syntax.VStr (codes "a"))) None)
                                (c01vm.Syntax.QConst (c01vm.Syntax.VStr (codes "none"))))) in
  let v := c01vm.Syntax.VArr [c01vm.Syntax.VObj [(codes "a", c01vm.Syntax.VNum 1)];
                              c01vm.Syntax.VObj [(codes "a", c01vm.Syntax.VNull)]; c01vm.Syntax.VNum 2] in
  match tr q, c01vm.Compile.compile q with
  | Some q', Some code =>
      let o := observe builtin_defs 60 50 false [] (emb q') (emb_v v) in
      let r := c01vm.VM.run sem_natives code 600 (c01vm.VM.init v) in
      o = ([VArr [VInt 1; VStr (codes "none"); VStr (codes "none")]], EndNormal) /\ fst o = map emb_v (fst r) /\ end_rel (snd o) (snd r)
  | _, _ => False
  end.
Proof. vm_compute. repeat split; reflexivity. Qed.

(* foreach with an extraction, under a try, inside [..]: [foreach .[] as $x (0; $x; [$x, .])] on [1, 2] and the
   2-argument form whose update fails in the middle: [try (foreach .[] as $x (.; $x.a)) catch 7] *)
Example C01link_nonvacuous_foreach :
  let q := c01vm.Syntax.QComma
     (c01vm.Syntax.QArray (c01vm.Syntax.QForeach (c01vm.Syntax.QIter c01vm.Syntax.QId) 0%N
        (c01vm.Syntax.QConst (c01vm.Syntax.VNum 0)) (c01vm.Syntax.QVar 0%N)
        (Some (c01vm.Syntax.QArray (c01vm.Syntax.QComma (c01vm.Syntax.QVar 0%N) c01vm.Syntax.QId)))))
     (c01vm.Syntax.QArray (c01vm.Syntax.QTry (c01vm.Syntax.QForeach (c01vm.Syntax.QIter c01vm.Syntax.QId) 0%N
        c01vm.Syntax.QId (c01vm.Syntax.QIndex (c01vm.Syntax.QVar 0%N) (c01vm.Syntax.VStr (codes "a"))) None)
        (Some (c01vm.Syntax.QConst (c01vm.Syntax.VNum 7))))) in
  let v := c01vm.Syntax.VArr [c01vm.Syntax.VObj [(codes "a", c01vm.Syntax.VNum 1)]; c01vm.Syntax.VNum 2] in
  match tr q, c01vm.Compile.compile q with
  | Some q', Some code =>
      let o := observe builtin_defs 60 50 false [] (emb q') (emb_v v) in
      let r := c01vm.VM.run sem_natives code 900 (c01vm.VM.init v) in
      List.length (fst o) = 2%nat /\ nth 1 (fst o) VNull = VArr [VInt 1; VInt 7] /\
      fst o = map emb_v (fst r) /\ end_rel (snd o) (snd r)
  | _, _ => False
  end.
Proof. vm_compute. repeat split; reflexivity. Qed.

(* label / break: [label $a | (1, (label $b | 2, break $a, 3), 4)] (a break through an inner label), and a break
   from inside try, under a generator: [label $a | .[] | try (if .a then ., break $a else error end) catch 5] *)
Example C01link_nonvacuous_label :
  let q := c01vm.Syntax.QComma
     (c01vm.Syntax.QArray (c01vm.Syntax.QLabel 0%N
        (c01vm.Syntax.QComma (c01vm.Syntax.QConst (c01vm.Syntax.VNum 1))
          (c01vm.Syntax.QComma
             (c01vm.Syntax.QLabel 1%N (c01vm.Syntax.QComma (c01vm.Syntax.QConst (c01vm.Syntax.VNum 2))
                (c01vm.Syntax.QComma (c01vm.Syntax.QBreak 0%N) (c01vm.Syntax.QConst (c01vm.Syntax.VNum 3)))))
             (c01vm.Syntax.QConst (c01vm.Syntax.VNum 4))))))
     (c01vm.Syntax.QArray (c01vm.Syntax.QLabel 0%N
        (c01vm.Syntax.QPipe (c01vm.Syntax.QIter c01vm.Syntax.QId)
           (c01vm.Syntax.QTry
              (c01vm.Syntax.QIf (c01vm.Syntax.QIndex c01vm.Syntax.QId (c01vm.Syntax.VStr (codes "a")))
                 (c01vm.Syntax.QComma c01vm.Syntax.QId (c01vm.Syntax.QBreak 0%N))
                 (c01vm.Syntax.QCall0 c01vm.Syntax.F0Error))
              (Some (c01vm.Syntax.QConst (c01vm.Syntax.VNum 5))))))) in
  let v := c01vm.Syntax.VArr [c01vm.Syntax.VObj [(codes "a", c01vm.Syntax.VNull)];
                              c01vm.Syntax.VObj [(codes "a", c01vm.Syntax.VNum 1)]; c01vm.Syntax.VNum 2] in
  match tr q, c01vm.Compile.compile q with
  | Some q', Some code =>
      let o := observe builtin_defs 60 50 false [] (emb q') (emb_v v) in
      let r := c01vm.VM.run sem_natives code 900 (c01vm.VM.init v) in
      o = ([VArr [VInt 1; VInt 2]; VArr [VInt 5; VObj [(codes "a", VInt 1)]]], EndNormal) /\
      fst o = map emb_v (fst r) /\ end_rel (snd o) (snd r)
  | _, _ => False
  end.
Proof. vm_compute. repeat split; reflexivity. Qed.

(* operators: [.[] - .[]] on [1, 10] = [0, 9, -9, 0] (the RIGHT operand is the outer loop), a type error of + caught
   with its message, and a comparison on length *)
Example C01link_nonvacuous_binop :
  let q := c01vm.Syntax.QComma
     (c01vm.Syntax.QArray (c01vm.Syntax.QBinop c01vm.Syntax.OSub c01vm.Syntax.AIter c01vm.Syntax.AIter))
     (c01vm.Syntax.QComma
        (c01vm.Syntax.QTry (c01vm.Syntax.QBinop c01vm.Syntax.OAdd c01vm.Syntax.AId (c01vm.Syntax.AConst (c01vm.Syntax.VStr (codes "s"))))
           (Some c01vm.Syntax.QId))
        (c01vm.Syntax.QBinop c01vm.Syntax.OLt (c01vm.Syntax.ACall0 c01vm.Syntax.F0Length) (c01vm.Syntax.AConst (c01vm.Syntax.VNum 3)))) in
  let v := c01vm.Syntax.VArr [c01vm.Syntax.VNum 1; c01vm.Syntax.VNum 10] in
  match tr q, c01vm.Compile.compile q with
  | Some q', Some code =>
      let o := observe builtin_defs 60 50 false [] (emb q') (emb_v v) in
      let r := c01vm.VM.run sem_natives code 900 (c01vm.VM.init v) in
      List.length (fst o) = 3%nat /\ nth 0 (fst o) VNull = VArr [VInt 0; VInt 9; VInt (-9); VInt 0] /\
      nth 1 (fst o) VNull = VStr (codes "cannot add: array ([1,10]) and string (""s"")") /\ nth 2 (fst o) VNull = VBool true /\
      fst o = map emb_v (fst r) /\ end_rel (snd o) (snd r)
  | _, _ => False
  end.
Proof. vm_compute. repeat split; reflexivity. Qed.
