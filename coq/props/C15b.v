(* C15 (b) — THE COMMAND FROM ARGV.  Statements only (model coq/c15/Main.v, proofs coq/c15/MainProofs.v).

   [cli_main args w] = parse_flags over the option table translated from cli/cli.go (c08/Flags.v) -> runInternal before the
   loop (--help / --version, colours, --indent range, --yaml-output with --tab, --arg / --argjson / --slurpfile / --rawfile /
   --args / --jsonargs bindings, -f, the query argument, Parse / Compile) -> the run loop of c15/Cli.v.
   [w : world] is the outside world: terminal, environment, files, the help / version texts, the colour and YAML encoders and
   THE LIBRARY ([w_lib]: for the query source, bindings, module paths and input configuration the argv denotes, Parse / Compile
   failure or what the input iterator and every Code.Run iterator yield).  Every theorem is for ALL argument vectors and ALL
   worlds; nothing is assumed about the world.

   Read off the code (differs from what one might expect): a missing query argument is NOT a usage error (the query is "."),
   and a rejected option VALUE (--indent 10, --indent -1, --yaml-output --tab, undecodable --argjson / --jsonargs, unreadable
   --slurpfile / --rawfile / -f file, -f without file, rejected GOJQ_COLORS) exits with 5, not 2. *)
From Coq Require Import List ZArith NArith Bool String.
From Verif Require Import common.Sexp gen.GenFlagTable gen.GenCliTables c08.Flags c15.Cli c15.Spec c15.Main c15.MainProofs.
Import ListNotations.
Open Scope Z_scope.

(* (i) the command never reaches the Panic / out-of-fuel outcome of the flag parser model *)
Theorem C15b_main_never_panics : forall args w, phase_of args w <> PhPanic.
Proof. exact main_never_panics. Qed.
Print Assumptions C15b_main_never_panics.

(* the whole result (stdout bytes, stderr chunks, status) of every phase:
   usage error: nothing / one diagnostic / 2;  --help, --version: the text on stdout / nothing / 0;
   rejected option value: nothing / one diagnostic / 5;  query parse or compile error: nothing / one diagnostic / 3;
   otherwise C15's specified function of the library's outcomes *)
Theorem C15b_main_result : forall args w,
  cli_main args w =
  match phase_of args w with
  | PhPanic => mkR [] [] (-1)
  | PhUsage => mkR [] [CDiag] 2
  | PhHelp => mkR (w_help w) [] 0
  | PhVersion => mkR (w_version w) [] 0
  | PhPre _ POptErr => mkR [] [CDiag] 5
  | PhPre _ PFlagErr => mkR [] [CDiag] 2
  | PhPre o PReady => spec_result o PReady []
  | PhPre _ _ => mkR [] [CDiag] 3
  | PhRun o ins => spec_result o PReady ins
  end.
Proof. exact main_result. Qed.
Print Assumptions C15b_main_result.

(* an error before the loop is a rejected option value, a parse error or a compile error *)
Theorem C15b_pre_phases : forall args w o p, phase_of args w = PhPre o p -> p = POptErr \/ p = PParseErr \/ p = PCompileErr.
Proof. exact phase_pre. Qed.
Print Assumptions C15b_pre_phases.

(* (ii) usage errors, rejected option values and query errors print nothing on stdout and one diagnostic on stderr *)
Theorem C15b_silent_before_loop : forall args w,
  match phase_of args w with
  | PhUsage | PhPre _ _ => r_out (cli_main args w) = [] /\ r_err (cli_main args w) = [CDiag]
  | _ => True
  end.
Proof. exact main_silent_before_loop. Qed.
Print Assumptions C15b_silent_before_loop.

(* the status and its origin: 2 exactly for flag-parse errors, 0 for --help / --version, 5 for a rejected option value,
   3 for parse / compile errors; after the loop: the status a halt requested, else the ExitCode the LAST error value carries,
   else 5 after any runtime / input error, else under --exit-status 4 (no output) / 1 (last output false or null) / 0, else 0 *)
Theorem C15b_status_origin : forall args w,
  let st := r_status (cli_main args w) in
  match phase_of args w with
  | PhPanic => False
  | PhUsage => st = 2
  | PhHelp | PhVersion => st = 0
  | PhPre _ POptErr => st = 5
  | PhPre _ p => st = 3 /\ (p = PParseErr \/ p = PCompileErr)
  | PhRun o ins =>
      match spec_halt o ins with
      | Some (_, c) => st = c
      | None =>
          match last_opt (spec_errors o ins) with
          | Some (Some c) => st = c
          | Some None => st = 5
          | None =>
              if o_exit o
              then match last_opt (spec_values o ins) with None => st = 4 | Some v => st = if falsy v then 1 else 0 end
              else st = 0
          end
      end
  end.
Proof. exact main_status_origin. Qed.
Print Assumptions C15b_status_origin.

(* the documented codomain, with NO hypothesis on the world: 0..5, or the code of a halt / halt_error, or the ExitCode
   carried by an error value, that one of the library's runs for this argv produced *)
Theorem C15b_status_documented : forall args w,
  let st := r_status (cli_main args w) in
  0 <= st <= 5 \/ exists lins, lib_runs args w lins /\ (halts_of lins st \/ errs_of lins (Some st)).
Proof. exact main_status_documented. Qed.
Print Assumptions C15b_status_documented.

(* 1 and 4 only under --exit-status *)
Theorem C15b_status_1_4 : forall args w o ins, phase_of args w = PhRun o ins ->
  spec_halt o ins = None -> spec_errors o ins = [] ->
  let st := r_status (cli_main args w) in
  (o_exit o = false -> st = 0) /\
  (o_exit o = true -> match last_opt (spec_values o ins) with None => st = 4 | Some v => st = if falsy v then 1 else 0 end).
Proof. exact main_status_1_4. Qed.
Print Assumptions C15b_status_1_4.

(* (iii) C15's theorems for the command started from an argument vector.  Where a run comes from: *)
Theorem C15b_run_phase : forall args w o ins, phase_of args w = PhRun o ins ->
  exists rest fo q files lins,
    parse_flags flag_table args = FOk rest fo /\ fbool fo "help" = false /\ fbool fo "version" = false /\
    indent_bad fo = false /\ bindings_ok fo w = true /\
    query_of fo rest w = Some (q, files) /\ w_lib w (job_of fo q files) = LOk lins /\
    o = eff_opts fo w /\ ins = eff_ins fo w (shape_ins fo lins).
Proof. exact phase_run_inv. Qed.
Print Assumptions C15b_run_phase.

(* ... where the input list is shaped by -n and -s as cli.go does: -n = one run on nil, nothing is read; -s = one run on
   all values together, or the first input error and nothing else; otherwise one run per value, input errors in place *)
Theorem C15b_input_shape : forall fo a,
  shape_ins fo a =
  if fbool fo "null-input" then [InRun (a_null a)]
  else if fbool fo "slurp" then (if existsb is_err_item (a_items a) then [InErr] else [InRun (a_slurp a)])
  else map item_input (a_items a).
Proof. exact input_shape_spelled. Qed.
Print Assumptions C15b_input_shape.

(* stdout is the concatenation, input by input up to and including the first halting one, of each input's outputs before
   its first error / halt / rejected string, each rendered and terminated as selected *)
Theorem C15b_stdout_is_concat : forall args w o ins, phase_of args w = PhRun o ins ->
  r_out (cli_main args w) =
  flat_map (fun i => match i with
                     | InErr => []
                     | InRun outs => flat_map (out_bytes o) (take_while (fun x => negb (stopper o x)) outs)
                     end)
           (upto_incl (halts o) ins).
Proof. exact main_stdout_is_concat. Qed.
Print Assumptions C15b_stdout_is_concat.

Theorem C15b_stderr_is_concat : forall args w o ins, phase_of args w = PhRun o ins ->
  r_err (cli_main args w) = flat_map (input_diag o) (upto_incl (halts o) ins).
Proof. exact main_stderr_is_concat. Qed.
Print Assumptions C15b_stderr_is_concat.

Theorem C15b_error_continues : forall args w o pre post, phase_of args w = PhRun o (pre ++ post) ->
  forallb (fun i => negb (halts o i)) pre = true ->
  r_out (cli_main args w) = flat_map (input_stdout o) pre ++ r_out (run o PReady post).
Proof. exact main_error_continues. Qed.
Print Assumptions C15b_error_continues.

Theorem C15b_halt_stops : forall args w o pre i post, phase_of args w = PhRun o (pre ++ i :: post) ->
  halts o i = true -> cli_main args w = run o PReady (pre ++ [i]).
Proof. exact main_halt_stops. Qed.
Print Assumptions C15b_halt_stops.

Theorem C15b_exit_status_table : forall args w o ins, phase_of args w = PhRun o ins ->
  r_status (cli_main args w) = spec_status o PReady ins.
Proof. exact main_exit_status_table. Qed.
Print Assumptions C15b_exit_status_table.

(* plain JSON output (no colour, no --yaml-output): the options are the ones the argv denotes, the outcomes are the
   library's for the query / bindings / inputs the argv denotes, and the whole result is C15's specified function of them *)
Theorem C15b_plain : forall args w rest fo, parse_flags flag_table args = FOk rest fo ->
  fbool fo "help" = false -> fbool fo "version" = false -> outmode_of fo w = MPlain ->
  forall o ins, phase_of args w = PhRun o ins ->
  o = opts_of fo /\
  (exists q files a, query_of fo rest w = Some (q, files) /\ w_lib w (job_of fo q files) = LOk a /\ ins = shape_ins fo a) /\
  cli_main args w = spec_result (opts_of fo) PReady ins.
Proof. exact main_plain. Qed.
Print Assumptions C15b_plain.

(* colour output: only the rendering [b] changes *)
Theorem C15b_color_out_bytes : forall o k b,
  out_bytes (with_compact o) (OVal (mkV k b)) =
  match k with
  | KStr s => if o_raw o || o_raw0 o || o_join o then (if o_raw0 o && has_nul s then [] else s ++ terminator o) else b ++ terminator o
  | _ => b ++ terminator o
  end.
Proof. exact color_out_bytes. Qed.
Print Assumptions C15b_color_out_bytes.

(* --yaml-output: one input yielding the values vs prints  yaml(v1) "---\n" yaml(v2) "---\n" yaml(v3) ...  whatever
   -r / -j / --raw-output0 say *)
Theorem C15b_yaml_one_input : forall args w rest fo vs, parse_flags flag_table args = FOk rest fo ->
  fbool fo "yaml-output" = true ->
  phase_of args w = PhRun (eff_opts fo w) (eff_ins fo w [InRun (map OVal vs)]) ->
  r_out (cli_main args w) =
  match vs with
  | [] => []
  | v :: r => w_yaml w (findent fo) v ++ flat_map (fun v => yaml_sep ++ w_yaml w (findent fo) v) r
  end.
Proof. exact main_yaml_one_input. Qed.
Print Assumptions C15b_yaml_one_input.

(* every option name the model reads exists in the current cli.go with the kind it is read as *)
Theorem C15b_option_names_current : names_ok = true.
Proof. exact names_exist. Qed.
Print Assumptions C15b_option_names_current.

(* non-vacuity: [example_world] (c15/MainProofs.v): the library yields, for any job but the query `.[`, the runs
   [1, error x, 1] and [false], on nil [null], on the slurped array [[1,false]] *)
Example C15b_nonvacuous :
  let w := example_world in
  cli_main [codes "-e"; codes "."] w = mkR (codes "1" ++ [10; 102; 97; 108; 115; 101; 10]%N) [CExact (codes "gojq: x" ++ [10%N])] 5 /\
  cli_main [codes ".["] w = mkR [] [CDiag] 3 /\
  cli_main [codes "--indent"; codes "10"] w = mkR [] [CDiag] 5 /\
  cli_main [codes "--indent"] w = mkR [] [CDiag] 2 /\
  cli_main [codes "-f"] w = mkR [] [CDiag] 5 /\
  cli_main [codes "-h"; codes "--nosuch"] w = mkR [] [CDiag] 2 /\
  cli_main [codes "--version"; codes "-h"] w = mkR (codes "help") [] 0 /\
  cli_main [] w = mkR (codes "1" ++ [10; 102; 97; 108; 115; 101; 10]%N) [CExact (codes "gojq: x" ++ [10%N])] 5 /\
  r_out (cli_main [codes "--yaml-output"; codes "--raw-output0"] w) = (codes "1" ++ [10%N] ++ yaml_sep ++ codes "false" ++ [10%N])%list /\
  cli_main [codes "-n"; codes "-e"; codes "."] w = mkR (codes "null" ++ [10%N]) [] 1 /\
  cli_main [codes "-sc"; codes "."] w = mkR (codes "[1,false]" ++ [10%N]) [] 0.
Proof. exact main_examples. Qed.
