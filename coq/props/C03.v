(* C03 — Every builtin computes its documented function on all argument types.
   Statements only; every theorem is closed by [exact] of a lemma proved under coq/c03/.
   Model: coq/c03/{JV,Core,Ops,Natives,Dispatch}.v (one Gallina function per native of func.go /
   operator.go, the four Go number representations as distinct constructors, every Go operation that
   can panic as an explicit Panic outcome).  Spec: coq/c03/Spec.v (documented functions over
   mathematical values; [denote] forgets the number representation).
   Oracles (Section variables, never axioms): pf = strconv.ParseFloat, ff = float formatting of
   encoder.go, l1 l2 l3 lp = libm, jd = encoding/json decoder.
   Hypothesis pf_bigint (stated where used): ParseFloat of the decimal digits of an integer is the
   correctly rounded double (Z2F = Flocq round-to-nearest-even), +-Inf beyond the range. *)
From Coq Require Import List ZArith NArith Bool String Permutation.
From Flocq Require Import IEEE754.BinarySingleNaN.
From Verif Require Import common.Sexp common.Int64 gen.GenFuncTable
  c03.JV c03.FloatText c03.Core c03.Ops c03.Natives c03.Dispatch c03.Spec c03.Wf c03.TableProofs
  c03.NoPanic3 c03.DispatchTotal c03.Denote c03.CompareDoc c03.OpsDoc c03.NativesDoc c03.NativesDoc2 c03.NativesDoc3 c03.ContainsDoc c03.IndicesDoc c03.StringsDoc c03.PathDoc c03.FlattenDoc c03.SortDoc c03.RangeDoc c03.TextDoc c03.SimpleDoc c03.SliceDoc c03.RepIndep c03.BsearchDoc c03.EncodeDoc c03.AnyDoc c03.LiteralDoc c03.RangeAnyDoc c03.FloatIntDoc c03.SliceAllDoc c03.IndexAllDoc c03.GetpathAllDoc c03.RepIndep2 c03.FlattenAllDoc c03.GetpathFullDoc c03.MeetsListed c03.Run.
Import ListNotations.
Open Scope Z_scope.

(* 0. The model's table of natives (names, arity masks, iter flags, Go callees) is the table translated
   from func.go of the current tree: a native added, removed or re-wired breaks this. *)
Theorem C03_table_in_sync : table_diff func_table = [].
Proof. exact table_in_sync. Qed.
Print Assumptions C03_table_in_sync.

(* 1. dispatch_total: every modelled native (150 names: all of internalFuncs except the specially
   compiled ones, regular expressions and time), called with an argument count its table entry accepts,
   on ANY input and arguments (the input free of the internal delpaths placeholder), for ANY oracles,
   returns a value or an error -- never a Go panic (index out of range, slice bounds, failed type
   assertion, TypeOf/encode of a non-value). *)
Theorem C03_dispatch_total :
  forall pf ff l1 l2 l3 jd lp fuel name v args o,
    hole_free v = true -> arity_ok name (List.length args) = true ->
    call_native pf ff l1 l2 l3 jd lp fuel name v args = Some o -> np o.
Proof. exact dispatch_total. Qed.
Print Assumptions C03_dispatch_total.

(* 2. Compare (sort order, ==, <, min, max, unique, indices, array difference, range) is the documented
   total order on denotations. *)
Theorem C03_compare_is_documented_order :
  forall pf, (forall z, big_to_float pf z = Z2F z) ->
  forall l r, wf l = true -> wf r = true -> compare pf l r = cmp_Z (mcmp (denote pf l) (denote pf r)).
Proof. exact compare_doc. Qed.
Print Assumptions C03_compare_is_documented_order.

(* 3. meets_doc, operators: the full 7x7 type dispatch of + - * / % on arbitrary well-formed operands
   (null identity, exact integers in every representation, float arithmetic, string concatenation /
   repetition with the n<0, fractional, huge rules, array concatenation / difference, object merge and
   recursive merge); [agrees]: a value denoting the documented value, or an error where an error is
   documented. *)
Theorem C03_operators_meet_doc : forall pf, (forall z, big_to_float pf z = Z2F z) ->
  forall l r, wf l = true -> wf r = true ->
     agrees pf (op_add pf l r) (s_add (denote pf l) (denote pf r))
  /\ agrees pf (op_sub pf l r) (s_sub (denote pf l) (denote pf r))
  /\ agrees pf (op_mul pf l r) (s_mul (denote pf l) (denote pf r))
  (* division: every operand pair except string/string (splitting is judged by the correspondence run) *)
  /\ ((forall s t, l = JStr s -> r = JStr t -> False) -> agrees pf (op_div pf l r) (s_div (denote pf l) (denote pf r)))
  /\ agrees pf (op_mod pf l r) (s_mod (denote pf l) (denote pf r))
  /\ (forall (t : Z -> bool) (t' : comparison -> bool), (forall c, t (cmp_Z c) = t' c) ->
        agrees pf (op_cmp pf t l r) (s_cmp t' (denote pf l) (denote pf r)))
  /\ agrees pf (op_alt l r) (SVal (match denote pf l with MNull | MBool false => denote pf r | _ => denote pf l end)).
Proof.
  exact (fun pf H l r WL WR =>
    conj (op_add_doc pf H l r WL WR) (conj (op_sub_doc pf H l r WL WR) (conj (op_mul_doc pf H l r WL WR)
    (conj (op_div_doc pf H l r WL WR) (conj (op_mod_doc pf H l r WL WR)
    (conj (fun t t' Ht => op_cmp_doc pf H t t' l r WL WR Ht) (op_alt_doc pf l r WL))))))).
Qed.
Print Assumptions C03_operators_meet_doc.

(* the int kernels are exact: an int when the result fits, the exact *big.Int otherwise *)
Theorem C03_int_kernels_exact : forall l r, in_int l -> in_int r ->
  num_int (add_int l r) = Some (l + r) /\ num_int (sub_int l r) = Some (l - r) /\ num_int (mul_int l r) = Some (l * r).
Proof. intros l r Hl Hr. exact (conj (proj1 (add_int_exact l r Hl Hr)) (conj (proj1 (sub_int_exact l r Hl Hr)) (proj1 (mul_int_exact l r Hl Hr)))). Qed.
Print Assumptions C03_int_kernels_exact.

(* 4. meets_doc, natives (first batch; the others with an entry in Spec.v -- contains, inside, indices,
   index, rindex, add, flatten, min, max, sort, unique, transpose, implode, ascii_*case, getpath, split,
   _index, _slice, rtrimstr, endswith, trimstr -- are judged against Spec.v by the correspondence run) *)
Theorem C03_natives_meet_doc : forall pf v x, wf v = true -> wf x = true ->
     (not_literal v -> agrees pf (f_length v) (s_length (denote pf v)))
  /\ (not_literal v -> agrees pf (f_abs v) (s_abs (denote pf v)))
  /\ agrees pf (f_utf8bytelength v) (s_utf8bytelength (denote pf v))
  /\ agrees pf (f_keys v) (s_keys (denote pf v))
  /\ agrees pf (f_has pf v x) (s_has (denote pf v) (denote pf x))
  /\ agrees pf (f_reverse v) (s_reverse (denote pf v))
  /\ agrees pf (f_type v) (s_type (denote pf v))
  /\ agrees pf (f_explode v) (s_explode (denote pf v))
  /\ agrees pf (f_startswith v x) (s_str2 (fun s t => MBool (s_startswith s t)) (denote pf v) (denote pf x))
  /\ agrees pf (f_ltrimstr v x) (s_str2 (fun s t => MStr (s_ltrimstr s t)) (denote pf v) (denote pf x)).
Proof.
  exact (fun pf v x WV WX =>
    conj (f_length_doc pf v WV) (conj (f_abs_doc pf v WV) (conj (f_utf8bytelength_doc pf v WV) (conj (f_keys_doc pf v WV)
    (conj (f_has_doc pf v x WV WX) (conj (f_reverse_doc pf v WV) (conj (f_type_doc pf v WV) (conj (f_explode_doc pf v WV)
    (conj (f_startswith_doc pf v x WV WX) (f_ltrimstr_doc pf v x WV WX)))))))))).
Qed.
Print Assumptions C03_natives_meet_doc.

(* second batch (these use Compare / + and therefore the ParseFloat hypothesis): min = first minimal
   element, max = last maximal element, add = the fold of + from null over the elements (values of an
   object in key order) *)
Theorem C03_natives_meet_doc2 : forall pf, (forall z, big_to_float pf z = Z2F z) ->
  forall v, wf v = true ->
     agrees pf (f_minmax pf true v) (s_min (denote pf v))
  /\ agrees pf (f_minmax pf false v) (s_max (denote pf v))
  /\ agrees pf (f_add pf v) (s_add_all (denote pf v)).
Proof. exact (fun pf H v W => conj (f_min_doc pf H v W) (conj (f_max_doc pf H v W) (f_add_doc pf H v W))). Qed.
Print Assumptions C03_natives_meet_doc2.

(* third batch.  [ragrees]: where Spec.v has no entry (None: outside the documented domain, e.g. invalid
   UTF-8 for ascii_*case and split by "", non-code-points for implode) nothing is claimed. *)
Theorem C03_natives_meet_doc3 : forall pf, (forall z, big_to_float pf z = Z2F z) ->
  forall v x, wf v = true -> wf x = true ->
     agrees pf (f_endswith v x) (s_str2 (fun s t => MBool (s_endswith s t)) (denote pf v) (denote pf x))
  /\ agrees pf (f_rtrimstr v x) (s_str2 (fun s t => MStr (s_rtrimstr s t)) (denote pf v) (denote pf x))
  /\ agrees pf (f_trimstr v x) (s_str2 (fun s t => MStr (s_rtrimstr (s_ltrimstr s t) t)) (denote pf v) (denote pf x))
  /\ agrees pf (f_tonumber pf v) (match s_tonumber pf (denote pf v) with Some r => r | None => SErr end)
  /\ (forall is_min, agrees pf (f_minmax_by pf is_min v x) (s_minmax_by is_min (denote pf v) (denote pf x)))
  /\ agrees pf (f_transpose v) (s_transpose (denote pf v))
  /\ cagrees (contains pf v x) (s_contains (denote pf v) (denote pf x))
  /\ agrees pf (f_indices pf v x) (s_indices (denote pf v) (denote pf x))
  /\ agrees pf (f_index pf v x) (s_index (denote pf v) (denote pf x))
  /\ agrees pf (f_rindex pf v x) (s_rindex (denote pf v) (denote pf x))
  /\ ragrees pf (f_ascii_downcase v) (s_ascii false (denote pf v))
  /\ ragrees pf (f_ascii_upcase v) (s_ascii true (denote pf v))
  /\ ragrees pf (f_split v x) (match denote pf v, denote pf x with
                               | MStr s, MStr t => option_map (fun ps => SVal (MArr (map MStr ps))) (s_split s t)
                               | _, _ => Some SErr end)
  /\ ragrees pf (f_implode pf v) (s_implode (denote pf v))
  (* division on every pair of operands, string / string included *)
  /\ agrees pf (op_div pf v x) (s_div (denote pf v) (denote pf x)).
Proof.
  exact (fun pf H v x WV WX =>
    conj (f_endswith_doc pf v x WV WX) (conj (f_rtrimstr_doc pf v x WV WX) (conj (f_trimstr_doc pf v x WV WX)
    (conj (f_tonumber_doc pf v WV) (conj (fun m => f_minmax_by_doc pf H m v x WV WX) (conj (f_transpose_doc pf v WV)
    (conj (contains_doc pf H v x WV WX) (conj (f_indices_doc pf H v x WV WX) (conj (f_index_doc pf H v x WV WX)
    (conj (f_rindex_doc pf H v x WV WX) (conj (f_ascii_downcase_doc pf v WV) (conj (f_ascii_upcase_doc pf H v WV)
    (conj (f_split_doc pf v x WV WX) (conj (f_implode_doc pf v WV) (op_div_doc_all pf H v x WV WX))))))))))))))).
Qed.
Print Assumptions C03_natives_meet_doc3.
(* fourth batch: paths, flatten, range *)
Theorem C03_paths_flatten_range_meet_doc : forall pf, (forall z, big_to_float pf z = Z2F z) ->
  (* .[k] on null / array / object with a string or integer key (any representation; arrays shorter than 2^63) *)
  (forall v x, wf v = true -> wf x = true -> sized v = true -> (match v with JStr _ => False | _ => True end) ->
     (forall f, denote pf x <> MFlt f) -> (forall l, denote pf x <> MArr l) -> (forall m, denote pf x <> MObj m) ->
     agrees pf (f_index2 pf v x) (step_spec (denote pf v) (denote pf x)))
  (* getpath along such keys *)
  /\ (forall v path, wf v = true -> sized v = true -> Forall (pkey pf) path ->
       ragrees pf (f_getpath pf v (JArr path)) (s_getpath (map (denote pf) path) (denote pf v)))
  (* reading back a path just written (string keys and non-negative int indices) *)
  /\ (forall path v n u, Forall simple_key path -> is_hole n = false -> hole_free v = true ->
       update pf path v n = Val u -> getpath_loop pf path u = Val n)
  (* flatten/0 on values nested at most 1000 deep; flatten/1 with integer depth (|depth| <= 1000) *)
  /\ (forall v, wf v = true -> (forall vs, values v = Some vs -> Forall (fun x => (nest x <= 999)%nat) vs) ->
       ragrees pf (f_flatten pf v []) (s_flatten (denote pf v) None))
  /\ (forall v a, wf v = true -> wf a = true -> ragrees pf (f_flatten pf v [a]) (s_flatten (denote pf v) (Some (denote pf a))))
  (* _range on integers in any representation: the documented progression (first [fuel] outputs) *)
  /\ (forall fuel v e s x upto by_, wf v = true -> wf e = true -> wf s = true ->
       denote pf v = MInt x -> denote pf e = MInt upto -> denote pf s = MInt by_ ->
       exists l cut, range_seq pf fuel v e s = Val (l, cut) /\ map (denote pf) l = map MInt (fst (zprog fuel x upto by_))
                     /\ cut = snd (zprog fuel x upto by_)).
Proof.
  exact (fun pf H => conj (f_index2_step pf H) (conj (f_getpath_doc pf H) (conj (setpath_getpath pf)
    (conj (f_flatten0_doc pf) (conj (f_flatten1_doc pf H) (range_seq_doc pf H)))))).
Qed.
Print Assumptions C03_paths_flatten_range_meet_doc.

(* sort / sort_by / unique / unique_by / group_by against the model's Compare (the order itself:
   C03_compare_is_documented_order): a permutation of the input whose adjacent keys are never out of order
   whenever Compare is asymmetric on the keys (it is away from NaN); unique keeps the first value of each
   run of Compare-equal keys; group_by cuts the sorted values into non-empty groups *)
Theorem C03_sort_family : forall pf,
  (forall by_ vs xs items, sort_items pf by_ (JArr vs) (JArr xs) = Val items ->
     Permutation items (combine vs xs) /\
     ((forall a b, item_less pf a b = true -> item_less pf b a = false) -> lsorted pf items) /\
     (* stability: items that are pairwise tied keep their input order (so "the first value of each run" of
        unique_by and the order inside a group of group_by are the input order) *)
     (forall P : item -> bool, (forall a b, P a = true -> P b = true -> item_less pf a b = false) ->
        filter P items = filter P (combine vs xs)))
  /\ (forall by_ vs xs out, f_unique_by pf by_ (JArr vs) (JArr xs) = Val out ->
       exists items sel, sort_items pf by_ (JArr vs) (JArr xs) = Val items /\ out = JArr sel /\ kept pf true JNull items sel)
  /\ (forall vs xs out, f_group_by pf (JArr vs) (JArr xs) = Val out ->
       exists items groups, sort_items pf true (JArr vs) (JArr xs) = Val items /\ out = JArr (map JArr groups)
         /\ List.concat groups = map fst items /\ Forall (fun g => g <> []) groups).
Proof. exact (fun pf => conj (sort_items_doc pf) (conj (f_unique_by_doc pf) (f_group_by_doc pf))). Qed.
Print Assumptions C03_sort_family.

(* text: join/1 on scalars with a string separator; the row rules of @csv / @tsv / @sh; tostring / @text /
   format dispatch *)
Theorem C03_text_rules : forall pf ff,
  (forall vs sep texts, vs <> [] -> all_some_b (map (cell_text ff) vs) = Some texts ->
     f_join pf ff (JArr vs) (JStr sep) = Val (JStr (join_bytes sep texts)))
  /\ (forall sh sep escape vs cells, all_some_b (map (row_cell ff sh escape) vs) = Some cells ->
       format_join ff sh sep escape (JArr vs) = Val (JStr (join_bytes sep cells)))
  /\ (forall sh sep escape v,
       (match v with JArr _ => False | _ => True end -> format_join ff sh sep escape v = Err EFunc0Type)
       /\ (forall vs x, v = JArr vs -> In x vs -> (match x with JArr _ | JObj _ => True | _ => False end) ->
            hole_free v = true -> format_join ff sh sep escape v = Err EFormatRow))
  /\ (forall v s, f_tostring ff (JStr s) = Val (JStr s)
       /\ (match v with JStr _ => False | _ => True end -> f_tostring ff v = f_tojson ff v)
       /\ f_format ff v (JStr (codes "text")) = f_tostring ff v /\ f_format ff v (JStr (codes "json")) = f_tojson ff v).
Proof.
  exact (fun pf ff => conj (f_join_doc pf ff) (conj
    (fun sh sep escape vs cells E => eq_trans (format_join_doc ff sh sep escape vs)
       (f_equal (fun o => match o with Some c => Val (JStr (join_bytes sep c)) | None => format_join ff sh sep escape (JArr vs) end) E))
    (conj (format_join_errors ff)
    (fun v s => conj (proj1 (tostring_dispatch ff v JNull) s) (conj (proj1 (proj2 (tostring_dispatch ff v JNull)))
       (conj (proj1 (proj2 (proj2 (tostring_dispatch ff v JNull)))) (proj1 (proj2 (proj2 (proj2 (tostring_dispatch ff v JNull))))))))))).
Qed.
Print Assumptions C03_text_rules.

(* fifth batch: toboolean, unary + and -, number predicates, the math natives (the table function -- a
   correctly rounded Flocq operation for the ten exact ones, libm otherwise -- applied to the doubles the
   arguments denote), ltrim / rtrim / trim on valid UTF-8, .[s:e] on null / arrays with null or integer
   bounds *)
Theorem C03_natives_meet_doc5 : forall pf, (forall z, big_to_float pf z = Z2F z) ->
  forall v x y, wf v = true -> wf x = true -> wf y = true ->
     agrees pf (f_toboolean v) (s_toboolean (denote pf v))
  /\ agrees pf (op_plus v) (s_plus (denote pf v))
  /\ (not_literal v -> agrees pf (op_negate v) (s_negate (denote pf v)))
  /\ agrees pf (f_isnan pf v) (s_isnan (denote pf v)) /\ agrees pf (f_isinfinite pf v) (s_isinfinite (denote pf v))
  /\ agrees pf (f_isfinite pf v) (s_isfinite (denote pf v)) /\ agrees pf (f_isnormal pf v) (s_isnormal (denote pf v))
  /\ (forall l1 name, agrees pf (f_math1 pf l1 name v) (s_math1 (math1 l1 name) (denote pf v)))
  /\ (forall l2 name, agrees pf (f_math2 pf l2 name x y) (s_math2 (math2 l2 name) (denote pf x) (denote pf y)))
  /\ (forall l3 name, agrees pf (f_math3 pf l3 name v x y) (s_math3 (l3 name) (denote pf v) (denote pf x) (denote pf y)))
  /\ (forall l1 l2 a b,
        math1 l1 "floor" a = fnearbyint mode_DN a /\ math1 l1 "ceil" a = fnearbyint mode_UP a
        /\ math1 l1 "trunc" a = fnearbyint mode_ZR a /\ math1 l1 "round" a = fnearbyint mode_NA a
        /\ math1 l1 "rint" a = fnearbyint mode_NE a /\ math1 l1 "nearbyint" a = fnearbyint mode_NE a
        /\ math1 l1 "fabs" a = fabs a /\ math1 l1 "sqrt" a = fsqrt a
        /\ math2 l2 "fmax" a b = fmax_go a b /\ math2 l2 "fmin" a b = fmin_go a b)
  /\ (ragrees pf (f_ltrim v) (s_trim true false (denote pf v)) /\ ragrees pf (f_rtrim v) (s_trim false true (denote pf v))
      /\ ragrees pf (f_trim v) (s_trim true true (denote pf v)))
  /\ (sized v = true -> (match v with JStr _ => False | _ => True end) -> no_float pf x -> no_float pf y ->
      ragrees pf (f_slice pf v x y) (s_slice (denote pf v) (denote pf x) (denote pf y))).
Proof.
  exact (fun pf H v x y WV WX WY =>
    conj (f_toboolean_doc pf v WV) (conj (op_plus_doc pf v WV) (conj (op_negate_doc pf v WV)
    (conj (f_isnan_doc pf H v WV) (conj (f_isinfinite_doc pf H v WV) (conj (f_isfinite_doc pf H v WV) (conj (f_isnormal_doc pf H v WV)
    (conj (fun l1 name => f_math1_doc pf H l1 name v WV) (conj (fun l2 name => f_math2_doc pf H l2 name x y WX WY)
    (conj (fun l3 name => f_math3_doc pf H l3 name v x y WV WX WY) (conj (fun l1 l2 a b => math_exact l1 l2 a b)
    (conj (f_trim_doc pf v WV) (f_slice_doc pf H v x y WV WX WY))))))))))))).
Qed.
Print Assumptions C03_natives_meet_doc5.

(* error / halt_error: the dispatch *)
Theorem C03_error_dispatch : forall pf v a,
  f_error v [] = Err (EUser v) /\ f_error v [a] = Err (EUser a)
  /\ f_halt_error pf v [] = Err (EHalt v 5)
  /\ (wf a = true -> f_halt_error pf v [a] = match mv_int (denote pf a) with Some c => Err (EHalt v c) | None => Err EFunc0Type end).
Proof. exact (fun pf v a => conj (proj1 (f_error_doc v a)) (conj (proj2 (f_error_doc v a)) (f_halt_error_doc pf v a))). Qed.
Print Assumptions C03_error_dispatch.

(* 5. rep_independent.  The conversions every numeric argument goes through (toFloat, toInt,
   toIntCeil) and Compare depend on the denotation only -- for integers of ANY size in int / *big.Int /
   json.Number, and for a float64 against ANY fraction/exponent literal that parses to it (in particular
   magnitudes up to 2^53 and literals beyond the double range, which denote the same infinity). *)
Theorem C03_conversions_rep : forall pf, (forall z, big_to_float pf z = Z2F z) ->
  forall v w, wf v = true -> wf w = true -> denote pf v = denote pf w ->
     to_float pf v = to_float pf w /\ to_int pf v = to_int pf w
  (* toIntCeil: the statement the defect fixed by "slice end given as a fractional json.Number is rounded
     up like a float" violated *)
  /\ to_int_ceil pf v = to_int_ceil pf w.
Proof.
  exact (fun pf H v w WV WW E => conj (to_float_rep pf H v w WV WW E) (conj (to_int_rep pf v w WV WW E) (to_int_ceil_rep pf v w WV WW E))).
Qed.
Print Assumptions C03_conversions_rep.
Theorem C03_compare_rep : forall pf, (forall z, big_to_float pf z = Z2F z) ->
  forall l l' r r', wf l = true -> wf l' = true -> wf r = true -> wf r' = true ->
  denote pf l = denote pf l' -> denote pf r = denote pf r' -> compare pf l r = compare pf l' r'.
Proof. exact compare_rep. Qed.
Print Assumptions C03_compare_rep.
(* operators: same denoted result, or an error on both sides; comparison operators: identical outcomes *)
Theorem C03_operators_rep : forall pf, (forall z, big_to_float pf z = Z2F z) ->
  rep2 pf (op_add pf) /\ rep2 pf (op_sub pf) /\ rep2 pf (op_mul pf) /\ rep2 pf (op_div pf) /\ rep2 pf (op_mod pf)
  /\ (forall t l r l' r', wf l = true -> wf r = true -> wf l' = true -> wf r' = true ->
       denote pf l = denote pf l' -> denote pf r = denote pf r' -> op_cmp pf t l r = op_cmp pf t l' r').
Proof.
  exact (fun pf H => conj (op_add_rep pf H) (conj (op_sub_rep pf H) (conj (op_mul_rep pf H) (conj (op_div_rep pf H)
    (conj (op_mod_rep pf H) (op_cmp_rep pf H)))))).
Qed.
Print Assumptions C03_operators_rep.
(* all 58 math natives (libm oracles included): identical outcomes; isnan; has *)
Theorem C03_math_rep : forall pf, (forall z, big_to_float pf z = Z2F z) ->
     (forall l1 name v v', wf v = true -> wf v' = true -> denote pf v = denote pf v' -> f_math1 pf l1 name v = f_math1 pf l1 name v')
  /\ (forall l2 name x y x' y', wf x = true -> wf y = true -> wf x' = true -> wf y' = true ->
       denote pf x = denote pf x' -> denote pf y = denote pf y' -> f_math2 pf l2 name x y = f_math2 pf l2 name x' y')
  /\ (forall l3 name a b c a' b' c', wf a = true -> wf b = true -> wf c = true -> wf a' = true -> wf b' = true -> wf c' = true ->
       denote pf a = denote pf a' -> denote pf b = denote pf b' -> denote pf c = denote pf c' ->
       f_math3 pf l3 name a b c = f_math3 pf l3 name a' b' c')
  /\ (forall v v', wf v = true -> wf v' = true -> denote pf v = denote pf v' -> oeq pf (f_isnan pf v) (f_isnan pf v'))
  /\ rep2 pf (f_has pf).
Proof.
  exact (fun pf H => conj (f_math1_rep pf H) (conj (f_math2_rep pf H) (conj (f_math3_rep pf H) (conj (f_isnan_rep pf H) (f_has_rep pf))))).
Qed.
Print Assumptions C03_math_rep.
(* unary natives proved to meet their documented function (above) are representation independent *)
Theorem C03_natives_rep : forall pf, (forall z, big_to_float pf z = Z2F z) ->
  rep1 pf f_utf8bytelength /\ rep1 pf f_keys /\ rep1 pf f_reverse /\ rep1 pf f_type /\ rep1 pf f_explode
  /\ rep1 pf (f_minmax pf true) /\ rep1 pf (f_minmax pf false) /\ rep1 pf (f_add pf).
Proof. exact natives_rep1. Qed.
Print Assumptions C03_natives_rep.
(* binary natives proved to meet their documented function; natives with a partial Spec entry *)
Theorem C03_natives_rep2 : forall pf, (forall z, big_to_float pf z = Z2F z) ->
  rep2 pf (f_contains pf) /\ rep2 pf (f_inside pf) /\ rep2 pf (f_indices pf) /\ rep2 pf (f_index pf) /\ rep2 pf (f_rindex pf)
  /\ rep2 pf f_startswith /\ rep2 pf f_endswith /\ rep2 pf f_ltrimstr /\ rep2 pf f_rtrimstr /\ rep2 pf f_trimstr
  /\ (forall b, rep2 pf (f_minmax_by pf b)) /\ rep1 pf (f_tonumber pf) /\ rep1 pf f_transpose.
Proof. exact natives_rep2. Qed.
Print Assumptions C03_natives_rep2.
Theorem C03_natives_rep3 : forall pf, (forall z, big_to_float pf z = Z2F z) ->
  rep1 pf f_toboolean /\ rep1 pf op_plus /\ rep1 pf (f_isnan pf) /\ rep1 pf (f_isinfinite pf) /\ rep1 pf (f_isfinite pf) /\ rep1 pf (f_isnormal pf).
Proof. exact natives_rep3. Qed.
Print Assumptions C03_natives_rep3.
Theorem C03_natives_rep_partial : forall pf, (forall z, big_to_float pf z = Z2F z) ->
  forall v v' x x', wf v = true -> wf v' = true -> wf x = true -> wf x' = true ->
  denote pf v = denote pf v' -> denote pf x = denote pf x' ->
  orep pf (f_ascii_downcase v) (f_ascii_downcase v') (s_ascii false (denote pf v))
  /\ orep pf (f_ascii_upcase v) (f_ascii_upcase v') (s_ascii true (denote pf v))
  /\ orep pf (f_implode pf v) (f_implode pf v') (s_implode (denote pf v))
  /\ orep pf (f_split v x) (f_split v' x') (match denote pf v, denote pf x with
                                             | MStr s, MStr t => option_map (fun ps => SVal (MArr (map MStr ps))) (s_split s t)
                                             | _, _ => Some SErr end)
  /\ orep pf (f_flatten pf v [x]) (f_flatten pf v' [x']) (s_flatten (denote pf v) (Some (denote pf x))).
Proof. exact natives_rep_partial. Qed.
Print Assumptions C03_natives_rep_partial.
(* text-producing builtins: equal text for values with the same canonical number texts *)
Theorem C03_tojson_rep_canonical : forall ff v v', canon ff v = canon ff v' -> f_tojson ff v = f_tojson ff v'.
Proof. exact f_tojson_rep. Qed.
Print Assumptions C03_tojson_rep_canonical.
(* ... and the unrestricted statement is refuted (literal 1.0 vs float 1): sanctioned by C10 *)
Theorem C03_tojson_rep_refuted :
  exists v v', wf v = true /\ wf v' = true /\
    mv_eqb (denote parse_float_text v) (denote parse_float_text v') = true /\
    f_tojson fmt_float v <> f_tojson fmt_float v'.
Proof. exact tojson_rep_refuted. Qed.
Print Assumptions C03_tojson_rep_refuted.

(* bsearch/1, infinite/0, nan/0.  On ANY array sort.Search (the model's fuel always suffices) returns r with the
   element before r below the target and the element at r not below it, and the answer is r when that element
   is Compare-equal to the target, -1-r otherwise; on every array whose elements below the target come first (all
   sorted arrays) this is Spec.s_bsearch: the index of the first equal element, or -1 - insertion point. *)
Theorem C03_bsearch_meets_doc : forall pf, (forall z, big_to_float pf z = Z2F z) ->
  (forall vs t, exists r, 0 <= r <= llen vs
     /\ (r = 0 \/ geq_at pf vs t (r - 1) = false) /\ (r = llen vs \/ geq_at pf vs t r = true)
     /\ f_bsearch pf (JArr vs) t =
        Val (jint (match nth_error vs (Z.to_nat r) with
                   | Some x => if compare pf x t =? 0 then r else - r - 1
                   | None => - r - 1
                   end)))
  /\ (forall v t, wf v = true -> wf t = true -> ragrees pf (f_bsearch pf v t) (s_bsearch (denote pf v) (denote pf t)))
  /\ agrees pf (Val (jflt (finf false))) (SVal (MFlt (finf false))) /\ agrees pf (Val (jflt fnan)) (SVal (MFlt fnan)).
Proof.
  exact (fun pf H => conj (f_bsearch_any pf H) (conj (f_bsearch_doc pf H) (infinite_nan_doc pf))).
Qed.
Print Assumptions C03_bsearch_meets_doc.

(* @html @uri @urid @base64 @base64d: each is tostring followed by a function of the text; on byte strings that
   function is the documented one (five-entity table; RFC 3986 percent-encoding of everything but the unreserved
   characters; every %XX decoded, a malformed escape an error; RFC 4648 base64); decoding undoes encoding. *)
Theorem C03_formats_meet_doc : forall pf ff,
  (forall v,
       f_tohtml ff v = then_text ff v (fun s => vstr (replace_bytes html_tbl s))
    /\ f_touri ff v = then_text ff v (fun s => vstr (uri_model s))
    /\ f_tourid ff v = then_text ff v (fun s => match unescape s with Some t => vstr t | None => Err (EFunc0Wrap EExt) end)
    /\ f_tobase64 ff v = then_text ff v (fun s => vstr (b64_encode s)))
  /\ (forall s, is_bytes s = true ->
       agrees pf (f_tohtml ff (JStr s)) (SVal (MStr (s_html s)))
    /\ agrees pf (f_touri ff (JStr s)) (SVal (MStr (s_uri s)))
    /\ agrees pf (f_tourid ff (JStr s)) (match s_urid s with Some t => SVal (MStr t) | None => SErr end)
    /\ agrees pf (f_tobase64 ff (JStr s)) (SVal (MStr (s_b64 s)))
    /\ (forall t, s_b64d s = Some t -> agrees pf (f_tobase64d ff (JStr s)) (SVal (MStr t))))
  /\ (forall s, is_bytes s = true ->
       (do u <- f_touri ff (JStr s); f_tourid ff u) = Val (JStr s)
    /\ (do u <- f_tobase64 ff (JStr s); f_tobase64d ff u) = Val (JStr s)).
Proof.
  exact (fun pf ff => conj
    (fun v => match formats_are_tostring_then ff v with
              | conj a (conj b (conj c (conj d _))) => conj a (conj b (conj c d)) end)
    (conj (formats_meet_doc pf ff)
          (fun s B => conj (f_tourid_touri ff s B) (f_tobase64d_tobase64 pf ff s B)))).
Qed.
Print Assumptions C03_formats_meet_doc.

(* ascii_downcase / ascii_upcase on ARBITRARY byte strings (each well-formed UTF-8 sequence copied with its ASCII
   letters mapped, every other byte replaced by U+FFFD -- the manual is silent about invalid UTF-8, this is the
   code's behaviour stated per character), implode on ARBITRARY arrays (non-scalar-values give U+FFFD), and
   length / abs / unary minus on every number INCLUDING json.Number literals (the Go code edits the text; given the
   sign symmetry of ParseFloat on texts that start with a digit this is the documented numeric function). *)
Theorem C03_natives_unrestricted : forall pf, (forall z, big_to_float pf z = Z2F z) ->
  forall v, wf v = true ->
     agrees pf (f_ascii_downcase v) (s_ascii_any false (denote pf v))
  /\ agrees pf (f_ascii_upcase v) (s_ascii_any true (denote pf v))
  /\ agrees pf (f_implode pf v) (s_implode_any (denote pf v))
  /\ (pf_sign pf ->
        agrees pf (f_length v) (s_length (denote pf v))
     /\ agrees pf (f_abs v) (s_abs (denote pf v))
     /\ agrees pf (op_negate v) (s_negate (denote pf v))).
Proof.
  exact (fun pf H v W => conj (f_ascii_downcase_any pf v W) (conj (f_ascii_upcase_any pf H v W) (conj (f_implode_any pf H v W)
    (fun PS => conj (f_length_all pf PS v W) (conj (f_abs_all pf PS v W) (op_negate_all pf PS v W)))))).
Qed.
Print Assumptions C03_natives_unrestricted.

(* _range/3 on ARBITRARY numbers (any size, any representation, floats and fraction literals included): the first
   [fuel] outputs of the documented progression from, from+by, ... (+ and the order being the documented ones of
   Spec.v), and whether it goes on; a non-number argument is an error. *)
Theorem C03_range_any : forall pf, (forall z, big_to_float pf z = Z2F z) ->
  forall fuel a b c, wf a = true -> wf b = true -> wf c = true ->
    (is_mnum (denote pf a) && is_mnum (denote pf b) && is_mnum (denote pf c) = true ->
       exists l cut, f_range pf fuel [a; b; c] = Val (l, cut)
                     /\ map (denote pf) l = fst (mprog fuel (denote pf a) (denote pf b) (denote pf c))
                     /\ cut = snd (mprog fuel (denote pf a) (denote pf b) (denote pf c)))
    /\ (is_mnum (denote pf a) && is_mnum (denote pf b) && is_mnum (denote pf c) = false -> f_range pf fuel [a; b; c] = Err EFunc0Type).
Proof. exact f_range_any. Qed.
Print Assumptions C03_range_any.

(* .[s:e] on EVERY input and bound type (arrays; arbitrary byte strings sliced by characters; null; bounds null,
   integers in any representation, doubles / fraction literals: start truncated, end rounded up), .[k] for ALL key
   types (null / boolean: error; strings; numbers incl. floats, NaN, infinities, negative; arrays = sub-array search;
   {"start","end"} objects = slice) on every input incl. strings, and getpath along any path (Spec.s_getpath has no
   entry for array / slice-object keys inside a path: nothing claimed there).  [sized]: containers and strings
   shorter than 2^63, which every Go slice and string is. *)
Theorem C03_slice_index_getpath_all : forall pf, (forall z, big_to_float pf z = Z2F z) ->
  (forall f, in_int (float_to_int f))
  /\ (forall v e s, wf v = true -> wf e = true -> wf s = true -> sized v = true ->
        agrees pf (f_slice pf v e s) (s_slice_any (denote pf v) (denote pf e) (denote pf s)))
  /\ (forall v x, wf v = true -> wf x = true -> sized v = true ->
        ragrees pf (f_index2 pf v x) (s_index2 (denote pf v) (denote pf x)))
  /\ (forall v p, wf v = true -> wf p = true -> sized v = true ->
        ragrees pf (f_getpath pf v p) (match denote pf p with MArr path => s_getpath path (denote pf v) | _ => Some SErr end)).
Proof.
  exact (fun pf H => conj float_to_int_in_int (conj (f_slice_all pf H) (conj (f_index2_all pf H) (f_getpath_all pf H)))).
Qed.
Print Assumptions C03_slice_index_getpath_all.

(* flatten/0 on EVERY well-formed input, without the nesting bound of C03_paths_flatten_range_meet_doc: the Go depth
   counter (a float64 starting at -1, minus 1 per level) stays a negative double for ever -- -inf, or finite with real
   value <= -1 (Flocq Bminus_correct, monotone rounding, -2 representable) -- so it never reaches 0. *)
Theorem C03_flatten0_all : forall pf v, wf v = true ->
  (forall d, negf d -> negf (fsub d f_one) /\ feq d (fzero false) = false)
  /\ negf (Z2F (-1))
  /\ agrees pf (f_flatten pf v []) (match s_flatten (denote pf v) None with Some r => r | None => SErr end).
Proof.
  exact (fun pf v W => conj (fun d N => conj (negf_step d N) (negf_nonzero d N)) (conj negf_start (f_flatten0_all pf v W))).
Qed.
Print Assumptions C03_flatten0_all.

(* getpath/1 along paths with EVERY key type, array keys and slice objects included: the fold of .[k]
   (Spec.s_getpath_any); every intermediate value is again well-formed and shorter than 2^63. *)
Theorem C03_getpath_full : forall pf, (forall z, big_to_float pf z = Z2F z) ->
  forall v p, wf v = true -> wf p = true -> sized v = true ->
    ragrees pf (f_getpath pf v p) (match denote pf p with MArr path => s_getpath_any path (denote pf v) | _ => Some SErr end).
Proof. exact f_getpath_full. Qed.
Print Assumptions C03_getpath_full.

(* rep_independent for the natives whose meets_doc theorem lost its sub-domain restriction *)
Theorem C03_natives_rep4 : forall pf, (forall z, big_to_float pf z = Z2F z) ->
  rep1 pf f_ascii_downcase /\ rep1 pf f_ascii_upcase /\ rep1 pf (f_implode pf)
  /\ (pf_sign pf -> rep1 pf f_length /\ rep1 pf f_abs /\ rep1 pf op_negate)
  /\ (forall v e s v' e' s', wf v = true -> wf e = true -> wf s = true -> wf v' = true -> wf e' = true -> wf s' = true ->
        sized v = true -> sized v' = true -> denote pf v = denote pf v' -> denote pf e = denote pf e' -> denote pf s = denote pf s' ->
        oeq pf (f_slice pf v e s) (f_slice pf v' e' s'))
  /\ (forall v x v' x', wf v = true -> wf x = true -> wf v' = true -> wf x' = true -> sized v = true -> sized v' = true ->
        denote pf v = denote pf v' -> denote pf x = denote pf x' ->
        orep pf (f_index2 pf v x) (f_index2 pf v' x') (s_index2 (denote pf v) (denote pf x))
        /\ orep pf (f_bsearch pf v x) (f_bsearch pf v' x') (s_bsearch (denote pf v) (denote pf x))).
Proof. exact natives_rep4. Qed.
Print Assumptions C03_natives_rep4.

(* meets_doc as ONE statement over the list of natives proved on all well-formed inputs: whenever Spec.v has an
   entry for the call, the dispatcher (= internalFuncs[name].callback(v, args)) returns a value denoting the
   documented one, or an error where an error is documented.  (C03_meets_doc_full is this statement for every
   name; the names not listed are the ones whose theorem still has a sub-domain restriction.)  The second list
   needs the sign symmetry of ParseFloat (json.Number literals: the code edits the text); the third list uses that
   containers and strings are shorter than 2^63 ([sized]; true of every Go value). *)
Theorem C03_meets_doc_listed : forall pf ff l1 l2 l3 jd lp, (forall z, big_to_float pf z = Z2F z) ->
  forall name,
    In name
      ["_add"; "_subtract"; "_multiply"; "_divide"; "_modulo"; "_equal"; "_notequal"; "_less"; "_greater"; "_lesseq"; "_greatereq"; "_alternative"; "_plus"; "keys"; "has"; "reverse"; "type"; "explode"; "utf8bytelength"; "startswith"; "endswith"; "ltrimstr"; "rtrimstr"; "trimstr"; "min"; "max"; "_min_by"; "_max_by"; "add"; "tonumber"; "transpose"; "contains"; "inside"; "indices"; "index"; "rindex"; "toboolean"; "isnan"; "isinfinite"; "isfinite"; "isnormal"; "error"; "halt"; "halt_error"; "floor"; "ceil"; "trunc"; "round"; "rint"; "nearbyint"; "fabs"; "sqrt"; "fmax"; "fmin"; "infinite"; "nan"; "bsearch"; "_tohtml"; "_touri"; "_tourid"; "_tobase64"; "_tobase64d"; "ascii_downcase"; "ascii_upcase"; "implode"; "flatten"]%string
    \/ (pf_sign pf /\ In name ["length"; "abs"; "_negate"]%string)
    \/ In name ["_slice"; "_index"; "getpath"]%string ->
  forall fuel v args s, wf v = true -> forallb wf args = true -> sized v = true -> forallb sized args = true ->
    spec_call pf name v args = Some s ->
    match call_native pf ff l1 l2 l3 jd lp fuel name v args, s with
    | Some (Val (ROne x)), SVal m => denote pf x = m
    | Some (Err _), SErr => True
    | _, _ => False
    end.
Proof. exact meets_doc_listed_in. Qed.
Print Assumptions C03_meets_doc_listed.

(* ---- the full statements, for the record (partial: see docs/C03.md) ---------------------------- *)
(* every native with an entry in Spec.v agrees with it on all well-formed inputs *)
Definition C03_meets_doc_full : Prop :=
  forall pf ff l1 l2 l3 jd lp, (forall z, big_to_float pf z = Z2F z) ->
  forall fuel name v args s, wf v = true -> forallb wf args = true ->
    spec_call pf name v args = Some s ->
    match call_native pf ff l1 l2 l3 jd lp fuel name v args, s with
    | Some (Val (ROne x)), SVal m => denote pf x = m
    | Some (Err _), SErr => True
    | _, _ => False
    end.
(* every native is representation independent (text-producing ones on canonical literals) *)
Definition C03_rep_independent_full : Prop :=
  forall pf ff l1 l2 l3 jd lp, (forall z, big_to_float pf z = Z2F z) ->
  forall fuel name v v' args args', wf v = true -> wf v' = true -> forallb wf args = true -> forallb wf args' = true ->
    canon ff v = canon ff v' -> map (canon ff) args = map (canon ff) args' ->
    match call_native pf ff l1 l2 l3 jd lp fuel name v args, call_native pf ff l1 l2 l3 jd lp fuel name v' args' with
    | Some (Val (ROne x)), Some (Val (ROne x')) => denote pf x = denote pf x'
    | Some (Val (RSeq xs c)), Some (Val (RSeq xs' c')) => map (denote pf) xs = map (denote pf) xs' /\ c = c'
    | Some (Err _), Some (Err _) => True
    | None, None => True
    | _, _ => False
    end.

(* ---- non-vacuity ------------------------------------------------------------------------------- *)
(* dispatch_total is about calls that do reach the dangerous Go operations: with the executable oracles,
   implode on non-code-points, a slice with start > end, getpath through mismatched types, flatten with a
   negative depth, transpose of non-arrays, an index far outside: values or errors. *)
Example C03_nonvacuous_dispatch :
  let call name v args := x_call 40%nat name v args in
  call "implode"%string (JArr [jint 1114112; jint (-1); jint 55296]) [] = Some (Val (ROne (JStr [239; 191; 189; 239; 191; 189; 239; 191; 189]%N)))
  /\ call "_slice"%string JNull [JArr [jint 1; jint 2; jint 3]; jint 1; jint 2] = Some (Val (ROne (JArr [])))
  /\ call "getpath"%string (JObj [([97%N], jint 1)]) [JArr [JStr [97%N]; JStr [98%N]]] = Some (Err EFunc1Type)
  /\ call "flatten"%string (JArr []) [jint (-1)] = Some (Err EFlattenDepth)
  /\ call "transpose"%string (JArr [JArr [jint 1]; jint 2]) [] = Some (Err EFunc0Type)
  /\ call "_index"%string JNull [JArr [jint 1]; jint (2 ^ 63 - 1)] = Some (Val (ROne JNull))
  /\ call "_multiply"%string JNull [JStr [97%N]; jint 2147483647] = Some (Err ERepeatTooLarge).
Proof. vm_compute. repeat split; reflexivity. Qed.
(* the hypothesis pf_bigint holds for the executable ParseFloat stand-in on boundary integers (a
   sample, not a proof: the stand-in is compared with Go's strconv on every float of the run) *)
Example C03_pf_bigint_sample :
  forallb (fun z => fsame (big_to_float parse_float_text z) (Z2F z))
    [2 ^ 63; - 2 ^ 63 - 1; 2 ^ 64 + 1; 9007199254740993 * 2 ^ 11; 10 ^ 30; - 10 ^ 308; 10 ^ 309; 2 ^ 1024; 2 ^ 1024 - 2 ^ 970] = true.
Proof. vm_compute. reflexivity. Qed.
(* well-formed values in all four number representations with one denotation *)
Example C03_nonvacuous_rep :
  let d := denote parse_float_text in
  wf (JNum (NLit (codes "18446744073709551616"))) = true
  /\ mv_eqb (d (JNum (NBig (2 ^ 64)))) (d (JNum (NLit (codes "18446744073709551616")))) = true
  /\ mv_eqb (d (JNum (NInt 7))) (d (JNum (NLit (codes "7")))) = true
  /\ mv_eqb (d (JNum (NFlt (finf false)))) (d (JNum (NLit (codes "1e1000")))) = true
  /\ mv_eqb (d (JNum (NFlt (F_of_ZE 3 (-1) false)))) (d (JNum (NLit (codes "1.5")))) = true.
Proof. vm_compute. repeat split; reflexivity. Qed.
(* the literal cases of length / abs / unary minus are reached: "-1.50" and "-0" are well-formed literals *)
Example C03_nonvacuous_literals :
  wf (JNum (NLit (codes "-1.50"))) = true
  /\ f_length (JNum (NLit (codes "-1.50"))) = Val (JNum (NLit (codes "1.50")))
  /\ op_negate (JNum (NLit (codes "0"))) = Val (JNum (NLit (codes "-0")))
  /\ mv_eqb (denote parse_float_text (JNum (NLit (codes "-0")))) (MInt 0) = true.
Proof. vm_compute. repeat split; reflexivity. Qed.
(* slices of strings and fractional bounds are reached, and an invalid byte is one character that is kept *)
Example C03_nonvacuous_slices :
  let call name v args := x_call 40%nat name v args in
  call "_slice"%string JNull [JStr [97; 255; 98; 195; 169]%N; jflt (F_of_ZE 5 (-1) false); jflt (F_of_ZE 1 (-1) false)] = Some (Val (ROne (JStr [97; 255; 98]%N)))
  /\ call "_slice"%string JNull [JArr [jint 1; jint 2; jint 3]; JNull; jflt (F_of_ZE (-3) (-1) false)] = Some (Val (ROne (JArr [jint 3])))
  /\ call "_index"%string JNull [JArr [jint 1; jint 2; jint 3]; jflt (F_of_ZE (-3) (-1) false)] = Some (Val (ROne (jint 3)))
  /\ call "_index"%string JNull [JArr [jint 1; jint 2; jint 1; jint 2]; JArr [jint 1; jint 2]] = Some (Val (ROne (JArr [jint 0; jint 2]))).
Proof. vm_compute. repeat split; reflexivity. Qed.
