(* C03 — Every builtin computes its documented function on all argument types.
   Statements only; every theorem is closed by [exact] of a lemma proved under coq/c03/. *)
From Coq Require Import List ZArith NArith String.
From Verif Require Import common.Sexp common.Int64 gen.GenFuncTable c03.JV c03.Core c03.Ops c03.Natives c03.Dispatch c03.Spec c03.TableProofs.
Import ListNotations.

(* The model's table of natives (names, arity masks, iter flags, Go callees) is the table translated
   from func.go of the current tree: a native added, removed or re-wired breaks this. *)
Theorem C03_table_in_sync : table_diff func_table = [].
Proof. exact table_in_sync. Qed.
Print Assumptions C03_table_in_sync.
