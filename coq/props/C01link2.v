(* C01link2 — the end-to-end link for the LARGE development coq/c01vm2 (compiler.go incl. optimizeTailRec and the
   peephole pass, execute.go's loop with frames and closures, the denotation Den.den; theorems: coq/props/C01vm.v) on
   the FUNCTION-FREE part of its fragment F3:
     identity, scalar literals, [] and {}, constant arrays, pipe, comma, empty, t[], t.k / t."k" / t[n] / t[a:b] with literal or absent bounds, t[q], t[a:b] with a
     computed bound, if/elif/else, //, try/catch and ?, [q], OBJECT CONSTRUCTION {k: v, (q): v, ...} (keys before
     values, an earlier entry in the outer loop, the last duplicate wins, a non-string key is an error), reduce, foreach
     (2 and 3 arguments), label/break, `as $x`, DESTRUCTURING `as [p, ...]` / `as {k: p, $x: p}`, $x, error, length,
     tostring / tojson (and with them string interpolation, which compiler.go desugars to `+`), the operators
     + - == != < <= > >= with ARBITRARY operands (right operand first).
   For every such program q that compiles, every input v, the FINAL code emitted for q (c01vm2.Compile: tied to
   compiler.go by instruction-list comparison on every sampled program) run on the VM (c01vm2.VM, natives = Sem's)
   produces exactly the outputs and the ending that the reference semantics Sem.observe gives for the translated
   program tr2 q (tied to gojq by the C01 differential stream) - whenever Sem gives a verdict (does not decline).
   Proofs: coq/sem/DenLink2*.v (Sem = the eager list semantics den2), coq/sem/VmLink2*.v (den2 ~ c01vm2.Den.den and the
   composition with C01vm_final_compile_correct).  coq/c01vm2 and the existing coq/sem files are imported read-only.

   How the differences between the two semantics appear in the statement:
   * eager vs demand-driven: den is a list, Sem is a CPS run; they are compared on runs where Sem ends by itself
     (the cap is not reached: capn above the number of outputs) - the programs of this fragment always terminate;
   * fuel: Sem's fuel n bounds the syntactic depth (need2 q' <= n; no function calls in the fragment, so neither den's fuel
     nor Sem's step budget is consumed); the hypothesis "Sem does not decline" excludes EndSkip;
   * error payloads: error(x) carries x on both sides; every other error carries gojq's message text in Sem (or nothing,
     where Sem does not model the text / withholds it) and the message of the natives instance in den; end_rel / erel
     compare them by the projection C01link uses (a message is equal or withheld; when a withheld message is caught and
     becomes data, Sem declines);
   * rs is Sem's representation-sensitivity flag.  c01vm2.Den hard-codes the EMPTY message for destructuring a
     non-array with an array pattern, Sem has gojq's text: array patterns are translated only for rs = true (where Sem
     withholds message texts and declines tostring/tojson of numbers); everything else holds for both values of rs.

   NOT covered (tr returns None): function definitions and calls (QDef / QCallF), reduce / foreach with a destructuring
   pattern other than $x, error(a) with an argument (QCall1), the natives @html @uri @csv @tsv @sh @base64 keys type (the
   three additions of c01vm2's latest extension), non-empty CONSTANT objects (QConst with an object inside; {..} with
   constant entries written as queries is covered), constant keys that are arrays.  C01link2_full_for is the statement
   for an arbitrary translation; the theorem is its instance for tr2. *)
From Coq Require Import String.
From Coq Require Import List ZArith NArith.
From Verif Require Import common.Sexp sem.JV sem.Syntax sem.Natives sem.Sem sem.DenLink sem.DenLink2 sem.DenLink2All
  sem.VmLink2Def sem.VmLink2Rel sem.VmLink2 sem.ObjLink2 gen.GenBuiltins.
From Verif Require c01vm2.Syntax c01vm2.VM c01vm2.Compile c01vm2.Den.
Import ListNotations.

(* the full statement, for a translation trq of c01vm2's syntax into gojq's AST, a bound fuel_ok on Sem's fuel, and any
   fuel fu on which c01vm2's denotation terminates (link2_full_for, coq/sem/ObjLink2.v):
     forall bs (no definition of empty/error/length/tostring/tojson), rs, q, ast, tco, code, trq rs q = Some ast ->
     option_map peephole (compile_raw_g tco q) = Some code -> forall fu v n capn ins, fuel_ok ast n ->
     snd (den sem_natives2 fu q [] v) <> Some XFuel -> length (fst (den sem_natives2 fu q [] v)) < capn ->
     (forall why, snd (observe bs n capn rs ins ast (emb_v v)) <> EndSkip why) ->
     exists fuel outs m, VM.run sem_natives2 code fuel (init code v) = (outs, m) /\
       fst (observe ..) = map emb_v outs /\ end_rel (snd (observe ..)) m.
   Missing for C01 on all of F3: a translation that covers QDef / QCallF (functions, closures, recursion). *)
Definition C01link2_full_for := link2_full_for.

(* proved: its instance for tr2 = emb2 o tr (the function-free fragment), Sem's fuel at least the syntactic depth *)
Theorem C01link2_full_for_tr2 :
  C01link2_full_for tr2 (fun ast n => forall q', emb2 q' = ast -> (need2 q' <= n)%nat).
Proof. exact link2_full_for_tr2. Qed.
Print Assumptions C01link2_full_for_tr2.

(* the same spelled out: the function-free fragment (tr), for both values of rs, any tco flag (the final code with or without
   optimizeTailRec), any cap above the number of outputs of the program (den: the outputs of the VM run itself) *)
Theorem C01link2_vm_is_sem : forall bs,
  lookup_builtin bs (codes "empty") 0 = None -> lookup_builtin bs (codes "error") 0 = None ->
  lookup_builtin bs (codes "length") 0 = None -> lookup_builtin bs (codes "tostring") 0 = None ->
  lookup_builtin bs (codes "tojson") 0 = None ->
  forall rs q q' tco code, tr rs q = Some q' ->
  option_map c01vm2.Compile.peephole (c01vm2.Compile.compile_raw_g tco q) = Some code ->
  forall v (n capn : nat) ins,
  (need2 q' <= n)%nat -> (List.length (fst (c01vm2.Den.den sem_natives2 0 q [] v)) < capn)%nat ->
  (forall why, snd (observe bs n capn rs ins (emb2 q') (emb_v v)) <> EndSkip why) ->
  exists fuel outs m,
    c01vm2.VM.run sem_natives2 code fuel (c01vm2.VM.init code v) = (outs, m) /\
    fst (observe bs n capn rs ins (emb2 q') (emb_v v)) = map emb_v outs /\
    end_rel (snd (observe bs n capn rs ins (emb2 q') (emb_v v))) m.
Proof. exact vm2_is_sem. Qed.
Print Assumptions C01link2_vm_is_sem.

(* the same for c01vm2's denotation alone (any fuel: the fragment has no calls): Sem.observe = den, outputs and ending *)
Theorem C01link2_den_is_sem : forall bs,
  lookup_builtin bs (codes "empty") 0 = None -> lookup_builtin bs (codes "error") 0 = None ->
  lookup_builtin bs (codes "length") 0 = None -> lookup_builtin bs (codes "tostring") 0 = None ->
  lookup_builtin bs (codes "tojson") 0 = None ->
  forall rs q q', tr rs q = Some q' ->
  forall fu v (n capn : nat) ins,
  (need2 q' <= n)%nat -> (List.length (fst (c01vm2.Den.den sem_natives2 fu q [] v)) < capn)%nat ->
  (forall why, snd (observe bs n capn rs ins (emb2 q') (emb_v v)) <> EndSkip why) ->
  fst (observe bs n capn rs ins (emb2 q') (emb_v v)) = map emb_v (fst (c01vm2.Den.den sem_natives2 fu q [] v)) /\
  match snd (observe bs n capn rs ins (emb2 q') (emb_v v)), snd (c01vm2.Den.den sem_natives2 fu q [] v) with
  | EndNormal, None => True
  | EndError c val, Some (c01vm2.Den.XErr (c01vm2.Syntax.EVal x)) => val = Some (emb_v x)
  | EndError c val, Some (c01vm2.Den.XErr (c01vm2.Syntax.EMsg m)) => val = None \/ val = Some (VStr m)
  | _, _ => False
  end.
Proof. exact den_is_sem. Qed.
Print Assumptions C01link2_den_is_sem.

(* the two links on their own.  (1) Sem = the eager list semantics den2 on the whole syntax q2 *)
Theorem C01link2_sem_is_den2 : forall bs rs,
  lookup_builtin bs (codes "empty") 0 = None -> lookup_builtin bs (codes "error") 0 = None ->
  lookup_builtin bs (codes "length") 0 = None -> lookup_builtin bs (codes "tostring") 0 = None ->
  lookup_builtin bs (codes "tojson") 0 = None ->
  forall q, ok2 q -> forall n capn ins v,
  (need2 q <= n)%nat -> (List.length (fst (den2 rs q [] v)) < capn)%nat ->
  observe bs n capn rs ins (emb2 q) v = (fst (den2 rs q [] v), ending_of (snd (den2 rs q [] v))).
Proof. exact observe_den2. Qed.
Print Assumptions C01link2_sem_is_den2.

(* (2) c01vm2's denotation (natives = Sem's; for any meaning `call` of function calls, which the fragment does not
   use) and den2 agree up to Sem's skips *)
Theorem C01link2_den_is_den2 : forall rs call q q', tr rs q = Some q' ->
  forall v, R [] (den2 rs q' [] (emb_v v)) (c01vm2.Den.den1 sem_natives2 call q [] v).
Proof. exact (fun rs call q q' Htr v => den_link2 rs mk_obj_agree_holds call q q' Htr [] [] v renv_nil). Qed.
Print Assumptions C01link2_den_is_den2.

(* (3) opobject: inserting the pairs from the last to the first without overwriting (c01vm2.Syntax.mk_obj, execute.go) and
   from the first to the last with overwriting (Sem.build_object) give the same object, and fail on the same inputs *)
Theorem C01link2_mk_obj_agree : forall L acc,
  R L (obj_res (map embpair acc)) (c01vm2.Den.of_sum (c01vm2.Syntax.mk_obj acc)).
Proof. exact mk_obj_agree_holds. Qed.
Print Assumptions C01link2_mk_obj_agree.

(* the hypotheses on the builtin table hold for the table generated from /repo/builtin.jq *)
Example C01link2_builtins_ok :
  lookup_builtin builtin_defs (codes "empty") 0 = None /\ lookup_builtin builtin_defs (codes "error") 0 = None /\
  lookup_builtin builtin_defs (codes "length") 0 = None /\ lookup_builtin builtin_defs (codes "tostring") 0 = None /\
  lookup_builtin builtin_defs (codes "tojson") 0 = None.
Proof. vm_compute. repeat split; reflexivity. Qed.

(* non-vacuity / agreement by computation: the VM on the final code, c01vm2's den and Sem.observe on the translation *)
Module S := c01vm2.Syntax.
Definition ex_num z := S.QConst (S.VNum z).
Definition ex_str (s : string) := S.QConst (S.VStr (codes s)).
(* [check rs q v]: q translates and compiles, the three observations agree; returns Sem's observation *)
Definition ex_all (rs : bool) (q : S.query) (v : S.jv) :=
  match tr rs q, c01vm2.Compile.compile q with
  | Some q', Some code =>
      let o := observe builtin_defs 80 60 rs [] (emb2 q') (emb_v v) in
      let r := c01vm2.VM.run sem_natives2 code 3000 (c01vm2.VM.init code v) in
      let d := c01vm2.Den.den sem_natives2 5 q [] v in
      Some (o, fst o = map emb_v (fst r) /\ end_rel (snd o) (snd r) /\ fst r = fst d)
  | _, _ => None
  end.
Definition ex_ok (rs : bool) (q : S.query) (v : S.jv) (outs : list jv) (e : ending) : Prop :=
  match ex_all rs q v with Some (o, P) => o = (outs, e) /\ P | None => False end.

(* {(.[]|tostring): ., "k": (1,2)}  on ["a","b"]: keys before values, the first entry is the outer loop *)
Example C01link2_ex_object :
  let q := S.QObject [(inr (S.QPipe (S.QIter S.QId) (S.QCall0 S.F0ToString)), S.QId); (inl (codes "k"), S.QComma (ex_num 1) (ex_num 2))] in
  let v := S.VArr [S.VStr (codes "a"); S.VStr (codes "b")] in
  let o (k : string) z := VObj [(codes k, emb_v v); (codes "k", VInt z)] in
  ex_ok false q v [o "a"%string 1%Z; o "a"%string 2%Z; o "b"%string 1%Z; o "b"%string 2%Z] EndNormal.
Proof. vm_compute. repeat split; reflexivity. Qed.

(* {"a": 1, (.[]): 2} on ["a", 1]: the last duplicate wins, then a key that is not a string: an error without text *)
Example C01link2_ex_object_dup_err :
  let q := S.QObject [(inl (codes "a"), ex_num 1); (inr (S.QIter S.QId), ex_num 2)] in
  let v := S.VArr [S.VStr (codes "a"); S.VNum 1] in
  ex_ok false q v [VObj [(codes "a", VInt 2)]] (EndError EObjectKeyNotString None).
Proof. vm_compute. repeat split; try reflexivity. left; reflexivity. Qed.

(* . as [$a, {b: $c, $d: [$e]}] | [$a,$c,$d,$e]   (array patterns: rs = true), on a matching value and on 5 *)
Definition ex_pat := S.PArr (S.ACons (S.PVar 1%N) (S.ACons (S.PObj (S.OKey (codes "b") (S.PVar 2%N)
   (S.OKeyVar (codes "aaaa") 3%N (S.PArr (S.ACons (S.PVar 4%N) S.ANil)) S.ONil))) S.ANil)).
Definition ex_bindp := S.QBindP S.QId ex_pat (S.QArray (S.QComma (S.QComma (S.QComma (S.QVar 1%N) (S.QVar 2%N)) (S.QVar 3%N)) (S.QVar 4%N))).
Example C01link2_ex_destructure :
  ex_ok true ex_bindp (S.VArr [S.VNum 1; S.VObj [(codes "aaaa", S.VArr [S.VNum 3]); (codes "b", S.VNum 2)]])
    [VArr [VInt 1; VInt 2; VArr [VInt 3]; VInt 3]] EndNormal /\
  ex_ok true ex_bindp (S.VNum 5) [] (EndError EExpectedArray None) /\
  tr false ex_bindp = None.
Proof. vm_compute. repeat split; try reflexivity. left; reflexivity. Qed.

(* more computed agreements (constant keys, computed index / slices, string interpolation, label / break through {..},
   reduce with a destructuring body ...): coq/props/C01link2Examples.v, built incrementally by the same check *)
