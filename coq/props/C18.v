(* C18 — Modules behave as textual inclusion with namespacing.
   Statements only; every theorem is closed by [exact] of a lemma proved in coq/c18/.
   PathModel / ModModel / MetaModel are hand models of module_loader.go and of compiler.go's
   compileImport / compileModule / compileFuncDef / lookup* / listModuleDefs (no translator: the tie to the
   code is the correspondence stream, which also validates the model of path/filepath against Go). *)
From Coq Require Import List NArith Bool Sorting.Permutation Sorting.Sorted.
From Verif Require Import c18.PathModel c18.PathProofs c18.ModModel c18.ModSpec c18.ModProofs c18.ModProofsV
  c18.MetaModel c18.MetaProofs.
Import ListNotations.
Open Scope N_scope.

(* ---- resolution order: for EVERY file system, search-path list, search entry, name and extension,
   lookupModule returns the FIRST existing path of
   [dir/name.ext ; dir/name/base(name).ext | dir <- (search entry first, if any) ++ loader paths] *)
Theorem C18_resolution_order : forall w paths search name ext,
  lookup_module w paths search name ext
  = find (w_exists w) (candidates (search_bases w paths search) name ext).
Proof. exact resolution_order. Qed.
Print Assumptions C18_resolution_order.

Theorem C18_resolution_first : forall w paths search name ext p,
  lookup_module w paths search name ext = Some p ->
  exists before after, candidates (search_bases w paths search) name ext = before ++ p :: after
                       /\ w_exists w p = true /\ forall q, In q before -> w_exists w q = false.
Proof. exact resolution_first. Qed.
Print Assumptions C18_resolution_first.

Theorem C18_resolution_none : forall w paths search name ext,
  lookup_module w paths search name ext = None <->
  forall q, In q (candidates (search_bases w paths search) name ext) -> w_exists w q = false.
Proof. exact resolution_none. Qed.
Print Assumptions C18_resolution_none.

Theorem C18_search_first : forall w paths s, resolve_path w s [] <> [] ->
  search_bases w paths (Some s) = resolve_path w s [] :: paths.
Proof. exact search_first. Qed.
Print Assumptions C18_search_first.

(* a relative `search` in import metadata of a module FILE is resolved against that file's directory *)
Theorem C18_search_relative_to_importer : forall w file s,
  is_abs s = false -> has_prefix tilde_slash s = false -> has_prefix origin_slash s = false ->
  rewrite_search w file s = match join [dir file; s] with [] => None | p => Some p end.
Proof. exact search_relative_to_importer. Qed.
Print Assumptions C18_search_relative_to_importer.

Theorem C18_search_absolute_kept : forall w file s, is_abs s = true -> rewrite_search w file s = Some s.
Proof. exact search_absolute_kept. Qed.
Print Assumptions C18_search_absolute_kept.

Theorem C18_search_home : forall w file s h, is_abs s = false -> has_prefix tilde_slash s = true ->
  w_home w = Some h -> rewrite_search w file s = match join [h; skipn 2 s] with [] => None | p => Some p end.
Proof. exact search_home. Qed.
Print Assumptions C18_search_home.

(* ~/.jq: a file is auto-included (in loader-path order), a directory is left as a search path *)
Theorem C18_init_modules : forall w paths p,
  In p (init_modules w paths) <->
  In p paths /\ base p = dot_jq /\ w_exists w p = true /\ w_is_dir w p = false.
Proof. exact init_modules_spec. Qed.
Print Assumptions C18_init_modules.

(* ---- static visibility.  The FULL statement (the code's table surgery and the lexical specification bind
   every call site of every module tree alike): *)
Definition C18_static_visibility_full : Prop := forall m c, impl_root m c = spec_root m c.

(* It does NOT hold for the code as it is: a module imported later sees the importer's earlier imports
   (compileModule compiles the module's bodies against the importer's whole function table).
     main:  import "a" as a; import "b" as b; b::k      a.jq: def f: …;      b.jq: def k: a::f;
   specification: a::f is not visible inside b (unbound => compile error); code: binds to module a's f. *)
Example C18_leak_example :
  let a := Mod INil [{| d_name := 1; d_ar := 0; d_id := 10; d_calls := [] |}] in
  let b := Mod INil [{| d_name := 2; d_ar := 0; d_id := 20; d_calls := [CallF (Some 7) 1 0] |}] in
  let main := Mod (ICons (ImportAs 7 a) (ICons (ImportAs 8 b) INil)) [] in
  spec_root main (CallF (Some 8) 2 0) = DFun 20 [DUnbound]
  /\ impl_root main (CallF (Some 8) 2 0) = DFun 20 [DFun 10 []].
Proof. vm_compute. split; reflexivity. Qed.

Theorem C18_static_visibility_full_fails : ~ C18_static_visibility_full.
Proof.
  intro H.
  pose (a := Mod INil [{| d_name := 1; d_ar := 0; d_id := 10; d_calls := [] |}]).
  pose (b := Mod INil [{| d_name := 2; d_ar := 0; d_id := 20; d_calls := [CallF (Some 7) 1 0] |}]).
  specialize (H (Mod (ICons (ImportAs 7 a) (ICons (ImportAs 8 b) INil)) []) (CallF (Some 8) 2 0)).
  vm_compute in H. discriminate.
Qed.
Print Assumptions C18_static_visibility_full_fails.

(* PARTIAL (what holds for EVERY finite module tree, by induction on the tree):
   1. whenever the specification binds a call of the main program to a description in which every nested
      call site is bound to a function (no invisible name, no data variable anywhere below), the code binds
      it to exactly the same description — diamonds, clashes between importer / module / transitive
      modules, same name at different arities included; *)
Theorem C18_static_visibility_closed : forall m c, closed (spec_root m c) -> impl_root m c = spec_root m c.
Proof. exact static_visibility_closed. Qed.
Print Assumptions C18_static_visibility_closed.

(* 1'. the same INCLUDING data variables ($d, $d::d; closedv allows them), for every tree in which no
      included text brings a data import (wfv: there the code and the lexical reading differ, finding 2); *)
Theorem C18_static_visibility_closedv : forall m c, wfv m -> closedv (spec_root m c) ->
  impl_root m c = spec_root m c.
Proof. exact static_visibility_closedv. Qed.
Print Assumptions C18_static_visibility_closedv.

(* 2. at the level of the main program, visibility agrees in BOTH directions and the bound definition is
      the specified one: an invisible name (a transitive module's name, a module's name without its alias,
      a::c::h, …) is unbound in the code too, a visible one is bound to the same definition; *)
Theorem C18_static_visibility_main : forall m q n ar,
  desc_id (impl_root m (CallF q n ar)) = desc_id (spec_root m (CallF q n ar)).
Proof. exact static_visibility_main. Qed.
Print Assumptions C18_static_visibility_main.

(* 3. "…as a::name and nothing else": whatever a call binds to carries exactly the call's own prefix
      (none or one alias); names a module imported itself end up under two or more prefixes. *)
Theorem C18_nothing_else : forall fs q n ar d, lookup_f fs q n ar = Some d ->
  exists e, In e fs /\ fdesc e = d /\ fq e = qlist q /\ fname e = n /\ far e = ar.
Proof. exact lookup_prefix_bound. Qed.
Print Assumptions C18_nothing_else.
(* Missing for the full statement: (a) call sites INSIDE imported modules whose specified binding is
   "unbound" — the code may bind them to the importer's names (finding); (b) data variables of INCLUDED
   texts: the code drops an included module's data imports at the end of the include (finding 2); such trees
   are exercised by the correspondence only. *)

(* ---- modulemeta: defs = the module's own definitions not starting with '_', sorted by name then arity *)
Theorem C18_modulemeta_defs : forall defs,
  Permutation (filter visible_def defs) (list_module_defs defs)
  /\ Sorted (fun x y => na_less y x = false) (list_module_defs defs).
Proof. exact modulemeta_defs_sorted. Qed.
Print Assumptions C18_modulemeta_defs.

(* the order is: name bytewise, then arity NUMERICALLY (f/2 before f/10; f before f1 before f_) *)
Theorem C18_modulemeta_order : forall n1 a1 n2 a2,
  na_less (n1, a1) (n2, a2) = true <-> bytes_ltb n1 n2 = true \/ (n1 = n2 /\ (a1 < a2)%N).
Proof. exact na_less_spec. Qed.
Print Assumptions C18_modulemeta_order.

Example C18_modulemeta_numeric :
  list_module_defs [([102], 10); ([102; 95], 0); ([102], 2); ([102; 49], 0); ([95; 102], 1); ([102], 30); ([102], 9)]
  = [([102], 2); ([102], 9); ([102], 10); ([102], 30); ([102; 49], 0); ([102; 95], 0)].
Proof. vm_compute. reflexivity. Qed.

(* non-vacuity: a tree with a diamond, a clash and an include where the closed hypothesis holds *)
Example C18_nonvacuous :
  let c := Mod INil [{| d_name := 1; d_ar := 0; d_id := 30; d_calls := [] |};
                     {| d_name := 1; d_ar := 1; d_id := 31; d_calls := [CallF None 1 0] |}] in
  let a := Mod (ICons (ImportAs 9 c) INil) [{| d_name := 1; d_ar := 0; d_id := 10; d_calls := [CallF (Some 9) 1 1] |}] in
  let b := Mod (ICons (Include c) INil) [{| d_name := 2; d_ar := 0; d_id := 20; d_calls := [CallF None 1 0; CallF None 2 0] |}] in
  let main := Mod (ICons (ImportAs 7 a) (ICons (ImportAs 8 b) INil)) [{| d_name := 1; d_ar := 0; d_id := 1; d_calls := [CallF (Some 7) 1 0] |}] in
  closed (spec_root main (CallF None 1 0))
  /\ spec_root main (CallF None 1 0) = DFun 1 [DFun 10 [DFun 31 [DFun 30 []]]]
  /\ spec_root main (CallF (Some 8) 2 0) = DFun 20 [DFun 30 []; DSelf 20]
  /\ spec_root main (CallF (Some 9) 1 0) = DUnbound /\ impl_root main (CallF (Some 9) 1 0) = DUnbound.
Proof. vm_compute. repeat split. Qed.
