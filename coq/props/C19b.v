(* C19b — a native function is interchangeable with the jq-defined function that has the same input/output relation
   and the built-in argument order (contributes to C19; see coq/c01vm2/NativeAsDef.v and docs/C01vm.md).

   Both sides live in fragment F2 of coq/c01vm2: the native call `a OP b` with arbitrary operand queries (compiled by
   compileCallInternal: operands inlined or as closures) and `def d($y; $x): $x OP $y; d(b; a)` (value parameters,
   compiled by compileFuncDef / compileCallPc).  The native evaluates its LAST argument in the outermost loop, a
   jq-defined function binds its FIRST `$` parameter in the outermost loop: the counterpart of the native therefore
   declares (and receives) the operands in the opposite order.  With the same order the outputs are permuted
   (C19b_argument_orders_differ): this is the documented behaviour of jq as well, not a defect. *)
From Coq Require Import List NArith ZArith.
From Verif Require Import c01vm2.Syntax c01vm2.Code c01vm2.VM c01vm2.Den c01vm2.Compile c01vm2.Natives c01vm2.Correct c01vm2.NativeAsDef.
Import ListNotations.

(* The two denotations are EQUAL -- same outputs in the same order, same ending (an error or a break raised by an
   operand propagates identically, so does an error of the operator) -- in every environment rho (hence in every
   calling context: under try, inside generators, below pending forks), on every input, for every instance of the
   natives, at every fuel >= 1 (the call of d costs one unit; the operands run with the caller's fuel on both sides).
   fresh_for: binding d does not change the meaning of the operand. *)
Theorem C19b_binop_as_def :
  forall (nt : natives) (o : binop) (a b : query) (d : fname) (x y : vname) (rho : venv) (v : jv) (m : nat),
  x <> y -> fresh_for nt (S m) d a rho v -> fresh_for nt (S m) d b rho v ->
  den nt (S m) (def_binop d x y o a b) rho v = den nt (S m) (QBinop o a b) rho v.
Proof. exact binop_as_def. Qed.
Print Assumptions C19b_binop_as_def.

(* freshness holds for operands that call no user-defined function *)
Theorem C19b_binop_as_def_nocall :
  forall (nt : natives) o a b d x y rho v m, x <> y -> nocall a = true -> nocall b = true ->
  den nt (S m) (def_binop d x y o a b) rho v = den nt (S m) (QBinop o a b) rho v.
Proof. exact binop_as_def_nocall. Qed.
Print Assumptions C19b_binop_as_def_nocall.

(* the nullary natives under a parameterless definition: f  ==  def d: f; d *)
Theorem C19b_call0_as_def :
  forall (nt : natives) (f : fn0) (d : fname) (rho : venv) (v : jv) (m : nat),
  den nt (S m) (def_call0 d f) rho v = den nt (S m) (QCall0 f) rho v.
Proof. exact call0_as_def. Qed.
Print Assumptions C19b_call0_as_def.

(* lifted to the FINAL code of both programs (optimizeTailRec when tco is on, optimizeCodeOps), through
   C01vm_final_compile_correct: both machines have the observation of the native call's denotation *)
Theorem C19b_binop_as_def_compiled :
  forall (nt : natives) tco o a b d x y c1 c2,
  option_map peephole (compile_raw_g tco (QBinop o a b)) = Some c1 ->
  option_map peephole (compile_raw_g tco (def_binop d x y o a b)) = Some c2 ->
  x <> y -> forall m v, fresh_for nt (S m) d a [] v -> fresh_for nt (S m) d b [] v ->
  exists f1 f2, run_is (den nt (S m) (QBinop o a b) [] v) (run nt c1 f1 (init c1 v)) /\
                run_is (den nt (S m) (QBinop o a b) [] v) (run nt c2 f2 (init c2 v)).
Proof. exact binop_as_def_compiled. Qed.
Print Assumptions C19b_binop_as_def_compiled.

Theorem C19b_call0_as_def_compiled :
  forall (nt : natives) tco f d c1 c2,
  option_map peephole (compile_raw_g tco (QCall0 f)) = Some c1 ->
  option_map peephole (compile_raw_g tco (def_call0 d f)) = Some c2 ->
  forall m v, exists f1 f2, run_is (den nt (S m) (QCall0 f) [] v) (run nt c1 f1 (init c1 v)) /\
                            run_is (den nt (S m) (QCall0 f) [] v) (run nt c2 f2 (init c2 v)).
Proof. exact call0_as_def_compiled. Qed.
Print Assumptions C19b_call0_as_def_compiled.

(* the argument orders: (1,2) + (10,20) = 11 12 21 22 = def d($y; $x): $x + $y; d(10,20; 1,2), whereas
   def d($x; $y): $x + $y; d(1,2; 10,20) = 11 21 12 22; and non-vacuity: both programs compile and their final code
   runs to these outputs *)
Example C19b_argument_orders_differ :
  let num z := QConst (VNum z) in
  let a := QComma (num 1%Z) (num 2%Z) in
  let b := QComma (num 10%Z) (num 20%Z) in
  let same_order := QDef 7%N [PV 1%N; PV 2%N] (QBinop OAdd (QVar 1%N) (QVar 2%N)) (QCallF 7%N [a; b]) in
  let runc q := option_map (fun c => fst (run cnat c 2000 (init c VNull))) (compile q) in
  den cnat 3 (QBinop OAdd a b) [] VNull = (map VNum [11; 12; 21; 22]%Z, None) /\
  den cnat 3 (def_binop 7%N 1%N 2%N OAdd a b) [] VNull = (map VNum [11; 12; 21; 22]%Z, None) /\
  den cnat 3 same_order [] VNull = (map VNum [11; 21; 12; 22]%Z, None) /\
  runc (QBinop OAdd a b) = Some (map VNum [11; 12; 21; 22]%Z) /\
  runc (def_binop 7%N 1%N 2%N OAdd a b) = Some (map VNum [11; 12; 21; 22]%Z) /\
  runc same_order = Some (map VNum [11; 21; 12; 22]%Z).
Proof. vm_compute. repeat split; reflexivity. Qed.
