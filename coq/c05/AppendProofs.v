(* C05 — capacity aliasing.  Go's append writes beyond len into the backing array when the capacity
   suffices; that write is visible through every other slice of the same array that extends past the
   old length.  The code relies on: the only slices ever appended to are accumulators created by the
   appending call itself (opappend's register starting from the zero-capacity constant, add's copy,
   flatten's / group_by's fresh slices).
   1. [append_hazard]: the model exhibits the hazard (so the theorems below are not vacuous);
   2. [append_in_place_window]: an in-place append changes exactly index off+len of the backing array:
      every slice window that ends at or before it is unchanged;
   3. [arr_construct_fresh]: the array built by `[q]` lives at an address that did not exist before the
      construction started, the construction keeps the discipline, and nothing that existed before is
      changed: no earlier value (input, variable, constant, already emitted) can reach the accumulator,
      and each construction starts again from the zero-capacity constant. *)
From Coq Require Import List NArith ZArith Bool Arith Lia.
From Verif Require Import c05.Heap c05.HeapProofs c05.Natives c05.NativeProofs.
Import ListNotations.
Open Scope nat_scope.

(* 1. y = base[0:2] and acc = base[0:1] share base = [1;2;3]; appending 9 to acc in place turns y
      from [1,2] into [1,9] *)
Definition hz_heap : heap := [CArr [VNum 1; VNum 2; VNum 3]].
Lemma append_hazard : forall grow,
  exists r s', run (go_append grow (VArr 0 0 1 3) [VNum 9]) (start hz_heap []) = Some (r, s')
    /\ abs 3 hz_heap (VArr 0 0 2 3) = JArr [JNum 1; JNum 2]
    /\ abs 3 (hp s') (VArr 0 0 2 3) = JArr [JNum 1; JNum 9]
    /\ safeb s' = false.
Proof. intros. vm_compute. do 2 eexists. repeat split; reflexivity. Qed.

(* 2. *)
Lemma set_nth_nil : forall A n (x : A), set_nth n x [] = [].
Proof. destruct n; auto. Qed.
Lemma skipn_set_nth_ge : forall A n i (x : A) l, n <= i -> skipn n (set_nth i x l) = set_nth (i - n) x (skipn n l).
Proof.
  induction n; intros i x l H. cbn. rewrite Nat.sub_0_r; auto.
  destruct l as [|y l].
  - rewrite set_nth_nil. cbn. rewrite set_nth_nil. auto.
  - destruct i as [|i]; try lia. cbn [set_nth skipn]. rewrite IHn by lia. f_equal.
Qed.
Lemma firstn_set_nth_ge : forall A n i (x : A) l, n <= i -> firstn n (set_nth i x l) = firstn n l.
Proof.
  induction n; intros i x l H; auto. destruct l as [|y l]. rewrite set_nth_nil; auto.
  destruct i as [|i]; try lia. cbn [set_nth firstn]. f_equal. apply IHn. lia.
Qed.
Lemma window_set_nth_before : forall o l i x (cells : list val), o + l <= i -> window o l (set_nth i x cells) = window o l cells.
Proof.
  intros. unfold window. rewrite skipn_set_nth_ge by lia. apply firstn_set_nth_ge. lia.
Qed.

Theorem append_in_place_window : forall grow a off len cap x s r s',
  len < cap -> run (go_append grow (VArr a off len cap) [x]) s = Some (r, s') ->
  r = VArr a off (len + 1) cap /\
  exists cells, nth_error (hp s) a = Some (CArr cells) /\
    nth_error (hp s') a = Some (CArr (set_nth (off + len) x cells)) /\
    (forall b, b <> a -> nth_error (hp s') b = nth_error (hp s) b) /\
    (forall o l, o + l <= off + len -> window o l (set_nth (off + len) x cells) = window o l cells).
Proof.
  intros grow a off len cap x s r s' L E. unfold go_append in E. cbn [length Nat.eqb] in E.
  assert (len + 1 <=? cap = true) as F by (apply Nat.leb_le; lia). rewrite F in E.
  cbn [run] in E. destruct (nth_error (hp s) a) as [[cells|]|] eqn:Ea; try discriminate.
  cbn [run splice] in E. destruct (a <? length (hp s)) eqn:La; try discriminate. apply Nat.ltb_lt in La.
  cbn [run] in E. inversion E; subst; clear E. split; auto. exists cells. cbn [hp]. repeat split; auto.
  - apply nth_error_set_nth_same; auto.
  - intros b Hb. apply nth_error_set_nth_other; auto.
  - intros. apply window_set_nth_before; auto.
Qed.

(* 3. *)
Section Construct.
Variable grow : nat -> nat -> nat.

Lemma go_append_addr : forall v xs s r s',
  run (go_append grow v xs) s = Some (r, s') ->
  match v, r with
  | VArr a _ _ _, VArr a' _ _ _ => a' = a \/ length (hp s) <= a'
  | _, _ => False
  end.
Proof.
  intros v xs s r s' E. unfold go_append in E. destruct v; try discriminate.
  destruct (length xs =? 0). cbn in E; inversion E; subst; auto.
  destruct (len + length xs <=? cap).
  - cbn [run] in E. destruct (nth_error (hp s) a) as [[cells|]|]; try discriminate. cbn [run] in E.
    destruct (a <? length (hp s)); try discriminate. cbn [run] in E. inversion E; subst; auto.
  - rewrite run_bind in E. destruct (run (elems (VArr a off len cap)) s) as [[old s1]|] eqn:E1; try discriminate.
    apply elems_ro in E1; subst. cbn [run] in E. inversion E; subst. right; auto.
Qed.

Lemma arr_construct_from_addr : forall xs acc s r s' n0,
  n0 <= length (hp s) ->
  run (arr_construct_from grow acc xs) s = Some (r, s') ->
  match acc with
  | VArr a _ _ _ => match r with VArr a' _ _ _ => a' = a \/ n0 <= a' | _ => False end
  | _ => True
  end.
Proof.
  induction xs; intros acc s r s' n0 Hn E; cbn [arr_construct_from] in E.
  - cbn in E; inversion E; subst. destruct r; auto.
  - rewrite run_bind in E. destruct (run (op_append grow acc a) s) as [[acc' s1]|] eqn:E1; try discriminate.
    pose proof (go_append_addr _ _ _ _ _ E1) as H1.
    pose proof (fr_len _ _ (run_frame _ _ _ _ _ E1)) as L1.
    apply IHxs with (n0 := n0) in E; try lia.
    destruct acc; try tauto. destruct acc'; try tauto. destruct r; auto.
    destruct H1 as [H1|H1]; destruct E as [E|E]; subst; auto; right; try (eapply Nat.le_trans; [exact Hn|exact H1]); auto.
Qed.

(* the first append on the zero-capacity constant always reallocates *)
Lemma first_append_fresh : forall x s r s',
  run (op_append grow empty_arr x) s = Some (r, s') ->
  exists len cap, r = VArr (length (hp s)) 0 len cap /\ length (hp s) < length (hp s').
Proof.
  intros x s r s' E. unfold op_append, go_append, empty_arr in E. cbn in E. inversion E; subst.
  do 2 eexists. split; eauto. cbn. rewrite app_length. cbn. lia.
Qed.

Theorem arr_construct_fresh : forall xs h owned r s',
  run (arr_construct grow xs) (start h owned) = Some (r, s') ->
  safe s'
  /\ (forall x, x < length h -> ~ In x owned -> nth_error (hp s') x = nth_error h x)
  /\ (xs <> [] -> exists a off len cap, r = VArr a off len cap /\ length h <= a)
  /\ (xs = [] -> r = empty_arr).
Proof.
  intros xs h owned r s' E. split; [|split; [|split]].
  - eapply arr_construct_psafe; eauto. intros x [].
  - eapply safe_unchanged; eauto. eapply arr_construct_psafe; eauto. intros x [].
  - intros Hx. destruct xs as [|x xs]; [congruence|]. unfold arr_construct in E. cbn [arr_construct_from] in E.
    rewrite run_bind in E. destruct (run (op_append grow empty_arr x) (start h owned)) as [[acc s1]|] eqn:E1; try discriminate.
    apply first_append_fresh in E1. destruct E1 as (len & cap & Ea & L1). subst acc. cbn [hp start] in *.
    apply arr_construct_from_addr with (n0 := length h) in E; try lia.
    destruct r; try tauto. do 4 eexists. split; eauto. unfold addr in *. destruct E; subst; lia.
  - intros ->. cbn in E. inversion E; auto.
Qed.

End Construct.

(* ---- the constructed array holds exactly the appended values, in order ---- *)
Lemma firstn_set_nth_snoc : forall (l : list val) len x, len < length l ->
  firstn (len + 1) (set_nth len x l) = firstn len l ++ [x].
Proof.
  induction l as [|y l IH]; intros len x H; cbn in H; try lia.
  destruct len; cbn [set_nth firstn Nat.add app]. auto. f_equal. apply IH. lia.
Qed.
Lemma window_snoc : forall off len x (cells : list val), off + len < length cells ->
  window off (len + 1) (set_nth (off + len) x cells) = window off len cells ++ [x].
Proof.
  intros. unfold window. rewrite skipn_set_nth_ge by lia. replace (off + len - off) with len by lia.
  apply firstn_set_nth_snoc. rewrite skipn_length. lia.
Qed.
Lemma firstn_app_exact : forall (a b : list val) n, length a = n -> firstn n (a ++ b) = a.
Proof. intros. subst. rewrite firstn_app, Nat.sub_diag, firstn_all. cbn. apply app_nil_r. Qed.

Lemma firstn_snoc_exact : forall (ys : list val) x r, firstn (length ys + 1) (ys ++ x :: r) = ys ++ [x].
Proof. induction ys; intros; cbn; auto. f_equal. apply IHys. Qed.

Definition holds (s : st) (acc : val) (ys : list val) : Prop :=
  exists a off len cap, acc = VArr a off len cap /\ length ys = len /\
    ((cap = 0 /\ len = 0) \/
     (exists cells, nth_error (hp s) a = Some (CArr cells) /\ window off len cells = ys /\
                    off + cap <= length cells /\ len <= cap)).

Section Value.
Variable grow : nat -> nat -> nat.

Lemma op_append_holds : forall acc ys x s acc' s',
  holds s acc ys -> run (op_append grow acc x) s = Some (acc', s') -> holds s' acc' (ys ++ [x]).
Proof.
  intros acc ys x s acc' s' (a & off & len & cap & -> & Hl & H) E.
  unfold op_append, go_append in E. cbn [length Nat.eqb] in E.
  destruct (len + 1 <=? cap) eqn:Fit.
  - apply Nat.leb_le in Fit. destruct H as [[H0 _]|(cells & Ea & Hw & Hc & Hle)]; [lia|].
    cbn [run] in E. rewrite Ea in E. cbn [run splice] in E.
    destruct (a <? length (hp s)) eqn:La; try discriminate. apply Nat.ltb_lt in La.
    cbn [run] in E. inversion E; subst; clear E.
    exists a, off, (length ys + 1), cap. split; auto. split. rewrite app_length; cbn; lia.
    right. exists (set_nth (off + length ys) x cells). cbn [hp].
    split. apply nth_error_set_nth_same; auto.
    split. rewrite window_snoc by lia. rewrite Hw. reflexivity.
    split. rewrite set_nth_length; auto. lia.
  - apply Nat.leb_gt in Fit. rewrite run_bind in E.
    assert (run (elems (VArr a off len cap)) s = Some (ys, s)) as Eel.
    { unfold elems. destruct (len =? 0) eqn:L0.
      - apply Nat.eqb_eq in L0. subst len. destruct ys; [reflexivity|discriminate].
      - apply Nat.eqb_neq in L0. destruct H as [[_ H0]|(cells & Ea & Hw & Hc & Hle)]; [lia|].
        cbn [run]. rewrite Ea. cbn [run]. rewrite Hw. reflexivity. }
    rewrite Eel in E. cbn [run] in E. inversion E; subst; clear E.
    set (c' := Nat.max (grow cap (length ys + 1)) (length ys + 1)).
    exists (length (hp s)), 0, (length ys + 1), c'. split; auto. split. rewrite app_length; cbn; lia.
    right. eexists. cbn [hp]. split. rewrite nth_error_app2 by lia. rewrite Nat.sub_diag. reflexivity.
    split. unfold window. cbn [skipn]. apply firstn_snoc_exact.
    split. rewrite app_length. cbn [length]. rewrite repeat_length. unfold c'. lia. unfold c'. lia.
Qed.

Lemma arr_construct_from_holds : forall xs acc ys s r s',
  holds s acc ys -> run (arr_construct_from grow acc xs) s = Some (r, s') -> holds s' r (ys ++ xs).
Proof.
  induction xs; intros acc ys s r s' H E; cbn [arr_construct_from] in E.
  - cbn in E; inversion E; subst. rewrite app_nil_r; auto.
  - rewrite run_bind in E. destruct (run (op_append grow acc a) s) as [[acc' s1]|] eqn:E1; try discriminate.
    eapply op_append_holds in E1; eauto. apply IHxs with (ys := ys ++ [a]) in E; auto.
    rewrite <- app_assoc in E. exact E.
Qed.

(* `[q]` yields exactly the outputs of q, in order *)
Theorem arr_construct_value : forall xs s r s',
  run (arr_construct grow xs) s = Some (r, s') -> run (elems r) s' = Some (xs, s').
Proof.
  intros xs s r s' E. apply arr_construct_from_holds with (ys := []) in E.
  2:{ exists 0, 0, 0, 0. cbn. auto. }
  cbn [app] in E. destruct E as (a & off & len & cap & -> & Hl & H). unfold elems.
  destruct (len =? 0) eqn:L0.
  - apply Nat.eqb_eq in L0. subst. destruct xs; [reflexivity|discriminate].
  - apply Nat.eqb_neq in L0. destruct H as [[_ H0]|(cells & Ea & Hw & _)]; [lia|].
    cbn [run]. rewrite Ea. cbn [run]. rewrite Hw. reflexivity.
Qed.
End Value.
